#!/bin/bash
# usage: tools/confirm_seed.sh <worktree> <seeddir>   - confirms: suite passes with the change, demo fails with it and passes without
wt="$1"; sd="$2"
cd "$wt" || exit 2
export CARGO_TARGET_DIR="$wt/target"
git diff --quiet && { echo "worktree has no change applied"; git apply "$sd/patch.diff" || exit 2; }
rm -f tests/seed_demo.rs
suite=$(cargo test --workspace --no-fail-fast --offline 2>&1 | grep -E "^test result" | tr '\n' ' ')
echo "suite with change: $suite"
cp "$sd/demo.rs" tests/seed_demo.rs
with=$(cargo test --offline --test seed_demo 2>&1 | grep -E "^test result" | tr '\n' ' ')
echo "demo with change:  $with"
git stash -q
without=$(cargo test --offline --test seed_demo 2>&1 | grep -E "^test result" | tr '\n' ' ')
echo "demo clean:        $without"
git stash pop -q
rm -f tests/seed_demo.rs
