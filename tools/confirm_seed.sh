#!/bin/bash
# usage: tools/confirm_seed.sh <worktree> <seeddir>
# confirms: existing suite passes with the change; demo fails with it and passes without (no git stash: it is shared between worktrees)
wt="$1"; sd="$2"
cd "$wt" || exit 2
export CARGO_TARGET_DIR="$wt/target"
git checkout -q -- . ; rm -f tests/seed_demo.rs
git apply "$sd/patch.diff" || { echo "patch does not apply"; exit 2; }
suite=$(cargo test --workspace --no-fail-fast --offline 2>&1 | grep -E "^test result" | sed 's/finished in [0-9.]*s//' | tr '\n' ' ')
echo "suite with change: $suite"
cp "$sd/demo.rs" tests/seed_demo.rs
with=$(timeout 600 cargo test --offline --test seed_demo 2>&1 | grep -E "^test result|SIGABRT|signal|overflowed" | sed 's/finished in [0-9.]*s//' | tr '\n' ' ')
echo "demo with change:  $with"
git apply -R "$sd/patch.diff"
without=$(timeout 600 cargo test --offline --test seed_demo 2>&1 | grep -E "^test result|SIGABRT|signal|overflowed" | sed 's/finished in [0-9.]*s//' | tr '\n' ' ')
echo "demo clean:        $without"
rm -f tests/seed_demo.rs
git apply "$sd/patch.diff"
