#!/bin/bash
# usage: tools/coverage.sh [tier]   - which lines of /repo/src the correspondence runs of all 16 checks execute.
# Builds an instrumented copy of the harness with the nightly toolchain (its llvm-tools match its rustc), runs every
# generator of the given tier (default quick) and writes coverage/coverage_<tier>.json + .cache/cov/uncovered.txt.
# A measurement of generator reach (where a change could hide from the correspondence run), not a check.
set -e
cd "$(dirname "$0")/.."
TIER=${1:-quick}
TD=$PWD/.cache/cov
NB=$HOME/.rustup/toolchains/nightly-x86_64-unknown-linux-gnu/lib/rustlib/x86_64-unknown-linux-gnu/bin
mkdir -p $TD/prof; rm -f $TD/prof/*.profraw
( cd harness && CARGO_NET_OFFLINE=true RUSTFLAGS="-C instrument-coverage --cfg sdjwt_verif" CARGO_TARGET_DIR=$TD/target cargo +nightly build --offline 2>&1 | tail -2 )
BIN=$TD/target/debug/sdjwt-verif-harness
for pid in C01 C02 C03 C04 C05 C06 C07 C08 C09 C10 C11 C12 C13 C14 C15 C16; do
  for sh in $(seq 0 15); do
    ( ulimit -s unlimited 2>/dev/null; LLVM_PROFILE_FILE="$TD/prof/$pid-$sh-%p.profraw" timeout 900 $BIN gen $pid $TIER 1 $sh 16 > /dev/null 2>&1 ) &
  done
  wait
done
$NB/llvm-profdata merge -sparse $TD/prof/*.profraw -o $TD/cov.profdata
$NB/llvm-cov export -format=lcov $BIN -instr-profile=$TD/cov.profdata -ignore-filename-regex='(\.cargo|rustc|/verif/)' > $TD/cov.lcov
python3 - "$TD/cov.lcov" "$TIER" <<'PY'
import sys, json, re, os
lcov, tier = sys.argv[1], sys.argv[2]
files = {}; cur = None
for l in open(lcov):
    l = l.strip()
    if l.startswith("SF:"): cur = l[3:]; files[cur] = {}
    elif l.startswith("DA:") and cur:
        n, c = l[3:].split(",")[:2]; files[cur][int(n)] = int(c)
out = {"tier": tier, "files": {}, "note": "lines of /repo/src executed by the correspondence runs (all 16 generators); #[cfg(test)] modules and wasm32 code are not compiled into the harness"}
unc = []
tot = cov = 0
for f in sorted(files):
    if not f.startswith("/repo/src"): continue
    src = open(f).read().split("\n")
    # ignore #[cfg(test)] modules: from the attribute line to the end of file (they are last in every file of this crate)
    cut = next((i + 1 for i, t in enumerate(src) if t.strip() == "#[cfg(test)]" and i + 1 < len(src) and "mod " in src[i + 1]), 10**9)
    lines = {n: c for n, c in files[f].items() if n < cut}
    t = len(lines); c = sum(1 for v in lines.values() if v > 0)
    tot += t; cov += c
    miss = sorted(n for n, v in lines.items() if v == 0)
    out["files"][f] = {"instrumented_lines": t, "executed": c, "not_executed": miss}
    for n in miss: unc.append("%s:%d: %s" % (f, n, src[n - 1].strip()[:110]))
out["instrumented_lines"] = tot; out["executed"] = cov
os.makedirs("coverage", exist_ok=True)
json.dump(out, open("coverage/coverage_%s.json" % tier, "w"), indent=1)
open(os.path.join(os.path.dirname(lcov), "uncovered.txt"), "w").write("\n".join(unc) + "\n")
print("coverage of /repo/src by the correspondence runs (%s tier): %d of %d instrumented lines" % (tier, cov, tot))
for f, d in out["files"].items(): print("  %-40s %4d / %4d" % (f, d["executed"], d["instrumented_lines"]))
PY
