#!/bin/bash
# usage: tools/sweep_seeds.sh [seed-dir-glob]   - every seeded change against the quick check of its property (on /repo, restored afterwards)
cd /verif
for d in ${1:-seeded/S*}; do
  s=$(basename $d); id=${s#*_}
  if ! git -C /repo apply --check /verif/$d/patch.diff 2>/dev/null; then echo "$s: PATCH-DOES-NOT-APPLY"; continue; fi
  out=$(tools/try_seed.sh /verif/$d/patch.diff $id 2>&1)
  if echo "$out" | grep -q "^VIOLATION property=$id replay=.*no-failing-input-found"; then echo "$s: caught-without-input"
  elif echo "$out" | grep -q "^VIOLATION property=$id"; then echo "$s: caught $(echo "$out" | grep -m1 'first replay' | cut -c1-150)"
  else echo "$s: MISSED $(echo "$out" | grep -m1 ' tier=' | cut -c1-120)"; fi
done
