#!/usr/bin/env python3
"""Regenerates MANIFEST.json from the per-property table below (level texts live here)."""
import json, os, sys
ROOT = os.path.dirname(os.path.dirname(os.path.abspath(__file__)))
sys.path.insert(0, os.path.join(ROOT, "lib"))
import propcfg

LEVEL = {
 "C01": ("Machine-checked theorems over the final Gallina models. (1) Entry points: Issuer::encode (disclosure fold on string paths with random insertion positions, decoys when requested, shuffle of the top-level digest list, _sd_alg, cnf, signing, '~' serialisation) followed by Holder::verify (split, JWT decode, _sd_alg check, complete restore_disclosures with pass loop, duplicate and structure checks, removal of bookkeeping): for every claims object, every non-empty path list on which marking succeeds, distinct salts, any positions, fresh distinct decoys, any shuffle permutation, with or without holder key, encode succeeds and Holder::verify returns the issuer's header and exactly the original claims (+cnf), and the reported path list is a permutation of the issuer's disclosures in which the i-th disclosure carries the rendered address of the i-th issuer path (C01_encode_then_holder_verify_paths; NodePath tracked through marking, root post-processing and every restore pass). (2) Every valid marking (paths resolve, descendants before ancestors, no repeats) is accepted (C14_valid_marking_accepted). (3) The same round trip for the fold + restore alone on arbitrary (non-object) claims. Tied to /repo by a differential run in which the model must reproduce the library's token exactly from the read-back random choices and agree with Holder::verify, with the oracle claims == original (+cnf) and paths == marked paths.",
         "premises: injective hash, decode inverts encode, '~'-free base64url/JWT, the JWT layer returns what was signed (idealised primitives, stated as hypotheses, no axioms)"),
 "C02": ("Machine-checked theorems about the Gallina model of Holder::redact/build: redacting a non-disclosable path changes nothing, the result depends on the set of redactions only, every disclosure that is neither redacted nor below a redacted disclosable claim is presented; tied to /repo by a differential run (library- and reference-issued tokens, bound and unbound) in which the model must reproduce the presentation string and the verifier's claims must equal the original minus the withheld claims.",
         "partial: the end-to-end equation verifier(build(redact R)) = project is exercised by the correspondence run; the theorems are about the holder's selection; composition with the restore theorems (C03) is pending"),
 "C04": ("Machine-checked exact characterisation (iff) of when the Gallina model of decode accepts (parse, configured algorithm, key family table, signature oracle, object payload, claim checks), the corollary that under an ideal signature oracle only the exact issued token, the configured algorithm and a key of the right family are accepted, and that holder and verifier fail whenever the first segment does not decode; tied to /repo by a differential run over all 13 algorithms with per-position mutations, the full key x algorithm matrix and algorithm-confusion tokens.",
         "partial: unforgeability is a computational assumption about RustCrypto and enters as the ideal_sig premise; jwt_rustcrypto::decode is modelled, not verified"),
 "C05": ("Machine-checked exact characterisation (iff) of when the Gallina model of Verifier::verify_raw and verify_kb accepts, for all tokens, oracles and policies, with the property's rejections as corollaries; tied to /repo by a differential run over harness-crafted presentations with exactly one key-binding defect of 28 kinds (or none).",
         "partial: signature and policy checking of the KB-JWT inside jwt-rustcrypto is the o_kb oracle, filled from an independent RSA verification"),
 "C06": ("Machine-checked theorems that the holder model never selects the disclosure of a redacted disclosable claim nor of any claim below it, for every holder state and redaction list; tied to /repo by a differential run with unique sentinels in every marked name and scalar value, searching the decoded bytes of the issuer JWT and of every presentation.",
         "partial: 'no byte' is checked at the level of the decoded JSON texts; the issuer-side atom theorem is pending the port of the issuer fold proofs"),
 "C07": ("Machine-checked theorems that a built disclosure decodes back to its name and value with digest = hash of its string, and that the serialised token splits into JWT, exactly the disclosures and no KB-JWT; the conformance judgement itself is executed by an independent reference verifier written in Gallina (RefVerify.v, the specification's top-down algorithm, sharing no code with the model of the library's restorer) on independently decoded library output, for every sub-list of disclosures.",
         "partial: 'reference verifier on issuer output = projection' is established per run on the generated tokens (all sub-lists up to 2^6/2^8), not yet as a theorem"),
 "C08": ("Machine-checked theorem over every conformant token (any well-formed annotated tree: any digest function, decoys anywhere, recursive disclosures) and every duplicate-free decodable list in any order that the complete restore_disclosures accepts and returns the view of the presented set, plus the lemma that the digest algorithm is the one named by _sd_alg; tied to /repo by a differential run on tokens from an independent reference issuer with three-way agreement between library, extracted model and independent reference verifier (RefVerify.v).",
         "the holder flow on foreign tokens is carried by the correspondence run; premises hash_inj, dec_enc"),
 "C09": ("Machine-checked shape theorem for the model of Holder::build with key binding (prefix ++ KB-JWT over {alg, typ: kb+jwt} and {aud, iat, nonce, sd_hash = hash of exactly the prefix under _sd_alg}) and repeatability; tied to /repo by a differential run with 6 RSA algorithms, 3 digest algorithms, repeated builds, independent recomputation of sd_hash and independent RSA signature verification.",
         "partial: freshness of the nonce and correctness of the clock are properties of thread_rng/chrono (oracles); the run checks distinctness and the iat window only"),
 "C03": ("Machine-checked theorem over all annotated trees (any shape, marking, decoys, nesting up to the depth limit) and all duplicate-free lists of presented strings in any order: the COMPLETE restore_disclosures of the model (decode all, passes until no progress, duplicate and structure checks) rejects or returns exactly the view determined by the set of presented disclosures, accepts when every string decodes, and stripping a view is the property's projection; tied to /repo by a differential run of Holder::verify, Verifier::verify and Holder::presentation against the extracted model on reference-issued tokens with adversarial lists.",
         "lists with repetitions are covered by the correspondence run only (theorem premise NoDup L); premises hash_inj and dec_enc idealise SHA-2 collision resistance and base64/JSON round-tripping"),
 "C15": ("Machine-checked theorem that the tag-collection walk reports nothing for untagged nodes and leaves an untagged tree unchanged (for every YAML value tree); tied to /repo by a differential run over generated YAML documents (all tag placements the property names) in which the Gallina model of the walk and of the YAML->JSON conversion runs on the very value tree serde_yaml builds from the text, with the oracle claims == C, set(paths) == M, nested-before-enclosing order, and the end-to-end issue/verify round trip.",
         "partial: the theorem 'every tagged node is reported exactly once, descendants first' is carried by the correspondence run and oracle so far; YAML text -> tree is serde_yaml (oracle)"),
 "C16": ("Machine-checked theorem that the translated header's JSON has each set field under the member of the same meaning, no member for unset fields and no other member, for every header value; tied to /repo by a differential run over all 2^9 subsets of optional fields with five value classes and all 13 algorithms through Issuer::header/encode, decode, Holder::verify and Verifier::verify, in which the model's build_header must print the header the token carries.",
         "partial: serde serialisation and base64/JSON printing of the header are oracles"),
 "C13": ("Machine-checked structure theorems over the issuer model: each disclosure consumes exactly its own salt draw, distinct draws give pairwise distinct disclosure strings and digests (also for identical claims), a new digest enters its list at the drawn position, decoys are exactly the drawn decoy digests appended to the top-level list, which is then permuted by the shuffle draw; tied to /repo by replaying real tokens from read-back draws and by the long issuance history the property describes (statistical support for the premises).",
         "partial: that thread_rng draws are distinct, unpredictable and uniform is runtime behaviour no Gallina model exhibits; the history run is support, not proof"),
 "C14": ("Machine-checked theorems about the Gallina model of Issuer::encode: it never panics for any claims object, any path strings, any decoy maximum and any random draws; an unresolvable path of each kind is an error at its step, and an error at any position of the list fails the whole call; every marking whose paths resolve in the claims and are listed descendants-before-ancestors without repeats (also only-nested and only-array ones) is accepted by the fold, and encode then succeeds and round-trips (C14_valid_marking_accepted / _issues, by an invariant over the annotated tree: marking one node keeps every path resolvable that does not lead to or through it). Tied to /repo by a differential run in which the model must reproduce the produced token exactly from the read-back random choices, over valid markings (also only-nested ones), invalid path lists, decoy maxima in [-3,50] and repeated encode() calls.",
         "partial: repeatability (k encode() calls on one Issuer) and the exp clock are carried by the correspondence run (clock and RNG are oracles of the model); the round-trip half of 'valid => Ok' carries C01's premises (fresh decoys, depth <= 128)"),
 "C10": ("Machine-checked totality theorems (never Panic, for every string) about a Gallina model of the splitters that mirrors each Rust slice/index operation with a checked primitive; the model is tied to /repo by an exhaustive differential run over all strings on {a . ~} up to a length bound. Proof is the right level because panic-freedom is a universal statement over strings.",
         "partial: panics, aborts and non-termination inside serde_json, base64, jwt-rustcrypto and stack exhaustion are runtime behaviour of code the model treats as oracles"),
 "C11": ("Machine-checked theorems over the Gallina model of Validation: each builder step changes only the setting it names and sets it to its argument (all policies, all arguments), steps naming different settings commute, build_validation forwards every setting, and validate accepts iff every configured constraint holds (exp/nbf with leeway, aud string/array, iss, sub, required claims); tied to /repo by an exhaustive run over every transition of the builder closure and single-violation tokens for sampled/all reachable policies.",
         "partial: jwt_rustcrypto::validate lives in a dependency: modelled, validated by the correspondence run; time values that overflow u64 are excluded (known finding KF-1)"),
 "C12": ("Machine-checked rejection lemmas for each rule at the function that implements it (disclosure decoding, object step, structure check, _sd_alg parsing), for all inputs; tied to /repo by a differential run over reference-issued tokens with one seeded defect of 23 kinds at any nesting level and their defect-free twins.",
         "partial: the whole-tree statement 'a defect at any depth rejects' is exercised by the correspondence run; the theorems are per step"),
}

def main():
    claimed = sorted(p for p in propcfg.PROPS if p in LEVEL)
    checks = []
    for pid in claimed:
        text, partial = LEVEL[pid]
        checks.append({
            "property_id": pid,
            "quick_cmd": "./check %s --tier quick" % pid,
            "thorough_cmd": "./check %s --tier thorough" % pid,
            "evidence_file": "/verif/evidence/%s.json" % pid,
            "replay_cmd_template": "./check %s --replay {path}" % pid,
            "engine": "coq-model+correspondence",
            "level_claimed": {"category": "proof", "text": text, "design_ref": "DESIGN.md section 7 (%s)" % pid},
            "level_note": partial + ". Trusted: Coq 8.16.1 kernel, no axioms; extraction (ExtrOcamlBasic, ExtrOcamlString) cross-checked by vm_compute on a sample each run; Rust harness, OCaml line driver and Python driver; the hand-written model is tied to the code only by the differential correspondence run. External crates are oracles (modelled, not verified).",
            "technique": "Rocq (Coq) proof about a hand-written Gallina model + differential correspondence check against /repo (extracted model vs Rust)",
        })
    na = [{"property_id": "C%02d" % i,
           "reason": "check under construction in this round; will be claimed once its model, theorems and correspondence run are committed (DESIGN.md section 11)"}
          for i in range(1, 17) if "C%02d" % i not in claimed]
    m = {"version": 1,
         "setup_cmd": "./setup.sh",
         "hooks": {"guard": "sdjwt_verif",
                   "enable": "RUSTFLAGS=\"--cfg sdjwt_verif\" (set by ./check when it builds the harness against /repo); no hook is needed so far: everything is observed through the public API",
                   "baseline_off_cmd": "cd /repo && cargo test --workspace --no-fail-fast --offline",
                   "source_commits": [], "add_only": True},
         "engines": [{"name": "coq-model+correspondence", "path": "/verif/check", "serves_properties": claimed,
                      "kind_free_text": "Coq 8.16.1 development (coq/theories model+proofs, coq/props one file of theorem statements per property), extracted to OCaml and run against the Rust implementation on generated cases by harness/ (Rust) and ocaml/driver.ml"}],
         "checks": checks,
         "not_applicable": na,
         "notes": "fix: commits in /repo are recorded in known_findings.json with the replay that exposed them (findings/)."}
    json.dump(m, open(os.path.join(ROOT, "MANIFEST.json"), "w"), indent=1)
    print("claimed:", claimed)

main()
