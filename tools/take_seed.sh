#!/bin/bash
# usage: tools/take_seed.sh <Snn> <Cxx> <worktree>   - copies an author's SEED/ into seeded/, confirms it
n="$1"; p="$2"; wt="$3"
d=/verif/seeded/${n}_${p}
mkdir -p "$d"
cp "$wt/SEED/patch.diff" "$wt/SEED/demo.rs" "$d/" && cp "$wt/SEED/notes.md" "$d/notes_from_author.md"
/verif/tools/confirm_seed.sh "$wt" "$d" 2>&1 | tail -3
