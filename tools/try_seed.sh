#!/bin/bash
# usage: tools/try_seed.sh <patch.diff> <ID> [<ID>...]   - applies the patch to /repo, runs the quick checks, restores /repo
set -u
patch="$1"; shift
cd /verif
git -C /repo diff --quiet || { echo "/repo has local modifications; refusing"; exit 2; }
git -C /repo apply "$patch" || { echo "patch does not apply"; exit 2; }
for id in "$@"; do
  out=$(./check "$id" 2>&1)
  echo "$out" | grep -E "^(C[0-9]+ tier|VIOLATION|KNOWN-FINDING)" | cut -c1-260
  for f in replay/${id}_fail1.json replay/${id}_broken.json; do
    [ -f "$f" ] && python3 - "$f" <<'PY'
import json,sys
d=json.load(open(sys.argv[1]))
if 'verdict' in d: print("   first replay:", d['verdict'][:200], "| tag:", (d.get('input') or {}).get('tag'))
else:
    for b in d.get('no_longer_checks',[]): print("   broken:", b.get('what'), str(b.get('verdict'))[:150], b.get('disagreeing_cases'))
PY
  done
done
git -C /repo checkout -- .
git -C /repo status --short | head -3
