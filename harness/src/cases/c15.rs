//! C15: YAML claims with !sd tags mean the same as JSON claims plus those paths.
use super::common::*;
use super::*;
use crate::gen::{self, Tok, TPath};
use crate::rng::Rng;
use crate::Emitter;
use sdjwt::{Holder, KeyForDecoding, KeyForEncoding};

fn marked(marks: &[TPath], p: &TPath) -> bool {
    marks.iter().any(|m| m == p)
}

fn scalar_text(v: &Value) -> String {
    // JSON scalars are valid YAML flow scalars; strings are double-quoted (JSON escapes are YAML escapes)
    serde_json::to_string(v).unwrap()
}

fn is_inline(v: &Value) -> bool {
    match v {
        Value::Array(a) => a.is_empty(),
        Value::Object(m) => m.is_empty(),
        _ => true,
    }
}
fn inline_text(v: &Value) -> String {
    match v {
        Value::Array(_) => "[]".to_string(),
        Value::Object(_) => "{}".to_string(),
        _ => scalar_text(v),
    }
}

/// block-style YAML; `flow` switches a subtree to flow style
fn emit(v: &Value, cur: &mut TPath, marks: &[TPath], indent: usize, r: &mut Rng, out: &mut String) {
    let pad = " ".repeat(indent);
    match v {
        Value::Object(m) => {
            for (k, c) in m {
                cur.push(Tok::Key(k.clone()));
                let tag = if marked(marks, cur) { "!sd " } else { "" };
                let key = serde_json::to_string(k).unwrap();
                if is_inline(c) {
                    out.push_str(&format!("{}{}{}: {}\n", pad, tag, key, inline_text(c)));
                } else if r.chance(1, 5) && flow_ok(c, cur, marks) {
                    out.push_str(&format!("{}{}{}: {}\n", pad, tag, key, flow(c, cur, marks)));
                } else {
                    out.push_str(&format!("{}{}{}:\n", pad, tag, key));
                    emit(c, cur, marks, indent + 2, r, out);
                }
                cur.pop();
            }
        }
        Value::Array(a) => {
            for (i, c) in a.iter().enumerate() {
                cur.push(Tok::Idx(i));
                let tag = if marked(marks, cur) { "!sd " } else { "" };
                if is_inline(c) {
                    out.push_str(&format!("{}- {}{}\n", pad, tag, inline_text(c)));
                } else if r.chance(1, 5) && flow_ok(c, cur, marks) {
                    out.push_str(&format!("{}- {}\n", pad, flow(c, cur, marks)));
                } else {
                    out.push_str(&format!("{}-\n", pad));
                    emit(c, cur, marks, indent + 2, r, out);
                }
                cur.pop();
            }
        }
        _ => {}
    }
}

fn flow_ok(_v: &Value, _cur: &TPath, _marks: &[TPath]) -> bool {
    true
}

fn flow(v: &Value, cur: &mut TPath, marks: &[TPath]) -> String {
    match v {
        Value::Object(m) => {
            let items: Vec<String> = m
                .iter()
                .map(|(k, c)| {
                    cur.push(Tok::Key(k.clone()));
                    let tag = if marked(marks, cur) { "!sd " } else { "" };
                    let s = format!("{}{}: {}", tag, serde_json::to_string(k).unwrap(), flow(c, cur, marks));
                    cur.pop();
                    s
                })
                .collect();
            format!("{{{}}}", items.join(", "))
        }
        Value::Array(a) => {
            let items: Vec<String> = a
                .iter()
                .enumerate()
                .map(|(i, c)| {
                    cur.push(Tok::Idx(i));
                    let tag = if marked(marks, cur) { "!sd " } else { "" };
                    let s = format!("{}{}", tag, flow(c, cur, marks));
                    cur.pop();
                    s
                })
                .collect();
            format!("[{}]", items.join(", "))
        }
        _ => scalar_text(v),
    }
}

pub fn to_yaml(claims: &Value, marks: &[TPath], r: &mut Rng) -> String {
    if claims.as_object().map_or(true, |m| m.is_empty()) {
        return "{}\n".to_string();
    }
    let mut out = String::new();
    emit(claims, &mut vec![], marks, 0, r, &mut out);
    out
}

fn tree_json(v: &serde_yaml::Value) -> Value {
    use serde_yaml::Value as Y;
    match v {
        Y::Null => json!({"t": "null"}),
        Y::Bool(b) => json!({"t": "bool", "v": b}),
        Y::Number(n) => json!({"t": "num", "v": serde_json::to_value(n).unwrap_or(Value::Null)}),
        Y::String(s) => json!({"t": "str", "v": s}),
        Y::Sequence(a) => json!({"t": "seq", "v": a.iter().map(tree_json).collect::<Vec<_>>()}),
        Y::Mapping(m) => json!({"t": "map", "v": m.iter().map(|(k, x)| json!([tree_json(k), tree_json(x)])).collect::<Vec<_>>()}),
        Y::Tagged(t) => json!({"t": "tag", "tag": t.tag.to_string(), "v": tree_json(&t.value)}),
    }
}

pub fn exec_yaml(input: &Value) -> Value {
    let doc = input["doc"].as_str().unwrap_or("");
    // the boundary the library sees: the value tree serde_yaml builds from this very text
    let tree = serde_yaml::from_str::<serde_yaml::Value>(doc).map(|t| tree_json(&t)).unwrap_or(Value::Null);
    let parse = outcome(|| sdjwt::parse_yaml(doc), |(j, ps)| json!([j, ps]));
    let roundtrip = if parse["o"] == "ok" && input["expect_ok"] == true {
        outcome(
            || -> Result<Value, sdjwt::Error> {
                let (claims, paths) = sdjwt::parse_yaml(doc)?;
                let mut iss = sdjwt::Issuer::new(claims)?;
                iss.iter_disclosable(paths.iter()).header(sdjwt::Header::new(sdjwt::Algorithm::HS256));
                let token = iss.encode(&KeyForEncoding::from_secret(SECRET))?;
                let (_, c, _) = Holder::verify(&token, &KeyForDecoding::from_secret(SECRET), &hs_validation())?;
                Ok(c)
            },
            |c| c,
        )
    } else {
        Value::Null
    };
    json!({"parse": parse, "tree": tree, "roundtrip": roundtrip})
}

const LONG_SEQUENCE_AFFORDABLE: bool = true;

pub fn generate(thorough: bool, seed: u64, em: &mut Emitter) {
    let mut r = Rng::new(seed ^ 0xC15);
    let n = if thorough { 30_000 } else { 2_000 };
    for _ in 0..n {
        let mut rc = r.fork();
        let r = &mut rc;
        let depth = 2 + r.below(3) as u32;
        let claims = gen::gen_object(r, depth, 3, 1);
        // tags: mapping keys anywhere; sequence items only when they are strings
        let marks: Vec<TPath> = gen::gen_marking(r, &claims, false)
            .into_iter()
            .filter(|m| match m.last() {
                Some(Tok::Idx(_)) => gen::resolve(&claims, m).map_or(false, |v| v.is_string()),
                _ => true,
            })
            .collect();
        let mut doc = to_yaml(&claims, &marks, r);
        // the tag !sd need not be spelled "!sd" in the text: a %TAG handle, a redefined primary handle or a URI escape
        // name the same tag, and parse_yaml sees the resolved tag
        let mut respelled = false;
        if !marks.is_empty() && r.chance(1, 6) && !doc.starts_with("---") && !doc.starts_with('%') {
            respelled = true;
            doc = match r.below(3) {
                0 => format!("%TAG !x! !s\n---\n{}", doc.replace("!sd ", "!x!d ")),
                1 => format!("%TAG ! !s\n---\n{}", doc.replace("!sd ", "!d ")),
                _ => doc.replace("!sd ", "!s%64 "),
            };
        }
        let paths: Vec<String> = marks.iter().map(gen::render).collect();
        em.case("yaml", json!({"doc": doc, "claims": claims, "paths": paths, "expect_ok": true,
                               "tag": if respelled { json!("tag_spelled_differently") } else { Value::Null },
                               "nontrivial": marks.iter().any(|m| m.len() > 1) || marks.iter().any(|m| marks.iter().any(|q| q != m && gen::is_prefix(m, q)))}));
    }
    for (len, tagged) in [(1_100usize, vec![9usize, 10, 99, 100, 255, 256, 999, 1_000, 1_099]), (66_000, vec![255, 256, 9_999, 10_000, 32_767, 32_768, 65_535, 65_536, 65_537, 65_999])] {
        if len > 2_000 && !LONG_SEQUENCE_AFFORDABLE {
            continue;
        }
        let mut doc = String::from("id: 1\nlist:\n");
        let mut items = Vec::with_capacity(len);
        for i in 0..len {
            let text = format!("v{}", i % 7);
            doc.push_str(if tagged.contains(&i) { "  - !sd " } else { "  - " });
            doc.push_str(&text);
            doc.push('\n');
            items.push(json!(text));
        }
        let paths: Vec<String> = tagged.iter().map(|i| format!("/list/{}", i)).collect();
        em.case("yaml", json!({"doc": doc, "claims": {"id": 1, "list": items}, "paths": paths, "expect_ok": true, "nontrivial": true, "tag": "long_sequence"}));
    }
    // tags where the library does not support them (on a value, foreign tags, !sd on a non-string item): it may
    // refuse the document, but when it answers, the claims must be the document without its tags - a tag must
    // never turn into data
    let names = ["name", "a", "x y", "0"];
    let scalars: [(&str, Value); 4] = [("John", json!("John")), ("42", json!(42)), ("true", json!(true)), ("\"q\"", json!("q"))];
    for (i, k) in names.iter().enumerate() {
        for (text, val) in scalars.iter() {
            let key = if k.contains(' ') || *k == "0" { format!("\"{}\"", k) } else { k.to_string() };
            let docs: Vec<(String, Value)> = vec![
                (format!("{}: !sd {}\nother: 1\n", key, text), json!({*k: val, "other": 1})),
                (format!("{}: !country {}\n", key, text), json!({*k: val})),
                (format!("{}:\n  - !country {}\n  - plain\n", key, text), json!({*k: [val, "plain"]})),
                (format!("{}: !set [!sd {}, PL]\n", key, text), json!({*k: [val, "PL"]})),
                (format!("{}: !rec {{inner: {}}}\n", key, text), json!({*k: {"inner": val}})),
                (format!("!other {}: {}\n", key, text), json!({*k: val})),
                (format!("{}:\n  - !sd {}\n", key, text), json!({*k: [val]})),
            ];
            for (j, (doc, claims)) in docs.into_iter().enumerate() {
                em.case("yaml", json!({"doc": doc, "claims": claims, "paths": [], "expect_ok": "if_ok_then_untagged",
                                       "nontrivial": true, "tag": "unsupported_tag_position", "variant": i * 10 + j}));
            }
        }
    }
    // mapping keys that are scalars but not strings (numbers, booleans, null): the JSON claims name the member by the
    // key's text, and a tag below such a key is a tagged node like any other
    let keys: [(&str, &str); 8] = [("1", "1"), ("7", "7"), ("true", "true"), ("false", "false"), ("null", "null"), ("1.5", "1.5"), ("0x1F", "31"), ("-3", "-3")];
    for (ktext, kname) in keys.iter() {
        let docs: Vec<(String, Value, Vec<String>)> = vec![
            (format!("sub: x\n{}:\n  !sd a: b\n  c: d\n", ktext), json!({"sub": "x", *kname: {"a": "b", "c": "d"}}), vec![format!("/{}/a", kname)]),
            (format!("{}:\n  inner:\n    !sd a: b\n    c: 1\nz: 2\n", ktext), json!({*kname: {"inner": {"a": "b", "c": 1}}, "z": 2}), vec![format!("/{}/inner/a", kname)]),
            (format!("{}:\n  - !sd US\n  - DE\nz: 2\n", ktext), json!({*kname: ["US", "DE"], "z": 2}), vec![format!("/{}/0", kname)]),
            (format!("outer:\n  {}:\n    !sd a: b\n    !sd c: d\n", ktext), json!({"outer": {*kname: {"a": "b", "c": "d"}}}), vec![format!("/outer/{}/a", kname), format!("/outer/{}/c", kname)]),
        ];
        for (doc, claims, paths) in docs {
            em.case("yaml", json!({"doc": doc, "claims": claims, "paths": paths, "expect_ok": true, "nontrivial": true, "tag": "tag_below_non_string_key"}));
        }
    }
    // two keys of one mapping that are the same string once the tag is removed: the document without its tags is not a
    // valid document, so the tagged one is refused as well
    for doc in ["!sd \"1\": b\n1: a\n", "1:\n  !sd c: x\n\"1\":\n  d: y\n", "true: a\n!sd \"true\": b\n", "x:\n  !sd null: 1\n  \"null\": 2\n", "!sd a: 1\na: 2\n", "a: 2\n!sd a: 1\n", "x:\n  !sd a: {b: 1}\n  a: 2\n", "!sd a: {!sd b: 1}\na: 2\n", "l:\n  - !sd k: 1\n    k: 2\n"] {
        em.case("yaml", json!({"doc": doc, "claims": Value::Null, "paths": [], "expect_ok": "reject", "nontrivial": true, "tag": "keys_collide_after_tag_removal"}));
    }
    // anchors, aliases and the merge key: serde_yaml expands an alias into a copy of the anchored node (tags included) and
    // leaves "<<" an ordinary key, so the claims have a member "<<" and every copy of a tagged node is a tagged node
    let docs: Vec<(&str, Value, Vec<&str>)> = vec![
        ("base: &b\n  !sd street: Main\n  city: X\nhome:\n  <<: *b\n  zip: 1\n",
         json!({"base": {"street": "Main", "city": "X"}, "home": {"<<": {"street": "Main", "city": "X"}, "zip": 1}}),
         vec!["/base/street", "/home/<</street"]),
        ("defaults: &d {!sd a: 1, b: 2}\nx:\n  <<: [*d, *d]\n",
         json!({"defaults": {"a": 1, "b": 2}, "x": {"<<": [{"a": 1, "b": 2}, {"a": 1, "b": 2}]}}),
         vec!["/defaults/a", "/x/<</0/a", "/x/<</1/a"]),
        ("list:\n  - &s !sd US\n  - *s\n  - DE\n",
         json!({"list": ["US", "US", "DE"]}),
         vec!["/list/0", "/list/1"]),
        ("!sd secret: &v hidden\ncopy: *v\n",
         json!({"secret": "hidden", "copy": "hidden"}),
         vec!["/secret"]),
    ];
    for (doc, claims, paths) in docs {
        em.case("yaml", json!({"doc": doc, "claims": claims, "paths": paths, "expect_ok": true, "nontrivial": true, "tag": "anchors_aliases_merge_key"}));
    }
    // three and four tagged nodes inside one another, with untagged levels and sequences of mappings in between: every
    // enclosed path before the path that encloses it, at every level
    let docs: Vec<(&str, Value, Vec<&str>)> = vec![
        ("!sd address:\n  !sd geo:\n    !sd lat: 1\n    lon: 2\n  street: S\n",
         json!({"address": {"geo": {"lat": 1, "lon": 2}, "street": "S"}}),
         vec!["/address/geo/lat", "/address/geo", "/address"]),
        ("!sd a:\n  x:\n    !sd b:\n      y:\n        !sd c:\n          !sd d: 1\n",
         json!({"a": {"x": {"b": {"y": {"c": {"d": 1}}}}}}),
         vec!["/a/x/b/y/c/d", "/a/x/b/y/c", "/a/x/b", "/a"]),
        ("!sd list:\n  - !sd m:\n      !sd n: 1\n    o: 2\n  - p: 3\n",
         json!({"list": [{"m": {"n": 1}, "o": 2}, {"p": 3}]}),
         vec!["/list/0/m/n", "/list/0/m", "/list"]),
        ("z: 0\n!sd a:\n  !sd b:\n    !sd c: 1\n  !sd e:\n    !sd f: 2\n",
         json!({"z": 0, "a": {"b": {"c": 1}, "e": {"f": 2}}}),
         vec!["/a/b/c", "/a/b", "/a/e/f", "/a/e", "/a"]),
    ];
    for (doc, claims, paths) in docs {
        em.case("yaml", json!({"doc": doc, "claims": claims, "paths": paths, "expect_ok": true, "nontrivial": true, "tag": "tags_nested_three_deep"}));
    }
    // a tagged sequence item that is itself a mapping or sequence with tags inside: the library refuses such documents; an
    // answer must carry the untagged claims and paths in an order in which issuing works
    for (doc, claims) in [
        ("credentials:\n  - !sd {type: degree, !sd gpa: 3.9}\n  - plain\n", json!({"credentials": [{"type": "degree", "gpa": 3.9}, "plain"]})),
        ("l:\n  - !sd\n    a: 1\n    !sd b:\n      !sd c: 2\n", json!({"l": [{"a": 1, "b": {"c": 2}}]})),
        ("l:\n  - !sd [x, !sd y]\n", json!({"l": [["x", "y"]]})),
    ] {
        em.case("yaml", json!({"doc": doc, "claims": claims, "paths": [], "expect_ok": "if_ok_then_untagged",
                               "nontrivial": true, "tag": "tagged_container_item_with_tags_inside"}));
    }
    // a key that carries some OTHER tag than !sd is still a key of the claims (the conversion drops the tags of keys): an !sd
    // tag below it is a tagged node like any other
    for (doc, claims, paths) in [
        ("x: 1\n!foo a:\n  y: 2\n  !sd b: 1\n", json!({"x": 1, "a": {"y": 2, "b": 1}}), vec!["/a/b"]),
        ("!foo a:\n  - !sd US\n  - DE\nz: 0\n", json!({"a": ["US", "DE"], "z": 0}), vec!["/a/0"]),
        ("k:\n  !bar 7:\n    !sd c: x\n    d: y\n  e: 1\n", json!({"k": {"7": {"c": "x", "d": "y"}, "e": 1}}), vec!["/k/7/c"]),
    ] {
        em.case("yaml", json!({"doc": doc, "claims": claims, "paths": paths, "expect_ok": true, "nontrivial": true, "tag": "tag_below_foreign_tagged_key"}));
    }
}
