//! C07: issued SD-JWTs are spec-conformant as judged by an independent verifier (RefVerify.v), and
//! Disclosure::build produces what the specification describes.
use super::issue::readback;
use super::*;
use crate::gen;
use crate::indep;
use crate::rng::Rng;
use crate::Emitter;
use sdjwt::{Algorithm, Disclosure, HashAlgorithm, Header, Issuer, Jwk, KeyForEncoding};

pub fn exec_conform(input: &Value) -> Value {
    let claims = input["claims"].clone();
    let paths: Vec<String> = input["paths"].as_array().map(|a| a.iter().map(|p| p.as_str().unwrap_or("").to_string()).collect()).unwrap_or_default();
    // the same Issuer object is asked `calls` times (C07 speaks of EVERY SD-JWT the issuer produces); with
    // "first_fails" the first attempt uses a key that does not fit the header algorithm and is retried
    let calls = input["calls"].as_u64().unwrap_or(1) as usize;
    let first_fails = input["first_fails"].as_bool().unwrap_or(false);
    let built = catch_unwind(AssertUnwindSafe(|| -> Result<Issuer, sdjwt::Error> {
        let mut iss = Issuer::new(claims.clone())?;
        for p in &paths {
            iss.disclosable(p);
        }
        if let Some(n) = input["decoy"].as_i64() {
            iss.decoy(n as i32);
        }
        iss.header(Header::new(Algorithm::HS256));
        if input["cnf"].as_bool().unwrap_or(false) {
            iss.require_key_binding(Jwk::from_value(crate::keys::rsa_jwk())?);
        }
        Ok(iss)
    }));
    let mut iss = match built {
        Err(_) => return json!({"encode": {"o": "panic"}}),
        Ok(Err(_)) => return json!({"encode": {"o": "err"}}),
        Ok(Ok(i)) => i,
    };
    if first_fails {
        let (ek, _) = crate::keys::pair("ES256");
        let _ = catch_unwind(AssertUnwindSafe(|| iss.encode(&ek)));
    }
    let mut outs: Vec<Value> = Vec::new();
    for _ in 0..calls.max(1) {
        let r = catch_unwind(AssertUnwindSafe(|| iss.encode(&KeyForEncoding::from_secret(super::common::SECRET))));
        outs.push(match r {
            Err(_) => json!({"encode": {"o": "panic"}}),
            Ok(Err(_)) => json!({"encode": {"o": "err"}}),
            Ok(Ok(token)) => json!({"encode": {"o": "ok", "v": token}, "readback": readback(&token)}),
        });
    }
    let mut first = outs.remove(0);
    first["more"] = Value::Array(outs);
    first
}

fn hash_alg(name: &str) -> HashAlgorithm {
    match name {
        "sha-384" => HashAlgorithm::SHA384,
        "sha-512" => HashAlgorithm::SHA512,
        _ => HashAlgorithm::SHA256,
    }
}

pub fn exec_discbuild(input: &Value) -> Value {
    let key = input["key"].as_str().map(|s| s.to_string());
    let value = input["value"].clone();
    let salt_len = input["salt_len"].as_u64().unwrap_or(16) as usize;
    let alg = input["alg"].as_str().unwrap_or("sha-256").to_string();
    json!({
        "build": outcome(
            || Disclosure::new(key.clone(), value.clone()).salt_len(salt_len).algorithm(hash_alg(&alg)).build(),
            |d| {
                let s = d.disclosure().to_string();
                let decoded = indep::decode_json(&s).unwrap_or(Value::Null);
                let salt = decoded.get(0).cloned().unwrap_or(Value::Null);
                let salt_bytes = salt.as_str().and_then(indep::b64url_decode).map(|b| b.len());
                let back = Disclosure::from_base64(&s, hash_alg(&alg)).ok().map(|b| json!([b.key(), b.value(), b.digest()]));
                // for the base64url model (Base64.v): the text the disclosure string decodes to (own decoder) and the raw digest bytes
                let text = indep::b64url_decode(&s).and_then(|b| String::from_utf8(b).ok());
                json!({"disclosure": s, "digest": d.digest(), "indep_digest": indep::hash(&alg, d.disclosure()),
                       "text": text, "digest_hex": indep::hash_raw_hex(&alg, d.disclosure()),
                       "indep_decoded": decoded, "salt": salt, "salt_bytes": salt_bytes, "from_base64": back})
            }
        )
    })
}

pub fn generate(thorough: bool, seed: u64, em: &mut Emitter) {
    super::c14::generate_edge_paths(seed, 40, em);
    let mut r = Rng::new(seed ^ 0xC07);
    let n = if thorough { 30_000 } else { 2_000 };
    for _ in 0..n {
        let mut rc = r.fork();
        let r = &mut rc;
        let depth = 2 + r.below(2) as u32;
        let mut claims = gen::gen_object(r, depth, 3, 1);
        // one case in eight issues with nothing disclosable (with or without decoys): <JWT>~ and no _sd_alg
        let marks = if r.chance(1, 8) { vec![] } else { gen::gen_marking(r, &claims, true) };
        // one case in eight: the caller's claims use a reserved name somewhere; no conformant SD-JWT exists for
        // them ("reserved names never used as claim names"), so the issuer has to refuse
        let reserved = r.chance(1, 8);
        if reserved {
            gen::plant_reserved_name(r, &mut claims);
        }
        let cnf = r.chance(1, 6);
        // the caller's claims have a cnf member of their own while key binding is required (one bound case in four),
        // sometimes even marked disclosable: no conformant SD-JWT can carry two cnf claims, so either the issuer
        // refuses or what it issues must verify under the independent verifier like any other token
        let own_cnf = cnf && !reserved && r.chance(1, 4);
        let mut marks = marks;
        if own_cnf {
            claims.as_object_mut().unwrap().insert("cnf".to_string(), json!({"kty": "caller-supplied"}));
            marks.retain(|p| !matches!(p.first(), Some(gen::Tok::Key(k)) if k == "cnf"));
            if r.chance(1, 2) {
                marks.push(vec![gen::Tok::Key("cnf".to_string())]);
            }
        }
        let k = marks.len();
        // sub-lists: all 2^k for k <= 6 (quick) / 8 (thorough), 48 sampled ones above, always with none and all
        let limit = if thorough { 8 } else { 6 };
        let mut subsets: Vec<Vec<bool>> = Vec::new();
        if k <= limit {
            for m in 0..(1usize << k) {
                subsets.push((0..k).map(|i| m & (1 << i) != 0).collect());
            }
        } else {
            subsets.push(vec![true; k]);
            subsets.push(vec![false; k]);
            for _ in 0..48 {
                subsets.push((0..k).map(|_| r.chance(1, 2)).collect());
            }
        }
        let mut expect = claims.clone();
        if cnf {
            let v = Jwk::from_value(crate::keys::rsa_jwk()).ok().map(|j| serde_json::to_value(&*j).unwrap()).unwrap_or(Value::Null);
            expect.as_object_mut().unwrap().insert("cnf".to_string(), v);
        }
        em.case("conform", json!({
            "claims": claims, "paths": marks.iter().map(gen::render).collect::<Vec<_>>(),
            "marks": marks.iter().map(gen::tpath_json).collect::<Vec<_>>(),
            "decoy": if r.chance(1, 3) { json!(1 + r.below(6)) } else { Value::Null }, "cnf": cnf,
            "expect_claims": expect, "subsets": subsets, "nontrivial": reserved || marks.is_empty() || gen::marking_nontrivial(&marks),
            "reserved_input": reserved, "own_cnf": own_cnf,
            "calls": if r.chance(1, 5) { 2 + r.below(2) } else { 1 }, "first_fails": r.chance(1, 12),
            "tag": if reserved { json!("reserved_name_in_claims") } else if marks.is_empty() { json!("nothing_disclosable") } else { Value::Null },
        }));
    }
    // claims that are not a JSON object: whatever would be issued is not an SD-JWT (the payload of a JWT is an object)
    for (i, root) in [json!(["a", "b"]), json!("s"), json!(null), json!(5), json!([{"a": 1}]), json!(true)].iter().enumerate() {
        for (paths, decoy, cnf) in [(vec![], Value::Null, false), (vec!["/0"], Value::Null, false), (vec![], json!(3), false), (vec![], Value::Null, true)] {
            em.case("conform", json!({
                "claims": root, "paths": paths, "marks": [], "decoy": decoy, "cnf": cnf, "expect_claims": root, "subsets": [[]],
                "nontrivial": true, "reserved_input": false, "own_cnf": false, "non_object_claims": true, "calls": 1 + i % 2, "first_fails": false,
                "tag": "non_object_claims",
            }));
        }
    }
    // large documents (not the 10000-element array: the independent verifier's model is quadratic in it)
    for v in 0..(if thorough { 48 } else { 12 }) {
        let mut rc = r.fork();
        let variant = [0usize, 1, 2, 3, 5, 7, 8, 4][v % 8];
        let (claims, marks) = gen::large_claims_and_marking(&mut rc, variant);
        let k = marks.len();
        let mut subsets: Vec<Vec<bool>> = vec![vec![true; k], vec![false; k]];
        for _ in 0..2 {
            subsets.push((0..k).map(|_| rc.chance(1, 2)).collect());
        }
        em.case("conform", json!({
            "claims": claims, "paths": marks.iter().map(gen::render).collect::<Vec<_>>(),
            "marks": marks.iter().map(gen::tpath_json).collect::<Vec<_>>(),
            "decoy": if v % 3 == 0 { json!(200 + rc.below(300)) } else { Value::Null }, "cnf": v % 4 == 1,
            "expect_claims": if v % 4 == 1 {
                let mut e = claims.clone();
                let j = Jwk::from_value(crate::keys::rsa_jwk()).ok().map(|j| serde_json::to_value(&*j).unwrap()).unwrap_or(Value::Null);
                e.as_object_mut().unwrap().insert("cnf".to_string(), j);
                e
            } else { claims.clone() },
            "subsets": subsets, "nontrivial": true, "reserved_input": false, "own_cnf": false, "calls": 1, "first_fails": false,
            "tag": "large_document",
        }));
    }
    // Disclosure::build on long values: a portrait, a certificate chain
    for i in 0..(if thorough { 120 } else { 24 }) {
        let len = [1000usize, 1024, 3000, 3100, 4096, 5000, 8192, 20_000][i % 8] + r.below(40);
        let value = if i % 3 == 2 { json!([gen::long_text(&mut r, len / 2), {"chain": gen::long_text(&mut r, len / 2)}]) } else { json!(gen::long_text(&mut r, len)) };
        em.case("discbuild", json!({"key": if i % 2 == 0 { json!("portrait") } else { json!(null) }, "value": value, "salt_len": 16 + r.below(17), "alg": indep::ALGS[i % 3], "reserved": false}));
    }
    // Disclosure::build over names, values, salt lengths, algorithms
    let names: Vec<Value> = vec![json!(null), json!("name"), json!(""), json!("é~/ü"), json!("x\"y\\"), json!("0"), json!("_sd"), json!("..."), json!("_sd_alg")];
    let m = if thorough { 20_000 } else { 1_200 };
    for i in 0..m {
        let key = names[i % names.len()].clone();
        let value = gen::gen_value(&mut r, 2, 3);
        let reserved = key == "_sd" || key == "...";
        em.case("discbuild", json!({"key": key, "value": value, "salt_len": r.below(65), "alg": indep::ALGS[i % 3], "reserved": reserved}));
    }
}
