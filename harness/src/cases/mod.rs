use crate::Emitter;
use serde_json::{json, Value};
use std::panic::{catch_unwind, AssertUnwindSafe};

pub mod c03;
pub mod c05;
pub mod c06;
pub mod c07;
pub mod c08;
pub mod c09;
pub mod c10;
pub mod c12;
pub mod c13;
pub mod c14;
pub mod c15;
pub mod common;
pub mod issue;
pub mod jwtk;
pub mod c01;
pub mod c02;
pub mod present;
pub mod small;

/// Start-up assertions about the build the harness measures (DESIGN.md section 4).
pub fn selfcheck() {
    // serde_json must be built without preserve_order: Map iterates in sorted key order
    let v: Value = serde_json::from_str(r#"{"b":1,"a":2,"_sd":3,"A":4}"#).unwrap();
    let keys: Vec<&String> = v.as_object().unwrap().keys().collect();
    assert_eq!(keys, ["A", "_sd", "a", "b"], "serde_json::Map is not a sorted map in this build");
}

/// Outcome of a call as JSON: {"o":"ok","v":..} | {"o":"err"} | {"o":"panic"}
pub fn outcome<T, E>(f: impl FnOnce() -> Result<T, E>, show: impl FnOnce(T) -> Value) -> Value {
    match catch_unwind(AssertUnwindSafe(f)) {
        Ok(Ok(v)) => json!({"o": "ok", "v": show(v)}),
        Ok(Err(_)) => json!({"o": "err"}),
        Err(_) => json!({"o": "panic"}),
    }
}

/// Outcome of an infallible call.
pub fn outcome_total<T>(f: impl FnOnce() -> T, show: impl FnOnce(T) -> Value) -> Value {
    match catch_unwind(AssertUnwindSafe(f)) {
        Ok(v) => json!({"o": "ok", "v": show(v)}),
        Err(_) => json!({"o": "panic"}),
    }
}

pub fn generate(id: &str, thorough: bool, seed: u64, em: &mut Emitter) {
    match id {
        "C01" => c01::generate(thorough, seed, em),
        "C02" => c02::generate(thorough, seed, em),
        "C03" => c03::generate(thorough, seed, em),
        "C04" => jwtk::generate_c04(thorough, seed, em),
        "C05" => c05::generate(thorough, seed, em),
        "C06" => c06::generate(thorough, seed, em),
        "C07" => c07::generate(thorough, seed, em),
        "C08" => c08::generate(thorough, seed, em),
        "C09" => c09::generate(thorough, seed, em),
        "C10" => c10::generate(thorough, seed, em),
        "C11" => jwtk::generate_c11(thorough, seed, em),
        "C12" => c12::generate(thorough, seed, em),
        "C13" => c13::generate(thorough, seed, em),
        "C14" => c14::generate(thorough, seed, em),
        "C15" => c15::generate(thorough, seed, em),
        "C16" => jwtk::generate_c16(thorough, seed, em),
        _ => panic!("unknown property {}", id),
    }
}

pub fn execute(kind: &str, input: &Value) -> Value {
    match kind {
        "split" => c10::exec_split(input),
        "misc" => c10::exec_misc(input),
        "deep" => c10::exec_deep(input),
        "verify" => common::exec_verify(input),
        "issue" => issue::exec_issue(input),
        "present" => present::exec_present(input),
        "bstep" => jwtk::exec_bstep(input),
        "history" => c13::exec_history(input),
        "yaml" => c15::exec_yaml(input),
        "conform" => c07::exec_conform(input),
        "discbuild" => c07::exec_discbuild(input),
        "decode" => jwtk::exec_decode(input),
        _ => json!({"harness_error": format!("unknown kind {}", kind)}),
    }
}
