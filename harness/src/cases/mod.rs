use crate::Emitter;
use serde_json::{json, Value};
use std::panic::{catch_unwind, AssertUnwindSafe};

pub mod c03;
pub mod c05;
pub mod c06;
pub mod c07;
pub mod c08;
pub mod c09;
pub mod c10;
pub mod c12;
pub mod c13;
pub mod c14;
pub mod c15;
pub mod common;
pub mod issue;
pub mod jwtk;
pub mod c01;
pub mod c02;
pub mod present;
pub mod small;
#[cfg(sdjwt_verif)]
pub mod units;

/// Start-up assertions about the build the harness measures (DESIGN.md section 4).
pub fn selfcheck() {
    // serde_json must be built without preserve_order: Map iterates in sorted key order
    let v: Value = serde_json::from_str(r#"{"b":1,"a":2,"_sd":3,"A":4}"#).unwrap();
    let keys: Vec<&String> = v.as_object().unwrap().keys().collect();
    assert_eq!(keys, ["A", "_sd", "a", "b"], "serde_json::Map is not a sorted map in this build");
}

/// Outcome of a call as JSON: {"o":"ok","v":..} | {"o":"err"} | {"o":"panic"}
pub fn outcome<T, E>(f: impl FnOnce() -> Result<T, E>, show: impl FnOnce(T) -> Value) -> Value {
    match catch_unwind(AssertUnwindSafe(f)) {
        Ok(Ok(v)) => json!({"o": "ok", "v": show(v)}),
        Ok(Err(_)) => json!({"o": "err"}),
        Err(_) => json!({"o": "panic"}),
    }
}

/// Outcome of an infallible call.
pub fn outcome_total<T>(f: impl FnOnce() -> T, show: impl FnOnce(T) -> Value) -> Value {
    match catch_unwind(AssertUnwindSafe(f)) {
        Ok(v) => json!({"o": "ok", "v": show(v)}),
        Err(_) => json!({"o": "panic"}),
    }
}

pub fn generate(id: &str, thorough: bool, seed: u64, em: &mut Emitter) {
    match id {
        "C01" => c01::generate(thorough, seed, em),
        "C02" => c02::generate(thorough, seed, em),
        "C03" => c03::generate(thorough, seed, em),
        "C04" => jwtk::generate_c04(thorough, seed, em),
        "C05" => c05::generate(thorough, seed, em),
        "C06" => c06::generate(thorough, seed, em),
        "C07" => c07::generate(thorough, seed, em),
        "C08" => c08::generate(thorough, seed, em),
        "C09" => c09::generate(thorough, seed, em),
        "C10" => c10::generate(thorough, seed, em),
        "C11" => jwtk::generate_c11(thorough, seed, em),
        "C12" => c12::generate(thorough, seed, em),
        "C13" => c13::generate(thorough, seed, em),
        "C14" => c14::generate(thorough, seed, em),
        "C15" => c15::generate(thorough, seed, em),
        "C16" => jwtk::generate_c16(thorough, seed, em),
        _ => panic!("unknown property {}", id),
    }
    unit_cases(id, thorough, seed, em);
}

/// function-level correspondence cases (kind "unit") of the property; none when the hooks are not compiled in
#[cfg(sdjwt_verif)]
fn unit_cases(id: &str, thorough: bool, seed: u64, em: &mut Emitter) {
    let k = if thorough { 20 } else { 1 };
    match id {
        "C01" | "C08" => {
            units::generate_restore(1500 * k, seed ^ 1, em);
            units::generate_issuer(600 * k, seed ^ 2, em);
        }
        "C03" | "C12" => units::generate_restore(3000 * k, seed ^ 3, em),
        "C06" | "C07" | "C13" | "C14" => units::generate_issuer(2000 * k, seed ^ 4, em),
        "C02" | "C05" | "C09" => units::generate_restore(600 * k, seed ^ 5, em),
        "C04" | "C11" => units::generate_bv(400 * k, seed ^ 6, em),
        _ => {}
    }
}
#[cfg(not(sdjwt_verif))]
fn unit_cases(_id: &str, _thorough: bool, _seed: u64, _em: &mut Emitter) {}

/// "hooks" when the function-level hooks of /repo are compiled in, "nohooks" otherwise
pub fn hooks_state() -> &'static str {
    if cfg!(sdjwt_verif) { "hooks" } else { "nohooks" }
}

pub fn execute(kind: &str, input: &Value) -> Value {
    match kind {
        "split" => c10::exec_split(input),
        "misc" => c10::exec_misc(input),
        "deep" => c10::exec_deep(input),
        "verify" => common::exec_verify(input),
        "issue" => issue::exec_issue(input),
        "present" => present::exec_present(input),
        "bstep" => jwtk::exec_bstep(input),
        "history" => c13::exec_history(input),
        "yaml" => c15::exec_yaml(input),
        "conform" => c07::exec_conform(input),
        "discbuild" => c07::exec_discbuild(input),
        "decode" => jwtk::exec_decode(input),
        #[cfg(sdjwt_verif)]
        "unit" => units::exec_unit(input),
        _ => json!({"harness_error": format!("unknown kind {}", kind)}),
    }
}
