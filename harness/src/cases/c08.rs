//! C08: conformant SD-JWTs from other issuers are processed as the specification says.
//! Reference-issued tokens (three digest algorithms, permuted disclosures, odd JSON formatting, salts of
//! any length, decoys at any level, recursive disclosures) through the library's holder and verifier,
//! the extracted model and the independent reference verifier.
use super::c02::{present_case, redaction_set};
use super::common::*;
use super::*;
use crate::gen;
use crate::indep;
use crate::refissuer::{ref_issue, RefOpts};
use crate::rng::Rng;
use crate::Emitter;

pub fn generate(thorough: bool, seed: u64, em: &mut Emitter) {
    let mut r = Rng::new(seed ^ 0xC08);
    generate_large_verify(seed, if thorough { 45 } else { 9 }, em);
    let n = if thorough { 40_000 } else { 2_500 };
    for i in 0..n {
        let mut rc = r.fork();
        let r = &mut rc;
        let depth = 2 + r.below(3) as u32;
        let (claims, marks) = gen::claims_and_marking(r, i, depth, 3);
        let alg = indep::ALGS[i % 3];
        let opts = RefOpts { alg: alg.to_string(), decoys: r.chance(1, 2), odd_format: r.chance(1, 2) };
        let mut tok = ref_issue(r, &claims, &marks, &opts);
        // "If the _sd_alg claim is not present at the top level, a default value of sha-256 MUST be used":
        // a conformant issuer that hashes with sha-256 may leave the claim out
        let no_alg = alg == "sha-256" && r.chance(1, 3);
        if no_alg {
            tok.payload.as_object_mut().unwrap().remove("_sd_alg");
        }
        let mut list: Vec<String> = tok.discs.iter().map(|d| d.string.clone()).collect();
        r.shuffle(&mut list);
        if i % 2 == 0 {
            // all disclosures, any order: Holder::verify == reference verifier == original claims
            let mut case = super::c03::make_case(&tok, &list, "accept", true, &[]);
            case.as_object_mut().unwrap().remove("clear_hint");
            case["expect"] = expectation(&tok, &claims, &list, "accept");
            case["ref_check"] = json!(true);
            case["nontrivial"] = json!(alg != "sha-256" || no_alg || opts.decoys || opts.odd_format || gen::marking_nontrivial(&marks));
            if no_alg {
                case["tag"] = json!("no_sd_alg");
            }
            em.case("verify", case);
        } else {
            // a presentation the library's holder derives from the foreign token
            // one foreign token in three is bound to a holder key: the key-binding JWT the library's holder attaches
            // must commit to the presentation under the digest algorithm the token declares (any of the three)
            let bound = i % 6 == 1;
            let mut clear = claims.clone();
            if bound {
                let jwk = crate::keys::rsa_jwk();
                tok.payload = crate::refissuer::with_member(tok.payload.clone(), "cnf", jwk.clone());
                clear = crate::refissuer::with_member(clear, "cnf", jwk);
            }
            let jwt = sign_hs256(&tok.payload);
            let token = presentation_string(&jwt, &list, "");
            let redact = redaction_set(r, &claims, &marks);
            let (kb, verifier) = if bound {
                (json!({"aud": "https://verifier.example", "alg": "RS256"}), json!({"kbpol": {"alg": "RS256", "aud": "https://verifier.example"}}))
            } else {
                (Value::Null, json!({"kbpol": Value::Null}))
            };
            let mut case = present_case(&tok, &token, &clear, &redact, kb, 1, verifier);
            if bound {
                case["tag"] = json!("foreign_bound_token");
            }
            case["ref_check"] = json!(true);
            case["judge_disclosures"] = json!(true);
            case["nontrivial"] = json!(true);
            if no_alg {
                case["tag"] = json!("no_sd_alg");
            }
            super::present::decorate_session(r, &mut case);
            em.case("present", case);
        }
    }
}

/// large foreign tokens: every disclosure, in random order, through Holder::verify, Verifier::verify and the independent verifier
pub fn generate_large_verify(seed: u64, n: usize, em: &mut Emitter) {
    let mut r = Rng::new(seed ^ 0xC08_1A26E);
    for v in 0..n {
        let mut rc = r.fork();
        let r = &mut rc;
        let (claims, marks) = gen::large_claims_and_marking(r, v);
        let alg = indep::ALGS[v % 3];
        let opts = RefOpts { alg: alg.to_string(), decoys: v % 2 == 0, odd_format: false };
        let tok = ref_issue(r, &claims, &marks, &opts);
        let mut list: Vec<String> = tok.discs.iter().map(|d| d.string.clone()).collect();
        r.shuffle(&mut list);
        let mut case = super::c03::make_case(&tok, &list, "accept", true, &[]);
        case.as_object_mut().unwrap().remove("clear_hint");
        case["expect"] = expectation(&tok, &claims, &list, "accept");
        case["ref_check"] = json!(true);
        case["tag"] = json!("large_document");
        em.case("verify", case);
    }
}
