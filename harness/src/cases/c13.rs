//! C13: salts, digests and decoys give no handle for linking or counting claims.
//! Kind "history": a long history of issuances of one document in one process (16 threads, one pooled
//! set), summarised; the thresholds of the property are judged by the Coq oracle on the summary.
use super::*;
use crate::indep;
use crate::rng::Rng;
use crate::Emitter;
use std::collections::HashSet;

fn document() -> (Value, Vec<&'static str>) {
    (
        json!({"a": 1, "b": 2, "c": 3, "d": 4,
               "o": {"p": 1, "q": 2, "r": 3, "s": 4},
               "w": {"x": {"e": 1, "f": 2, "g": 3, "h": 4}}}),
        vec!["/a", "/b", "/c", "/d", "/o/p", "/o/q", "/o/r", "/o/s", "/w/x/e", "/w/x/f", "/w/x/g", "/w/x/h", "/w/x"],
    )
}

#[derive(Default)]
struct Part {
    issuances: u64,
    salts: Vec<String>,
    digests: Vec<String>,
    decoys: Vec<String>,
    clone_groups: u64,
    clone_groups_frozen: u64,
    min_salt_len: usize,
    salt_or: u8,
    salt_and: u8,
    salt_values: Vec<bool>,
    bad_form: u64,
    count_violations: u64,
    count_seen: Vec<(i64, usize)>,
    marking_order: [u64; 3], // top, nested, inside disclosed value: issuances in which the list is in marking order
    lists_seen: [u64; 3],
    failures: u64,
    // top-level lists that hold real digests and decoys: [13-claim document, one-claim document];
    // real_first = those in which every real digest precedes every decoy
    mixed_seen: [u64; 2],
    real_first: [u64; 2],
    // entries of a digest list that are the hash of another entry, of a disclosure string or of a salt
    // (over the text or over the decoded bytes): a decoy derived from published material is recognisable
    derived_entries: u64,
    // nested digest lists of 320 entries (in the payload, and inside a disclosed value): issuances seen, those in which the
    // digest of the claim marked LAST lies in the first quarter of the list, those in which the one marked FIRST lies in the last quarter
    long_seen: u64,
    long_last_in_first_quarter: u64,
    long_first_in_last_quarter: u64,
}

fn real_subsequence_in_marking_order(list: &[Value], digests_in_marking_order: &[String]) -> Option<bool> {
    let real: Vec<&str> = list.iter().filter_map(|x| x.as_str()).filter(|s| digests_in_marking_order.iter().any(|g| g == s)).collect();
    if real.len() < 4 {
        return None;
    }
    let expected: Vec<&str> = digests_in_marking_order.iter().map(|s| s.as_str()).filter(|g| real.contains(g)).collect();
    Some(real == expected)
}

fn run_part(n: u64, offset: u64) -> Part {
    let (doc, paths) = document();
    let key = sdjwt::KeyForEncoding::from_secret(b"k");
    let mut part = Part { min_salt_len: usize::MAX, salt_and: 0xff, salt_values: vec![false; 256], ..Default::default() };
    // a credential with exactly one disclosable claim (every fourth issuer object): with decoys around it,
    // its single real digest must not be recognisable by its position
    let single_doc = json!({"a": 1, "z": {"k": 1}});
    for i in 0..n {
        let max = ((offset + i) % 50) as i32 + 1;
        let single = i % 4 == 3;
        let mut iss = match sdjwt::Issuer::new(if single { single_doc.clone() } else { doc.clone() }) { Ok(i) => i, Err(_) => { part.failures += 1; continue; } };
        if single {
            iss.disclosable("/a");
        } else {
            for p in &paths {
                iss.disclosable(p);
            }
        }
        iss.decoy(max).header(sdjwt::Header::new(sdjwt::Algorithm::HS256));
        // a second encode on the same object every other time: issuance repeated from one issuer object
        let reps = 1 + (i % 2);
        for _ in 0..reps {
            let token = match catch_unwind(AssertUnwindSafe(|| iss.encode(&key))) { Ok(Ok(t)) => t, _ => { part.failures += 1; continue; } };
            part.issuances += 1;
            let segs: Vec<&str> = token.split('~').collect();
            let payload = match segs[0].split('.').nth(1).and_then(indep::decode_json) { Some(p) => p, None => { part.failures += 1; continue; } };
            let ds = &segs[1..segs.len() - 1];
            let mut digests_mo = Vec::new();
            let mut x_value: Option<Value> = None;
            for d in ds {
                let g = indep::hash("sha-256", d);
                if let Some(Value::Array(parts)) = indep::decode_json(d) {
                    if let Some(s) = parts.first().and_then(|s| s.as_str()) {
                        let bytes = indep::b64url_decode(s).unwrap_or_default();
                        let len = bytes.len();
                        // 128 bits of salt means every bit of every byte is drawn: over the pooled salts every bit position
                        // takes both values and (nearly) every byte value occurs
                        for b in &bytes {
                            part.salt_or |= *b;
                            part.salt_and &= *b;
                            part.salt_values[*b as usize] = true;
                        }
                        part.min_salt_len = part.min_salt_len.min(len);
                        part.salts.push(s.to_string());
                    } else {
                        part.min_salt_len = 0;
                    }
                    if parts.len() == 3 && parts[1] == "x" {
                        x_value = Some(parts[2].clone());
                    }
                }
                digests_mo.push(g.clone());
                part.digests.push(g);
            }
            let top = payload["_sd"].as_array().cloned().unwrap_or_default();
            let decoys: Vec<String> = top.iter().filter_map(|x| x.as_str()).filter(|s| !digests_mo.iter().any(|g| g == s)).map(|s| s.to_string()).collect();
            if decoys.is_empty() || decoys.len() as i64 > max as i64 {
                part.count_violations += 1;
            }
            part.count_seen.push((max as i64, decoys.len()));
            let real_len = digests_mo[0].len();
            for d in &decoys {
                if d.len() != real_len || !d.bytes().all(|c| c.is_ascii_alphanumeric() || c == b'-' || c == b'_') {
                    part.bad_form += 1;
                }
            }
            {
                let is_real: Vec<bool> = top.iter().map(|x| x.as_str().map_or(false, |s| digests_mo.iter().any(|g| g == s))).collect();
                let reals = is_real.iter().filter(|b| **b).count();
                if reals > 0 && reals < is_real.len() {
                    let k = if single { 1 } else { 0 };
                    part.mixed_seen[k] += 1;
                    if is_real[..reals].iter().all(|b| *b) {
                        part.real_first[k] += 1;
                    }
                }
            }
            {
                let mut material: Vec<String> = top.iter().filter_map(|x| x.as_str().map(String::from)).collect();
                material.extend(ds.iter().map(|d| d.to_string()));
                let mut images: HashSet<String> = HashSet::new();
                for m in &material {
                    images.insert(indep::hash("sha-256", m));
                    if let Some(bytes) = indep::b64url_decode(m) {
                        use sha2::Digest;
                        images.insert(indep::b64url_encode(&sha2::Sha256::digest(&bytes)));
                    }
                }
                part.derived_entries += decoys.iter().filter(|d| images.contains(d.as_str())).count() as u64;
            }
            part.decoys.extend(decoys);
            let lists: [Option<Vec<Value>>; 3] = [
                Some(top),
                payload["o"]["_sd"].as_array().cloned(),
                x_value.as_ref().and_then(|v| v["_sd"].as_array().cloned()),
            ];
            for (k, l) in lists.iter().enumerate() {
                if let Some(l) = l {
                    if let Some(in_order) = real_subsequence_in_marking_order(l, &digests_mo) {
                        part.lists_seen[k] += 1;
                        if in_order {
                            part.marking_order[k] += 1;
                        }
                    }
                }
            }
        }
    }
    for g in 0..8u64 {
        let mut big = serde_json::Map::new();
        for i in 0..320 {
            big.insert(format!("m{:03}", i), json!(i));
        }
        let mut iss = match sdjwt::Issuer::new(json!({"keep": 0, "big": Value::Object(big)})) { Ok(i) => i, Err(_) => continue };
        for i in 0..320 {
            iss.disclosable(&format!("/big/m{:03}", i));
        }
        if g % 2 == 1 {
            iss.disclosable("/big");
        }
        iss.header(sdjwt::Header::new(sdjwt::Algorithm::HS256));
        let token = match catch_unwind(AssertUnwindSafe(|| iss.encode(&key))) { Ok(Ok(t)) => t, _ => { part.failures += 1; continue } };
        let segs: Vec<&str> = token.split('~').collect();
        let payload = match segs[0].split('.').nth(1).and_then(indep::decode_json) { Some(p) => p, None => continue };
        let decoded: Vec<(String, Value)> = segs[1..segs.len() - 1].iter().filter_map(|d| indep::decode_json(d).map(|v| (d.to_string(), v))).collect();
        let list: Vec<String> = if g % 2 == 1 {
            decoded.iter().find(|(_, v)| v[1] == "big").and_then(|(_, v)| v[2]["_sd"].as_array().cloned())
        } else {
            payload["big"]["_sd"].as_array().cloned()
        }.map(|a| a.iter().filter_map(|x| x.as_str().map(String::from)).collect()).unwrap_or_default();
        let pos_of = |name: &str| decoded.iter().find(|(_, v)| v[1] == name).map(|(d, _)| indep::hash("sha-256", d)).and_then(|h| list.iter().position(|x| *x == h));
        if let (320, Some(first), Some(last)) = (list.len(), pos_of("m000"), pos_of("m319")) {
            part.long_seen += 1;
            if last < 80 { part.long_last_in_first_quarter += 1; }
            if first >= 240 { part.long_first_in_last_quarter += 1; }
        }
    }
    // one prepared issuer, cloned per issuance (a template credential): the clones must not share their random choices -
    // the positions of the claims' digests in the top-level list differ from clone to clone
    for g in 0..(n / 40).max(2) {
        let _ = g;
        let mut iss = match sdjwt::Issuer::new(json!({"c1": 1, "c2": 2, "c3": 3, "c4": 4, "c5": 5, "keep": 0})) { Ok(i) => i, Err(_) => continue };
        for p in ["/c1", "/c2", "/c3", "/c4", "/c5"] {
            iss.disclosable(p);
        }
        iss.header(sdjwt::Header::new(sdjwt::Algorithm::HS256));
        let mut vectors: Vec<Vec<usize>> = Vec::new();
        for _ in 0..6 {
            let mut c = iss.clone();
            let token = match catch_unwind(AssertUnwindSafe(|| c.encode(&key))) { Ok(Ok(t)) => t, _ => continue };
            let segs: Vec<&str> = token.split('~').collect();
            let payload = match segs[0].split('.').nth(1).and_then(indep::decode_json) { Some(p) => p, None => continue };
            let top: Vec<String> = payload["_sd"].as_array().map(|a| a.iter().filter_map(|x| x.as_str().map(String::from)).collect()).unwrap_or_default();
            let v: Vec<usize> = segs[1..segs.len() - 1].iter().filter_map(|d| { let h = indep::hash("sha-256", d); top.iter().position(|x| *x == h) }).collect();
            vectors.push(v);
        }
        if vectors.len() == 6 && vectors[0].len() == 5 {
            part.clone_groups += 1;
            if vectors.iter().all(|v| *v == vectors[0]) {
                part.clone_groups_frozen += 1;
            }
        }
    }
    part
}

fn dups(v: &[String]) -> (u64, Option<String>) {
    let mut set: HashSet<&str> = HashSet::with_capacity(v.len() * 2);
    let mut n = 0;
    let mut first = None;
    for s in v {
        if !set.insert(s.as_str()) {
            n += 1;
            if first.is_none() {
                first = Some(s.clone());
            }
        }
    }
    (n, first)
}

pub fn exec_history(input: &Value) -> Value {
    let n = input["issuances"].as_u64().unwrap_or(100);
    let threads = input["threads"].as_u64().unwrap_or(16).max(1);
    let per = (n + threads - 1) / threads;
    let handles: Vec<_> = (0..threads).map(|t| std::thread::spawn(move || run_part(per, t * per))).collect();
    let parts: Vec<Part> = handles.into_iter().filter_map(|h| h.join().ok()).collect();
    let mut salts = Vec::new();
    let mut digests = Vec::new();
    let mut decoys = Vec::new();
    let mut sum = Part { min_salt_len: usize::MAX, salt_and: 0xff, salt_values: vec![false; 256], ..Default::default() };
    for p in parts {
        salts.extend(p.salts);
        digests.extend(p.digests);
        decoys.extend(p.decoys);
        sum.issuances += p.issuances;
        sum.min_salt_len = sum.min_salt_len.min(p.min_salt_len);
        sum.clone_groups += p.clone_groups;
        sum.clone_groups_frozen += p.clone_groups_frozen;
        sum.salt_or |= p.salt_or;
        sum.salt_and &= p.salt_and;
        for (k, seen) in p.salt_values.iter().enumerate() {
            if *seen {
                sum.salt_values[k] = true;
            }
        }
        sum.bad_form += p.bad_form;
        sum.count_violations += p.count_violations;
        sum.failures += p.failures;
        for k in 0..3 {
            sum.marking_order[k] += p.marking_order[k];
            sum.lists_seen[k] += p.lists_seen[k];
        }
        sum.derived_entries += p.derived_entries;
        sum.long_seen += p.long_seen;
        sum.long_last_in_first_quarter += p.long_last_in_first_quarter;
        sum.long_first_in_last_quarter += p.long_first_in_last_quarter;
        for k in 0..2 {
            sum.mixed_seen[k] += p.mixed_seen[k];
            sum.real_first[k] += p.real_first[k];
        }
    }
    let (dup_salts, ds) = dups(&salts);
    let (dup_digests, dd) = dups(&digests);
    let (dup_decoys, dc) = dups(&decoys);
    let real: HashSet<&str> = digests.iter().map(|s| s.as_str()).collect();
    let decoy_is_real = decoys.iter().filter(|d| real.contains(d.as_str())).count();
    json!({
        "issuances": sum.issuances, "failures": sum.failures,
        "disclosures": digests.len(), "decoys": decoys.len(),
        "min_salt_bytes": if sum.min_salt_len == usize::MAX { 0 } else { sum.min_salt_len },
        "salt_bits_constant": (!(sum.salt_or) | sum.salt_and).count_ones(),
        "salt_byte_values_seen": sum.salt_values.iter().filter(|b| **b).count(),
        "clone_groups": sum.clone_groups, "clone_groups_frozen": sum.clone_groups_frozen,
        "dup_salts": dup_salts, "dup_digests": dup_digests, "dup_decoys": dup_decoys, "decoy_equals_real": decoy_is_real,
        "decoy_count_violations": sum.count_violations, "decoy_form_violations": sum.bad_form,
        "lists_seen": sum.lists_seen, "lists_in_marking_order": sum.marking_order,
        "mixed_lists_seen": sum.mixed_seen, "mixed_lists_real_first": sum.real_first,
        "decoys_derived_from_published_material": sum.derived_entries,
        "long_lists_seen": sum.long_seen, "long_last_marked_in_first_quarter": sum.long_last_in_first_quarter,
        "long_first_marked_in_last_quarter": sum.long_first_in_last_quarter,
        "example_dup": [ds, dd, dc],
    })
}

pub fn generate(thorough: bool, seed: u64, em: &mut Emitter) {
    // (a) the history the property describes
    let issuances = if thorough { 320_000 } else { 22_000 };
    em.case("history", json!({"issuances": issuances, "threads": 16,
                              "min_disclosures": if thorough { 1_000_000 } else { 50_000 },
                              "min_decoys": if thorough { 6_000_000u64 } else { 400_000 }}));
    // (b) structure: the model issuer replays salts, insertion positions, decoys and the shuffle of real tokens
    let mut r = Rng::new(seed ^ 0xC13);
    let n = if thorough { 20_000 } else { 1_500 };
    for _ in 0..n {
        let mut rc = r.fork();
        let r = &mut rc;
        let depth = 2 + r.below(2) as u32;
        let claims = crate::gen::gen_object(r, depth, 3, 1);
        let marks = crate::gen::gen_marking(r, &claims, true);
        let decoy = Some(1 + r.below(20) as i64);
        let mut c = super::c01::issue_case(&claims, &marks, decoy, false, "HS256", 1 + r.below(2));
        c["nontrivial"] = json!(true);
        em.case("issue", c);
    }
}
