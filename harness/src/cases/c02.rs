//! C02: selective disclosure end to end - the verifier sees the original claims minus the redacted ones.
use super::common::*;
use super::present::lib_issue;
use super::*;
use crate::gen::{self, TPath};
use crate::indep;
use crate::refissuer::{ref_issue, with_member, RefOpts, RefToken};
use crate::rng::Rng;
use crate::Emitter;

/// Build the input of a "present" case. `redact` are arbitrary strings; a marked node is withheld when some
/// redacted string is the path of a marked node that is the node itself or one of its ancestors.
pub fn present_case(tok: &RefToken, token: &str, claims_clear: &Value, redact: &[String], kb: Value, builds: usize, verifier: Value) -> Value {
    let jwt = token.split('~').next().unwrap().to_string();
    let seg = jwt.split('.').nth(1).unwrap_or("").to_string();
    let strings: Vec<String> = tok.discs.iter().map(|d| d.string.clone()).collect();
    let (h, dec) = tables(&strings, &indep::ALGS);
    let marked: Vec<(&TPath, String)> = tok.discs.iter().map(|d| (&d.path, gen::render(&d.path))).collect();
    let withheld = |m: &TPath| -> bool {
        redact.iter().any(|r| marked.iter().any(|(q, qs)| qs == r && gen::is_prefix(q, m)))
    };
    let present: Vec<bool> = tok.discs.iter().map(|d| !withheld(&d.path)).collect();
    let mut e = expectation(tok, claims_clear, &[], "accept");
    e["present"] = json!(present);
    // bound = the payload names a holder key; "cnf": null names none (the verifier treats it as unbound)
    let bound = tok.payload.get("cnf").map_or(false, |c| !c.is_null());
    e["build"] = json!(if bound && !kb.is_object() { "err" } else { "ok" });
    let kb_fits = kb.is_object()
        && verifier["kbpol"].is_object()
        && verifier["kbpol"]["alg"] == kb["alg"]
        && verifier["kbpol"]["aud"].as_str().map_or(true, |a| kb["aud"].as_str() == Some(a));
    e["verify"] = json!(if !bound || kb_fits { "accept" } else { "reject" });
    json!({
        "token": token, "redact": redact, "kb": kb, "builds": builds, "verifier": verifier,
        "jwt": [[jwt, hs_header(), tok.payload]],
        "claims": [[seg, tok.payload]],
        "H": h, "dec": dec,
        "cnf": tok.payload.get("cnf").cloned().unwrap_or(Value::Null),
        "sd_alg": tok.alg,
        "expect": e,
        "nontrivial": !redact.is_empty(),
    })
}

pub fn redaction_set(r: &mut Rng, claims: &Value, marks: &[TPath]) -> Vec<String> {
    // density varies per case: nothing redacted, a single claim, or each marked claim with probability 1/den
    // (with a fixed 1/2 a deep chain of nested disclosures practically always loses one of its outer levels)
    let mut out: Vec<String> = match r.below(6) {
        0 => vec![],
        1 if !marks.is_empty() => vec![gen::render(r.pick(marks))],
        _ => {
            let den = 2 + r.below(5) as u64;
            marks.iter().filter(|_| r.chance(1, den)).map(gen::render).collect()
        }
    };
    if r.chance(1, 3) {
        // paths that are not disclosable or do not exist, prefixes without slash, sibling-prefix names
        let nodes = gen::all_nodes(claims);
        for _ in 0..(1 + r.below(3)) {
            let junk = match r.below(6) {
                0 => "/nonexistent".to_string(),
                1 => "/0".to_string(),
                2 => "a".to_string(),
                3 => "".to_string(),
                4 if !nodes.is_empty() => gen::render(r.pick(&nodes)),
                _ => marks.first().map(|m| format!("{}x", gen::render(m))).unwrap_or_default(),
            };
            // a junk string that happens to be a marked path would be a real redaction: keep only non-marks
            if !marks.iter().any(|m| gen::render(m) == junk) {
                out.push(junk);
            }
        }
    }
    r.shuffle(&mut out);
    out
}

pub fn make_token(r: &mut Rng, claims: &Value, marks: &[TPath], bound: bool, use_lib: bool) -> Option<(String, RefToken, Value)> {
    if use_lib {
        let decoy = if r.chance(1, 3) { Some(3) } else { None };
        let (token, tok) = lib_issue(claims, marks, bound, decoy)?;
        let mut clear = claims.clone();
        if bound {
            clear = with_member(clear, "cnf", tok.payload["cnf"].clone());
        }
        Some((token, tok, clear))
    } else {
        let alg = if r.chance(1, 3) { *r.pick(&indep::ALGS) } else { "sha-256" };
        let opts = RefOpts { alg: alg.to_string(), decoys: r.chance(1, 4), odd_format: r.chance(1, 4) };
        let mut tok = ref_issue(r, claims, marks, &opts);
        let mut clear = claims.clone();
        if bound {
            // the holder key as other issuers write it: often with alg / use / kid members. They describe the
            // key; which algorithm the holder signs with and which one the verifier expects is not taken from them
            let mut jwk = crate::keys::rsa_jwk();
            if r.chance(1, 2) {
                jwk["alg"] = json!(*r.pick(&["RS256", "RS384", "RS512", "PS256", "PS512"]));
                jwk["use"] = json!("sig");
                if r.chance(1, 2) {
                    jwk["kid"] = json!("holder-key-1");
                }
            }
            tok.payload = with_member(tok.payload, "cnf", jwk.clone());
            clear = with_member(clear, "cnf", jwk);
        }
        let jwt = sign_hs256(&tok.payload);
        let mut ds: Vec<String> = tok.discs.iter().map(|d| d.string.clone()).collect();
        if r.chance(1, 2) {
            r.shuffle(&mut ds);
        }
        Some((presentation_string(&jwt, &ds, ""), tok, clear))
    }
}

pub fn generate(thorough: bool, seed: u64, em: &mut Emitter) {
    super::c06::generate_sibling_names(seed, em);
    generate_large(seed, if thorough { 45 } else { 9 }, false, em);
    let mut r = Rng::new(seed ^ 0xC02);
    let n = if thorough { 30_000 } else { 2_000 };
    for i in 0..n {
        let mut rc = r.fork();
        let r = &mut rc;
        let (claims, marks) = gen::claims_and_marking(r, i, 3, 3);
        let bound = i % 5 == 0;
        // a credential whose claims carry "cnf": null is not bound to any key: presenting it needs no key binding
        let mut claims = claims;
        if !bound && i % 50 == 9 {
            claims.as_object_mut().unwrap().insert("cnf".to_string(), Value::Null);
        }
        let (token, tok, clear) = match make_token(r, &claims, &marks, bound, i % 2 == 0) {
            Some(x) => x,
            None => continue,
        };
        let redact = redaction_set(r, &claims, &marks);
        let (kb, verifier) = if bound {
            (json!({"aud": "https://verifier.example", "alg": "RS256"}), json!({"kbpol": {"alg": "RS256", "aud": "https://verifier.example"}}))
        } else {
            (Value::Null, json!({"kbpol": Value::Null}))
        };
        // one unbound case in four is a session on one Holder: build, redact more, build, redact more, build
        let staged = !bound && i % 4 == 3 && !redact.is_empty();
        let mut case = present_case(&tok, &token, &clear, &redact, kb, if staged { 3 } else { 1 }, verifier);
        if staged {
            let cut1 = r.below(redact.len());
            let cut2 = cut1 + r.below(redact.len() - cut1 + 1);
            case["redact"] = json!(redact[..cut1].to_vec());
            case["redact_after"] = json!([redact[cut1..cut2].to_vec(), redact[cut2..].to_vec()]);
            case["tag"] = json!("staged_redaction");
        }
        em.case("present", case);
    }
}

/// large documents through Holder::presentation -> redact (many paths) -> build -> Verifier::verify
pub fn generate_large(seed: u64, n: usize, judge_disclosures: bool, em: &mut Emitter) {
    let mut r = Rng::new(seed ^ 0xC02_1A26E);
    for v in 0..n {
        let mut rc = r.fork();
        let r = &mut rc;
        let (claims, marks) = gen::large_claims_and_marking(r, v);
        let (token, tok, clear) = match make_token(r, &claims, &marks, false, v % 2 == 0) {
            Some(x) => x,
            None => continue,
        };
        // many redactions, or all of them, or none
        let redact: Vec<String> = match v % 3 {
            0 => marks.iter().filter(|_| r.chance(1, 2)).map(gen::render).collect(),
            1 => marks.iter().map(gen::render).collect(),
            _ => vec![],
        };
        let mut case = present_case(&tok, &token, &clear, &redact, Value::Null, 1, json!({"kbpol": Value::Null}));
        case["judge_disclosures"] = json!(judge_disclosures);
        case["nontrivial"] = json!(true);
        case["tag"] = json!("large_document");
        em.case("present", case);
    }
}
