//! C09: the holder's key-binding JWT commits to exactly the presentation it is attached to.
use super::c02::{make_token, present_case, redaction_set};
use super::*;
use crate::gen;
use crate::rng::Rng;
use crate::Emitter;

pub fn generate(thorough: bool, seed: u64, em: &mut Emitter) {
    let mut r = Rng::new(seed ^ 0xC09);
    let n = if thorough { 6_000 } else { 800 };
    for i in 0..n {
        let mut rc = r.fork();
        let r = &mut rc;
        let (claims, marks) = gen::claims_and_marking(r, i, 3, 3);
        // claims of the credential that carry the names of KB-JWT claims (never disclosable here): the KB-JWT the
        // holder builds takes nothing from them - in particular its iat is the current time even when the
        // credential itself is post-dated
        let mut claims = claims;
        let mut marks = marks;
        if i % 8 == 5 && claims.get("portrait").is_none() {
            // a portrait of 3 to 12 KB: the text the key-binding JWT commits to is longer than any block of a streaming hasher
            let len = 3_000 + r.below(9_000);
            claims.as_object_mut().unwrap().insert("portrait".to_string(), json!(gen::long_text(r, len)));
            if r.chance(2, 3) {
                marks.insert(0, vec![gen::Tok::Key("portrait".to_string())]);
            }
        }
        if i % 3 == 1 {
            let now = std::time::SystemTime::now().duration_since(std::time::UNIX_EPOCH).unwrap().as_secs() as i64;
            let m = claims.as_object_mut().unwrap();
            if !marks.iter().any(|p| matches!(p.first(), Some(gen::Tok::Key(k)) if ["iat", "nonce", "aud", "sd_hash", "nbf"].contains(&k.as_str()))) {
                m.insert("iat".to_string(), r.pick(&[json!(now + 300), json!(now + 86_400 * 3650), json!(now - 1000), json!(0), json!("soon"), json!(1.5e12)]).clone());
                if r.chance(1, 2) {
                    m.insert("nonce".to_string(), json!("credential-nonce"));
                    m.insert("aud".to_string(), json!("credential-audience"));
                    m.insert("sd_hash".to_string(), json!("AAAA"));
                    m.insert("nbf".to_string(), json!(now - 5));
                }
            }
        }
        let (mut token, mut tok, mut clear) = match make_token(r, &claims, &marks, true, i % 3 == 0) {
            Some(x) => x,
            None => continue,
        };
        let mut undeclared = false;
        if i % 3 != 0 && tok.alg != "sha-256" && i % 4 == 1 {
            // a foreign issuer hashed with sha-384 / sha-512 but left _sd_alg out: the SD-JWT then DECLARES sha-256 (the
            // default); no disclosure is referenced under it, and the key-binding JWT commits under sha-256
            tok.payload.as_object_mut().unwrap().remove("_sd_alg");
            let jwt = super::common::sign_hs256(&tok.payload);
            let ds: Vec<String> = token.split('~').skip(1).filter(|s| !s.is_empty()).map(|s| s.to_string()).collect();
            token = super::common::presentation_string(&jwt, &ds, "");
            // under sha-256 none of the disclosures is referenced: what the verifier returns is the payload without bookkeeping
            let mut stripped = tok.payload.clone();
            strip_bookkeeping(&mut stripped);
            clear = stripped;
            tok.alg = "sha-256".to_string();
            undeclared = true;
        }
        let redact = if undeclared { vec![] } else { redaction_set(r, &claims, &marks) };
        let alg = *r.pick(&["RS256", "RS384", "RS512", "PS256", "PS384", "PS512"]);
        let aud = r.pick(&["https://verifier.example", "aud2", "", "é/~ ü"]).to_string();
        let kb = json!({"aud": aud, "alg": alg});
        let verifier = match r.below(4) {
            0 => json!({"kbpol": {"alg": alg}}),                               // no audience configured
            1 => json!({"kbpol": {"alg": alg, "aud": "some-other-audience"}}), // audience mismatch: must be rejected
            _ => json!({"kbpol": {"alg": alg, "aud": aud}}),
        };
        let mut case = present_case(&tok, &token, &clear, &redact, kb, 3, verifier);
        case["judge_disclosures"] = json!(!undeclared);
        case["nontrivial"] = json!(true);
        if undeclared {
            // nothing is referenced under the declared (default) algorithm: no disclosure is opened, presented or reported
            case["expect"]["claims"] = clear.clone();
            case["expect"]["marks"] = json!([]);
            case["expect"]["present"] = json!([]);
            case["expect"]["paths"] = json!([]);
            case["expect"]["strings"] = json!([]);
            case["tag"] = json!("digest_algorithm_not_declared");
        }
        if i % 160 == 6 {
            // the Holder is prepared first and builds a good second later (and again later for the repeated builds):
            // iat is the time of each build(), not of key_binding()
            case["sleep_ms"] = json!(1100);
            case["tag"] = json!("build_later_than_key_binding");
        }
        if i % 5 == 2 {
            // key_binding called twice on the same Holder with different parameters: the KB-JWT is built from the
            // parameters supplied last
            let other_alg = *r.pick(&["RS256", "RS384", "RS512", "PS256", "PS384", "PS512"]);
            case["kb_first"] = json!({"aud": *r.pick(&["https://typo.example", "aud2", "x"]), "alg": other_alg});
            case["tag"] = json!("key_binding_called_twice");
        }
        if i % 2 == 1 && !redact.is_empty() {
            // staged: build, redact some more on the same Holder, build again (twice); each KB-JWT must commit to
            // the presentation it is attached to, and the last build is the presentation for the whole set
            let cut1 = r.below(redact.len() + 1);
            let cut2 = cut1 + r.below(redact.len() - cut1 + 1);
            case["redact"] = json!(redact[..cut1].to_vec());
            case["redact_after"] = json!([redact[cut1..cut2].to_vec(), redact[cut2..].to_vec()]);
            case["tag"] = json!("staged_redaction");
        }
        em.case("present", case);
    }
}


/// removes _sd members and placeholder elements (what is left of a payload none of whose disclosures is opened)
fn strip_bookkeeping(v: &mut Value) {
    match v {
        Value::Object(m) => {
            m.remove("_sd");
            for c in m.values_mut() {
                strip_bookkeeping(c);
            }
        }
        Value::Array(a) => {
            a.retain(|x| !(x.is_object() && x.get("...").map_or(false, |d| d.is_string())));
            for c in a.iter_mut() {
                strip_bookkeeping(c);
            }
        }
        _ => {}
    }
}
