//! C14: issuing is total, side-effect free and repeatable.
use super::c01::issue_case;
use super::*;
use crate::gen::{self, Tok};
use crate::rng::Rng;
use crate::Emitter;

pub fn generate(thorough: bool, seed: u64, em: &mut Emitter) {
    // encode succeeds whatever the SIZE of valid claims: values of several KB, hundreds of paths, long arrays
    super::c01::generate_large(seed ^ 14, if thorough { 48 } else { 16 }, em);
    let mut r = Rng::new(seed ^ 0xC14);
    let n = if thorough { 40_000 } else { 3_000 };
    for i in 0..n {
        let mut rc = r.fork();
        let r = &mut rc;
        let depth = 2 + r.below(2) as u32;
        let claims = gen::gen_object(r, depth, 3, 1);
        let marks = gen::gen_marking(r, &claims, false);
        let decoy = if r.chance(1, 2) { Some(r.below(54) as i64 - 3) } else { None };
        let calls = 1 + r.below(3);
        let mut case = issue_case(&claims, &marks, decoy, r.chance(1, 8), "HS256", calls);
        if i % 2 == 1 {
            // exactly one invalid path, of one kind, at a random position of the list
            let kind = *r.pick(&["unknown_member", "index_out_of_range", "non_numeric_index", "no_leading_slash", "empty_path",
                                 "inside_disclosed", "through_scalar", "member_of_array", "negative_index", "index_overflow", "reserved_name",
                                 "into_digest_list", "repeat_array_element", "repeat_member", "into_placeholder", "cnf_path_with_key_binding", "own_cnf_with_key_binding",
                                 "whitespace_around_path"]);
            let nodes = gen::all_nodes(&claims);
            let mut paths: Vec<String> = marks.iter().map(gen::render).collect();
            let bad: Option<(String, usize)> = match kind {
                "unknown_member" => Some(("/no_such_member".to_string(), r.below(paths.len() + 1))),
                "no_leading_slash" => nodes.first().map(|p| (gen::render(p)[1..].to_string(), r.below(paths.len() + 1))).filter(|(s, _)| !s.is_empty() && !s.starts_with('/')), // "/" + "" + "/A" minus its first character is the valid pointer "//A"
                "empty_path" => Some((String::new(), r.below(paths.len() + 1))),
                // white space is part of a path: in front of the first '/' the path has no leading slash, behind the last
                // token it names another member (none of the generated names ends in white space) or no index
                "whitespace_around_path" => nodes.first().map(|p| {
                    let s = gen::render(p);
                    let w = match r.below(6) { 0 => format!(" {}", s), 1 => format!("\n{}", s), 2 => format!("{} ", s), 3 => format!("{}\t", s), 4 => format!("\u{a0}{}", s), _ => format!("{}\n", s) };
                    (w, r.below(paths.len() + 1))
                }),
                "index_out_of_range" | "non_numeric_index" | "member_of_array" | "negative_index" | "index_overflow" => {
                    // needs an array that is still reachable (not inside a marked node) at the chosen position: put it first
                    let arrays: Vec<&gen::TPath> = nodes.iter().filter(|p| gen::resolve(&claims, p).map_or(false, |v| v.is_array())).collect();
                    if arrays.is_empty() {
                        None
                    } else {
                        let a = *r.pick(&arrays);
                        let len = gen::resolve(&claims, a).unwrap().as_array().unwrap().len();
                        let tail = match kind {
                            "index_out_of_range" => format!("{}", len + r.below(3)),
                            "non_numeric_index" => r.pick(&["x", "1x", "", " 1", "0x0", "1.0"]).to_string(),
                            "member_of_array" => "a".to_string(),
                            "negative_index" => "-1".to_string(),
                            _ => "18446744073709551616".to_string(),
                        };
                        Some((format!("{}/{}", gen::render(a), tail), 0))
                    }
                }
                "through_scalar" => {
                    let scalars: Vec<&gen::TPath> = nodes.iter().filter(|p| gen::resolve(&claims, p).map_or(false, |v| !v.is_array() && !v.is_object())).collect();
                    if scalars.is_empty() { None } else { Some((format!("{}/x", gen::render(*r.pick(&scalars))), 0)) }
                }
                "inside_disclosed" => {
                    // a path below an already listed one (ancestor before descendant)
                    let deep: Vec<&gen::TPath> = nodes.iter().filter(|p| p.len() >= 2).collect();
                    if deep.is_empty() {
                        None
                    } else {
                        let d = (*r.pick(&deep)).clone();
                        let anc = d[..d.len() - 1].to_vec();
                        // list: ancestor first, then the descendant; drop conflicting marks
                        paths.retain(|p| !p.starts_with(&gen::render(&anc)));
                        paths.push(gen::render(&anc));
                        Some((gen::render(&d), paths.len()))
                    }
                }
                "into_digest_list" | "repeat_array_element" | "repeat_member" | "into_placeholder" => {
                    // paths that resolve only in the issuer's working copy, into digest bookkeeping created by an
                    // earlier path of the same list: no member or element of the claims is addressed by them
                    let want_idx = kind == "repeat_array_element" || kind == "into_placeholder";
                    let cands: Vec<&gen::TPath> = nodes.iter().filter(|p| matches!(p.last(), Some(Tok::Idx(_))) == want_idx).collect();
                    if cands.is_empty() {
                        None
                    } else {
                        let first = (*r.pick(&cands)).clone();
                        let fs = gen::render(&first);
                        // keep only marks that do not interfere with `first`
                        paths.retain(|p| !p.starts_with(&fs) && !fs.starts_with(p.as_str()));
                        paths.push(fs.clone());
                        let parent = gen::render(&first[..first.len() - 1].to_vec());
                        let second = match kind {
                            "into_digest_list" => format!("{}/_sd/0", parent),
                            "into_placeholder" => format!("{}/...", fs),
                            _ => fs.clone(),
                        };
                        Some((second, paths.len()))
                    }
                }
                "cnf_path_with_key_binding" => {
                    // the holder key the issuer adds under cnf is not a claim of the caller: with key binding
                    // required, "/cnf" (or a path into it) addresses no member of the claims and is an error
                    if case["claims"].get("cnf").is_some() {
                        None
                    } else {
                        case["cnf"] = json!(true);
                        Some((r.pick(&["/cnf", "/cnf/n", "/cnf/kty"]).to_string(), r.below(paths.len() + 1)))
                    }
                }
                "own_cnf_with_key_binding" => {
                    // the caller's claims carry a cnf member and key binding is required: refused (repair F21)
                    let mut c = claims.clone();
                    c.as_object_mut().unwrap().insert("cnf".to_string(), json!({"kty": "caller-supplied"}));
                    case["claims"] = c;
                    case["cnf"] = json!(true);
                    if r.chance(1, 2) {
                        paths.push("/cnf".to_string());
                        case["paths"] = json!(paths);
                    }
                    case["expect_issue"] = json!("err");
                    case["tag"] = json!(kind);
                    case["nontrivial"] = json!(true);
                    em.case("issue", case);
                    continue;
                }
                "reserved_name" => {
                    // the claims themselves use a reserved name: refused whatever the paths are (repair F19)
                    let mut c = claims.clone();
                    gen::plant_reserved_name(r, &mut c);
                    case["claims"] = c;
                    case["expect_issue"] = json!("err");
                    case["tag"] = json!(kind);
                    case["nontrivial"] = json!(true);
                    em.case("issue", case);
                    continue;
                }
                _ => None,
            };
            match bad {
                None => continue,
                Some((p, pos)) => {
                    let pos = pos.min(paths.len());
                    paths.insert(pos, p);
                    case["paths"] = json!(paths);
                    case["expect_issue"] = json!("err");
                    case["tag"] = json!(kind);
                    case["nontrivial"] = json!(true);
                }
            }
        } else {
            case["nontrivial"] = json!(calls > 1 || decoy.map_or(false, |d| d <= 0) || marks.iter().all(|m| m.len() > 1 || matches!(m.last(), Some(Tok::Idx(_)))));
            if marks.is_empty() {
                case["path_triples"] = json!([]);
            }
            // also lifetimes no date can hold: the request must not panic (the recorded value then saturates)
            let lifetimes = [0i64, 1, 60, 3600, -5, 86_400 * 365, i64::MAX, i64::MIN, i64::MAX / 1000 + 1, i64::MAX - 1_000_000];
            if r.chance(1, 4) {
                case["exp_in"] = json!(*r.pick(&lifetimes));
            }
            if calls > 1 && r.chance(1, 2) {
                // the same issuer object is asked for another lifetime between two encode() calls
                let seq: Vec<Value> = (0..calls).map(|i| if i > 0 && r.chance(2, 3) { json!(*r.pick(&lifetimes)) } else { Value::Null }).collect();
                case["exp_in_seq"] = json!(seq);
                case["nontrivial"] = json!(true);
            }
            if r.chance(1, 6) {
                // the caller's claims already carry an (unmarked) exp member
                if let Some(m) = case["claims"].as_object_mut() {
                    if !marks.iter().any(|p| p.first() == Some(&Tok::Key("exp".to_string()))) {
                        m.insert("exp".to_string(), json!(*r.pick(&[1i64, 1_700_000_000, 4_102_444_800])));
                    }
                }
            }
        }
        em.case("issue", case);
        if i % 25 == 7 {
            // a last token that spells an array index non-canonically ("01", "+1"): Rust's usize::from_str accepts it, a JSON
            // pointer does not have it. Whether the issuer takes it or refuses it is not fixed by the property; but a path it
            // takes is a disclosable claim like any other: hidden in the SD-JWT, reported to the holder (as /arr/1)
            let nodes = gen::all_nodes(&claims);
            let arrays: Vec<&gen::TPath> = nodes.iter().filter(|p| gen::resolve(&claims, p).map_or(false, |v| v.as_array().map_or(false, |a| !a.is_empty()))).collect();
            if let Some(a) = arrays.first() {
                let len = gen::resolve(&claims, a).unwrap().as_array().unwrap().len();
                let idx = r.below(len);
                let spelled = if r.chance(1, 2) { format!("0{}", idx) } else { format!("+{}", idx) };
                let mut m: gen::TPath = (*a).clone();
                m.push(Tok::Idx(idx));
                let mut c = issue_case(&claims, &[m], None, false, "HS256", 1);
                c["paths"] = json!([format!("{}/{}", gen::render(a), spelled)]);
                c["expect_issue"] = json!("ok_or_err");
                c["tag"] = json!("noncanonical_last_index");
                c["nontrivial"] = json!(true);
                em.case("issue", c);
            }
        }
        if i % 25 == 11 && claims.get("exp").is_none() {
            // expires_in_seconds(n) writes the claim exp; that claim can be made disclosable like any other
            let mut marks2 = marks.clone();
            marks2.retain(|p| p.first() != Some(&Tok::Key("exp".to_string())));
            marks2.push(vec![Tok::Key("exp".to_string())]);
            let mut c = issue_case(&claims, &marks2, if r.chance(1, 2) { Some(3) } else { None }, false, "HS256", 1 + r.below(2));
            c["exp_in"] = json!(3600 + r.below(1000) as i64);
            // the value of exp is the clock's: the triple is matched on path and name only
            let mut triples = c["path_triples"].as_array().cloned().unwrap_or_default();
            if let Some(last) = triples.last_mut() {
                *last = json!(["/exp", "exp"]);
            }
            c["path_triples"] = json!(triples);
            c["tag"] = json!("exp_disclosable_after_expires_in_seconds");
            c["nontrivial"] = json!(true);
            em.case("issue", c);
        }
        if i % 20 == 3 {
            // claims that are not a JSON object cannot be the payload of a JWT: issuing returns an error (repair F29), whatever
            // paths, decoys or key binding were asked for - and never panics
            let root = r.pick(&[json!([1, 2]), json!(null), json!("s"), json!([{"a": 1}]), json!(5), json!(true), json!([])]).clone();
            let paths: Vec<&str> = if root.is_array() && r.chance(1, 2) { vec!["/0"] } else { vec![] };
            let mut c = issue_case(&root, &[], if r.chance(1, 3) { Some(2) } else { None }, r.chance(1, 3), "HS256", 1);
            c["paths"] = json!(paths);
            c["expect_issue"] = json!("err");
            c["tag"] = json!("non_object_root");
            c["nontrivial"] = json!(true);
            em.case("issue", c);
        }
    }
}

/// Path spellings and claims at the edge of "valid marking", as issue cases for the properties that speak about what an
/// issued SD-JWT hides and reports (C01 C06 C07): a non-canonical last array index, and the claim exp made disclosable
/// after expires_in_seconds.
pub fn generate_edge_paths(seed: u64, n: usize, em: &mut Emitter) {
    let mut r = Rng::new(seed ^ 0xC14_ED6E);
    for i in 0..n {
        let mut rc = r.fork();
        let r = &mut rc;
        let claims = gen::gen_object(r, 2, 3, 1);
        if i % 2 == 0 {
            let nodes = gen::all_nodes(&claims);
            let arrays: Vec<&gen::TPath> = nodes.iter().filter(|p| gen::resolve(&claims, p).map_or(false, |v| v.as_array().map_or(false, |a| !a.is_empty()))).collect();
            if let Some(a) = arrays.first() {
                let len = gen::resolve(&claims, a).unwrap().as_array().unwrap().len();
                let idx = r.below(len);
                let spelled = if r.chance(1, 2) { format!("0{}", idx) } else { format!("+{}", idx) };
                let mut m: gen::TPath = (*a).clone();
                m.push(Tok::Idx(idx));
                let mut c = issue_case(&claims, &[m], None, false, "HS256", 1);
                c["paths"] = json!([format!("{}/{}", gen::render(a), spelled)]);
                c["expect_issue"] = json!("ok_or_err");
                c["tag"] = json!("noncanonical_last_index");
                c["nontrivial"] = json!(true);
                em.case("issue", c);
            }
        } else if claims.get("exp").is_none() {
            let mut marks = gen::gen_marking(r, &claims, false);
            marks.retain(|p| p.first() != Some(&Tok::Key("exp".to_string())));
            marks.push(vec![Tok::Key("exp".to_string())]);
            let mut c = issue_case(&claims, &marks, if r.chance(1, 2) { Some(3) } else { None }, false, "HS256", 1 + r.below(2));
            c["exp_in"] = json!(3600 + r.below(1000) as i64);
            let mut triples = c["path_triples"].as_array().cloned().unwrap_or_default();
            if let Some(last) = triples.last_mut() {
                *last = json!(["/exp", "exp"]);
            }
            c["path_triples"] = json!(triples);
            c["tag"] = json!("exp_disclosable_after_expires_in_seconds");
            c["nontrivial"] = json!(true);
            em.case("issue", c);
        }
    }
}
