//! C01: issuance round trip returns exactly the original claims and their paths.
use super::*;
use crate::gen;
use crate::rng::Rng;
use crate::Emitter;

pub fn issue_case(claims: &Value, marks: &[gen::TPath], decoy: Option<i64>, cnf: bool, alg: &str, calls: usize) -> Value {
    let paths: Vec<String> = marks.iter().map(gen::render).collect();
    let triples: Vec<Value> = marks
        .iter()
        .map(|m| {
            let key = match m.last() {
                Some(gen::Tok::Key(k)) => json!(k),
                _ => Value::Null,
            };
            // the value is part of the expectation when nothing below this node is marked as well
            let nested = marks.iter().any(|q| q.len() > m.len() && gen::is_prefix(m, q));
            if nested {
                json!([gen::render(m), key])
            } else {
                json!([gen::render(m), key, gen::resolve(claims, m).cloned().unwrap_or(Value::Null)])
            }
        })
        .collect();
    let cnf_value = sdjwt::Jwk::from_value(crate::keys::rsa_jwk()).ok().map(|j| serde_json::to_value(&*j).unwrap_or(Value::Null));
    json!({
        "claims": claims, "paths": paths, "decoy": decoy, "cnf": cnf, "cnf_value": cnf_value, "alg": alg, "calls": calls,
        "expect_issue": "ok",
        "marks": Value::Array(marks.iter().map(gen::tpath_json).collect()),
        "path_triples": triples,
        "nontrivial": gen::marking_nontrivial(marks),
    })
}

/// large documents: long arrays, wide objects, more than 255 disclosures, long names and values (disclosures of several KB),
/// deep nesting, hundreds of decoys
pub fn generate_large(seed: u64, n: usize, em: &mut Emitter) {
    let mut r = Rng::new(seed ^ 0xC01_B16);
    for v in 0..n {
        let mut rc = r.fork();
        let (claims, marks) = gen::large_claims_and_marking(&mut rc, v);
        let decoy = match v % 4 { 0 => Some(300 + rc.below(700) as i64), 1 => Some(2), _ => None };
        let mut c = issue_case(&claims, &marks, decoy, false, "HS256", 1 + (v / 8) % 2);
        c["tag"] = json!("large_document");
        c["nontrivial"] = json!(true);
        em.case("issue", c);
    }
}

pub fn generate(thorough: bool, seed: u64, em: &mut Emitter) {
    // bounded-exhaustive first: every claims object with <= 3 (thorough: 4) nodes and every marking of it
    super::small::generate_issue(if thorough { 4 } else { 3 }, em);
    super::c14::generate_edge_paths(seed, 40, em);
    generate_large(seed, if thorough { 64 } else { 16 }, em);
    let mut r = Rng::new(seed ^ 0xC01);
    let n = if thorough { 60_000 } else { 3_000 };
    for i in 0..n {
        let mut rc = r.fork();
        let r = &mut rc;
        let depth = if thorough { 2 + r.below(3) as u32 } else { 2 + r.below(2) as u32 };
        let (claims, marks) = gen::claims_and_marking(r, i, depth, 3);
        if marks.is_empty() {
            continue;
        }
        let decoy = match r.below(4) {
            0 => Some(1),
            1 => Some(5),
            _ => None,
        };
        let alg = if i % 50 == 7 { *r.pick(&crate::keys::ALL_ALGS) } else { "HS256" };
        em.case("issue", issue_case(&claims, &marks, decoy, r.chance(1, 6), alg, 1));
    }
}
