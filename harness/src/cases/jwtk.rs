//! Kinds "bstep" (one Validation builder step) and "decode" (crate::decode, Holder::verify, Verifier::verify
//! on a compact JWT under a policy and a key). Generators for C04, C11, C16.
use super::common::*;
use super::*;
use crate::indep;
use crate::keys;
use crate::rng::Rng;
use crate::Emitter;
use sdjwt::{Algorithm, Header, Holder, KeyForDecoding, KeyForEncoding, Validation, Verifier};
use std::collections::{BTreeSet, HashSet, VecDeque};

pub fn algorithm(name: &str) -> Algorithm {
    serde_json::from_value(json!(name)).expect("algorithm name")
}
pub fn alg_name(a: &Algorithm) -> String {
    serde_json::to_value(a).unwrap().as_str().unwrap().to_string()
}

fn set_json(s: &Option<HashSet<String>>) -> Value {
    match s {
        None => Value::Null,
        Some(h) => {
            let b: BTreeSet<&String> = h.iter().collect();
            json!(b)
        }
    }
}

pub fn policy_json(v: &Validation) -> Value {
    json!({
        "required": set_json(&v.required_spec_claims), "leeway": v.leeway, "validate_exp": v.validate_exp,
        "validate_nbf": v.validate_nbf, "validate_aud": v.validate_aud, "aud": set_json(&v.aud),
        "iss": v.iss, "sub": v.sub, "alg": alg_name(&v.algorithms),
    })
}

fn set_of(j: &Value) -> Option<HashSet<String>> {
    j.as_array().map(|a| a.iter().filter_map(|x| x.as_str().map(|s| s.to_string())).collect())
}

/// built by field assignment so that builder defects do not interfere with what is being measured
pub fn policy_from_json(j: &Value) -> Validation {
    let mut v = Validation::new(algorithm(j["alg"].as_str().unwrap_or("RS256")));
    v.required_spec_claims = set_of(&j["required"]);
    v.leeway = j["leeway"].as_u64().unwrap_or(0);
    v.validate_exp = j["validate_exp"].as_bool().unwrap_or(true);
    v.validate_nbf = j["validate_nbf"].as_bool().unwrap_or(false);
    v.validate_aud = j["validate_aud"].as_bool().unwrap_or(true);
    v.aud = set_of(&j["aud"]);
    v.iss = j["iss"].as_str().map(|s| s.to_string());
    v.sub = j["sub"].as_str().map(|s| s.to_string());
    v
}

pub fn apply_step(v: Validation, step: &Value) -> Validation {
    let arg = step[1].as_str().unwrap_or("");
    match step[0].as_str().unwrap_or("") {
        "without_expiry" => v.without_expiry(),
        "with_audience" => v.with_audience(arg),
        "with_issuer" => v.with_issuer(arg),
        "with_subject" => v.with_subject(arg),
        "with_leeway" => v.with_leeway(step[1].as_u64().unwrap_or(0)),
        "with_algorithm" => v.with_algorithm(algorithm(arg)),
        "with_required_claim" => v.with_required_claim(arg),
        _ => v,
    }
}

pub fn exec_bstep(input: &Value) -> Value {
    let v = policy_from_json(&input["policy"]);
    json!({ "policy": outcome_total(|| apply_step(v, &input["step"]), |p| policy_json(&p)) })
}

pub fn steps_alphabet() -> Vec<Value> {
    vec![
        json!(["without_expiry"]),
        json!(["with_audience", "aud1"]), json!(["with_audience", "https://rp.example/cb/"]),
        json!(["with_issuer", "iss1"]), json!(["with_issuer", "https://issuer.example/"]),
        json!(["with_subject", "sub1"]), json!(["with_subject", " Sub/2 "]),
        json!(["with_leeway", 0]), json!(["with_leeway", 60]),
        json!(["with_algorithm", "HS256"]), json!(["with_algorithm", "ES256"]), json!(["with_algorithm", "PS384"]),
        json!(["with_required_claim", "exp"]), json!(["with_required_claim", "nonce"]),
    ]
}

/// all policies reachable from new(alg)/default() by the step alphabet (breadth first, to closure)
pub fn reachable_policies() -> Vec<Value> {
    let mut seen: BTreeSet<String> = BTreeSet::new();
    let mut queue: VecDeque<Value> = VecDeque::new();
    let mut out = Vec::new();
    for start in [policy_json(&Validation::default()), policy_json(&Validation::new(Algorithm::HS256)), policy_json(&Validation::new(Algorithm::ES256))] {
        if seen.insert(start.to_string()) {
            queue.push_back(start);
        }
    }
    let steps = steps_alphabet();
    while let Some(p) = queue.pop_front() {
        out.push(p.clone());
        for s in &steps {
            // the model's step (frame condition) is what defines reachability here; use the spec'd semantics
            let mut q = p.clone();
            match s[0].as_str().unwrap() {
                "without_expiry" => q["validate_exp"] = json!(false),
                "with_audience" => q["aud"] = json!([s[1]]),
                "with_issuer" => q["iss"] = s[1].clone(),
                "with_subject" => q["sub"] = s[1].clone(),
                "with_leeway" => q["leeway"] = s[1].clone(),
                "with_algorithm" => q["alg"] = s[1].clone(),
                "with_required_claim" => {
                    let mut set: BTreeSet<String> = q["required"].as_array().map(|a| a.iter().map(|x| x.as_str().unwrap().to_string()).collect()).unwrap_or_default();
                    set.insert(s[1].as_str().unwrap().to_string());
                    q["required"] = json!(set);
                }
                _ => {}
            }
            if seen.insert(q.to_string()) {
                queue.push_back(q);
            }
        }
    }
    out
}

// ---------------------------------------------------------------- decode
pub fn decoding_key(spec: &Value) -> Option<KeyForDecoding> {
    match spec["kind"].as_str()? {
        "secret" => Some(KeyForDecoding::from_secret(spec["value"].as_str()?.as_bytes())),
        "secret_pem_of" => Some(KeyForDecoding::from_secret(keys::pub_pem(spec["alg"].as_str()?))), // a public key's PEM bytes used as HMAC secret
        "rsa" => KeyForDecoding::from_rsa_pem(keys::pub_pem("RS256")).ok(),
        // the same RSA key handed over as modulus and exponent (how a key arrives in a JWK)
        "rsa_components" => {
            let jwk = keys::rsa_jwk();
            let n = crate::indep::b64url_decode(jwk["n"].as_str()?)?;
            let mut e = crate::indep::b64url_decode(jwk["e"].as_str()?)?;
            // "e": the same exponent with leading zero octets (the same key), or another exponent that agrees with it in its
            // low octets (another key: nothing it is asked to verify was signed for it)
            match spec["e"].as_str() {
                Some("padded") => { e.insert(0, 0); e.insert(0, 0); }
                Some("padded8") => { while e.len() < 9 { e.insert(0, 0); } }
                Some("high_octet") => { e.insert(0, 1); }                                  // e + 2^24 (65537 has three octets)
                Some("beyond_u32") => { while e.len() < 4 { e.insert(0, 0); } e.insert(0, 1); }  // e + 2^32
                Some("beyond_u64") => { while e.len() < 8 { e.insert(0, 0); } e.insert(0, 1); }  // e + 2^64
                Some("beyond_u128") => { while e.len() < 16 { e.insert(0, 0); } e.insert(0, 3); }
                _ => {}
            }
            KeyForDecoding::from_rsa_components(&n, &e).ok()
        }
        "ec" => KeyForDecoding::from_ec_pem(keys::pub_pem(spec["alg"].as_str()?)).ok(),
        _ => None,
    }
}

pub fn family_of(spec: &Value) -> &'static str {
    match spec["kind"].as_str().unwrap_or("") {
        "secret" | "secret_pem_of" => "secret",
        "rsa" | "rsa_components" => "rsa",
        "ec" => "ec",
        _ => "other",
    }
}

const HEADER_STR_FIELDS: [&str; 7] = ["typ", "cty", "jku", "kid", "x5u", "x5t", "x5t_s256"];
const HEADER_LIST_FIELDS: [&str; 2] = ["x5c", "crit"];

/// what the JWT library's typed header keeps of a header object (None = does not deserialise)
pub fn normalise_header(h: &Value) -> Option<Value> {
    let o = h.as_object()?;
    let alg = o.get("alg")?.as_str()?;
    if !keys::ALL_ALGS.contains(&alg) {
        return None;
    }
    let mut out = serde_json::Map::new();
    out.insert("alg".to_string(), json!(alg));
    for f in HEADER_STR_FIELDS {
        match o.get(f) {
            None | Some(Value::Null) => {}
            Some(Value::String(s)) => {
                out.insert(f.to_string(), json!(s));
            }
            _ => return None,
        }
    }
    for f in HEADER_LIST_FIELDS {
        match o.get(f) {
            None | Some(Value::Null) => {}
            Some(Value::Array(a)) if a.iter().all(|x| x.is_string()) => {
                out.insert(f.to_string(), json!(a));
            }
            _ => return None,
        }
    }
    match o.get("jwk") {
        None | Some(Value::Null) => {}
        Some(_) => return None, // embedded JWKs are outside every generator of this harness
    }
    Some(Value::Object(out))
}

pub fn parse_jwt(token: &str) -> Value {
    let parts: Vec<&str> = token.split('.').collect();
    if parts.len() != 3 {
        return Value::Null;
    }
    let (h, p, s) = (indep::b64url_decode(parts[0]), indep::b64url_decode(parts[1]), indep::b64url_decode(parts[2]));
    if h.is_none() || p.is_none() || s.is_none() {
        return Value::Null;
    }
    let hv: Option<Value> = serde_json::from_slice(&h.unwrap()).ok();
    let pv: Option<Value> = serde_json::from_slice(&p.unwrap()).ok();
    match (hv.as_ref().and_then(normalise_header), pv) {
        (Some(h), Some(p)) => json!([h, p]),
        _ => Value::Null,
    }
}

pub fn exec_decode(input: &Value) -> Value {
    let token = input["token"].as_str().unwrap_or("").to_string();
    let policy = policy_from_json(&input["policy"]);
    let key = match decoding_key(&input["key"]) {
        Some(k) => k,
        None => return json!({"decode": {"o": "err"}, "hverify": Value::Null, "vverify": Value::Null}),
    };
    // the SD-JWT string handed to holder and verifier: the bare token followed by '~' unless the case names another one
    let sd = input["sd"].as_str().map(String::from).unwrap_or_else(|| format!("{}~", token));
    let with_sd = input["with_sd"].as_bool().unwrap_or(true);
    json!({
        "decode": outcome(|| sdjwt::decode(&token, &key, &policy), |(h, p)| json!([h, p])),
        "hverify": if with_sd { outcome(|| Holder::verify(&sd, &key, &policy), |(h, c, _)| json!([h, c])) } else { Value::Null },
        "vverify": if with_sd { outcome(|| Verifier::verify(&sd, &key, &policy, &None), |(h, c)| json!([h, c])) } else { Value::Null },
    })
}

pub fn now() -> u64 {
    std::time::SystemTime::now().duration_since(std::time::UNIX_EPOCH).unwrap().as_secs()
}

pub fn signing_key(alg: &str) -> KeyForEncoding {
    if alg.starts_with("HS") {
        KeyForEncoding::from_secret(SECRET)
    } else {
        keys::pair(alg).0
    }
}
pub fn matching_key_spec(alg: &str) -> Value {
    if alg.starts_with("HS") {
        json!({"kind": "secret", "value": std::str::from_utf8(SECRET).unwrap()})
    } else if alg.starts_with("ES") {
        json!({"kind": "ec", "alg": alg})
    } else {
        json!({"kind": "rsa"})
    }
}

/// a decode case for a token signed by the harness with `alg`; `sig_intact` says whether the three
/// segments are still exactly what was signed and the key is the matching one
pub fn decode_case(token: &str, policy: &Value, key: &Value, signed_alg: &str, sig_intact: bool, expect: &str, expect_sd: &str, nontrivial: bool) -> Value {
    json!({
        "token": token, "policy": policy, "key": key, "family": family_of(key),
        "parse": parse_jwt(token),
        "sig_ok_algs": if sig_intact { json!([signed_alg]) } else { json!([]) },
        "now": now(), "expect": expect, "expect_sd": expect_sd, "nontrivial": nontrivial, "with_sd": true,
    })
}

// ---------------------------------------------------------------- C11
pub fn generate_c11(thorough: bool, seed: u64, em: &mut Emitter) {
    // (0) the key-binding policy handed to Verifier::verify is a Validation as well: its algorithm and audience
    // are enforced on the KB-JWT, and nothing inside the token (a JWK "alg" member, say) overrides them
    super::c05::generate_kinds(super::c05::POLICY_KINDS, if thorough { 800 } else { 160 }, seed, em);
    let mut r = Rng::new(seed ^ 0xC11);
    let policies = reachable_policies();
    let steps = steps_alphabet();
    // (i) every transition of the closure
    for p in &policies {
        for s in &steps {
            em.case("bstep", json!({"policy": p, "step": s}));
        }
    }
    // (ii) enforcement: tokens satisfying all constraints and tokens violating exactly one
    let n = if thorough { policies.len() } else { 300 };
    for i in 0..n {
        // sampled per policy: the +-30 s margins below must hold when the case is executed, however long the run takes
        let t = now();
        let mut p = if thorough { policies[i].clone() } else { r.pick(&policies).clone() };
        if r.chance(1, 3) {
            p["validate_nbf"] = json!(true); // not reachable through the builder, but a public field
        }
        let alg = p["alg"].as_str().unwrap().to_string();
        let leeway = p["leeway"].as_u64().unwrap();
        let mut good = serde_json::Map::new();
        good.insert("_sd_alg".into(), json!("sha-256"));
        good.insert("exp".into(), json!(t + 300));
        good.insert("nbf".into(), json!(t - 300));
        good.insert("nonce".into(), json!("n"));
        good.insert("aud".into(), if r.chance(1, 2) { json!(p["aud"][0].as_str().unwrap_or("aud1")) } else { json!(["other", p["aud"][0].as_str().unwrap_or("aud1")]) });
        good.insert("iss".into(), json!(p["iss"].as_str().unwrap_or("iss1")));
        good.insert("sub".into(), json!(p["sub"].as_str().unwrap_or("sub1")));
        let violations: Vec<(&str, Box<dyn Fn(&mut serde_json::Map<String, Value>)>, bool)> = vec![
            ("none", Box::new(|_| {}), false),
            ("exp_past", Box::new(move |m| { m.insert("exp".into(), json!(t - leeway - 30)); }), p["validate_exp"] == true),
            ("exp_within_leeway", Box::new(move |m| { m.insert("exp".into(), json!(t - leeway + 30)); }), false),
            ("exp_missing", Box::new(|m| { m.remove("exp"); }), p["validate_exp"] == true || p["required"].as_array().map_or(false, |a| a.contains(&json!("exp")))),
            ("exp_string", Box::new(move |m| { m.insert("exp".into(), json!((t + 300).to_string())); }), p["validate_exp"] == true),
            ("nbf_future", Box::new(move |m| { m.insert("nbf".into(), json!(t + leeway + 30)); }), p["validate_nbf"] == true),
            ("nbf_within_leeway", Box::new(move |m| { m.insert("nbf".into(), json!(t + leeway.saturating_sub(30))); }), false),
            ("nbf_missing", Box::new(|m| { m.remove("nbf"); }), p["validate_nbf"] == true),
            ("aud_other", Box::new(|m| { m.insert("aud".into(), json!("nobody")); }), !p["aud"].is_null()),
            ("aud_array_other", Box::new(|m| { m.insert("aud".into(), json!(["nobody", 5])); }), !p["aud"].is_null()),
            ("aud_missing", Box::new(|m| { m.remove("aud"); }), !p["aud"].is_null()),
            ("iss_other", Box::new(|m| { m.insert("iss".into(), json!("someone-else")); }), !p["iss"].is_null()),
            ("iss_missing", Box::new(|m| { m.remove("iss"); }), !p["iss"].is_null()),
            ("sub_other", Box::new(|m| { m.insert("sub".into(), json!("someone-else")); }), !p["sub"].is_null()),
            ("sub_missing", Box::new(|m| { m.remove("sub"); }), !p["sub"].is_null()),
            ("required_missing", Box::new(|m| { m.remove("nonce"); }), p["required"].as_array().map_or(false, |a| a.contains(&json!("nonce")))),
        ];
        let key_spec = matching_key_spec(&alg);
        let ek = signing_key(&alg);
        for (tag, f, rejected) in violations.iter() {
            let mut m = good.clone();
            f(&mut m);
            let payload = Value::Object(m);
            let token = sdjwt::encode(&Header::new(algorithm(&alg)), &payload, &ek).expect("sign");
            let exp = if *rejected { "reject" } else { "accept" };
            let mut c = decode_case(&token, &p, &key_spec, &alg, true, exp, exp, *tag != "none");
            c["tag"] = json!(tag);
            em.case("decode", c);
        }
        // the policy's algorithm is enforced: a token signed under another algorithm of the same family is rejected
        let other = match alg.as_str() { "HS256" => "HS384", "ES256" => "ES384", "PS384" => "PS256", _ => "RS384" };
        let token = sdjwt::encode(&Header::new(algorithm(other)), &Value::Object(good.clone()), &signing_key(other)).expect("sign");
        let mut c = decode_case(&token, &p, &matching_key_spec(other), other, true, "reject", "reject", true);
        c["tag"] = json!("other_algorithm");
        em.case("decode", c);
    }
}

// ---------------------------------------------------------------- C04
fn sample_payload() -> Value {
    json!({"_sd_alg": "sha-256", "sub": "user_42", "n": 7})
}

fn der_integer(b: &[u8]) -> Vec<u8> {
    let mut v: Vec<u8> = b.iter().copied().skip_while(|x| *x == 0).collect();
    if v.is_empty() || v[0] & 0x80 != 0 {
        v.insert(0, 0);
    }
    let mut out = vec![0x02, v.len() as u8];
    out.extend(v);
    out
}

/// ASN.1 DER Ecdsa-Sig-Value ::= SEQUENCE { r INTEGER, s INTEGER }
fn der_signature(r: &[u8], s: &[u8]) -> Vec<u8> {
    let mut body = der_integer(r);
    body.extend(der_integer(s));
    let mut out = vec![0x30];
    if body.len() < 128 {
        out.push(body.len() as u8);
    } else {
        out.push(0x81);
        out.push(body.len() as u8);
    }
    out.extend(body);
    out
}

fn hex(s: &str) -> Vec<u8> {
    (0..s.len() / 2).map(|i| u8::from_str_radix(&s[2 * i..2 * i + 2], 16).unwrap()).collect()
}

/// order of the base point, big endian, as long as one half of a raw signature
fn curve_order(alg: &str) -> Option<Vec<u8>> {
    match alg {
        "ES256" => Some(hex("FFFFFFFF00000000FFFFFFFFFFFFFFFFBCE6FAADA7179E84F3B9CAC2FC632551")),
        "ES256K" => Some(hex("FFFFFFFFFFFFFFFFFFFFFFFFFFFFFFFEBAAEDCE6AF48A03BBFD25E8CD0364141")),
        "ES384" => Some(hex("FFFFFFFFFFFFFFFFFFFFFFFFFFFFFFFFFFFFFFFFFFFFFFFFC7634D81F4372DDF581A0DB248B0A77AECEC196ACCC52973")),
        "ES512" => Some(hex("01FFFFFFFFFFFFFFFFFFFFFFFFFFFFFFFFFFFFFFFFFFFFFFFFFFFFFFFFFFFFFFFFFFFFFFFFFFFFFFFFFFFFFFFFFFFFFFFFFFFA51868783BF2F966B7FCC0148F709A5D03BB5C9B8899C47AEBB6FB71E91386409")),
        _ => None,
    }
}

/// a - b for big-endian byte strings of equal length, a >= b
fn be_sub(a: &[u8], b: &[u8]) -> Vec<u8> {
    let mut out = vec![0u8; a.len()];
    let mut borrow = 0i16;
    for i in (0..a.len()).rev() {
        let mut d = a[i] as i16 - b[i] as i16 - borrow;
        if d < 0 {
            d += 256;
            borrow = 1;
        } else {
            borrow = 0;
        }
        out[i] = d as u8;
    }
    out
}

pub fn generate_c04(thorough: bool, seed: u64, em: &mut Emitter) {
    let mut r = Rng::new(seed ^ 0xC04);
    let no_exp = |alg: &str| json!({"alg": alg, "aud": null, "iss": null, "leeway": 0, "required": null, "sub": null,
                                     "validate_aud": true, "validate_exp": false, "validate_nbf": false});
    for alg in keys::ALL_ALGS {
        let token = sdjwt::encode(&Header::new(algorithm(alg)), &sample_payload(), &signing_key(alg)).expect("sign");
        // the untouched token under the right key and algorithm
        let mut c = decode_case(&token, &no_exp(alg), &matching_key_spec(alg), alg, true, "accept", "accept", false);
        c["tag"] = json!("untouched");
        em.case("decode", c);
        // (a) mutations: every position (thorough) or sampled positions (quick), substitution and bit flip
        let bytes = token.as_bytes();
        let positions: Vec<usize> = if thorough { (0..bytes.len()).collect() } else { (0..200).map(|_| r.below(bytes.len())).collect() };
        for p in positions {
            for kind in 0..2 {
                let mut b = bytes.to_vec();
                if b[p] == b'.' {
                    if kind == 1 { continue; }
                    b[p] = b'A'; // a separator replaced: two segments
                } else if kind == 0 {
                    b[p] = if b[p] == b'A' { b'B' } else { b'A' };
                } else {
                    b[p] ^= 1 << r.below(7);
                }
                let m = match String::from_utf8(b) { Ok(s) => s, Err(_) => continue };
                if m == token { continue; }
                let mut c = decode_case(&m, &no_exp(alg), &matching_key_spec(alg), alg, false, "reject", "reject", true);
                c["tag"] = json!(if kind == 0 { "substitution" } else { "bitflip" });
                em.case("decode", c);
            }
        }
        // (a') the SD-JWT string around the untouched JWT is not byte-exact either: white space before the header
        // segment or after the signature segment (files, environment variables and copy/paste add it) must not be
        // forgiven by holder or verifier
        for (pre, post) in [(" ", "~"), ("\n", "~"), ("\t", "~"), ("\r\n", "~"), ("", " ~"), ("", "\n~"), ("", " "), ("", "\n"), ("", "\r\n"), (" ", ""), ("\u{a0}", "~"), ("", "\u{2028}~")] {
            let sd = format!("{}{}{}", pre, token, post);
            let mut c = decode_case(&token, &no_exp(alg), &matching_key_spec(alg), alg, true, "accept", "reject", true);
            c["sd"] = json!(sd);
            c["tag"] = json!("sd_string_not_byte_exact");
            em.case("decode", c);
        }
        // (a3) other spellings of the signature segment: the last base64url character carries 2 or 4 filler bits when the
        // signature length is not a multiple of 3, so some other last characters decode to the same octets under a
        // lenient decoder; padding characters and a trailing dot are further respellings. None of them is the
        // byte-exact issuer-signed JWT
        {
            const B64: &[u8; 64] = b"ABCDEFGHIJKLMNOPQRSTUVWXYZabcdefghijklmnopqrstuvwxyz0123456789-_";
            let last = *token.as_bytes().last().unwrap();
            for c in B64.iter().filter(|c| **c != last) {
                let mut m = token[..token.len() - 1].to_string();
                m.push(*c as char);
                let mut cse = decode_case(&m, &no_exp(alg), &matching_key_spec(alg), alg, false, "reject", "reject", true);
                cse["tag"] = json!("signature_last_character");
                em.case("decode", cse);
            }
            for suffix in ["=", "==", ".", "\n", " "] {
                let m = format!("{}{}", token, suffix);
                let mut cse = decode_case(&m, &no_exp(alg), &matching_key_spec(alg), alg, false, "reject", "reject", true);
                cse["tag"] = json!("signature_segment_respelled");
                em.case("decode", cse);
            }
        }
        // (a'') ECDSA: other byte strings for "the same" signature. JWS fixes the signature to the raw R||S octets of
        // the signer; a DER re-encoding of (r, s), and the mirrored signature (r, n - s), are changed signature bytes
        if alg.starts_with("ES") {
            let segs: Vec<&str> = token.split('.').collect();
            if let Some(raw) = indep::b64url_decode(segs[2]) {
                let half = raw.len() / 2;
                let (rb, sb) = (&raw[..half], &raw[half..]);
                let mut variants: Vec<(&str, Vec<u8>)> = vec![("ecdsa_der_signature", der_signature(rb, sb))];
                if let Some(n) = curve_order(alg) {
                    if n.len() == sb.len() {
                        let mut mirrored = rb.to_vec();
                        mirrored.extend(be_sub(&n, sb));
                        variants.push(("ecdsa_s_negated", mirrored));
                    }
                }
                for (tag, sig) in variants {
                    let m = format!("{}.{}.{}", segs[0], segs[1], indep::b64url_encode(&sig));
                    let mut c = decode_case(&m, &no_exp(alg), &matching_key_spec(alg), alg, false, "reject", "reject", true);
                    c["tag"] = json!(tag);
                    em.case("decode", c);
                }
            }
        }
        // (a3) HMAC: keys that are "the same secret" in another spelling are other keys: the base64url / base64 / hex
        // text of the secret, the secret with a trailing newline, without its last byte, reversed, upper-cased
        if alg.starts_with("HS") {
            use base64::Engine;
            let k = SECRET;
            let mut related: Vec<Vec<u8>> = vec![
                indep::b64url_encode(k).into_bytes(),
                base64::engine::general_purpose::STANDARD.encode(k).into_bytes(),
                k.iter().map(|b| format!("{:02x}", b)).collect::<String>().into_bytes(),
                [k, b"\n"].concat(),
                k[..k.len() - 1].to_vec(),
                k.iter().rev().copied().collect(),
                k.to_ascii_uppercase(),
                [b" ", k].concat(),
            ];
            related.retain(|x| x.as_slice() != k);
            for rk in related {
                if let Ok(text) = String::from_utf8(rk) {
                    let key = json!({"kind": "secret", "value": text});
                    let mut c = decode_case(&token, &no_exp(alg), &key, alg, false, "reject", "reject", true);
                    c["tag"] = json!("related_hmac_key");
                    em.case("decode", c);
                }
            }
        }
        // (a4) HMAC keys of every length class (shorter than, equal to and longer than the hash's block size): a token
        // signed by an independent HMAC implementation under K verifies under K, and the library's own signature
        // is byte for byte the independent one (no private canonicalisation of the key on either side)
        if alg.starts_with("HS") {
            for len in [1usize, 16, 32, 48, 63, 64, 65, 100, 127, 128, 129, 200, 300] {
                let k: String = (0..len).map(|i| (b'a' + (i % 23) as u8) as char).collect();
                let key = json!({"kind": "secret", "value": k});
                let lib_token = sdjwt::encode(&Header::new(algorithm(alg)), &sample_payload(), &KeyForEncoding::from_secret(k.as_bytes())).expect("sign");
                let segs: Vec<&str> = lib_token.split('.').collect();
                let signing_input = format!("{}.{}", segs[0], segs[1]);
                let indep_token = format!("{}.{}", signing_input, indep::b64url_encode(&indep::hmac(alg, k.as_bytes(), signing_input.as_bytes())));
                let same = indep_token == lib_token;
                let mut c = decode_case(&indep_token, &no_exp(alg), &key, alg, true, "accept", "accept", true);
                c["tag"] = json!(if same { "hmac_key_length" } else { "hmac_library_signature_differs_from_rfc2104" });
                if !same {
                    // the library signed something else than HMAC(K, input): its own token is then not the issuer-signed
                    // JWT an independent verifier accepts
                    c["expect"] = json!("accept");
                }
                em.case("decode", c);
                let mut c2 = decode_case(&lib_token, &no_exp(alg), &key, alg, same, if same { "accept" } else { "reject" }, if same { "accept" } else { "reject" }, true);
                c2["tag"] = json!("hmac_key_length_library_signed");
                em.case("decode", c2);
            }
        }
        // (a4) an expired credential: with expiry validation on, holder and verifier reject the authentic token (expired) and,
        // all the more, every forgery of it - an expired forged token is not "merely expired"
        {
            let with_exp = json!({"alg": alg, "aud": null, "iss": null, "leeway": 0, "required": null, "sub": null,
                                  "validate_aud": true, "validate_exp": true, "validate_nbf": false});
            let mut payload = sample_payload();
            payload["exp"] = json!(now() - 1000);
            let expired = sdjwt::encode(&Header::new(algorithm(alg)), &payload, &signing_key(alg)).expect("sign");
            let mut c = decode_case(&expired, &with_exp, &matching_key_spec(alg), alg, true, "reject", "reject", true);
            c["tag"] = json!("expired_authentic");
            em.case("decode", c);
            let bytes = expired.as_bytes();
            for _ in 0..6 {
                let p = r.below(bytes.len());
                if bytes[p] == b'.' { continue; }
                let mut b = bytes.to_vec();
                b[p] = if b[p] == b'A' { b'B' } else { b'A' };
                if let Ok(m) = String::from_utf8(b) {
                    let mut c = decode_case(&m, &with_exp, &matching_key_spec(alg), alg, false, "reject", "reject", true);
                    c["tag"] = json!("expired_forged");
                    em.case("decode", c);
                }
            }
            for kalg in ["HS256", "ES256", "RS256"] {
                if matching_key_spec(kalg) == matching_key_spec(alg) { continue; }
                let mut c = decode_case(&expired, &with_exp, &matching_key_spec(kalg), alg, false, "reject", "reject", true);
                c["tag"] = json!("expired_wrong_key");
                em.case("decode", c);
            }
        }
        // (b) every key with every configured algorithm
        for kalg in keys::ALL_ALGS {
            for palg in keys::ALL_ALGS {
                let key = matching_key_spec(kalg);
                let right_key = key == matching_key_spec(alg);
                let ok = right_key && palg == alg;
                if ok && kalg != alg { continue; } // same key under another name: already covered
                let mut c = decode_case(&token, &no_exp(palg), &key, alg, right_key, if ok { "accept" } else { "reject" }, if ok { "accept" } else { "reject" }, !ok);
                c["tag"] = json!("matrix");
                em.case("decode", c);
            }
        }
        // (b') the RSA key handed over as modulus and exponent (KeyForDecoding::from_rsa_components, how a key taken from
        // a JWK arrives) under every configured algorithm: only the token's own algorithm verifies
        if alg.starts_with("RS") || alg.starts_with("PS") {
            for palg in keys::ALL_ALGS {
                let ok = *palg == *alg;
                let mut c = decode_case(&token, &no_exp(palg), &json!({"kind": "rsa_components"}), alg, true, if ok { "accept" } else { "reject" }, if ok { "accept" } else { "reject" }, true);
                c["tag"] = json!("matrix_rsa_components");
                em.case("decode", c);
            }
            for (variant, same_key) in [("padded", true), ("padded8", true), ("high_octet", false), ("beyond_u32", false), ("beyond_u64", false), ("beyond_u128", false)] {
                let exp = if same_key { "accept" } else { "reject" };
                let mut c = decode_case(&token, &no_exp(alg), &json!({"kind": "rsa_components", "e": variant}), alg, same_key, exp, exp, true);
                c["tag"] = json!(format!("rsa_components_exponent_{}", variant));
                em.case("decode", c);
            }
        }
        // (c) a public key's PEM bytes used as HMAC secret, under every HMAC policy and the token's own algorithm
        if !alg.starts_with("HS") {
            for palg in ["HS256", "HS384", "HS512", alg] {
                let key = json!({"kind": "secret_pem_of", "alg": alg});
                let mut c = decode_case(&token, &no_exp(palg), &key, alg, false, "reject", "reject", true);
                c["tag"] = json!("public_key_as_hmac_secret");
                em.case("decode", c);
            }
            // header rewritten to HS256 and re-signed with the public key's PEM as secret (algorithm confusion);
            // the verifier configured for the real algorithm and the real key must reject it
            let forged = sdjwt::encode(&Header::new(Algorithm::HS256), &sample_payload(), &KeyForEncoding::from_secret(keys::pub_pem(alg))).expect("sign");
            let mut c = decode_case(&forged, &no_exp(alg), &matching_key_spec(alg), "HS256", false, "reject", "reject", true);
            c["tag"] = json!("alg_confusion");
            em.case("decode", c);
        }
    }
}

// ---------------------------------------------------------------- C16
const H_FIELDS: [&str; 9] = ["typ", "cty", "jku", "kid", "x5u", "x5c", "x5t", "x5t_s256", "crit"];

fn header_value(r: &mut Rng, field: &str, class: usize) -> Value {
    // realistic vocabulary per field: values a library might be tempted to normalise
    let realistic: &[&str] = match field {
        "typ" | "cty" => &["application/json", "application/example+sd-jwt", "application/jwt", "JWT", "jwt", "sd-jwt", "sd+jwt", "kb+jwt",
                           "application/a/b", "APPLICATION/JSON", "application/", "/json", "application/json; charset=utf-8", " json"],
        "jku" | "x5u" => &["https://issuer.example/jwks.json", "HTTPS://Issuer.Example:443/a/../jwks", "http://localhost/%7Ekeys", "https://issuer.example/jwks.json#frag"],
        "kid" => &["2024-key-1", "0", "key id with spaces", "did:example:123#key-1", "KEY", "key"],
        // 27 and 43 characters: what base64url of a SHA-1 / SHA-256 thumbprint looks like - under either member
        "x5t" | "x5t_s256" => &["dGh1bWJwcmludA", "dGh1bWJwcmludA==", "DGH1BWJWCMLUDA", "-_-_",
                                "2jmj7l5rSw0yVb_vlWAYkK_YBwk", "47DEQpj8HBSa-_TImW-5JCeuQeRkm5NMpJWZG3hSuFU",
                                "2jmj7l5rSw0yVb_vlWAYkK_YBwk=", "47DEQpj8HBSa-_TImW-5JCeuQeRkm5NMpJWZG3hSuFU="],
        // crit entries: extension names, claim names, and the names of the registered header parameters themselves
        // (a producer should not list those, but what the issuer was configured with is what must come back)
        _ => &["exp", "b64", "http://example.invalid/UNDEFINED", "EXP", "alg", "typ", "kid", "crit", "x5t#S256", "x5t_s256", "cty", "jwk", "x5c", "jku", "x5u", "x5t"],
    };
    // certificate chain entries are standard base64 of DER: a SEQUENCE (0x30 0x82 len len ...), "MII..." in text
    let der_like = || {
        use base64::Engine;
        let mut der = vec![0x30u8, 0x82, 0x01, 0x0a, 0x02, 0x82, 0x01, 0x01, 0x00];
        der.extend((0..(3 + (field.len() % 3))).map(|i| (i * 37 + 11) as u8));
        base64::engine::general_purpose::STANDARD.encode(der)
    };
    let s = match class {
        5 | 6 if field == "x5c" => der_like(),
        5 | 6 => realistic[r.below(realistic.len())].to_string(),
        0 => format!("{}-value", field),
        1 => String::new(),
        2 => format!("é{}ü/~", field),
        3 => format!("q\"uo\\te {}", field),
        _ => format!("{}{}", field, "x".repeat(200 + r.below(50))),
    };
    if field == "x5c" || field == "crit" {
        // lists are sequences: order and repetitions are part of the value (a certificate chain may name the
        // same certificate twice, next to each other or not)
        let t = if class >= 5 && field == "crit" { realistic[r.below(realistic.len())].to_string() } else { format!("{}-2", field) };
        match r.below(7) {
            0 => json!([]),
            1 => json!([s]),
            2 => json!([s, s]),
            3 => json!([s, t, t, "third"]),
            4 => json!([s, t, s]),
            5 => json!([t, s]),
            _ => json!([s, t, "third"]),
        }
    } else {
        json!(s)
    }
}

pub fn generate_c16(thorough: bool, seed: u64, em: &mut Emitter) {
    let mut r = Rng::new(seed ^ 0xC16);
    let no_exp = |alg: &str| json!({"alg": alg, "aud": null, "iss": null, "leeway": 0, "required": null, "sub": null,
                                     "validate_aud": true, "validate_exp": false, "validate_nbf": false});
    let mut plan: Vec<(String, usize)> = Vec::new();
    let rounds = if thorough { 30 } else { 2 };
    for _ in 0..rounds {
        for subset in 0..512usize {
            plan.push(("HS256".to_string(), subset));
        }
    }
    for alg in keys::ALL_ALGS {
        for _ in 0..(if thorough { 64 } else { 12 }) {
            plan.push((alg.to_string(), r.below(512)));
        }
    }
    for (alg, subset) in plan {
        let mut h = Header::new(algorithm(&alg));
        h.typ = None;
        let mut expect = serde_json::Map::new();
        expect.insert("alg".into(), json!(alg));
        let shared_class = r.below(7);
        let per_field = r.chance(1, 2);
        for (i, f) in H_FIELDS.iter().enumerate() {
            if subset & (1 << i) == 0 {
                continue;
            }
            // one value class for the whole header, or an independent one per field (members derived from,
            // or normalised by looking at, another member need realistic values next to each other)
            let class = if per_field { r.below(7) } else { shared_class };
            let v = header_value(&mut r, f, class);
            expect.insert(f.to_string(), v.clone());
            let s = v.as_str().map(|x| x.to_string());
            let l: Option<Vec<String>> = v.as_array().map(|a| a.iter().map(|x| x.as_str().unwrap().to_string()).collect());
            match *f {
                "typ" => h.typ = s,
                "cty" => h.cty = s,
                "jku" => h.jku = s,
                "kid" => h.kid = s,
                "x5u" => h.x5u = s,
                "x5c" => h.x5c = l,
                "x5t" => h.x5t = s,
                "x5t_s256" => h.x5t_s256 = s,
                "crit" => h.crit = l,
                _ => {}
            }
        }
        // through the issuer: Issuer::header(h) ... encode
        // one issuer in eight signs with a key of another family than the header's algorithm asks for: the issuer may refuse,
        // but a token it does issue carries the configured header - alg included - and nothing else
        let misfit: Option<&str> = if r.chance(1, 8) {
            let other = if alg.starts_with("ES") { "HS256" } else if alg.starts_with("HS") { "ES256" } else { *r.pick(&["ES256", "HS256"]) };
            Some(other)
        } else {
            None
        };
        // one issuer in three was configured with another header first (every member set): header() replaces the
        // header, nothing of the earlier one may survive into the token
        let replaced = r.chance(1, 3);
        let case_only = !replaced && misfit.is_none() && r.chance(1, 3);
        // ... or issued once under a wholly different header and then given K headers in a row, the last one being the final one
        let many: Option<usize> = if !replaced && !case_only && misfit.is_none() && r.chance(1, 2) { Some(*r.pick(&[2usize, 16, 17, 255, 256, 257, 512, 65_536])) } else { None };
        let token = catch_unwind(AssertUnwindSafe(|| {
            let mut iss = sdjwt::Issuer::new(json!({"a": 1, "b": "two"})).ok()?;
            iss.disclosable("/a");
            if replaced {
                let mut first = Header::new(algorithm(&alg));
                first.typ = Some("first+jwt".to_string());
                first.cty = Some("first".to_string());
                first.jku = Some("https://first.example/jwks".to_string());
                first.kid = Some("first-key".to_string());
                first.x5u = Some("https://first.example/cert".to_string());
                first.x5c = Some(vec!["Rmlyc3Q=".to_string()]);
                first.x5t = Some("first-x5t".to_string());
                first.x5t_s256 = Some("first-x5t-s256".to_string());
                first.crit = Some(vec!["first".to_string()]);
                iss.header(first);
            }
            if case_only {
                // the same issuer object issued once under a header that differs from the final one only in the letter case
                // of typ / cty, then was given the final header
                let mut first = h.clone();
                first.typ = h.typ.as_ref().map(|t| t.to_uppercase());
                first.cty = h.cty.as_ref().map(|t| t.to_uppercase());
                if first.typ == h.typ { first.typ = h.typ.as_ref().map(|t| t.to_lowercase()); }
                if first.cty == h.cty { first.cty = h.cty.as_ref().map(|t| t.to_lowercase()); }
                iss.header(first);
                let _ = iss.encode(&signing_key(&alg));
            }
            if let Some(k) = many {
                let mut first = Header::new(algorithm(&alg));
                first.typ = Some("first+jwt".to_string());
                first.kid = Some("first-key".to_string());
                first.crit = Some(vec!["first".to_string()]);
                iss.header(first.clone());
                let _ = iss.encode(&signing_key(&alg));
                for j in 0..k - 1 {
                    let mut between = first.clone();
                    between.kid = Some(format!("between-{}", j));
                    iss.header(between);
                }
            }
            iss.header(h.clone());
            iss.encode(&signing_key(misfit.unwrap_or(&alg))).ok()
        }));
        let sdjwt_str = match token {
            Ok(Some(t)) => t,
            _ if misfit.is_some() => continue, // refusing the misfit is fine
            _ => {
                em.case("decode", json!({"token": "", "policy": no_exp(&alg), "key": matching_key_spec(&alg), "family": "other", "parse": null,
                                          "sig_ok_algs": [], "now": now(), "expect": "accept", "expect_sd": "accept", "nontrivial": true, "tag": "issuer_failed"}));
                continue;
            }
        };
        let jwt = sdjwt_str.split('~').next().unwrap().to_string();
        if let Some(other) = misfit {
            // issued although the key does not fit: whoever can verify it (the key that signed, the algorithm the token names)
            // must be handed the header the issuer was configured with
            let named = parse_jwt(&jwt)[0]["alg"].as_str().unwrap_or(other).to_string();
            let mut c = decode_case(&jwt, &no_exp(&named), &matching_key_spec(other), &named, true, "any", "any", true);
            c["expect_header"] = Value::Object(expect);
            c["tag"] = json!("signing_key_does_not_fit_alg");
            em.case("decode", c);
            continue;
        }
        let mut c = decode_case(&jwt, &no_exp(&alg), &matching_key_spec(&alg), &alg, true, "accept", "accept", subset != 0);
        c["header_spec"] = Value::Object(expect.clone());
        c["expect_header"] = Value::Object(expect);
        if replaced {
            c["tag"] = json!("header_replaced");
        }
        if case_only {
            c["tag"] = json!("header_replaced_after_encode_case_only");
        }
        if let Some(k) = many {
            c["tag"] = json!(format!("header_replaced_{}_times_after_encode", k));
        }
        em.case("decode", c);
    }
}
