//! Pieces shared by the case kinds: HS256 signing of harness-made payloads, oracle tables, runners.
use super::*;
use crate::gen::{self, TPath};
use crate::indep;
use crate::refissuer::RefToken;
use sdjwt::{Algorithm, Header, Holder, KeyForDecoding, KeyForEncoding, Validation, Verifier};
use std::collections::BTreeSet;

pub const SECRET: &[u8] = b"verif-harness-hs256-secret";

pub fn sign_hs256(payload: &Value) -> String {
    sdjwt::encode(&Header::new(Algorithm::HS256), payload, &KeyForEncoding::from_secret(SECRET)).expect("HS256 signing")
}

pub fn hs_header() -> Value {
    json!({"alg": "HS256", "typ": "sd-jwt"})
}

/// policy for harness-signed tokens; fields are assigned directly so that builder defects do not interfere
pub fn hs_validation() -> Validation {
    let mut v = Validation::new(Algorithm::HS256);
    v.validate_exp = false;
    v
}

pub fn presentation_string(jwt: &str, ds: &[String], kb: &str) -> String {
    let mut s = jwt.to_string();
    for d in ds {
        s.push('~');
        s.push_str(d);
    }
    s.push('~');
    s.push_str(kb);
    s
}

/// oracle tables for a list of presented strings under the given algorithms
pub fn tables(strings: &[String], algs: &[&str]) -> (Value, Value) {
    let uniq: BTreeSet<&String> = strings.iter().collect();
    let mut h = Vec::new();
    let mut dec = Vec::new();
    for s in uniq {
        for a in algs {
            h.push(json!([a, s, indep::hash(a, s)]));
        }
        let parsed = indep::decode_json(s);
        dec.push(json!([s, parsed.map(|v| json!([v]))]));
    }
    (Value::Array(h), Value::Array(dec))
}

pub fn sorted_path_triples(paths: &[sdjwt::DisclosurePath]) -> Value {
    let mut ps: Vec<(String, Value)> = paths
        .iter()
        .map(|p| (p.path.clone(), json!([p.path, p.disclosure.key(), p.disclosure.value()])))
        .collect();
    ps.sort_by(|a, b| a.0.as_bytes().cmp(b.0.as_bytes()));
    Value::Array(ps.into_iter().map(|p| p.1).collect())
}

/// expectation block: claims in the clear, marks, which of them are presented, their path triples
pub fn expectation(tok: &RefToken, claims_clear: &Value, presented: &[String], mode: &str) -> Value {
    let marks: Vec<Value> = tok.discs.iter().map(|d| gen::tpath_json(&d.path)).collect();
    let present: Vec<bool> = tok.discs.iter().map(|d| presented.contains(&d.string)).collect();
    let paths: Vec<Value> = tok
        .discs
        .iter()
        .map(|d| json!([gen::render(&d.path), d.key, d.value]))
        .collect();
    let strings: Vec<&String> = tok.discs.iter().map(|d| &d.string).collect();
    json!({"mode": mode, "claims": claims_clear, "marks": marks, "present": present, "paths": paths, "strings": strings})
}

/// run the three consumers of a presentation string
pub fn kb_validation(cfg: &Value) -> Validation {
    let alg: Algorithm = serde_json::from_value(json!(cfg["alg"].as_str().unwrap_or("RS256"))).unwrap_or(Algorithm::RS256);
    let mut v = Validation::new(alg);
    v.validate_exp = false;
    if let Some(a) = cfg["aud"].as_str() {
        v.aud = Some(std::collections::HashSet::from([a.to_string()]));
    }
    v
}

pub fn run_verify(token: &str, kbpol: bool, kbcfg: &Value) -> Value {
    let key = KeyForDecoding::from_secret(SECRET);
    let val = hs_validation();
    let kbval = kb_validation(kbcfg);
    let kb_opt: Option<&Validation> = if kbpol { Some(&kbval) } else { None };
    json!({
        "hverify": outcome(|| Holder::verify(token, &key, &val), |(h, c, ps)| json!([h, c, sorted_path_triples(&ps)])),
        "vverify": outcome(|| Verifier::verify(token, &key, &val, &kb_opt), |(h, c)| json!([h, c])),
        "presentation": outcome(|| Holder::presentation(token).and_then(|h| h.build()), |s| json!(s)),
    })
}

pub fn exec_verify(input: &Value) -> Value {
    let token = input["token"].as_str().unwrap_or("");
    run_verify(token, input["kbpol"].as_bool().unwrap_or(false), &input["kbval"])
}

#[allow(dead_code)]
pub fn marks_json(marks: &[TPath]) -> Value {
    Value::Array(marks.iter().map(gen::tpath_json).collect())
}
