//! Kind "present": the holder flow. Holder::presentation(token) -> redact* -> key_binding? -> build (k times)
//! -> Verifier::verify of each built presentation. Serves C02, C06, C09 (and C08 with reference tokens).
use super::common::*;
use super::*;
use crate::gen::{self, TPath};
use crate::indep;
use crate::refissuer::{RefDisc, RefToken};
use sdjwt::{Algorithm, Holder, KeyForDecoding, KeyForEncoding, Validation, Verifier};

fn algorithm(name: &str) -> Algorithm {
    serde_json::from_value(json!(name)).expect("algorithm name")
}

/// issue with the library and describe the result like a reference token (discs in marking order)
pub fn lib_issue(claims: &Value, marks: &[TPath], cnf: bool, decoy: Option<i32>) -> Option<(String, RefToken)> {
    let mut iss = sdjwt::Issuer::new(claims.clone()).ok()?;
    for m in marks {
        iss.disclosable(&gen::render(m));
    }
    if let Some(d) = decoy {
        iss.decoy(d);
    }
    iss.header(sdjwt::Header::new(Algorithm::HS256));
    if cnf {
        iss.require_key_binding(sdjwt::Jwk::from_value(crate::keys::rsa_jwk()).ok()?);
    }
    let token = catch_unwind(AssertUnwindSafe(|| iss.encode(&KeyForEncoding::from_secret(SECRET)))).ok()?.ok()?;
    let parts: Vec<&str> = token.split('~').collect();
    if parts.len() != marks.len() + 2 {
        return None;
    }
    let payload = indep::decode_json(parts[0].split('.').nth(1)?)?;
    let mut discs = Vec::new();
    for (m, s) in marks.iter().zip(parts[1..].iter()) {
        let parsed = indep::decode_json(s)?;
        let arr = parsed.as_array()?;
        discs.push(RefDisc {
            path: m.clone(),
            string: s.to_string(),
            key: if arr.len() == 3 { arr[1].as_str().map(|x| x.to_string()) } else { None },
            value: arr.last()?.clone(),
            digest: indep::hash("sha-256", s),
        });
    }
    Some((token, RefToken { alg: "sha-256".to_string(), payload, discs, decoys: vec![] }))
}

/// independent RSA signature check of a compact JWT (PKCS#1 v1.5 and PSS, SHA-256/384/512)
pub fn rsa_verify(jwt: &str, alg: &str) -> bool {
    use rsa::pkcs8::DecodePublicKey;
    use rsa::signature::Verifier as _;
    let segs: Vec<&str> = jwt.split('.').collect();
    if segs.len() != 3 {
        return false;
    }
    let msg = format!("{}.{}", segs[0], segs[1]);
    let sig = match indep::b64url_decode(segs[2]) {
        Some(s) => s,
        None => return false,
    };
    let pem = std::str::from_utf8(crate::keys::pub_pem("RS256")).unwrap();
    let key = match rsa::RsaPublicKey::from_public_key_pem(pem) {
        Ok(k) => k,
        Err(_) => return false,
    };
    macro_rules! pkcs {
        ($h:ty) => {{
            let vk = rsa::pkcs1v15::VerifyingKey::<$h>::new(key.clone());
            rsa::pkcs1v15::Signature::try_from(sig.as_slice()).map_or(false, |s| vk.verify(msg.as_bytes(), &s).is_ok())
        }};
    }
    macro_rules! pss {
        ($h:ty) => {{
            let vk = rsa::pss::VerifyingKey::<$h>::new(key.clone());
            rsa::pss::Signature::try_from(sig.as_slice()).map_or(false, |s| vk.verify(msg.as_bytes(), &s).is_ok())
        }};
    }
    match alg {
        "RS256" => pkcs!(sha2::Sha256),
        "RS384" => pkcs!(sha2::Sha384),
        "RS512" => pkcs!(sha2::Sha512),
        "PS256" => pss!(sha2::Sha256),
        "PS384" => pss!(sha2::Sha384),
        "PS512" => pss!(sha2::Sha512),
        _ => false,
    }
}

/// every decoded segment of a presentation, as text, for the confidentiality oracle
pub fn decoded_segments(p: &str) -> Vec<String> {
    let mut out = Vec::new();
    let dec = |s: &str| indep::b64url_decode(s).map(|b| String::from_utf8_lossy(&b).to_string());
    for (i, seg) in p.split('~').enumerate() {
        if seg.contains('.') || i == 0 {
            for part in seg.split('.').take(2) {
                if let Some(t) = dec(part) {
                    out.push(t);
                }
            }
        } else if !seg.is_empty() {
            match dec(seg) {
                Some(t) => out.push(t),
                None => out.push(seg.to_string()),
            }
        }
    }
    out
}

pub fn exec_present(input: &Value) -> Value {
    let token = input["token"].as_str().unwrap_or("").to_string();
    let redact: Vec<String> = input["redact"].as_array().map(|a| a.iter().map(|p| p.as_str().unwrap_or("").to_string()).collect()).unwrap_or_default();
    let builds = input["builds"].as_u64().unwrap_or(1) as usize;
    let kb = &input["kb"];
    let holder = catch_unwind(AssertUnwindSafe(|| -> Result<Holder, sdjwt::Error> {
        let mut h = Holder::presentation(&token)?;
        for r in &redact {
            h.redact(r)?;
        }
        // an earlier key_binding call on the same Holder (a corrected typo, another verifier): the last call counts
        if input["kb_first"].is_object() {
            let f = &input["kb_first"];
            let alg = f["alg"].as_str().unwrap_or("RS256");
            let (ek, _) = crate::keys::pair(alg);
            h.key_binding(f["aud"].as_str().unwrap_or(""), &ek, algorithm(alg))?;
        }
        if kb.is_object() {
            let alg = kb["alg"].as_str().unwrap_or("RS256");
            let (ek, _) = crate::keys::pair(alg);
            h.key_binding(kb["aud"].as_str().unwrap_or(""), &ek, algorithm(alg))?;
        }
        Ok(h)
    }));
    let mut holder = match holder {
        Err(_) => return json!({"presentation": {"o": "panic"}, "builds": []}),
        Ok(Err(_)) => return json!({"presentation": {"o": "err"}, "builds": []}),
        Ok(Ok(h)) => h,
    };
    let key = KeyForDecoding::from_secret(SECRET);
    let val = hs_validation();
    let vp = &input["verifier"];
    let kbval: Option<Validation> = if vp["kbpol"].is_object() {
        let mut v = Validation::new(algorithm(vp["kbpol"]["alg"].as_str().unwrap_or("RS256")));
        v.validate_exp = false;
        if let Some(a) = vp["kbpol"]["aud"].as_str() {
            v.aud = Some(std::collections::HashSet::from([a.to_string()]));
        }
        Some(v)
    } else {
        None
    };
    let kb_opt: Option<&Validation> = kbval.as_ref();
    let mut outs = Vec::new();
    for i in 0..builds {
        if i > 0 {
            // "redact_after"[i-1]: paths redacted on the same Holder between build i-1 and build i
            if let Some(extra) = input["redact_after"].get(i - 1).and_then(|v| v.as_array()) {
                for p in extra {
                    let _ = holder.redact(p.as_str().unwrap_or(""));
                }
            }
        }
        // "sleep_ms": the holder object is prepared (presentation, redact, key_binding) some time before it builds; the
        // KB-JWT's iat is the time of build(), so the clock is read again right before every build
        if let Some(ms) = input["sleep_ms"].as_u64() {
            std::thread::sleep(std::time::Duration::from_millis(ms));
        }
        let t0 = std::time::SystemTime::now().duration_since(std::time::UNIX_EPOCH).unwrap().as_secs();
        let b = catch_unwind(AssertUnwindSafe(|| holder.build()));
        match b {
            Err(_) => outs.push(json!({"build": {"o": "panic"}})),
            Ok(Err(_)) => outs.push(json!({"build": {"o": "err"}})),
            Ok(Ok(p)) => {
                let t1 = std::time::SystemTime::now().duration_since(std::time::UNIX_EPOCH).unwrap().as_secs();
                let last = p.rsplit('~').next().unwrap_or("").to_string();
                let prefix = &p[..p.len() - last.len()];
                let kbinfo = if last.is_empty() {
                    Value::Null
                } else {
                    let segs: Vec<&str> = last.split('.').collect();
                    let header = segs.first().and_then(|s| indep::decode_json(s)).unwrap_or(Value::Null);
                    let claims = segs.get(1).and_then(|s| indep::decode_json(s)).unwrap_or(Value::Null);
                    let alg = header["alg"].as_str().unwrap_or("").to_string();
                    let sig_ok = rsa_verify(&last, &alg);
                    // does the verifier's key-binding policy accept it (algorithm, audience)?
                    let policy_ok = vp["kbpol"].is_object()
                        && vp["kbpol"]["alg"].as_str() == Some(alg.as_str())
                        && vp["kbpol"]["aud"].as_str().map_or(true, |a| claims["aud"].as_str() == Some(a));
                    json!({"jwt": last, "header": header, "claims": claims, "sig_ok": sig_ok, "policy_ok": policy_ok,
                           "H": indep::ALGS.iter().map(|a| json!([a, prefix, indep::hash(a, prefix)])).collect::<Vec<_>>()})
                };
                let vv = outcome(|| Verifier::verify(&p, &key, &val, &kb_opt), |(h, c)| json!([h, c]));
                outs.push(json!({"build": {"o": "ok", "v": p}, "kb": kbinfo, "verify": vv, "t0": t0, "t1": t1,
                                 "decoded": decoded_segments(&p)}));
            }
        }
    }
    json!({"presentation": {"o": "ok"}, "builds": outs})
}

/// Turns a present case into a session now and then: the redactions spread over three builds on the same Holder, an
/// earlier key_binding call with other parameters. The expectations of the case describe the final state, which is what
/// the last build is judged against; earlier builds are judged by model agreement, framing and the key-binding oracle.
pub fn decorate_session(r: &mut crate::rng::Rng, case: &mut Value) {
    let redact: Vec<Value> = case["redact"].as_array().cloned().unwrap_or_default();
    if case["redact_after"].is_null() && !redact.is_empty() && r.chance(1, 5) {
        let cut1 = r.below(redact.len());
        let cut2 = cut1 + r.below(redact.len() - cut1 + 1);
        case["redact"] = json!(redact[..cut1].to_vec());
        case["redact_after"] = json!([redact[cut1..cut2].to_vec(), redact[cut2..].to_vec()]);
        case["builds"] = json!(3);
        if case["tag"].is_null() {
            case["tag"] = json!("staged_redaction");
        }
    }
    if case["kb"].is_object() && case["kb_first"].is_null() && r.chance(1, 8) {
        case["kb_first"] = json!({"aud": *r.pick(&["https://typo.example", "x", ""]), "alg": *r.pick(&["RS256", "RS384", "PS256", "PS512"])});
    }
}
