//! C12: SD-JWTs the specification says must be rejected are rejected. Reference-issued tokens with
//! exactly one seeded defect, at any nesting level (the defect is planted in the claims before issuing,
//! so it may end up inside the value of a disclosure), plus the same token without the defect.
use super::common::*;
use super::*;
use crate::gen::{self, Tok, TPath};
use crate::indep;
use crate::refissuer::{ref_issue, RefOpts, RefToken};
use crate::rng::Rng;
use crate::Emitter;

fn nodes_with<'a>(v: &'a Value, want_obj: bool, cur: &mut TPath, out: &mut Vec<TPath>) {
    match v {
        Value::Object(m) => {
            if want_obj {
                out.push(cur.clone());
            }
            for (k, c) in m {
                cur.push(Tok::Key(k.clone()));
                nodes_with(c, want_obj, cur, out);
                cur.pop();
            }
        }
        Value::Array(a) => {
            if !want_obj {
                out.push(cur.clone());
            }
            for (i, c) in a.iter().enumerate() {
                cur.push(Tok::Idx(i));
                nodes_with(c, want_obj, cur, out);
                cur.pop();
            }
        }
        _ => {}
    }
}

fn get_mut<'a>(v: &'a mut Value, p: &[Tok]) -> &'a mut Value {
    let mut cur = v;
    for t in p {
        cur = match (t, cur) {
            (Tok::Key(k), Value::Object(m)) => m.get_mut(k).unwrap(),
            (Tok::Idx(i), Value::Array(a)) => a.get_mut(*i).unwrap(),
            _ => panic!("path"),
        };
    }
    cur
}

fn disc(parts: Value) -> String {
    indep::b64url_encode(serde_json::to_string(&parts).unwrap().as_bytes())
}

fn has_marked_member(marks: &[TPath], obj: &TPath) -> bool {
    marks.iter().any(|m| m.len() == obj.len() + 1 && gen::is_prefix(obj, m))
}

pub const DEFECTS: &[&str] = &[
    "not_array", "arity0", "arity1", "arity4", "arity258", "arity259", "arity514", "arity515", "arity65539", "member_in_placeholder", "element_in_sd", "name_not_string",
    "name_sd", "name_dots", "collision", "dup_same_sd", "dup_two_sd", "dup_two_placeholders", "dup_sd_and_placeholder",
    "dup_unpresented", "sd_string", "sd_object", "sd_number", "placeholder_extra", "alg_unknown", "alg_case",
    "alg_not_string",
    // a missing _sd_alg is NOT on this list: the specification prescribes the default sha-256 for it (it is an
    // accept case of C08, tag no_sd_alg); before repair F18 the library rejected it and this generator wrongly
    // demanded that
];

pub fn generate(thorough: bool, seed: u64, em: &mut Emitter) {
    generate_nested_dups(thorough, seed, em);
    let mut r = Rng::new(seed ^ 0xC12);
    let n = if thorough { 30_000 } else { 2_400 };
    for i in 0..n {
        let mut rc = r.fork();
        let r = &mut rc;
        let claims = gen::gen_object(r, 3, 3, 1);
        let marks = gen::gen_marking(r, &claims, false);
        let alg = if r.chance(1, 5) { *r.pick(&indep::ALGS) } else { "sha-256" };
        let opts = RefOpts { alg: alg.to_string(), decoys: false, odd_format: false };
        let defect = DEFECTS[i % DEFECTS.len()];
        // ---- plant the defect in a copy of the claims
        let mut bad = claims.clone();
        let mut extra: Vec<String> = Vec::new(); // additional strings presented with the token
        let mut objs = Vec::new();
        nodes_with(&claims, true, &mut vec![], &mut objs);
        let mut arrs = Vec::new();
        nodes_with(&claims, false, &mut vec![], &mut arrs);
        let free_objs: Vec<TPath> = objs.iter().filter(|o| !has_marked_member(&marks, o)).cloned().collect();
        let salt = format!("s{}", r.next());
        let mut applicable = true;
        let mut post_alg: Option<Value> = None;
        match defect {
            "not_array" => extra.push(disc(json!({"a": 1}))),
            "arity0" => extra.push(disc(json!([]))),
            "arity1" => extra.push(disc(json!([salt]))),
            "arity4" => extra.push(disc(json!([salt, "k", 1, 2]))),
            "member_in_placeholder" | "placeholder_extra" | "dup_two_placeholders" => {
                if arrs.is_empty() {
                    applicable = false;
                } else {
                    let a = r.pick(&arrs).clone();
                    let d = if defect == "member_in_placeholder" { disc(json!([salt, "k", 1])) } else { disc(json!([salt, 1])) };
                    let g = indep::hash(alg, &d);
                    let arr = get_mut(&mut bad, &a).as_array_mut().unwrap();
                    match defect {
                        "placeholder_extra" => arr.push(json!({"...": g, "x": 1})),
                        "dup_two_placeholders" => {
                            arr.push(json!({"...": g}));
                            arr.push(json!({"...": g}));
                        }
                        _ => arr.push(json!({"...": g})),
                    }
                    if r.chance(3, 4) || defect == "member_in_placeholder" {
                        extra.push(d);
                    }
                }
            }
            "element_in_sd" | "name_not_string" | "name_sd" | "name_dots" | "collision" | "dup_same_sd" | "dup_two_sd"
            | "dup_sd_and_placeholder" | "dup_unpresented" | "arity258" | "arity259" | "arity514" | "arity515" | "arity65539" => {
                let o = r.pick(&objs).clone();
                let existing: Vec<String> = get_mut(&mut bad, &o).as_object().unwrap().keys().cloned().collect();
                let d = match defect {
                    "element_in_sd" => disc(json!([salt, 1])),
                    // referenced from a digest list like a member disclosure, but with a number of elements that is 2 or 3 only modulo 256 / 65536
                    "arity258" | "arity259" | "arity514" | "arity515" | "arity65539" => {
                        let n: usize = defect[5..].parse().unwrap();
                        let mut a = vec![json!(salt), json!("fresh_name")];
                        while a.len() < n {
                            a.push(json!(0));
                        }
                        disc(Value::Array(a))
                    }
                    "name_not_string" => disc(json!([salt, r.pick(&[json!(5), json!(null), json!(["k"]), json!({"k": 1}), json!(true)]), 1])),
                    "name_sd" => disc(json!([salt, "_sd", ["x"]])),
                    "name_dots" => disc(json!([salt, "...", "x"])),
                    "collision" => {
                        if existing.is_empty() {
                            applicable = false;
                            String::new()
                        } else {
                            disc(json!([salt, r.pick(&existing), "shadow"]))
                        }
                    }
                    _ => disc(json!([salt, "fresh_name", 1])),
                };
                if applicable {
                    let g = indep::hash(alg, &d);
                    let list = match defect {
                        "dup_same_sd" | "dup_unpresented" => json!([g, g]),
                        _ => json!([g]),
                    };
                    get_mut(&mut bad, &o).as_object_mut().unwrap().insert("_sd".to_string(), list);
                    match defect {
                        "dup_two_sd" => {
                            let others: Vec<&TPath> = objs.iter().filter(|x| **x != o).collect();
                            if others.is_empty() {
                                applicable = false;
                            } else {
                                let o2 = (*r.pick(&others)).clone();
                                get_mut(&mut bad, &o2).as_object_mut().unwrap().insert("_sd".to_string(), json!([g]));
                            }
                        }
                        "dup_sd_and_placeholder" => {
                            if arrs.is_empty() {
                                applicable = false;
                            } else {
                                let a = r.pick(&arrs).clone();
                                get_mut(&mut bad, &a).as_array_mut().unwrap().push(json!({"...": g}));
                            }
                        }
                        _ => {}
                    }
                    if defect != "dup_unpresented" {
                        extra.push(d);
                    }
                }
            }
            "sd_string" | "sd_object" | "sd_number" => {
                if free_objs.is_empty() {
                    applicable = false;
                } else {
                    let o = r.pick(&free_objs).clone();
                    let v = match defect {
                        "sd_string" => json!("abc"),
                        "sd_object" => json!({"0": "abc"}),
                        _ => json!(7),
                    };
                    get_mut(&mut bad, &o).as_object_mut().unwrap().insert("_sd".to_string(), v);
                }
            }
            "alg_unknown" => post_alg = Some(json!(*r.pick(&["md5", "sha-1", "sha256", "sha-3-256", ""]))),
            "alg_case" => post_alg = Some(json!(*r.pick(&["SHA-256", "Sha-256", "sha-256 "]))),
            "alg_not_string" => post_alg = Some(json!(256)),
            _ => unreachable!(),
        }
        if !applicable {
            continue;
        }
        // marks that would address into a planted `_sd` do not exist (marks were chosen first)
        let mut rr = r.fork();
        let tok_bad = {
            let mut t = ref_issue(&mut rr, &bad, &marks, &opts);
            if let Some(a) = &post_alg {
                let m = t.payload.as_object_mut().unwrap();
                if a.is_null() {
                    m.remove("_sd_alg");
                } else {
                    m.insert("_sd_alg".to_string(), a.clone());
                }
            }
            t
        };
        let mut list: Vec<String> = tok_bad.discs.iter().map(|d| d.string.clone()).collect();
        r.shuffle(&mut list);
        for e in &extra {
            let pos = r.below(list.len() + 1);
            list.insert(pos, e.clone());
        }
        let mut case = super::c03::make_case(&tok_bad, &list, "reject", true, &extra);
        case.as_object_mut().unwrap().remove("clear_hint");
        let mut e = expectation(&tok_bad, &bad, &list, "reject");
        e["defect"] = json!(defect);
        case["expect"] = e;
        case["tag"] = json!(defect);
        em.case("verify", case);
        // the twin without the defect must be accepted
        if i % 4 == 0 {
            let mut rr = r.fork();
            let tok = ref_issue(&mut rr, &claims, &marks, &opts);
            let mut list: Vec<String> = tok.discs.iter().map(|d| d.string.clone()).collect();
            r.shuffle(&mut list);
            let mut case = super::c03::make_case(&tok, &list, "accept", false, &[]);
            case.as_object_mut().unwrap().remove("clear_hint");
            case["expect"] = expectation(&tok, &claims, &list, "accept");
            em.case("verify", case);
        }
    }
}

/// "the same digest embedded more than once" where one of the copies only becomes visible when an enclosing
/// disclosure is opened: both copies inside the value of a recursive disclosure P, or one in the signed payload and
/// one inside P; the digest's own disclosure D absent, present once or present twice, in every order. Every list
/// that contains P shows the verifier both copies and must be rejected (holder and verifier alike).
pub fn generate_nested_dups(thorough: bool, seed: u64, em: &mut Emitter) {
    let mut r = Rng::new(seed ^ 0xC12D);
    let n = if thorough { 600 } else { 60 };
    for i in 0..n {
        let alg = if i % 5 == 4 { *r.pick(&indep::ALGS) } else { "sha-256" };
        let elem = i % 2 == 0;
        let both_inside = (i / 2) % 2 == 0;
        let salt = format!("s{}", r.next());
        let d = if elem { disc(json!([salt, "v"])) } else { disc(json!([salt, "fresh", "v"])) };
        let g = indep::hash(alg, &d);
        let inner = match (elem, both_inside) {
            (true, true) => json!({"arr": [{"...": g}, "mid", {"...": g}]}),
            (true, false) => if r.chance(1, 2) { json!(["tail", {"...": g}]) } else { json!({"arr": [{"...": g}]}) },
            (false, true) => json!({"_sd": [g, g], "z": 1}),
            (false, false) => json!({"_sd": [g], "z": 1}),
        };
        let p = disc(json!([format!("t{}", r.next()), "p", inner]));
        let gp = indep::hash(alg, &p);
        let mut payload = json!({"sub": "user_42", "_sd": [gp], "_sd_alg": alg});
        if !both_inside {
            if elem {
                payload["a"] = json!(["head", {"...": g}]);
            } else {
                payload["_sd"].as_array_mut().unwrap().push(json!(g));
            }
        }
        let tok = RefToken { alg: alg.to_string(), payload: payload.clone(), discs: vec![], decoys: vec![] };
        let lists: Vec<Vec<&String>> = vec![vec![&p], vec![&p, &d], vec![&d, &p], vec![&d, &p, &d], vec![&d, &d, &p], vec![&p, &d, &d]];
        for (j, l) in lists.iter().enumerate() {
            let list: Vec<String> = l.iter().map(|x| (*x).clone()).collect();
            let mut case = super::c03::make_case(&tok, &list, "reject", true, &[d.clone(), p.clone()]);
            case.as_object_mut().unwrap().remove("clear_hint");
            let mut e = expectation(&tok, &payload, &list, "reject");
            e["defect"] = json!("dup_nested");
            case["expect"] = e;
            case["tag"] = json!(format!("dup_nested_{}_{}_list{}", if elem { "element" } else { "member" }, if both_inside { "inside" } else { "split" }, j));
            em.case("verify", case);
        }
    }
}
