//! C03: the verifier never returns what the issuer did not sign, whatever list of disclosures is sent.
use super::common::*;
use super::*;
use crate::gen;
use crate::indep;
use crate::refissuer::{ref_issue, RefOpts, RefToken};
use crate::rng::Rng;
use crate::Emitter;

pub fn make_case(tok: &RefToken, list: &[String], mode: &str, nontrivial: bool, extra_tables: &[String]) -> Value {
    let jwt = sign_hs256(&tok.payload);
    let seg = jwt.split('.').nth(1).unwrap().to_string();
    let token = presentation_string(&jwt, list, "");
    let mut strings: Vec<String> = list.to_vec();
    strings.extend(tok.discs.iter().map(|d| d.string.clone()));
    strings.extend(extra_tables.iter().cloned());
    let (h, dec) = tables(&strings, &[&tok.alg]);
    let mut clear = tok.payload.clone();
    // the claims the verifier may return at most: the original ones (payload without bookkeeping)
    if let Value::Object(m) = &mut clear {
        m.remove("_sd_alg");
    }
    json!({
        "token": token,
        "jwt": [[jwt, hs_header(), tok.payload]],
        "claims": [[seg, tok.payload]],
        "H": h, "dec": dec, "kb": [], "kbpol": false,
        "nontrivial": nontrivial,
        "expect": Value::Null, // filled by the caller
        "clear_hint": clear,
    })
}

fn junk(r: &mut Rng) -> String {
    match r.below(8) {
        0 => "!!".to_string(),
        1 => "".to_string(),
        2 => indep::b64url_encode(b"[1]"),
        3 => indep::b64url_encode(b"[]"),
        4 => indep::b64url_encode(b"[\"s\",\"k\",1,2]"),
        5 => indep::b64url_encode(b"{\"a\":1}"),
        6 => indep::b64url_encode(b"not json"),
        _ => indep::b64url_encode(&[0xff, 0xfe, 0x00]),
    }
}

fn foreign(r: &mut Rng) -> String {
    match r.below(4) {
        0 => indep::b64url_encode(b"[\"salt\",\"k\",\"v\"]"),
        1 => indep::b64url_encode(b"[\"salt\",\"v\"]"),
        2 => indep::b64url_encode(b"[\"salt\",5,1]"),       // name is not a string
        _ => indep::b64url_encode(b"[\"salt\",\"_sd\",1]"),  // reserved name
    }
}

pub fn generate(thorough: bool, seed: u64, em: &mut Emitter) {
    // bounded-exhaustive first: every claims object with <= 3 (thorough: 4) nodes, every marking, every order
    super::small::generate_verify(if thorough { 4 } else { 3 }, if thorough { 3 } else { 3 }, seed, em);
    // a digest embedded twice, one copy inside another disclosure's value, its disclosure listed twice: never accepted
    super::c12::generate_nested_dups(thorough, seed, em);
    super::c08::generate_large_verify(seed ^ 3, if thorough { 45 } else { 9 }, em);
    let mut r = Rng::new(seed ^ 0xC03);
    let n = if thorough { 80_000 } else { 4_000 };
    for i in 0..n {
        let mut rc = r.fork();
        let r = &mut rc;
        let (claims, marks) = gen::claims_and_marking(r, i, 3, 3);
        let alg = if r.chance(1, 5) { *r.pick(&indep::ALGS) } else { "sha-256" };
        let opts = RefOpts { alg: alg.to_string(), decoys: r.chance(1, 4), odd_format: r.chance(1, 4) };
        let mut tok = ref_issue(r, &claims, &marks, &opts);
        if alg == "sha-256" && r.chance(1, 6) {
            // a conformant issuer may rely on the default digest algorithm and leave _sd_alg out
            tok.payload.as_object_mut().unwrap().remove("_sd_alg");
        }
        let own: Vec<String> = tok.discs.iter().map(|d| d.string.clone()).collect();
        let mut extra = Vec::new();
        let (list, mode): (Vec<String>, &str) = if i % 3 == 0 {
            // duplicate-free, ancestor-closed subset of the own disclosures, in any order: must be accepted
            let mut keep: Vec<bool> = own.iter().map(|_| r.chance(2, 3)).collect();
            for (a, da) in tok.discs.iter().enumerate() {
                // drop a kept disclosure whose enclosing disclosure is dropped
                for (b, db) in tok.discs.iter().enumerate() {
                    if a != b && gen::is_prefix(&db.path, &da.path) && !keep[b] {
                        keep[a] = false;
                    }
                }
            }
            // iterate to a fixed point (nesting deeper than one level)
            for _ in 0..tok.discs.len() {
                for (a, da) in tok.discs.iter().enumerate() {
                    for (b, db) in tok.discs.iter().enumerate() {
                        if a != b && gen::is_prefix(&db.path, &da.path) && !keep[b] {
                            keep[a] = false;
                        }
                    }
                }
            }
            let mut l: Vec<String> = own.iter().zip(keep.iter()).filter(|(_, k)| **k).map(|(s, _)| s.clone()).collect();
            r.shuffle(&mut l);
            (l, "accept")
        } else {
            let mut l: Vec<String> = own.iter().filter(|_| r.chance(4, 5)).cloned().collect();
            r.shuffle(&mut l);
            if r.chance(1, 3) && !l.is_empty() {
                let d = r.pick(&l).clone();
                let pos = r.below(l.len() + 1);
                l.insert(pos, d);
            }
            if r.chance(1, 4) {
                // disclosures of another token over the same claims (other salts) and over other claims
                let other = ref_issue(r, &claims, &marks, &opts);
                for d in other.discs.iter().filter(|_| r.chance(1, 2)) {
                    l.push(d.string.clone());
                }
            }
            if r.chance(1, 5) {
                l.push(foreign(r));
            }
            if r.chance(1, 8) {
                let pos = r.below(l.len() + 1);
                l.insert(pos, junk(r));
            }
            if r.chance(1, 8) && !own.is_empty() {
                // single character substitution / truncation of an own disclosure
                let d = r.pick(&own).clone();
                let mut b = d.into_bytes();
                if !b.is_empty() {
                    if r.chance(1, 2) {
                        let p = r.below(b.len());
                        b[p] = if b[p] == b'A' { b'B' } else { b'A' };
                    } else {
                        let p = r.below(b.len());
                        b.truncate(p);
                    }
                }
                l.push(String::from_utf8(b).unwrap());
            }
            (l, "sound")
        };
        extra.extend(list.iter().cloned());
        let nontrivial = list != own;
        let mut case = make_case(&tok, &list, mode, nontrivial, &extra);
        let clear = case["clear_hint"].take();
        case.as_object_mut().unwrap().remove("clear_hint");
        // original claims: the generated ones (decoys and bookkeeping are not claims)
        let _ = clear;
        case["expect"] = expectation(&tok, &claims, &list, mode);
        em.case("verify", case);
    }
}
