//! Bounded-exhaustive ("small scope") family: EVERY claims object with at most `max_nodes` nodes below the
//! root (scalars, empty and non-empty arrays and objects, keys a, b, c, ...), EVERY marking of it, and - for
//! the verifier side - EVERY order of the disclosure list plus every list with one disclosure left out.
//! Complements the random generators: structure defects (a container kind or nesting pattern that is
//! skipped) cannot hide behind the sampling.
use super::common::*;
use super::*;
use crate::gen::{self, TPath};
use crate::refissuer::{ref_issue, RefOpts};
use crate::rng::Rng;
use crate::Emitter;

const KEYS: [&str; 6] = ["a", "b", "c", "d", "e", "f"];

/// all values that consist of exactly n nodes (the value itself counts)
fn trees(n: usize, memo: &mut Vec<Option<Vec<Value>>>) -> Vec<Value> {
    if let Some(Some(v)) = memo.get(n) {
        return v.clone();
    }
    let mut out = Vec::new();
    if n == 1 {
        out.push(json!(1));
        out.push(json!([]));
        out.push(json!({}));
    } else if n > 1 {
        for f in forests(n - 1, memo) {
            if f.is_empty() {
                continue;
            }
            out.push(Value::Array(f.clone()));
            let mut m = serde_json::Map::new();
            for (i, v) in f.into_iter().enumerate() {
                m.insert(KEYS[i].to_string(), v);
            }
            out.push(Value::Object(m));
        }
    }
    while memo.len() <= n {
        memo.push(None);
    }
    memo[n] = Some(out.clone());
    out
}

/// all ordered sequences of values with m nodes in total
fn forests(m: usize, memo: &mut Vec<Option<Vec<Value>>>) -> Vec<Vec<Value>> {
    if m == 0 {
        return vec![vec![]];
    }
    let mut out = Vec::new();
    for k in 1..=m {
        let firsts = trees(k, memo);
        let rests = forests(m - k, memo);
        for f in &firsts {
            for r in &rests {
                let mut v = vec![f.clone()];
                v.extend(r.iter().cloned());
                out.push(v);
            }
        }
    }
    out
}

/// every claims object with 1..=max_nodes nodes below the root
pub fn documents(max_nodes: usize) -> Vec<Value> {
    let mut memo = Vec::new();
    let mut out = Vec::new();
    for m in 1..=max_nodes {
        for f in forests(m, &mut memo) {
            if f.len() > KEYS.len() {
                continue;
            }
            let mut obj = serde_json::Map::new();
            for (i, v) in f.into_iter().enumerate() {
                obj.insert(KEYS[i].to_string(), v);
            }
            out.push(Value::Object(obj));
        }
    }
    out
}

fn permutations(n: usize) -> Vec<Vec<usize>> {
    if n == 0 {
        return vec![vec![]];
    }
    let mut out = Vec::new();
    for p in permutations(n - 1) {
        for pos in 0..=p.len() {
            let mut q = p.clone();
            q.insert(pos, n - 1);
            out.push(q);
        }
    }
    out
}

/// issuer side (kind issue): every document, every non-empty marking, through Issuer::encode and Holder::verify
pub fn generate_issue(max_nodes: usize, em: &mut Emitter) {
    for doc in documents(max_nodes) {
        let nodes = gen::all_nodes(&doc);
        for mask in 1u32..(1u32 << nodes.len()) {
            let marks: Vec<TPath> = nodes.iter().enumerate().filter(|(i, _)| mask & (1 << i) != 0).map(|(_, p)| p.clone()).collect();
            let mut c = super::c01::issue_case(&doc, &marks, if mask % 3 == 0 { Some(2) } else { None }, false, "HS256", 1);
            c["tag"] = json!("small_scope");
            em.case("issue", c);
        }
    }
}

/// verifier side (kind verify): reference-issued tokens for every document and marking; the complete disclosure
/// list in every order (accept), and every list with exactly one disclosure left out, in issue order (sound)
pub fn generate_verify(max_nodes: usize, max_perm: usize, seed: u64, em: &mut Emitter) {
    let mut r = Rng::new(seed ^ 0x5A11);
    for doc in documents(max_nodes) {
        let nodes = gen::all_nodes(&doc);
        for mask in 1u32..(1u32 << nodes.len()) {
            let marks: Vec<TPath> = nodes.iter().enumerate().filter(|(i, _)| mask & (1 << i) != 0).map(|(_, p)| p.clone()).collect();
            let opts = RefOpts { alg: "sha-256".to_string(), decoys: mask % 5 == 0, odd_format: false };
            let tok = ref_issue(&mut r, &doc, &marks, &opts);
            let own: Vec<String> = tok.discs.iter().map(|d| d.string.clone()).collect();
            let mut lists: Vec<(Vec<String>, &str)> = Vec::new();
            if own.len() <= max_perm {
                for p in permutations(own.len()) {
                    lists.push((p.iter().map(|i| own[*i].clone()).collect(), "accept"));
                }
            } else {
                lists.push((own.clone(), "accept"));
                let mut rev = own.clone();
                rev.reverse();
                lists.push((rev, "accept"));
            }
            for skip in 0..own.len() {
                let l: Vec<String> = own.iter().enumerate().filter(|(i, _)| *i != skip).map(|(_, s)| s.clone()).collect();
                lists.push((l, "sound"));
            }
            for (list, mode) in lists {
                let mut case = super::c03::make_case(&tok, &list, mode, true, &own);
                case.as_object_mut().unwrap().remove("clear_hint");
                case["expect"] = expectation(&tok, &doc, &list, mode);
                case["tag"] = json!("small_scope");
                em.case("verify", case);
            }
        }
    }
}
