//! C06: undisclosed claims stay confidential in the issuer JWT and in presentations.
//! Every marked node carries a unique sentinel in its name (members) and in its value (scalars).
use super::c02::{make_token, present_case, redaction_set};
use super::*;
use crate::gen::{self, Tok, TPath};
use crate::rng::Rng;
use crate::Emitter;

/// rename marked members and replace marked scalars by sentinels; returns the new claims, the new
/// marks (paths change with the names) and the sentinel list [[mark index, sentinel]]
pub fn plant_sentinels(claims: &Value, marks: &[TPath]) -> (Value, Vec<TPath>, Vec<Value>) {
    // process deepest first so that renaming a parent does not invalidate a child's path prefix handling
    let mut new_marks: Vec<TPath> = marks.to_vec();
    let mut out = claims.clone();
    let mut sentinels = Vec::new();
    // order of processing: ancestors first (shorter paths first) so that children see renamed prefixes
    let mut order: Vec<usize> = (0..marks.len()).collect();
    order.sort_by_key(|i| marks[*i].len());
    for &i in &order {
        let m = new_marks[i].clone();
        let (last, parent) = m.split_last().unwrap();
        // value sentinel for scalars
        let is_scalar = gen::resolve(&out, &m).map_or(false, |v| !v.is_array() && !v.is_object());
        if is_scalar {
            let s = format!("#v{}#", i);
            set_at(&mut out, &m, json!(s));
            sentinels.push(json!([i, s]));
        }
        if let Tok::Key(k) = last {
            let s = format!("#k{}#{}", i, k);
            // rename the member
            if let Some(Value::Object(pm)) = get_mut(&mut out, parent) {
                if let Some(v) = pm.remove(k) {
                    pm.insert(s.clone(), v);
                }
            }
            sentinels.push(json!([i, format!("#k{}#", i)]));
            // every mark at or below m gets the renamed token
            let depth = m.len() - 1;
            for q in new_marks.iter_mut() {
                if q.len() > depth && gen::is_prefix(&m, q) {
                    q[depth] = Tok::Key(s.clone());
                }
            }
        }
    }
    (out, new_marks, sentinels)
}

fn get_mut<'a>(v: &'a mut Value, p: &[Tok]) -> Option<&'a mut Value> {
    let mut cur = v;
    for t in p {
        cur = match (t, cur) {
            (Tok::Key(k), Value::Object(m)) => m.get_mut(k)?,
            (Tok::Idx(i), Value::Array(a)) => a.get_mut(*i)?,
            _ => return None,
        };
    }
    Some(cur)
}
fn set_at(v: &mut Value, p: &[Tok], new: Value) {
    if let Some(x) = get_mut(v, p) {
        *x = new;
    }
}

/// A disclosable claim X with disclosable claims inside it, next to disclosable siblings whose names continue X's name
/// with one more character - characters that sort below '/', '/' itself (escaped in the path) and characters above it.
/// Whatever the holder redacts, in whatever order, exactly the claims at or below a redacted path are withheld.
pub fn generate_sibling_names(seed: u64, em: &mut Emitter) {
    let mut r = Rng::new(seed ^ 0xC06_51B);
    for (i, ch) in [" ", "!", "#", "$", "%", "&", "'", "(", ")", "*", "+", ",", "-", ".", "/", "0", ":", "~", "_", "a"].iter().enumerate() {
        let sib = format!("name{}ja", ch);
        let sib2 = format!("name{}", ch);
        let claims = json!({"name": {"given": "Taro", "family": "Yamada", "given2": ["a", "b"]}, sib.clone(): "sibling value", sib2.clone(): {"inner": 1}, "z": 1});
        let k = |s: &str| Tok::Key(s.to_string());
        let marks: Vec<TPath> = vec![
            vec![k("name"), k("given")], vec![k("name"), k("given2"), Tok::Idx(1)], vec![k("name")],
            vec![k(&sib)], vec![k(&sib2), k("inner")], vec![k(&sib2)],
        ];
        for variant in 0..4 {
            let mut rc = r.fork();
            let r = &mut rc;
            let (token, tok, clear) = match make_token(r, &claims, &marks, false, (i + variant) % 2 == 0) {
                Some(x) => x,
                None => continue,
            };
            let mut redact: Vec<String> = match variant {
                0 => vec![gen::render(&marks[2]), gen::render(&marks[3])],
                1 => vec![gen::render(&marks[3]), gen::render(&marks[2])],
                2 => vec![gen::render(&marks[5]), gen::render(&marks[2]), gen::render(&marks[3])],
                _ => vec![gen::render(&marks[3]), gen::render(&marks[5])],
            };
            if variant == 2 {
                r.shuffle(&mut redact);
            }
            let mut case = present_case(&tok, &token, &clear, &redact, Value::Null, 1, json!({"kbpol": Value::Null}));
            case["judge_disclosures"] = json!(true);
            case["nontrivial"] = json!(true);
            case["tag"] = json!("sibling_name_continues_redacted_name");
            em.case("present", case);
        }
    }
}

pub fn generate(thorough: bool, seed: u64, em: &mut Emitter) {
    generate_sibling_names(seed, em);
    super::c14::generate_edge_paths(seed, 40, em);
    super::c02::generate_large(seed ^ 6, if thorough { 45 } else { 9 }, true, em);
    let mut r = Rng::new(seed ^ 0xC06);
    let n = if thorough { 30_000 } else { 2_000 };
    for i in 0..n {
        let mut rc = r.fork();
        let r = &mut rc;
        let claims0 = gen::gen_object(r, 3, 3, 1);
        let marks0 = gen::gen_marking(r, &claims0, true);
        let (claims, mut marks, sentinels) = plant_sentinels(&claims0, &marks0);
        // keep descendants-before-ancestors order: renaming does not change the tree shape, so the order of marks0 is still valid
        if marks.iter().any(|m| gen::resolve(&claims, m).is_none()) {
            continue;
        }
        // renaming may change the sorted position of members but never the nesting: the post-order property is kept
        let _ = &mut marks;
        let (token, tok, clear) = match make_token(r, &claims, &marks, false, i % 2 == 0) {
            Some(x) => x,
            None => continue,
        };
        let redact = redaction_set(r, &claims, &marks);
        // one case in three is a session: build, redact more on the same Holder, build again (twice) - what was
        // redacted after an earlier build must be withheld by the later ones
        let staged = i % 3 == 1 && !redact.is_empty();
        let mut case = present_case(&tok, &token, &clear, &redact, Value::Null, if staged { 3 } else { 1 }, json!({"kbpol": Value::Null}));
        if staged {
            let cut1 = r.below(redact.len());
            let cut2 = cut1 + r.below(redact.len() - cut1 + 1);
            case["redact"] = json!(redact[..cut1].to_vec());
            case["redact_after"] = json!([redact[cut1..cut2].to_vec(), redact[cut2..].to_vec()]);
            case["tag"] = json!("staged_redaction");
        }
        case["sentinels"] = Value::Array(sentinels);
        case["judge_disclosures"] = json!(true);
        // the issuer JWT itself must not contain any sentinel: decoded header and payload
        case["issuer_decoded"] = json!(super::present::decoded_segments(&format!("{}~", token.split('~').next().unwrap())));
        case["nontrivial"] = json!(redact.iter().any(|x| marks.iter().any(|m| gen::render(m) == *x)));
        em.case("present", case);
        if i % 10 == 3 {
            // the same Issuer object signs several credentials: every one of them, not only the first, must hide
            // the disclosable claims (the issue kind reproduces each token from its read-back draws and checks
            // the round trip with the marked paths)
            let calls = 2 + r.below(2);
            let mut c = super::c01::issue_case(&claims, &marks, if r.chance(1, 3) { Some(3) } else { None }, false, "HS256", calls);
            c["nontrivial"] = json!(true);
            c["tag"] = json!("repeated_encode");
            em.case("issue", c);
        }
    }
}
