//! C05: key binding enforced. Bound reference-issued tokens, presentations assembled by the harness with
//! harness-crafted KB-JWTs carrying exactly one defect (or none), edits of the disclosure list after
//! binding, stripped / swapped KB-JWTs, KB-JWT on an unbound token, verifier policies None / aud set / unset.
use super::common::*;
use super::*;
use crate::gen;
use crate::indep;
use crate::refissuer::{ref_issue, with_member, RefOpts};
use crate::rng::Rng;
use crate::Emitter;
use sdjwt::{Algorithm, Header, KeyForEncoding};
use std::sync::OnceLock;

static OTHER_KEY: OnceLock<String> = OnceLock::new();

/// a second RSA key (generated once per process) for the "signed by another key" defect
fn other_key_pem() -> &'static str {
    OTHER_KEY.get_or_init(|| {
        use rsa::pkcs8::EncodePrivateKey;
        let k = rsa::RsaPrivateKey::new(&mut rsa::rand_core::OsRng, 2048).expect("rsa keygen");
        k.to_pkcs8_pem(rsa::pkcs8::LineEnding::LF).unwrap().to_string()
    })
}

fn sign_kb(alg: &str, typ: Option<&str>, claims: &Value, other_key: bool) -> String {
    let a: Algorithm = serde_json::from_value(json!(alg)).unwrap();
    let mut h = Header::new(a);
    h.typ = typ.map(|s| s.to_string());
    let key = if other_key {
        KeyForEncoding::from_rsa_pem(other_key_pem().as_bytes()).unwrap()
    } else {
        crate::keys::pair("RS256").0
    };
    sdjwt::encode(&h, claims, &key).expect("kb signing")
}

pub const DEFECTS: &[&str] = &[
    "none", "none_policy_aud_unset", "other_key", "other_alg", "typ_missing", "typ_jwt", "hash_other_string", "hash_jwt_only",
    "hash_whole_string", "hash_other_alg", "hash_missing", "hash_not_string", "aud_unexpected", "aud_missing", "aud_array_ok",
    "aud_array_expected_last", "aud_array_empty", "aud_array_others_only", "aud_array_mixed_types", "kb_followed_by_space",
    "no_policy", "drop_disclosure", "add_disclosure", "dup_disclosure", "reorder_disclosures", "replace_disclosure", "strip_kb",
    "kb_on_unbound", "cnf_not_rsa", "cnf_e_missing", "cnf_n_not_string", "cnf_n_not_base64", "cnf_null",
    // two conditions together: the verifier was given no key-binding policy AND ...
    "strip_kb_no_policy", "strip_kb_drop_no_policy", "kb_on_unbound_no_policy",
    // commitments that are "almost" the right hash: a comparison that is not plain string equality lets them through
    "hash_prefix", "hash_empty", "hash_extended", "hash_case", "hash_padded", "hash_prefix_dropped_disclosure",
    // the bound key names an algorithm of its own (JWK "alg"): the algorithm the VERIFIER expects still governs
    "cnf_alg_differs_kb_as_policy", "cnf_alg_equals_kb_not_policy",
];

pub fn generate(thorough: bool, seed: u64, em: &mut Emitter) {
    generate_kinds(DEFECTS, if thorough { 8_000 } else { 1_500 }, seed, em);
}

/// the key-binding policy is a Validation too (C11): the kinds that concern its algorithm and audience
pub const POLICY_KINDS: &[&str] = &["none", "none_policy_aud_unset", "other_alg", "aud_unexpected", "aud_missing", "aud_array_ok",
                                    "cnf_alg_differs_kb_as_policy", "cnf_alg_equals_kb_not_policy"];

pub fn generate_kinds(kinds: &[&str], n: usize, seed: u64, em: &mut Emitter) {
    let mut r = Rng::new(seed ^ 0xC05);
    for i in 0..n {
        let mut rc = r.fork();
        let r = &mut rc;
        let defect = kinds[i % kinds.len()];
        let mut claims = gen::gen_object(r, 3, 3, 1);
        let mut marks = gen::gen_marking(r, &claims, true);
        if (i / kinds.len()) % 5 == 2 && claims.get("portrait").is_none() {
            // one round in five: the credential carries a portrait of 5 to 12 KB, disclosable or not (the issuer-signed JWT
            // or one disclosure alone is then longer than any block a streaming hasher works with)
            let len = 5_000 + r.below(7_000);
            claims.as_object_mut().unwrap().insert("portrait".to_string(), json!(gen::long_text(r, len)));
            if r.chance(1, 2) {
                marks.insert(0, vec![gen::Tok::Key("portrait".to_string())]);
            }
        }
        if matches!(defect, "drop_disclosure" | "reorder_disclosures" | "replace_disclosure") && marks.len() < 2 {
            // these edits need at least two disclosures; take two top-level members if possible
            let nodes = gen::all_nodes(&claims);
            let tops: Vec<_> = nodes.into_iter().filter(|p| p.len() == 1).collect();
            if tops.len() < 2 {
                continue;
            }
            marks = tops[..2].to_vec();
        }
        let sd_alg = if r.chance(1, 3) { *r.pick(&indep::ALGS) } else { "sha-256" };
        let opts = RefOpts { alg: sd_alg.to_string(), decoys: false, odd_format: false };
        let mut tok = ref_issue(r, &claims, &marks, &opts);
        let jwk = crate::keys::rsa_jwk();
        let cnf: Value = match defect {
            "kb_on_unbound" | "kb_on_unbound_no_policy" => Value::Null,
            "cnf_not_rsa" => json!({"kty": "EC", "n": jwk["n"], "e": jwk["e"]}),
            "cnf_e_missing" => json!({"kty": "RSA", "n": jwk["n"]}),
            "cnf_n_not_string" => json!({"kty": "RSA", "n": 5, "e": jwk["e"]}),
            "cnf_n_not_base64" => json!({"kty": "RSA", "n": "!!!", "e": jwk["e"]}),
            "cnf_null" => json!("null-member"),
            // accepted: the KB-JWT is signed under the algorithm the verifier expects, whatever the JWK says
            "cnf_alg_differs_kb_as_policy" => json!({"kty": "RSA", "n": jwk["n"], "e": jwk["e"], "alg": r.pick(&["RS512", "RS384", "PS256"]), "use": "sig"}),
            // rejected: the KB-JWT follows the JWK's algorithm, which is not the one the verifier expects
            "cnf_alg_equals_kb_not_policy" => json!({"kty": "RSA", "n": jwk["n"], "e": jwk["e"], "alg": "RS384", "kid": "holder-key-1"}),
            _ => {
                // harmless decoration a real JWK often carries
                let mut j = jwk.clone();
                if r.chance(1, 3) {
                    j["alg"] = json!("RS256");
                    j["use"] = json!("sig");
                    j["kid"] = json!("k1");
                }
                j
            }
        };
        let mut clear = claims.clone();
        if defect == "cnf_null" {
            // "cnf": null is treated as no key binding by the verifier
            tok.payload = with_member(tok.payload, "cnf", Value::Null);
            clear = with_member(clear, "cnf", Value::Null);
        } else if !cnf.is_null() {
            tok.payload = with_member(tok.payload, "cnf", cnf.clone());
            clear = with_member(clear, "cnf", cnf.clone());
        }
        let jwt = sign_hs256(&tok.payload);
        let seg = jwt.split('.').nth(1).unwrap().to_string();
        let own: Vec<String> = tok.discs.iter().map(|d| d.string.clone()).collect();
        let mut list = own.clone();
        r.shuffle(&mut list);
        let prefix = presentation_string(&jwt, &list, "");
        let aud = "https://verifier.example";
        let policy_aud: Option<&str> = match defect {
            "none_policy_aud_unset" | "aud_missing_unset" => None,
            _ => Some(aud),
        };
        let policy_alg = "RS256";
        // ---- the KB-JWT
        let mut kb_alg = "RS256";
        let mut typ = Some("kb+jwt");
        let mut other_key = false;
        let mut kbc = json!({"aud": aud, "nonce": format!("n{}", r.next()), "iat": 1_700_000_000u64, "sd_hash": indep::hash(sd_alg, &prefix)});
        match defect {
            "other_key" => other_key = true,
            "other_alg" => kb_alg = *r.pick(&["RS384", "RS512", "PS256"]),
            "cnf_alg_equals_kb_not_policy" => kb_alg = "RS384",
            "typ_missing" => typ = None,
            "typ_jwt" => typ = Some(*r.pick(&["JWT", "kb+JWT", "kb jwt", ""])),
            "hash_other_string" => kbc["sd_hash"] = json!(indep::hash(sd_alg, &format!("{}x", prefix))),
            "hash_jwt_only" => kbc["sd_hash"] = json!(indep::hash(sd_alg, &jwt)),
            "hash_whole_string" => kbc["sd_hash"] = json!(indep::hash(sd_alg, prefix.trim_end_matches('~'))),
            "hash_other_alg" => {
                let o = indep::ALGS.iter().find(|a| **a != sd_alg).unwrap();
                kbc["sd_hash"] = json!(indep::hash(o, &prefix));
            }
            "hash_prefix" | "hash_prefix_dropped_disclosure" => {
                let full = indep::hash(sd_alg, &prefix);
                kbc["sd_hash"] = json!(full[..r.below(full.len())].to_string());
            }
            "hash_empty" => kbc["sd_hash"] = json!(""),
            "hash_extended" => kbc["sd_hash"] = json!(format!("{}{}", indep::hash(sd_alg, &prefix), r.pick(&["A", "=", " ", "\n"]))),
            "hash_case" => {
                let full = indep::hash(sd_alg, &prefix);
                let flipped: String = full.chars().map(|c| if c.is_ascii_lowercase() { c.to_ascii_uppercase() } else { c.to_ascii_lowercase() }).collect();
                kbc["sd_hash"] = json!(flipped);
            }
            "hash_padded" => kbc["sd_hash"] = json!(format!("{}=", indep::hash(sd_alg, &prefix))),
            "hash_missing" => {
                kbc.as_object_mut().unwrap().remove("sd_hash");
            }
            "hash_not_string" => kbc["sd_hash"] = json!([indep::hash(sd_alg, &prefix)]),
            "aud_unexpected" => kbc["aud"] = json!("https://attacker.example"),
            "aud_missing" => {
                kbc.as_object_mut().unwrap().remove("aud");
            }
            "aud_array_ok" => kbc["aud"] = json!(["x", aud]),
            // an audience array that names the expected audience anywhere carries it; one that names nobody, or only others, does not
            "aud_array_expected_last" => kbc["aud"] = json!(["https://other.example", "x", aud]),
            "aud_array_empty" => kbc["aud"] = json!([]),
            "aud_array_others_only" => kbc["aud"] = json!(["https://other.example", "x"]),
            "aud_array_mixed_types" => kbc["aud"] = json!([5, null, aud]),
            _ => {}
        }
        let kb = sign_kb(kb_alg, typ, &kbc, other_key);
        // ---- edits after binding
        let mut presented = list.clone();
        match defect {
            "drop_disclosure" | "hash_prefix_dropped_disclosure" => {
                let p = r.below(presented.len());
                presented.remove(p);
            }
            "strip_kb_drop_no_policy" if !presented.is_empty() => {
                let p = r.below(presented.len());
                presented.remove(p);
            }
            "add_disclosure" => {
                let p = r.below(presented.len() + 1);
                presented.insert(p, indep::b64url_encode(b"[\"salt\",\"extra\",1]"));
            }
            "dup_disclosure" => {
                if let Some(arr) = tok.discs.iter().find(|d| d.key.is_none()) {
                    presented.push(arr.string.clone());
                } else {
                    presented.push(presented[0].clone());
                }
            }
            "reorder_disclosures" => presented.reverse(),
            "replace_disclosure" => {
                let p = r.below(presented.len());
                presented[p] = indep::b64url_encode(b"[\"salt\",\"replacement\",1]");
            }
            _ => {}
        }
        if defect == "reorder_disclosures" && presented == list {
            continue;
        }
        let kb_seg = if defect.starts_with("strip_kb") {
            String::new()
        } else if defect == "kb_followed_by_space" {
            // white space after the key-binding JWT, ASCII or multi-byte, shorter or longer than the KB-JWT itself
            let unit = *r.pick(&[" ", "\u{a0}", "\u{3000}", "\u{3000}", "\u{2028}", "\u{1680}"]);
            format!("{}{}", kb, unit.repeat(*r.pick(&[2usize, 401, 900, 1301, 1700])))
        } else {
            kb.clone()
        };
        let token = presentation_string(&jwt, &presented, &kb_seg);
        let kbpol = !defect.ends_with("no_policy");
        // ---- oracle tables (independent): is this KB-JWT valid under the cnf key and the policy?
        let kb_header = indep::decode_json(kb.split('.').next().unwrap()).unwrap_or(Value::Null);
        let sig_ok = !other_key && super::present::rsa_verify(&kb, kb_alg);
        let aud_ok = match policy_aud {
            None => true,
            Some(a) => match &kbc["aud"] {
                Value::String(s) => s == a,
                Value::Array(xs) => xs.iter().any(|x| x.as_str() == Some(a)),
                _ => false,
            },
        };
        let policy_ok = kb_alg == policy_alg && aud_ok;
        // the KB-JWT decodes under the key built from (n, e) only when these are the signer's modulus and exponent
        let key_is_signer = cnf.is_object() && cnf["n"] == jwk["n"] && cnf["e"] == jwk["e"];
        let kb_table = if sig_ok && policy_ok && key_is_signer {
            json!([[kb, cnf["n"], cnf["e"], kb_header, kbc]])
        } else {
            json!([])
        };
        let mut strings: Vec<String> = presented.clone();
        strings.extend(own.iter().cloned());
        let (mut h, dec) = tables(&strings, &[sd_alg]);
        // hashes of every prefix the verifier may look at
        let dk = {
            let mut s = token.clone();
            let last = s.rsplit('~').next().unwrap_or("").len();
            s.truncate(s.len() - last);
            s
        };
        for a in indep::ALGS {
            h.as_array_mut().unwrap().push(json!([a, dk, indep::hash(a, &dk)]));
        }
        // whether a policy without audience would make the audience cases acceptable is decided by aud_ok above
        let accept = matches!(defect, "none" | "none_policy_aud_unset" | "aud_array_ok" | "aud_array_expected_last" | "aud_array_mixed_types" | "cnf_null" | "cnf_alg_differs_kb_as_policy")
            || (matches!(defect, "aud_array_empty" | "aud_array_others_only") && policy_aud.is_none());
        let mut e = expectation(&tok, &clear, &presented, if accept { "accept" } else { "reject" });
        if defect == "cnf_null" {
            // no key binding: the KB-JWT must not be there at all; with the KB attached the token is rejected
            e["mode"] = json!("reject");
        }
        e["mode_h"] = json!("none"); // Holder::verify / presentation reject anything carrying a KB-JWT; not this property's subject
        e["mode_p"] = json!("none");
        let case = json!({
            "token": token,
            "jwt": [[jwt, hs_header(), tok.payload]],
            "claims": [[seg, tok.payload]],
            "H": h, "dec": dec, "kb": kb_table, "kbpol": kbpol,
            "kbval": {"alg": policy_alg, "aud": policy_aud},
            "nontrivial": defect != "none",
            "tag": defect,
            "expect": e,
        });
        em.case("verify", case);
        if i % 25 == 7 {
            // the binding itself must not be selectively disclosable: with key binding required, a path to (or into)
            // the cnf member the issuer adds addresses no claim of the caller; issuing has to fail, otherwise the
            // holder could drop the key together with the key-binding JWT
            let c0 = gen::gen_object(r, 2, 3, 1);
            if c0.get("cnf").is_none() {
                let m0 = gen::gen_marking(r, &c0, false);
                let mut c = super::c01::issue_case(&c0, &m0, None, true, "HS256", 1);
                let mut paths: Vec<String> = m0.iter().map(gen::render).collect();
                let pos = r.below(paths.len() + 1);
                paths.insert(pos, r.pick(&["/cnf", "/cnf/n", "/cnf/e"]).to_string());
                c["paths"] = json!(paths);
                c["expect_issue"] = json!("err");
                c["tag"] = json!("cnf_path_with_key_binding");
                c["nontrivial"] = json!(true);
                em.case("issue", c);
            }
        }
    }
}
