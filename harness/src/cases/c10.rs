//! C10: no untrusted input crashes or hangs the entry points.
//!  split  : exhaustive strings over {a . ~} through sd_jwt_parts (exact result compared with the model)
//!  verify : the same strings, and structure-aware mutations of valid tokens, through Holder::verify,
//!           Verifier::verify, Holder::presentation+build (outcome class compared with the model)
//!  misc   : entry points without a model (key parsing, Jwk, verify_kb, from_base64, try_from): no panic
//!  deep   : compounded nesting, run in a child process on a 2 MiB thread (a stack overflow aborts)
//!  decode : time claims at the edge of u64 (dependency arithmetic)
//!  yaml   : mutated YAML documents
use super::common::*;
use super::*;
use crate::gen;
use crate::indep;
use crate::refissuer::{ref_issue, RefOpts};
use crate::rng::Rng;
use crate::Emitter;
use sdjwt::{Algorithm, Disclosure, HashAlgorithm, Holder, KeyForDecoding, Validation};
use std::io::Write;

fn strings_over(alphabet: &[u8], max_len: usize, f: &mut dyn FnMut(&str)) {
    let mut cur: Vec<u8> = Vec::new();
    fn rec(alphabet: &[u8], max_len: usize, cur: &mut Vec<u8>, f: &mut dyn FnMut(&str)) {
        f(std::str::from_utf8(cur).unwrap());
        if cur.len() == max_len {
            return;
        }
        for c in alphabet {
            cur.push(*c);
            rec(alphabet, max_len, cur, f);
            cur.pop();
        }
    }
    rec(alphabet, max_len, &mut cur, f);
}

pub fn exec_split(input: &Value) -> Value {
    let s = input["s"].as_str().unwrap_or("").to_string();
    json!({
        "parts": outcome_total(|| sdjwt::sd_jwt_parts(&s), |(jwt, ds, kb)| json!([jwt, ds, kb])),
    })
}

/// oracle tables for an arbitrary presentation string: what the crates the model treats as oracles
/// answer on its pieces (JWT decoding through the library's decode, everything else independently)
pub fn untrusted_case(s: &str, kbpol: bool, tag: &str) -> Value {
    let parts: Vec<&str> = s.split('~').collect();
    let jwt = parts[0].to_string();
    let ds: Vec<String> = if parts.len() >= 2 { parts[1..parts.len() - 1].iter().map(|x| x.to_string()).collect() } else { vec![] };
    let key = KeyForDecoding::from_secret(SECRET);
    let val = hs_validation();
    let jwt_table = match catch_unwind(AssertUnwindSafe(|| sdjwt::decode(&jwt, &key, &val))) {
        Ok(Ok((h, p))) => json!([[jwt, h, p]]),
        Ok(Err(_)) => json!([]),
        Err(_) => json!([[jwt, "panic"]]),
    };
    let seg = jwt.split('.').nth(1).unwrap_or("").to_string();
    let claims_table = match (jwt.split('.').count(), indep::decode_json(&seg)) {
        (3, Some(p)) => json!([[seg, p]]),
        _ => json!([]),
    };
    let mut strings = ds.clone();
    // the verifier hashes the presentation without its last segment when a KB-JWT is attached
    let last = parts.last().map(|x| x.len()).unwrap_or(0);
    if parts.len() >= 2 {
        strings.push(s[..s.len() - last].to_string());
    }
    let (h, dec) = tables(&strings, &indep::ALGS);
    json!({
        "token": s, "jwt": jwt_table, "claims": claims_table, "H": h, "dec": dec, "kb": [], "kbpol": kbpol,
        "kbval": {"alg": "RS256", "aud": null},
        "expect": {"mode": "none"}, "nontrivial": s.contains('~'), "tag": tag,
    })
}

fn json_zoo() -> Vec<Value> {
    vec![json!(null), json!(true), json!(0), json!(-1), json!(1.5), json!(""), json!("x"), json!([]), json!([1]), json!(["x"]), json!({}), json!({"a": 1}),
         json!([[]]), json!({"...": "d"}), json!({"_sd": 5}), json!("sha-256"), json!(18446744073709551615u64)]
}

/// 1 000 disclosures behind a validly signed payload whose _sd has 2*10^4 entries (built here, not carried in
/// the case, so that the case line stays small)
fn huge_presentation() -> String {
    let many: Vec<String> = (0..1_000).map(|i| indep::b64url_encode(format!("[\"s{}\",\"k{}\",1]", i, i).as_bytes())).collect();
    let payload = json!({"_sd": (0..20_000).map(|i| format!("d{}", i)).collect::<Vec<_>>(), "_sd_alg": "sha-256"});
    presentation_string(&sign_hs256(&payload), &many, "")
}

pub fn exec_misc(input: &Value) -> Value {
    if input["gen"] == "huge_lists" {
        let s = huge_presentation();
        let cls = |r: Value| json!(r["o"]);
        let key = KeyForDecoding::from_secret(SECRET);
        let val = hs_validation();
        return json!({
            "hverify": cls(outcome(|| Holder::verify(&s, &key, &val), |_| Value::Null)),
            "vverify": cls(outcome(|| sdjwt::Verifier::verify(&s, &key, &val, &None), |_| Value::Null)),
            "presentation": cls(outcome(|| Holder::presentation(&s).and_then(|h| h.build()), |_| Value::Null)),
            "parts": cls(outcome_total(|| sdjwt::sd_jwt_parts(&s), |_| Value::Null)),
        });
    }
    let s = input["s"].as_str().unwrap_or("").to_string();
    let b = s.as_bytes().to_vec();
    let cls = |r: Value| json!(r["o"]);
    let mut v = Validation::new(Algorithm::RS256);
    v.validate_exp = false;
    json!({
        "from_base64_256": cls(outcome(|| Disclosure::from_base64(&s, HashAlgorithm::SHA256), |_| Value::Null)),
        "from_base64_512": cls(outcome(|| Disclosure::from_base64(&s, HashAlgorithm::SHA512), |_| Value::Null)),
        "try_from": cls(outcome(|| HashAlgorithm::try_from(s.as_str()), |_| Value::Null)),
        "decode": cls(outcome(|| sdjwt::decode(&s, &KeyForDecoding::from_secret(SECRET), &hs_validation()), |_| Value::Null)),
        "verify_kb": cls(outcome(|| sdjwt::verify_kb(&s, &input["cnf"], &v), |_| Value::Null)),
        "jwk": cls(outcome(|| sdjwt::Jwk::from_value(input["cnf"].clone()), |_| Value::Null)),
        "rsa_pem": cls(outcome(|| KeyForDecoding::from_rsa_pem(&b), |_| Value::Null)),
        "ec_pem": cls(outcome(|| KeyForDecoding::from_ec_pem(&b), |_| Value::Null)),
        "rsa_der": cls(outcome(|| KeyForDecoding::from_rsa_der(&b), |_| Value::Null)),
        "ec_der": cls(outcome(|| KeyForDecoding::from_ec_der(&b), |_| Value::Null)),
        "b64_secret": cls(outcome(|| KeyForDecoding::from_base64_secret(&s), |_| Value::Null)),
        "rsa_components": cls(outcome(|| KeyForDecoding::from_rsa_components(&b, &b), |_| Value::Null)),
        "enc_rsa_pem": cls(outcome(|| sdjwt::KeyForEncoding::from_rsa_pem(&b), |_| Value::Null)),
        "enc_ec_pem": cls(outcome(|| sdjwt::KeyForEncoding::from_ec_pem(&b), |_| Value::Null)),
        "yaml": cls(outcome(|| sdjwt::parse_yaml(&s), |_| Value::Null)),
    })
}

/// a token whose disclosures compound to `levels` x `depth` nesting; every single JSON text stays below
/// serde_json's own recursion limit. shape: "obj" (member disclosures, nested objects), "arr" (array-element
/// disclosures, arrays nested directly in arrays), "mixed" (alternating)
pub fn deep_token(levels: usize, depth: usize, shape: &str) -> String {
    // innermost first: disclosure i carries, at the bottom of `depth` nested containers, the digest of disclosure i+1
    let mut discs: Vec<String> = Vec::new();
    let mut inner_digest: Option<String> = None;
    let elem = |i: usize| shape == "arr" || (shape == "mixed" && i % 2 == 1);
    for i in (0..levels).rev() {
        // the innermost container refers to the next disclosure in the way that disclosure's kind requires
        let mut v = match &inner_digest {
            Some(d) => if elem(i + 1) { json!([{"...": d}]) } else { json!({"_sd": [d]}) },
            None => json!({"leaf": i}),
        };
        for k in 0..depth {
            v = if shape == "arr" || (shape == "mixed" && k % 2 == 0) { json!([v]) } else { json!({ "n": v }) };
        }
        let parts = if elem(i) { json!([format!("salt{}", i), v]) } else { json!([format!("salt{}", i), "k", v]) };
        let s = indep::b64url_encode(serde_json::to_string(&parts).unwrap().as_bytes());
        inner_digest = Some(indep::hash("sha-256", &s));
        discs.push(s);
    }
    discs.reverse();
    let d0 = inner_digest.unwrap();
    let payload = if elem(0) { json!({"a": [{"...": d0}], "_sd_alg": "sha-256"}) } else { json!({"_sd": [d0], "_sd_alg": "sha-256"}) };
    presentation_string(&sign_hs256(&payload), &discs, "")
}

/// k chained member disclosures, each of whose values embeds the digest of the next one TWICE:
/// a restorer that places a disclosure at every occurrence of its digest builds 2^k nodes before any
/// duplicate check can reject the token
pub fn dup_chain_token(k: usize) -> String {
    let mut discs: Vec<String> = Vec::new();
    let mut inner: Option<String> = None;
    for i in (0..k).rev() {
        let v = match &inner {
            Some(d) => json!({"a": {"_sd": [d]}, "b": {"_sd": [d]}}),
            None => json!(1),
        };
        let s = indep::b64url_encode(serde_json::to_string(&json!([format!("s{}", i), "n", v])).unwrap().as_bytes());
        inner = Some(indep::hash("sha-256", &s));
        discs.push(s);
    }
    discs.reverse();
    let payload = json!({"_sd": [inner.unwrap()], "_sd_alg": "sha-256"});
    presentation_string(&sign_hs256(&payload), &discs, "")
}

/// run in a child process: a stack overflow cannot be caught, it aborts the process
pub fn deep_child(token: &str) -> ! {
    let t = token.to_string();
    let h = std::thread::Builder::new()
        .stack_size(2 * 1024 * 1024)
        .spawn(move || {
            let r = catch_unwind(AssertUnwindSafe(|| Holder::verify(&t, &KeyForDecoding::from_secret(SECRET), &hs_validation())));
            let cls = match r {
                Ok(Ok(x)) => {
                    std::mem::forget(x); // dropping a very deep value recurses as well; not the library's concern
                    "ok"
                }
                Ok(Err(_)) => "err",
                Err(_) => "panic",
            };
            println!("{}", cls);
            std::io::stdout().flush().ok();
        })
        .unwrap();
    let _ = h.join();
    std::process::exit(0);
}

pub fn exec_deep(input: &Value) -> Value {
    let levels = input["levels"].as_u64().unwrap_or(1) as usize;
    let depth = input["depth"].as_u64().unwrap_or(1) as usize;
    let token = input["token"].as_str().map(|s| s.to_string()).unwrap_or_else(|| deep_token(levels, depth, input["shape"].as_str().unwrap_or("obj")));
    let exe = std::env::current_exe().unwrap();
    let mut child = std::process::Command::new(exe)
        .arg("deep-child")
        .stdin(std::process::Stdio::piped())
        .stdout(std::process::Stdio::piped())
        .stderr(std::process::Stdio::null())
        .spawn()
        .unwrap();
    child.stdin.take().unwrap().write_all(token.as_bytes()).unwrap();
    // a wall-clock limit: work that grows exponentially with the size of the token is a hang for this property
    let limit = std::time::Duration::from_secs(input["limit_s"].as_u64().unwrap_or(120));
    let start = std::time::Instant::now();
    let mut timed_out = false;
    loop {
        match child.try_wait() {
            Ok(Some(_)) => break,
            Ok(None) => {
                if start.elapsed() > limit {
                    let _ = child.kill();
                    timed_out = true;
                    break;
                }
                std::thread::sleep(std::time::Duration::from_millis(20));
            }
            Err(_) => break,
        }
    }
    let out = child.wait_with_output().unwrap();
    let txt = String::from_utf8_lossy(&out.stdout).trim().to_string();
    let o = if timed_out { "timeout".to_string() } else if out.status.success() && !txt.is_empty() { txt } else { "abort".to_string() };
    json!({"hverify": {"o": o}, "total_depth": levels * depth})
}

pub fn generate(thorough: bool, seed: u64, em: &mut Emitter) {
    // key-binding JWTs whose hash commitment is shorter or longer than the digest it is compared with (empty, a prefix,
    // another algorithm's length, padded): the verifier answers with an error, whatever the comparison looks like inside
    super::c05::generate_kinds(&["hash_prefix", "hash_empty", "hash_other_alg", "hash_extended", "hash_padded", "hash_prefix_dropped_disclosure", "hash_not_string", "kb_followed_by_space"],
                               if thorough { 400 } else { 56 }, seed ^ 0x10, em);
    super::c05::generate_kinds(&["kb_followed_by_space"], if thorough { 200 } else { 24 }, seed ^ 0x11, em);
    // the second-stage API on an object made from untrusted input: Holder::presentation(..).redact(..).build() with paths
    // of one-, two-, three- and four-byte characters whose lengths fall inside each other's characters
    {
        let mut r = Rng::new(seed ^ 0xC10_0B);
        let names = ["id", "n\u{e9}", "\u{540d}\u{524d}", "k\u{1F600}", "a", "ab\u{df}", "\u{7ff}\u{800}", "x\u{10348}y"];
        for i in 0..(if thorough { 400 } else { 48 }) {
            let mut rc = r.fork();
            let r = &mut rc;
            let mut m = serde_json::Map::new();
            for n in names.iter() {
                if !r.chance(2, 3) {
                    continue;
                }
                let v = if r.chance(1, 3) {
                    let inner = *r.pick(&names);
                    json!({"in": 1, inner: [1, 2]})
                } else {
                    json!(r.below(9))
                };
                m.insert(n.to_string(), v);
            }
            let claims = Value::Object(m);
            let marks = gen::gen_marking(r, &claims, true);
            if let Some((token, tok, clear)) = super::c02::make_token(r, &claims, &marks, false, i % 2 == 0) {
                let redact = super::c02::redaction_set(r, &claims, &marks);
                let mut case = super::c02::present_case(&tok, &token, &clear, &redact, Value::Null, 1, json!({"kbpol": Value::Null}));
                case["nontrivial"] = json!(true);
                case["tag"] = json!("redact_multibyte_paths");
                super::present::decorate_session(r, &mut case);
                em.case("present", case);
            }
        }
    }
    let mut r = Rng::new(seed ^ 0xC10);
    // (i) exhaustive strings over the characters the splitters look at
    let max_len = if thorough { 11 } else { 8 };
    strings_over(b"a.~", max_len, &mut |s| {
        em.case("split", json!({ "s": s }));
    });
    strings_over(b"a.~", if thorough { 9 } else { 6 }, &mut |s| {
        em.case("verify", untrusted_case(s, s.len() % 2 == 0, "alphabet"));
        em.case("misc", json!({"s": s, "cnf": {"kty": "RSA", "n": s, "e": s}}));
    });
    // (ii) structure-aware mutations of valid tokens: every JSON type in every bookkeeping position
    let n = if thorough { 20_000 } else { 1_500 };
    let zoo = json_zoo();
    for i in 0..n {
        let mut rc = r.fork();
        let r = &mut rc;
        let claims = gen::gen_object(r, 3, 3, 1);
        let marks = gen::gen_marking(r, &claims, true);
        let opts = RefOpts { alg: "sha-256".to_string(), decoys: r.chance(1, 4), odd_format: false };
        let tok = ref_issue(r, &claims, &marks, &opts);
        let mut payload = tok.payload.clone();
        let mut discs: Vec<String> = tok.discs.iter().map(|d| d.string.clone()).collect();
        let z = r.pick(&zoo).clone();
        let what = i % 12;
        match what {
            0 => payload["_sd"] = z,
            1 => payload["_sd_alg"] = z,
            2 => payload["cnf"] = z,
            3 => payload["cnf"] = json!({"kty": r.pick(&zoo), "n": r.pick(&zoo), "e": r.pick(&zoo)}),
            4 => payload = z, // validly signed payload of any JSON type
            5 => {
                // a member of some array replaced by a placeholder of odd shape
                payload["arr"] = json!([{"...": z}, {"...": "x", "y": 1}, 1]);
            }
            6 => discs.push(indep::b64url_encode(serde_json::to_string(&json!([r.pick(&zoo), r.pick(&zoo), r.pick(&zoo)])).unwrap().as_bytes())),
            7 => discs.push(indep::b64url_encode(serde_json::to_string(&z).unwrap().as_bytes())),
            8 => {
                if !discs.is_empty() {
                    let p = r.below(discs.len());
                    let cut = r.below(discs[p].len() + 1);
                    discs[p].truncate(cut);
                }
            }
            9 => discs.push(indep::b64url_encode(&[0xff, 0xfe, 0xfd])), // not UTF-8
            10 => {
                // segment deletion / duplication
                if !discs.is_empty() {
                    let p = r.below(discs.len());
                    if r.chance(1, 2) { discs.remove(p); } else { let d = discs[p].clone(); discs.insert(p, d); }
                }
            }
            _ => payload["_sd"] = json!([z, "x", 5, null]),
        }
        let jwt = sign_hs256(&payload);
        let kb = match r.below(4) { 0 => "a.b.c".to_string(), 1 => jwt.clone(), _ => String::new() };
        let s = presentation_string(&jwt, &discs, &kb);
        let mut c = untrusted_case(&s, r.chance(1, 2), "mutation");
        c["nontrivial"] = json!(true);
        em.case("verify", c);
    }
    // (ii') every rejection (and acceptance) path with long attacker-chosen strings made of multi-byte characters:
    // text that is cut, padded or quoted by byte position (for a message, a log line, a cache key) must not be cut
    // inside a character. "a" + 2-byte chars has its boundaries at odd offsets, 2-byte chars alone at even ones,
    // 3- and 4-byte chars cover the rest: some string below is mid-character at every offset from 1 to 300
    let monsters: Vec<String> = vec![
        format!("a{}", "é".repeat(150)), "é".repeat(150), "€".repeat(100), format!("ab{}", "€".repeat(100)), "😀".repeat(75), format!("x{}", "😀".repeat(75)),
    ];
    for m in &monsters {
        let disc = |parts: Value| indep::b64url_encode(serde_json::to_string(&parts).unwrap().as_bytes());
        let dg = |d: &str| indep::hash("sha-256", d);
        let member = disc(json!(["salt", m, 2]));
        let element = disc(json!(["salt", m]));
        let arity1 = disc(json!([m]));
        let arity4 = disc(json!([m, m, m, m]));
        let not_array = disc(json!(m));
        let reserved = disc(json!([m, "_sd", m]));
        let non_string_name = disc(json!([m, [m], m]));
        let shapes: Vec<(&str, Value, Vec<String>)> = vec![
            ("name_exists", json!({m.as_str(): 1, "_sd": [dg(&member)], "_sd_alg": "sha-256"}), vec![member.clone()]),
            ("accepted_member", json!({"_sd": [dg(&member)], "_sd_alg": "sha-256"}), vec![member.clone()]),
            ("accepted_element", json!({"arr": [{"...": dg(&element)}], "_sd_alg": "sha-256"}), vec![element.clone()]),
            ("member_in_placeholder", json!({"arr": [{"...": dg(&member)}], "_sd_alg": "sha-256"}), vec![member.clone()]),
            ("element_in_sd", json!({"_sd": [dg(&element)], "_sd_alg": "sha-256"}), vec![element.clone()]),
            ("digest_twice", json!({"_sd": [dg(&member)], "o": {"_sd": [dg(&member)]}, "_sd_alg": "sha-256"}), vec![member.clone()]),
            ("disclosure_twice", json!({"_sd": [dg(&member)], "_sd_alg": "sha-256"}), vec![member.clone(), member.clone()]),
            ("arity", json!({"_sd": [dg(&arity1), dg(&arity4)], "_sd_alg": "sha-256"}), vec![arity1.clone(), arity4.clone()]),
            ("not_array", json!({"_sd": [dg(&not_array)], "_sd_alg": "sha-256"}), vec![not_array.clone()]),
            ("reserved_name", json!({"_sd": [dg(&reserved)], "_sd_alg": "sha-256"}), vec![reserved.clone()]),
            ("name_not_string", json!({"_sd": [dg(&non_string_name)], "_sd_alg": "sha-256"}), vec![non_string_name.clone()]),
            ("alg_name", json!({"_sd": [dg(&member)], "_sd_alg": m}), vec![member.clone()]),
            ("digests", json!({"_sd": [m, m], "arr": [{"...": m}, {"...": m, m.as_str(): m}], "_sd_alg": "sha-256"}), vec![member.clone()]),
            ("sd_not_array", json!({"_sd": m, "_sd_alg": "sha-256"}), vec![member.clone()]),
            ("cnf", json!({"_sd": [dg(&member)], "_sd_alg": "sha-256", "cnf": {"kty": m, "n": m, "e": m}}), vec![member.clone()]),
            ("cnf_rsa", json!({"_sd": [dg(&member)], "_sd_alg": "sha-256", "cnf": {"kty": "RSA", "n": m, "e": "AQAB"}}), vec![member.clone()]),
            ("raw_segment", json!({"_sd": [dg(&member)], "_sd_alg": "sha-256"}), vec![m.clone(), member.clone()]),
        ];
        for (tag, payload, discs) in shapes {
            let jwt = sign_hs256(&payload);
            for kb in ["", m.as_str(), "a.b.c"] {
                let s = presentation_string(&jwt, &discs, kb);
                let mut c = untrusted_case(&s, true, "multibyte");
                c["nontrivial"] = json!(true);
                c["shape"] = json!(tag);
                em.case("verify", c);
            }
        }
        // the token string itself
        for s in [m.clone(), format!("{}~", m), format!("{}~{}~", m, m), format!("{}.{}.{}~{}~", m, m, m, m), format!("a.b.c~{}", m)] {
            em.case("verify", untrusted_case(&s, true, "multibyte"));
            em.case("split", json!({ "s": s }));
            em.case("misc", json!({"s": s, "cnf": {"kty": "RSA", "n": s, "e": s}}));
        }
    }
    // RSA holder keys whose exponent has 0 to 300 octets (and a modulus of any length), with and without a KB-JWT attached
    {
        let b64 = |bytes: &[u8]| indep::b64url_encode(bytes);
        let jwk = crate::keys::rsa_jwk();
        let kbs = ["a.b.c".to_string(), sign_hs256(&json!({"nonce": "0123456789abcdef", "aud": "v", "iat": 1, "sd_hash": "x"})), String::new()];
        for len in [0usize, 1, 2, 3, 4, 5, 7, 8, 9, 10, 16, 17, 32, 33, 64, 65, 255, 256, 257, 300] {
            for fill in [0u8, 1, 0xff] {
                let mut e = vec![fill; len];
                if let Some(l) = e.last_mut() { *l |= 1; }
                for n in [jwk["n"].clone(), json!(b64(&vec![0xffu8; len]))] {
                    let cnf = json!({"kty": "RSA", "n": n, "e": b64(&e)});
                    for kb in &kbs {
                        em.case("misc", json!({"s": kb, "cnf": cnf}));
                    }
                    let member = indep::b64url_encode(serde_json::to_string(&json!(["c2FsdHNhbHRzYWx0c2FsdA", "k", 1])).unwrap().as_bytes());
                    let payload = json!({"_sd": [indep::hash("sha-256", &member)], "_sd_alg": "sha-256", "cnf": cnf});
                    let jwt = sign_hs256(&payload);
                    for kb in &kbs {
                        let s = presentation_string(&jwt, &[member.clone()], kb);
                        let mut c = untrusted_case(&s, true, "cnf_exponent_length");
                        c["nontrivial"] = json!(true);
                        em.case("verify", c);
                    }
                }
            }
        }
    }
    // huge lists: 10^4 disclosures, _sd with 10^5 entries
    em.case("misc", json!({"gen": "huge_lists"}));
    // (iii) compounded nesting in a child process
    for shape in ["obj", "arr", "mixed"] {
        for (levels, depth) in [(1usize, 100usize), (1, 124), (1, 126), (1, 127), (2, 62), (2, 63), (2, 64), (2, 100), (10, 100), (50, 100), (80, 100)] {
            let token = deep_token(levels, depth, shape);
            let mut c = untrusted_case(&token, false, "deep");
            c["levels"] = json!(levels);
            c["depth"] = json!(depth);
            c["shape"] = json!(shape);
            c["nontrivial"] = json!(true);
            em.case("deep", c);
        }
    }
    // (iii') repeated digests inside disclosure values: the work must not multiply level by level
    for k in [3usize, 8, 24] {
        let token = dup_chain_token(k);
        let mut c = untrusted_case(&token, false, "dup_chain");
        c["levels"] = json!(k);
        c["depth"] = json!(1);
        c["limit_s"] = json!(30);
        c["nontrivial"] = json!(true);
        em.case("deep", c);
    }
    // (iv) time claims at the edge of u64 through the JWT library's arithmetic
    let t = super::jwtk::now();
    for (exp, nbf, leeway, validate_nbf) in [(u64::MAX, 0u64, 60u64, false), (u64::MAX - 30, 0, 60, false), (t + 300, 10, 60, true), (t + 300, 0, 1, true), (u64::MAX, 0, 0, false)] {
        let payload = json!({"_sd_alg": "sha-256", "exp": exp, "nbf": nbf});
        let token = sdjwt::encode(&sdjwt::Header::new(Algorithm::HS256), &payload, &super::jwtk::signing_key("HS256")).unwrap();
        let policy = json!({"alg": "HS256", "aud": null, "iss": null, "leeway": leeway, "required": null, "sub": null,
                            "validate_aud": true, "validate_exp": true, "validate_nbf": validate_nbf});
        let mut c = super::jwtk::decode_case(&token, &policy, &super::jwtk::matching_key_spec("HS256"), "HS256", true, "nopanic", "nopanic", true);
        c["tag"] = json!("time_overflow");
        em.case("decode", c);
    }
    // (v) mutated YAML
    let docs = ["", "a: 1", "!sd a: 1", "!sd 5: 1", "- !sd 5", "!sd x", "- !sd [1]", "a: !sd b", "? [1,2]\n: x", "a: &x 1\nb: *x", "!other a: 1",
                "a:\n  - !sd b\n  - {!sd c: 1}", "{a: {b: {c: {d: {e: {f: 1}}}}}}", "!sd \"\": \"\"", "a: !!binary aGk=", "- - - - - !sd x", "a: 1\na: 2", "\t", "{", "!sd"];
    for d in docs {
        em.case("yaml", json!({"doc": d, "claims": null, "paths": [], "expect_ok": false, "nontrivial": true}));
    }
    let deep_yaml: String = (0..300).map(|i| format!("{}a:\n", " ".repeat(i))).collect::<String>() + &" ".repeat(300) + "b";
    em.case("yaml", json!({"doc": deep_yaml, "claims": null, "paths": [], "expect_ok": false, "nontrivial": true}));
}
