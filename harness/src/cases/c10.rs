//! C10: no untrusted input crashes or hangs the entry points.
use super::*;
use crate::Emitter;

fn strings_over(alphabet: &[u8], max_len: usize, f: &mut dyn FnMut(&str)) {
    let mut cur: Vec<u8> = Vec::new();
    fn rec(alphabet: &[u8], max_len: usize, cur: &mut Vec<u8>, f: &mut dyn FnMut(&str)) {
        f(std::str::from_utf8(cur).unwrap());
        if cur.len() == max_len {
            return;
        }
        for c in alphabet {
            cur.push(*c);
            rec(alphabet, max_len, cur, f);
            cur.pop();
        }
    }
    rec(alphabet, max_len, &mut cur, f);
}

pub fn generate(thorough: bool, _seed: u64, em: &mut Emitter) {
    let max_len = if thorough { 11 } else { 8 };
    strings_over(b"a.~", max_len, &mut |s| {
        em.case("split", json!({ "s": s }));
    });
}

pub fn exec_split(input: &Value) -> Value {
    let s = input["s"].as_str().unwrap_or("").to_string();
    json!({
        "parts": outcome_total(|| sdjwt::sd_jwt_parts(&s), |(jwt, ds, kb)| json!([jwt, ds, kb])),
    })
}
