//! Kind "issue": Issuer::encode on (claims, path list, decoy setting, cnf), read-back of the random
//! choices from the produced token (independent decoding), then Holder::verify of that token.
use super::common::*;
use super::*;
use crate::indep;
use sdjwt::{Algorithm, Header, Holder, Issuer, Jwk, KeyForDecoding, KeyForEncoding, Validation};

pub fn holder_jwk() -> Value {
    crate::keys::rsa_jwk()
}

fn algorithm(name: &str) -> Algorithm {
    serde_json::from_value(json!(name)).expect("algorithm name")
}

fn collect_sd_arrays<'a>(v: &'a Value, out: &mut Vec<&'a Vec<Value>>) {
    match v {
        Value::Object(m) => {
            for (k, c) in m {
                if k == "_sd" {
                    if let Value::Array(a) = c {
                        out.push(a);
                        continue;
                    }
                }
                collect_sd_arrays(c, out);
            }
        }
        Value::Array(a) => a.iter().for_each(|c| collect_sd_arrays(c, out)),
        _ => {}
    }
}

/// everything the model needs to replay the random choices, read off the token without library help
pub fn readback(token: &str) -> Value {
    let parts: Vec<&str> = token.split('~').collect();
    let jwt = parts[0];
    let ds: Vec<String> = if parts.len() >= 2 { parts[1..parts.len() - 1].iter().map(|s| s.to_string()).collect() } else { vec![] };
    let segs: Vec<&str> = jwt.split('.').collect();
    let header = segs.first().and_then(|s| indep::decode_json(s)).unwrap_or(Value::Null);
    let payload = segs.get(1).and_then(|s| indep::decode_json(s)).unwrap_or(Value::Null);
    let mut enc = Vec::new();
    let mut h = Vec::new();
    let mut dec = Vec::new();
    let mut salts = Vec::new();
    let mut digests: Vec<String> = Vec::new();
    let mut values: Vec<Value> = Vec::new();
    for d in &ds {
        let parsed = indep::decode_json(d);
        let g = indep::hash("sha-256", d);
        h.push(json!(["sha-256", d, g]));
        digests.push(g);
        dec.push(json!([d, parsed.clone().map(|v| json!([v]))]));
        if let Some(Value::Array(p)) = &parsed {
            enc.push(json!([p, d]));
            salts.push(p.first().cloned().unwrap_or(Value::Null));
            values.push(p.last().cloned().unwrap_or(Value::Null));
        } else {
            salts.push(Value::Null);
            values.push(Value::Null);
        }
    }
    // insertion positions of the real digests, replayed per _sd array in marking (= disclosure) order
    let mut arrays: Vec<&Vec<Value>> = Vec::new();
    collect_sd_arrays(&payload, &mut arrays);
    for v in &values {
        collect_sd_arrays(v, &mut arrays);
    }
    let top: Option<&Vec<Value>> = payload.get("_sd").and_then(|v| v.as_array());
    let mut pos = Vec::new();
    for a in &arrays {
        let is_top = top.map_or(false, |t| std::ptr::eq(*a, t));
        let rank = |g: &str| a.iter().position(|x| x.as_str() == Some(g));
        let mut inserted: Vec<usize> = Vec::new(); // final ranks of the digests inserted so far
        for g in &digests {
            if let Some(rk) = rank(g) {
                let p = if is_top { inserted.len() } else { inserted.iter().filter(|r| **r < rk).count() };
                pos.push(json!([g, p]));
                inserted.push(rk);
            }
        }
    }
    let decoys: Vec<Value> = top
        .map(|t| t.iter().filter(|x| x.as_str().map_or(true, |s| !digests.iter().any(|g| g == s))).cloned().collect())
        .unwrap_or_default();
    json!({
        "jwt": jwt, "header": header, "payload": payload, "disclosures": ds,
        "enc": enc, "H": h, "dec": dec, "salts": salts, "pos": pos, "decoys": decoys,
        "top_sd": top.cloned().map(Value::Array),
        "claims_seg": segs.get(1).copied().unwrap_or(""),
    })
}

pub fn keys_for(alg: &str) -> (KeyForEncoding, KeyForDecoding) {
    match alg {
        "HS256" | "HS384" | "HS512" => (KeyForEncoding::from_secret(SECRET), KeyForDecoding::from_secret(SECRET)),
        _ => crate::keys::pair(alg),
    }
}

pub fn exec_issue(input: &Value) -> Value {
    let claims = input["claims"].clone();
    let alg = input["alg"].as_str().unwrap_or("HS256").to_string();
    let paths: Vec<String> = input["paths"].as_array().map(|a| a.iter().map(|p| p.as_str().unwrap_or("").to_string()).collect()).unwrap_or_default();
    let calls = input["calls"].as_u64().unwrap_or(1) as usize;
    let (ek, dk) = keys_for(&alg);
    let mut val = Validation::new(algorithm(&alg));
    val.validate_exp = false;
    let mut outs = Vec::new();
    let clock = || std::time::SystemTime::now().duration_since(std::time::UNIX_EPOCH).unwrap().as_secs();
    let t0 = clock();
    // the most recent expires_in_seconds(n): n and the clock before / after the call
    let mut last_exp: Option<(i64, u64, u64)> = input["exp_in"].as_i64().map(|n| (n, t0, t0));
    let built = catch_unwind(AssertUnwindSafe(|| {
        let mut iss = Issuer::new(claims.clone()).ok()?;
        for p in &paths {
            iss.disclosable(p);
        }
        if let Some(n) = input["decoy"].as_i64() {
            iss.decoy(n as i32);
        }
        iss.header(Header::new(algorithm(&alg)));
        if let Some(n) = input["exp_in"].as_i64() {
            iss.expires_in_seconds(n);
        }
        if input["cnf"].as_bool().unwrap_or(false) {
            iss.require_key_binding(Jwk::from_value(holder_jwk()).ok()?);
        }
        Some(iss)
    }));
    if let Some(e) = last_exp.as_mut() {
        e.2 = clock();
    }
    let mut iss = match built {
        Ok(Some(i)) => i,
        Ok(None) => return json!({"calls": [{"encode": {"o": "err"}}]}),
        Err(_) => return json!({"calls": [{"encode": {"o": "panic"}}]}),
    };
    for i in 0..calls {
        // the same issuer object asked for another lifetime before this call
        if let Some(n) = input["exp_in_seq"].get(i).and_then(|v| v.as_i64()) {
            let a = clock();
            if catch_unwind(AssertUnwindSafe(|| { iss.expires_in_seconds(n); })).is_err() {
                outs.push(json!({"encode": {"o": "panic"}}));
                continue;
            }
            last_exp = Some((n, a, clock()));
        }
        let enc = catch_unwind(AssertUnwindSafe(|| iss.encode(&ek)));
        match enc {
            Err(_) => outs.push(json!({"encode": {"o": "panic"}})),
            Ok(Err(_)) => outs.push(json!({"encode": {"o": "err"}})),
            Ok(Ok(token)) => {
                let rb = readback(&token);
                let hv = outcome(|| Holder::verify(&token, &dk, &val), |(h, c, ps)| json!([h, c, sorted_path_triples(&ps)]));
                let t1 = std::time::SystemTime::now().duration_since(std::time::UNIX_EPOCH).unwrap().as_secs();
                outs.push(json!({"encode": {"o": "ok", "v": token}, "readback": rb, "hverify": hv, "t0": t0, "t1": t1,
                                 "exp_n": last_exp.map(|e| e.0), "exp_t0": last_exp.map(|e| e.1), "exp_t1": last_exp.map(|e| e.2)}));
            }
        }
    }
    json!({ "calls": outs })
}
