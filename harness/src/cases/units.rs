//! Kind "unit": FUNCTION-LEVEL correspondence. The private functions of utils.rs, issuer.rs, decoding.rs and
//! encoding.rs are called through the cfg(sdjwt_verif) hooks of /repo, on inputs they can receive through the
//! public API (signed payloads are arbitrary JSON for an attacker or a foreign issuer; build_disclosure works
//! on the issuer's working copy), and compared with their Gallina counterparts (coq/theories/CaseUnit.v).
//! Only compiled when the hooks compile (see ./check build_step): a refactoring that changes a private
//! signature switches this kind off, it does not break the harness.
use super::common::*;
use super::*;
use crate::gen::{self, Tok};
use crate::indep;
use crate::refissuer::{ref_issue, RefOpts};
use crate::rng::Rng;
use crate::Emitter;
use sdjwt::verif_hooks as hk;
use sdjwt::{Disclosure, DisclosurePath, HashAlgorithm};

fn paths_in_order(ps: &[DisclosurePath]) -> Value {
    Value::Array(ps.iter().map(|p| json!([p.path, p.disclosure.key(), p.disclosure.value()])).collect())
}

fn strs(v: &Value) -> Vec<String> {
    v.as_array().map(|a| a.iter().map(|s| s.as_str().unwrap_or("").to_string()).collect()).unwrap_or_default()
}

/// position of a digest in whichever _sd array of the tree holds it
fn find_pos(v: &Value, g: &str) -> Option<usize> {
    match v {
        Value::Object(m) => {
            if let Some(Value::Array(a)) = m.get("_sd") {
                if let Some(i) = a.iter().position(|x| x.as_str() == Some(g)) {
                    return Some(i);
                }
            }
            m.values().find_map(|c| find_pos(c, g))
        }
        Value::Array(a) => a.iter().find_map(|c| find_pos(c, g)),
        _ => None,
    }
}

pub fn exec_unit(input: &Value) -> Value {
    let f = input["fn"].as_str().unwrap_or("");
    let s = |k: &str| input[k].as_str().unwrap_or("").to_string();
    let mut readback = Value::Null;
    let res = match f {
        "restore1" => outcome(
            || -> Result<Value, sdjwt::Error> {
                let alg = HashAlgorithm::try_from(s("alg").as_str())?;
                let d = Disclosure::from_base64(&s("disc"), alg)?;
                let mut claims = input["claims"].clone();
                let mut ps = Vec::new();
                let b = hk::utils::restore_disclosure(&mut claims, &d, s("path"), &mut ps, input["depth"].as_u64().unwrap_or(0) as usize)?;
                Ok(json!([claims, paths_in_order(&ps), b]))
            },
            |v| v,
        ),
        "restore_all" => outcome(
            || -> Result<Value, sdjwt::Error> {
                let alg = HashAlgorithm::try_from(s("alg").as_str())?;
                let mut claims = input["claims"].clone();
                let mut ps = Vec::new();
                hk::utils::restore_disclosures(&mut claims, &strs(&input["ds"]), &mut ps, alg)?;
                Ok(json!([claims, paths_in_order(&ps)]))
            },
            |v| v,
        ),
        // check_digests is private to utils.rs: it is reached as restore_disclosures with no disclosure at all
        // (no pass places anything, the recorded set is empty, the structure check runs on the claims as they are)
        "check" => outcome(
            || {
                let mut c = input["claims"].clone();
                let mut ps = Vec::new();
                hk::utils::restore_disclosures(&mut c, &[], &mut ps, HashAlgorithm::SHA256)
            },
            |_| Value::Null,
        ),
        "strip" => outcome(
            || {
                let mut c = input["claims"].clone();
                hk::utils::remove_digests(&mut c).map(|_| c)
            },
            |c| c,
        ),
        "strip_all" => outcome(
            || {
                let mut c = input["claims"].clone();
                hk::utils::remove_all_digests(&mut c).map(|_| c)
            },
            |c| c,
        ),
        "contains" => outcome(|| hk::utils::sd_contains_digest(&input["sd"], &s("digest")), |b| json!(b)),
        "declared" => outcome(|| hk::utils::declared_hash_alg(&input["claims"]), |a| json!(a.to_string())),
        "fmt" => outcome_total(|| hk::utils::format_path(&s("parent"), &s("key")), |p| json!(p)),
        "dropkb" => outcome_total(|| hk::utils::drop_kb(&s("s")), |p| json!(p)),
        "build" => {
            let mut claims = input["claims"].clone();
            let mut steps = Vec::new();
            let (mut salts, mut enc, mut h, mut pos) = (Vec::new(), Vec::new(), Vec::new(), Vec::new());
            for p in strs(&input["paths"]) {
                match catch_unwind(AssertUnwindSafe(|| hk::issuer::build_disclosure(&mut claims, &p))) {
                    Err(_) => {
                        steps.push(json!({"o": "panic"}));
                        break;
                    }
                    Ok(Err(_)) => {
                        steps.push(json!({"o": "err"}));
                        break;
                    }
                    Ok(Ok(d)) => {
                        let text = d.disclosure().to_string();
                        let g = indep::hash("sha-256", &text);
                        let parts = indep::decode_json(&text).unwrap_or(Value::Null);
                        salts.push(parts.get(0).cloned().unwrap_or(Value::Null));
                        enc.push(json!([parts, text]));
                        h.push(json!(["sha-256", text, g]));
                        if let Some(i) = find_pos(&claims, &g) {
                            pos.push(json!([g, i]));
                        }
                        steps.push(json!({"o": "ok", "v": [claims.clone(), [text, d.digest(), d.key(), d.value()]]}));
                    }
                }
            }
            readback = json!({"salts": salts, "enc": enc, "H": h, "pos": pos});
            Value::Array(steps)
        }
        "reserved" => outcome(|| hk::issuer::reject_reserved_names(&input["claims"], input["top"].as_bool().unwrap_or(false)), |_| Value::Null),
        "decoys" => {
            let mut c = input["claims"].clone();
            let r = outcome(|| hk::issuer::build_decoys(&mut c, input["n"].as_i64().unwrap_or(0) as i32), |ds| json!(ds));
            if r["o"] == "ok" {
                readback = json!({"decoys": r["v"]});
                json!({"o": "ok", "v": [c, r["v"]]})
            } else {
                r
            }
        }
        "bv" => outcome_total(|| hk::decoding::build_validation(&super::jwtk::policy_from_json(&input["policy"])), |v| v),
        _ => json!({"harness_error": "unknown unit function"}),
    };
    json!({"res": res, "readback": readback})
}

// ---------------------------------------------------------------- generators
fn unit(em: &mut Emitter, f: &str, mut fields: Value) {
    fields.as_object_mut().unwrap().insert("fn".to_string(), json!(f));
    em.case("unit", fields);
}

fn junk_disc(r: &mut Rng) -> String {
    match r.below(9) {
        0 => "!!".to_string(),
        1 => "".to_string(),
        2 => indep::b64url_encode(b"[1]"),
        3 => indep::b64url_encode(b"[]"),
        4 => indep::b64url_encode(b"[\"s\",\"k\",1,2]"),
        5 => indep::b64url_encode(b"{\"a\":1}"),
        6 => indep::b64url_encode(b"[\"salt\",5,1]"),
        7 => indep::b64url_encode(b"[\"salt\",\"_sd\",1]"),
        _ => indep::b64url_encode(b"[\"salt\",\"k\",\"v\"]"),
    }
}

/// one structural defect somewhere in a payload (what C12 lists), so that the error branches are compared as well
fn damage(r: &mut Rng, payload: &mut Value, digests: &[String]) {
    let nodes = gen::all_nodes(payload);
    let objs: Vec<&gen::TPath> = nodes.iter().filter(|p| gen::resolve(payload, p).map_or(false, |v| v.is_object())).collect();
    let arrs: Vec<&gen::TPath> = nodes.iter().filter(|p| gen::resolve(payload, p).map_or(false, |v| v.is_array())).collect();
    let g = if digests.is_empty() || r.chance(1, 4) { "zzzz".to_string() } else { r.pick(digests).clone() };
    let at_obj = if objs.is_empty() || r.chance(1, 3) { vec![] } else { (*r.pick(&objs)).clone() };
    fn get_mut<'a>(v: &'a mut Value, p: &[Tok]) -> &'a mut Value {
        let mut cur = v;
        for t in p {
            cur = match (t, cur) {
                (Tok::Key(k), Value::Object(m)) => m.get_mut(k).unwrap(),
                (Tok::Idx(i), Value::Array(a)) => a.get_mut(*i).unwrap(),
                _ => unreachable!(),
            };
        }
        cur
    }
    match r.below(6) {
        0 => {
            // the same digest once more in some _sd list
            if let Value::Object(m) = get_mut(payload, &at_obj) {
                let e = m.entry("_sd").or_insert_with(|| json!([]));
                if let Value::Array(a) = e {
                    a.push(json!(g));
                }
            }
        }
        1 => {
            if let Value::Object(m) = get_mut(payload, &at_obj) {
                m.insert("_sd".to_string(), match r.below(3) { 0 => json!("text"), 1 => json!({"a": 1}), _ => json!(5) });
            }
        }
        2 if !arrs.is_empty() => {
            let at = (*r.pick(&arrs)).clone();
            if let Value::Array(a) = get_mut(payload, &at) {
                let i = r.below(a.len() + 1);
                a.insert(i, json!({"...": g, "x": 1}));
            }
        }
        3 if !arrs.is_empty() => {
            let at = (*r.pick(&arrs)).clone();
            if let Value::Array(a) = get_mut(payload, &at) {
                let i = r.below(a.len() + 1);
                a.insert(i, match r.below(3) { 0 => json!({"...": g}), 1 => json!({"...": 5}), _ => json!({"...": null}) });
            }
        }
        4 => {
            if let Value::Object(m) = get_mut(payload, &at_obj) {
                let e = m.entry("_sd").or_insert_with(|| json!([]));
                if let Value::Array(a) = e {
                    a.push(match r.below(3) { 0 => json!(5), 1 => json!(null), _ => json!(["x"]) });
                }
            }
        }
        _ => {
            if let Value::Object(m) = get_mut(payload, &at_obj) {
                m.insert("...".to_string(), json!(g));
            }
        }
    }
}

/// restore / check / strip families (serves C01 C03 C08 C12)
pub fn generate_restore(n: usize, seed: u64, em: &mut Emitter) {
    let mut r = Rng::new(seed ^ 0x0511_7001);
    for i in 0..n {
        let mut rc = r.fork();
        let r = &mut rc;
        let chain_len = 2 + r.below(8);
        let (claims, marks) = if i % 11 == 10 { gen::gen_chain(r, chain_len) } else { gen::claims_and_marking(r, i, 3, 3) };
        let alg = if r.chance(1, 5) { *r.pick(&indep::ALGS) } else { "sha-256" };
        let opts = RefOpts { alg: alg.to_string(), decoys: r.chance(1, 4), odd_format: r.chance(1, 4) };
        let tok = ref_issue(r, &claims, &marks, &opts);
        let own: Vec<String> = tok.discs.iter().map(|d| d.string.clone()).collect();
        let digests: Vec<String> = tok.discs.iter().map(|d| d.digest.clone()).collect();
        let mut payload = tok.payload.clone();
        if r.chance(1, 3) {
            damage(r, &mut payload, &digests);
        }
        // a list: subset, permutation, repetitions, junk
        let mut list: Vec<String> = own.iter().filter(|_| r.chance(3, 4)).cloned().collect();
        for k in (1..list.len()).rev() {
            let j = r.below(k + 1);
            list.swap(k, j);
        }
        if r.chance(1, 6) && !list.is_empty() {
            let d = r.pick(&list).clone();
            let at = r.below(list.len() + 1);
            list.insert(at, d);
        }
        if r.chance(1, 6) {
            let at = r.below(list.len() + 1);
            list.insert(at, junk_disc(r));
        }
        let mut strings = own.clone();
        strings.extend(list.iter().cloned());
        let (h, dec) = tables(&strings, &[alg]);
        // the tree at some stage of the restoration: the first k list entries already applied (by the library
        // itself; whatever tree results is a legitimate input)
        let staged = {
            let k = r.below(list.len() + 1);
            let mut c = payload.clone();
            let mut ps = Vec::new();
            let ok = catch_unwind(AssertUnwindSafe(|| {
                hk::utils::restore_disclosures(&mut c, &list[..k], &mut ps, HashAlgorithm::try_from(alg).unwrap()).is_ok()
            }))
            .unwrap_or(false);
            if ok { c } else { payload.clone() }
        };
        match i % 6 {
            0 | 1 => {
                let d = if r.chance(1, 8) || own.is_empty() { junk_disc(r) } else { r.pick(&own).clone() };
                let mut st = strings.clone();
                st.push(d.clone());
                let (h, dec) = tables(&st, &[alg]);
                unit(em, "restore1", json!({"claims": if i % 6 == 0 { payload.clone() } else { staged }, "disc": d, "alg": alg,
                                              "path": "", "depth": 0, "H": h, "dec": dec}));
            }
            2 | 3 => unit(em, "restore_all", json!({"claims": payload, "ds": list, "alg": alg, "H": h, "dec": dec})),
            4 => {
                unit(em, "check", json!({"claims": if r.chance(1, 2) { payload } else { staged }, "seen": [], "depth": 0}));
            }
            _ => {
                let c = if r.chance(1, 2) { payload } else { staged };
                unit(em, if r.chance(1, 2) { "strip" } else { "strip_all" }, json!({"claims": c}));
            }
        }
        if i % 40 == 0 {
            let sd = match r.below(4) { 0 => json!(digests), 1 => json!("text"), 2 => json!([1, null, "x"]), _ => Value::Null };
            let g = if digests.is_empty() { "x".to_string() } else { r.pick(&digests).clone() };
            unit(em, "contains", json!({"sd": sd, "digest": g}));
            let mut c = tok.payload.clone();
            match r.below(5) {
                0 => { c.as_object_mut().unwrap().remove("_sd_alg"); }
                1 => { c["_sd_alg"] = json!(*r.pick(&["SHA-256", "sha256", "", "md5", "sha-384", "sha-512"])); }
                2 => { c["_sd_alg"] = match r.below(3) { 0 => json!(null), 1 => json!(5), _ => json!(["sha-256"]) }; }
                _ => {}
            }
            unit(em, "declared", json!({"claims": c}));
            let key = *r.pick(gen::KEYS);
            unit(em, "fmt", json!({"parent": *r.pick(&["", "/a", "/a~1b/0", "x"]), "key": key}));
            let parts: Vec<&str> = (0..r.below(5)).map(|_| *r.pick(&["", "a", "b.c.d", "é"])).collect();
            unit(em, "dropkb", json!({"s": parts.join("~")}));
        }
    }
}

const BAD_PATHS: &[&str] = &["", "x", "a/b", "/nope", "/a/-", "/0", "/a/01", "/a/+1", "/_sd/0", "/_sd", "/...", "//", "/a/", "/a/99999999999999999999", "/a/1e0", "/~", "/a~2b"];

/// build_disclosure folds, reject_reserved_names, build_decoys (serves C01 C06 C07 C13 C14)
pub fn generate_issuer(n: usize, seed: u64, em: &mut Emitter) {
    let mut r = Rng::new(seed ^ 0x0511_7002);
    for i in 0..n {
        let mut rc = r.fork();
        let r = &mut rc;
        let chain_len = 2 + r.below(6);
        let (mut claims, marks) = if i % 13 == 12 { gen::gen_chain(r, chain_len) } else { gen::claims_and_marking(r, i, 3, 3) };
        let mut paths: Vec<String> = marks.iter().map(gen::render).collect();
        match r.below(8) {
            0 => {
                let at = r.below(paths.len() + 1);
                paths.insert(at, r.pick(BAD_PATHS).to_string());
            }
            1 if !paths.is_empty() => {
                // a repeated path, or an ancestor before its descendant
                let p = r.pick(&paths).clone();
                let at = r.below(paths.len() + 1);
                paths.insert(at, p);
            }
            2 if paths.len() >= 2 => paths.reverse(),
            3 => gen::plant_reserved_name(r, &mut claims),
            _ => {}
        }
        match i % 4 {
            0 | 1 | 2 => unit(em, "build", json!({"claims": claims, "paths": paths})),
            _ => {
                unit(em, "reserved", json!({"claims": claims.clone(), "top": r.chance(3, 4)}));
                // decoys on the working copy the fold leaves behind, or on claims of any shape
                let mut c = claims.clone();
                for p in &paths {
                    if catch_unwind(AssertUnwindSafe(|| hk::issuer::build_disclosure(&mut c, p).is_ok())).unwrap_or(false) == false {
                        break;
                    }
                }
                let c = match r.below(6) { 0 => json!([1, 2]), 1 => json!("s"), 2 => { let mut d = c.clone(); if let Value::Object(m) = &mut d { m.insert("_sd".into(), json!("text")); } d }, _ => c };
                unit(em, "decoys", json!({"claims": c, "n": 1 + r.below(5)}));
            }
        }
    }
}

/// build_validation over policies (serves C04 C11)
pub fn generate_bv(n: usize, seed: u64, em: &mut Emitter) {
    let mut r = Rng::new(seed ^ 0x0511_7003);
    let names = ["a", "b", "exp", "iss", ""];
    for p in super::jwtk::reachable_policies().into_iter().take(n) {
        unit(em, "bv", json!({"policy": p}));
    }
    for _ in 0..n {
        let set = |r: &mut Rng| -> Value {
            if r.chance(1, 3) { Value::Null } else {
                let mut v: Vec<&str> = names.iter().filter(|_| r.chance(1, 2)).cloned().collect();
                v.sort();
                json!(v)
            }
        };
        let opt = |r: &mut Rng| -> Value { if r.chance(1, 3) { Value::Null } else { json!(*r.pick(&names)) } };
        let policy = json!({
            "alg": *r.pick(&["HS256", "HS384", "HS512", "RS256", "RS384", "RS512", "PS256", "PS384", "PS512", "ES256", "ES256K", "ES384", "ES512"]),
            "aud": set(&mut r), "iss": opt(&mut r), "sub": opt(&mut r), "required": set(&mut r),
            "leeway": *r.pick(&[0u64, 1, 60, u64::MAX]),
            "validate_aud": r.chance(1, 2), "validate_exp": r.chance(1, 2), "validate_nbf": r.chance(1, 2),
        });
        unit(em, "bv", json!({"policy": policy}));
    }
}
