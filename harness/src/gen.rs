//! Generators for claims trees, markings and typed paths (DESIGN.md section 4, "Generators").
use crate::rng::Rng;
use serde_json::{json, Map, Value};

#[derive(Clone, Debug, PartialEq, Eq)]
pub enum Tok {
    Key(String),
    Idx(usize),
}
pub type TPath = Vec<Tok>;

pub fn render(p: &TPath) -> String {
    let mut s = String::new();
    for t in p {
        s.push('/');
        match t {
            // the JSON pointer (RFC 6901) of the node: '~' and '/' inside a member name are escaped
            Tok::Key(k) => s.push_str(&k.replace('~', "~0").replace('/', "~1")),
            Tok::Idx(i) => s.push_str(&i.to_string()),
        }
    }
    s
}

pub fn tpath_json(p: &TPath) -> Value {
    Value::Array(
        p.iter()
            .map(|t| match t {
                Tok::Key(k) => json!(["k", k]),
                Tok::Idx(i) => json!(["i", i]),
            })
            .collect(),
    )
}

pub fn tpath_from_json(v: &Value) -> TPath {
    v.as_array()
        .map(|a| {
            a.iter()
                .map(|t| {
                    if t[0] == "k" {
                        Tok::Key(t[1].as_str().unwrap_or("").to_string())
                    } else {
                        Tok::Idx(t[1].as_u64().unwrap_or(0) as usize)
                    }
                })
                .collect()
        })
        .unwrap_or_default()
}

/// member names of the valid stream: empty, numeric-looking, non-ASCII, near-reserved, sibling prefixes
pub const KEYS: &[&str] = &["a", "b", "zz", "0", "1", "10", "", "A", "é", "_s", "x y", "ab", "a0", "sd", "..", "a/b", "m~n", "~1", "/", "_sdk", "_sd_", "....", "...x", "_SD", "cnf2",
    // characters outside the Basic Multilingual Plane (four UTF-8 bytes, a surrogate pair when escaped)
    "k\u{1F600}", "\u{1D11E}",
    // a sibling's name continued by a character that sorts below '/', and one that sorts above it
    "a b", "a-b", "a.b", "a#", "a:b",
    // member names that read as numbers but are not canonical decimal spellings
    "007", "+44", "01"];

fn scalar(r: &mut Rng) -> Value {
    match r.below(9) {
        0 => json!(null),
        1 => json!(true),
        2 => json!(false),
        3 => json!(r.below(3)),
        4 => json!(1.5),
        5 => json!(-7),
        6 => json!(""),
        7 => json!(*r.pick(&["s", "t", "é~/", "_sd", "...", "x\"y\\", "\u{1F389} party \u{20000}", "a?b>c~d", "\u{a0}\u{7ff}\u{800}\u{fffd}"])),
        _ => json!(format!("v{}", r.below(4))),
    }
}

pub fn gen_value(r: &mut Rng, depth: u32, width: usize) -> Value {
    let k = if depth == 0 { 0 } else { r.below(7) };
    match k {
        0 | 1 | 2 => scalar(r),
        3 | 4 => {
            let n = r.below(width + 1);
            Value::Array((0..n).map(|_| gen_value(r, depth - 1, width)).collect())
        }
        _ => {
            let mut o = gen_object(r, depth - 1, width, 0);
            // below the top level _sd_alg is an ordinary member name
            if r.chance(1, 12) {
                // ... whatever its value: arbitrary JSON, or a string that happens to name a digest algorithm
                let v = if r.chance(1, 2) { json!(*r.pick(&["sha-384", "sha-512", "sha-256", "md5"])) } else { gen_value(r, depth.saturating_sub(2), width) };
                o.as_object_mut().unwrap().insert("_sd_alg".to_string(), v);
            }
            o
        }
    }
}

pub fn gen_object(r: &mut Rng, depth: u32, width: usize, min: usize) -> Value {
    let n = min + r.below(width + 1 - min.min(width));
    let mut m = Map::new();
    for _ in 0..n {
        let k = r.pick(KEYS).to_string();
        let v = gen_value(r, depth, width);
        m.insert(k, v);
    }
    Value::Object(m)
}

/// adds a member with a reserved name (`_sd`, `...`; `_sd_alg` at top level) to a random object of the tree
pub fn plant_reserved_name(r: &mut Rng, claims: &mut Value) {
    let mut objects: Vec<TPath> = vec![vec![]];
    objects.extend(all_nodes(claims).into_iter().filter(|p| resolve(claims, p).map_or(false, |v| v.is_object())));
    let at = r.pick(&objects).clone();
    let name = if at.is_empty() { *r.pick(&["_sd", "...", "_sd_alg"]) } else { *r.pick(&["_sd", "..."]) };
    let value = match r.below(5) {
        0 => json!(["not-a-digest"]),
        1 => json!([]),
        2 => json!("text"),
        3 => json!(5),
        _ => json!({"a": 1}),
    };
    let mut cur = claims;
    for t in &at {
        cur = match (t, cur) {
            (Tok::Key(k), Value::Object(m)) => m.get_mut(k).unwrap(),
            (Tok::Idx(i), Value::Array(a)) => a.get_mut(*i).unwrap(),
            _ => unreachable!(),
        };
    }
    cur.as_object_mut().unwrap().insert(name.to_string(), value);
}

/// every non-root node, descendants before ancestors (post-order)
pub fn all_nodes(v: &Value) -> Vec<TPath> {
    fn rec(v: &Value, cur: &mut TPath, out: &mut Vec<TPath>) {
        match v {
            Value::Object(m) => {
                for (k, c) in m {
                    cur.push(Tok::Key(k.clone()));
                    rec(c, cur, out);
                    out.push(cur.clone());
                    cur.pop();
                }
            }
            Value::Array(a) => {
                for (i, c) in a.iter().enumerate() {
                    cur.push(Tok::Idx(i));
                    rec(c, cur, out);
                    out.push(cur.clone());
                    cur.pop();
                }
            }
            _ => {}
        }
    }
    let mut out = Vec::new();
    rec(v, &mut Vec::new(), &mut out);
    out
}

pub fn resolve<'a>(v: &'a Value, p: &[Tok]) -> Option<&'a Value> {
    let mut cur = v;
    for t in p {
        cur = match (t, cur) {
            (Tok::Key(k), Value::Object(m)) => m.get(k)?,
            (Tok::Idx(i), Value::Array(a)) => a.get(*i)?,
            _ => return None,
        };
    }
    Some(cur)
}

/// a chain of `n` objects nested in each other, every level disclosable (recursive disclosures n levels deep):
/// {"n1": {"keep": 1, "n2": {"keep": 2, ... "leaf": "innermost"}}}; marks innermost first. A restorer that is
/// handed the disclosures innermost-first needs one pass per level.
pub fn gen_chain(r: &mut Rng, n: usize) -> (Value, Vec<TPath>) {
    let mut v = json!({"keep": n, "leaf": "innermost"});
    for level in (1..n).rev() {
        v = json!({"keep": level, format!("n{}", level + 1): v});
    }
    let claims = json!({"n1": v, "top": r.below(3)});
    let mut marks: Vec<TPath> = Vec::new();
    for level in (1..=n).rev() {
        marks.push((1..=level).map(|l| Tok::Key(format!("n{}", l))).collect());
    }
    if r.chance(1, 2) {
        // the innermost leaf too
        let mut p: TPath = (1..=n).map(|l| Tok::Key(format!("n{}", l))).collect();
        p.push(Tok::Key("leaf".to_string()));
        marks.insert(0, p);
    }
    (claims, marks)
}

/// Replaces some scalar leaves by arbitrary finite doubles (17 significant digits, large and tiny exponents): a JSON
/// number has to come back as the same number - in clear members, inside disclosures and in array elements.
pub fn plant_doubles(r: &mut Rng, claims: &mut Value) {
    fn go(r: &mut Rng, v: &mut Value) {
        match v {
            Value::Object(m) => m.values_mut().for_each(|c| go(r, c)),
            Value::Array(a) => a.iter_mut().for_each(|c| go(r, c)),
            _ => {
                if r.chance(1, 3) {
                    let f = loop {
                        let f = f64::from_bits(r.next());
                        if f.is_finite() {
                            break f;
                        }
                    };
                    *v = json!(f);
                }
            }
        }
    }
    go(r, claims);
    if let Value::Object(m) = claims {
        let f = f64::from_bits(r.next() & 0x7fef_ffff_ffff_ffff);
        m.insert("dbl".to_string(), json!(f));
        // registered time claims are claims like any other: a NumericDate with a fraction or an exponent comes back as it is
        if r.chance(1, 2) {
            let name = *r.pick(&["iat", "nbf", "exp", "auth_time"]);
            let v = *r.pick(&[1_900_000_000.5f64, 1.9e9 + 0.25, 1_700_000_000.75, 4.2e9 + 0.5]);
            m.insert(name.to_string(), json!(v));
        }
    }
}

/// claims and a non-empty marking: usually a small random document, every 40th case a deep chain of recursive
/// disclosures (9 to 14 levels)
pub fn claims_and_marking(r: &mut Rng, i: usize, depth: u32, width: usize) -> (Value, Vec<TPath>) {
    if i % 40 == 17 {
        let levels = 9 + r.below(6);
        gen_chain(r, levels)
    } else {
        let mut claims = gen_object(r, depth, width, 1);
        if r.chance(1, 5) {
            plant_doubles(r, &mut claims);
        }
        let marks = gen_marking(r, &claims, true);
        (claims, marks)
    }
}

/// a subset of the nodes in post-order; the density varies per case
pub fn gen_marking(r: &mut Rng, claims: &Value, nonempty: bool) -> Vec<TPath> {
    let nodes = all_nodes(claims);
    if nodes.is_empty() {
        return vec![];
    }
    let den = 2 + r.below(5) as u64;
    let mut m: Vec<TPath> = nodes.iter().filter(|_| r.chance(1, den)).cloned().collect();
    if m.is_empty() && nonempty {
        m.push(r.pick(&nodes).clone());
    }
    if r.chance(1, 2) {
        m = reorder_marking(r, m);
    }
    m
}

/// another valid order of the same marking: any order in which every node comes after the marked nodes below it - siblings,
/// cousins and the elements of one array in any order (a post-order walk only ever produces one of these orders)
pub fn reorder_marking(r: &mut Rng, mut rest: Vec<TPath>) -> Vec<TPath> {
    let mut out = Vec::with_capacity(rest.len());
    while !rest.is_empty() {
        let free: Vec<usize> = (0..rest.len())
            .filter(|&i| !rest.iter().enumerate().any(|(j, q)| j != i && q.len() > rest[i].len() && is_prefix(&rest[i], q)))
            .collect();
        let k = *r.pick(&free);
        out.push(rest.remove(k));
    }
    out
}

pub fn is_prefix(a: &[Tok], b: &[Tok]) -> bool {
    a.len() <= b.len() && a.iter().zip(b.iter()).all(|(x, y)| x == y)
}

/// does the marking exercise something beyond the test suite (nested marking, inside an array, depth>1)?
pub fn marking_nontrivial(m: &[TPath]) -> bool {
    m.iter().any(|p| p.len() > 1 || matches!(p.last(), Some(Tok::Idx(_))))
}

/// Documents beyond the sizes the small random generator reaches: long arrays (indices with two and three digits), wide
/// objects, hundreds of disclosures (more than 255), long names and values, deep nesting within the supported depth.
/// `variant` selects the shape; the marking comes in any valid order.
/// a long string value: mostly base64 characters with some JSON-escaped and multi-byte ones
pub fn long_text(r: &mut Rng, len: usize) -> String {
    let alphabet: Vec<char> = "ABCDEFGHIJKLMNOPQRSTUVWXYZabcdefghijklmnopqrstuvwxyz0123456789+/=".chars().collect();
    let mut s = String::with_capacity(len + 8);
    for i in 0..len {
        if i % 997 == 996 { s.push(*r.pick(&['"', '\\', '\n', 'é', '€'])); } else { s.push(*r.pick(&alphabet)); }
    }
    s
}

pub fn large_claims_and_marking(r: &mut Rng, variant: usize) -> (Value, Vec<TPath>) {
    let k = |s: &str| Tok::Key(s.to_string());
    let (claims, marks): (Value, Vec<TPath>) = match variant % 9 {
        0 => {
            // one long array, elements marked at one-, two- and three-digit indices
            let n = 20 + r.below(281);
            let arr: Vec<Value> = (0..n).map(|i| if i % 7 == 0 { json!({"i": i}) } else { json!(format!("e{}", i)) }).collect();
            let mut marks: Vec<TPath> = Vec::new();
            for i in 0..n {
                if i == 9 || i == 10 || i == 11 || i == 99 || i == 100 || i == 101 || i + 1 == n || r.chance(1, 9) {
                    marks.push(vec![k("list"), Tok::Idx(i)]);
                }
            }
            (json!({"list": arr, "keep": true}), marks)
        }
        1 => {
            // a wide object, most members marked (more than 255 disclosures in every third case)
            let n = if r.chance(1, 3) { 260 + r.below(60) } else { 40 + r.below(80) };
            let mut m = Map::new();
            let mut marks = Vec::new();
            for i in 0..n {
                let name = format!("m{:03}", i);
                m.insert(name.clone(), json!(i));
                if i % 5 != 4 {
                    marks.push(vec![Tok::Key(name)]);
                }
            }
            (Value::Object(m), marks)
        }
        2 => {
            // long names and values
            let long_name = "n".repeat(200 + r.below(400));
            let long_value = "v\u{e9}".repeat(1000 + r.below(3000));
            let claims = json!({long_name.clone(): {"inner": long_value.clone(), "k": 1}, "short": long_value, "z": [long_name.clone()]});
            (claims, vec![vec![Tok::Key(long_name.clone()), k("inner")], vec![Tok::Key(long_name)], vec![k("short")], vec![k("z"), Tok::Idx(0)]])
        }
        3 => {
            // deep nesting, well inside the supported depth, with marks at several levels
            let depth = 30 + r.below(25);
            let mut v = json!({"leaf": 1, "other": [1, 2, 3]});
            for level in (0..depth).rev() {
                v = if level % 3 == 2 { json!([v, level]) } else { json!({"d": v, "w": level}) };
            }
            let claims = json!({"root": v});
            let mut path: TPath = vec![k("root")];
            let mut marks = Vec::new();
            let mut cur = &claims["root"];
            loop {
                match cur {
                    Value::Object(o) if o.contains_key("d") => { path.push(k("d")); cur = &o["d"]; }
                    Value::Array(a) if !a.is_empty() && (a[0].is_object() || a[0].is_array()) => { path.push(Tok::Idx(0)); cur = &a[0]; }
                    _ => break,
                }
                if r.chance(1, 6) {
                    marks.push(path.clone());
                }
            }
            let mut leaf = path.clone();
            leaf.push(k("leaf"));
            marks.push(leaf);
            marks.reverse(); // deepest first
            (claims, marks)
        }
        4 => {
            // many arrays of moderate length inside a wide object: many nested digest lists and placeholders
            let mut m = Map::new();
            let mut marks = Vec::new();
            for i in 0..30 {
                let name = format!("a{:02}", i);
                let len = 12 + r.below(6);
                m.insert(name.clone(), Value::Array((0..len).map(|j| json!({"j": j, "t": "x"})).collect()));
                for j in 0..len {
                    if r.chance(1, 3) {
                        marks.push(vec![Tok::Key(name.clone()), Tok::Idx(j), k("t")]);
                    }
                    if j >= 10 && r.chance(1, 2) {
                        marks.push(vec![Tok::Key(name.clone()), Tok::Idx(j)]);
                    }
                }
            }
            (Value::Object(m), marks)
        }
        6 => {
            // a huge array: indices with up to five digits, beyond 9999 (the model's cost grows quadratically with the length:
            // 66000 elements, tried first, took ten minutes per case)
            let n = 10_002 + r.below(30);
            let arr: Vec<Value> = (0..n).map(|i| json!(i % 10)).collect();
            let marks: Vec<TPath> = [99usize, 100, 999, 1_000, 9_999, 10_000, n - 1].iter().map(|i| vec![k("items"), Tok::Idx(*i)]).collect();
            (json!({"items": arr, "keep": 1}), marks)
        }
        8 => {
            // digests deep inside disclosed values: a disclosable array whose elements are disclosable too, a disclosable object
            // with disclosable members two levels further down (the level between is not disclosable); 40 to 70 disclosures
            let n = 34 + r.below(20);
            let arr: Vec<Value> = (0..n).map(|i| json!(format!("c{}", i))).collect();
            let mut marks: Vec<TPath> = (0..n).filter(|i| i % 3 != 1).map(|i| vec![k("nationalities"), Tok::Idx(i)]).collect();
            marks.push(vec![k("nationalities")]);
            let mut groups = Map::new();
            for g in 0..6 {
                let name = format!("g{}", g);
                groups.insert(name.clone(), json!({"inner": {"lat": g, "lon": g * 2, "label": format!("L{}", g)}, "plain": g}));
                marks.push(vec![k("geo"), Tok::Key(name.clone()), k("inner"), k("lat")]);
                if g % 2 == 0 {
                    marks.push(vec![k("geo"), Tok::Key(name), k("inner"), k("label")]);
                }
            }
            marks.push(vec![k("geo")]);
            (json!({"nationalities": arr, "geo": Value::Object(groups), "sub": "u"}), marks)
        }
        7 => {
            // a NESTED wide object (its digest list is never reshuffled): 257 and more members, all marked; in every second
            // case the object itself is disclosable too
            let n = 257 + r.below(80);
            let mut m = Map::new();
            let mut marks = Vec::new();
            for i in 0..n {
                let name = format!("f{:03}", i);
                m.insert(name.clone(), json!(i));
                marks.push(vec![k("rec"), Tok::Key(name)]);
            }
            if r.chance(1, 2) {
                marks.push(vec![k("rec")]);
            }
            (json!({"rec": Value::Object(m), "id": 7}), marks)
        }
        _ => {
            // numbers near the limits of the integer types, next to ordinary claims
            let claims = json!({"u64max": u64::MAX, "i64min": i64::MIN, "i64max": i64::MAX, "u32max": u32::MAX, "big": 1u64 << 53, "bigp1": (1u64 << 53) + 1,
                                "list": [u64::MAX, i64::MIN, 0, -1, 255, 256, 65535, 65536]});
            (claims.clone(), vec![vec![k("u64max")], vec![k("i64min")], vec![k("bigp1")], vec![k("list"), Tok::Idx(0)], vec![k("list"), Tok::Idx(5)], vec![k("list"), Tok::Idx(7)]])
        }
    };
    let marks = reorder_marking(r, marks);
    (claims, marks)
}
