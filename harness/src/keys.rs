//! Fixed test keys for all 13 JOSE algorithms (copied from jwt-rustcrypto's test keys).
use sdjwt::{KeyForDecoding, KeyForEncoding};

const RSA_PRIV: &[u8] = include_bytes!("../keys/rsa_private_key_pkcs8.pem");
const RSA_PUB: &[u8] = include_bytes!("../keys/rsa_public_key_pkcs8.pem");
const P256_PRIV: &[u8] = include_bytes!("../keys/ec_private_key_p256_pkcs8.pem");
const P256_PUB: &[u8] = include_bytes!("../keys/ec_public_key_p256_pkcs8.pem");
const P256K_PRIV: &[u8] = include_bytes!("../keys/ec_private_key_p256k_pkcs8.pem");
const P256K_PUB: &[u8] = include_bytes!("../keys/ec_public_key_p256k_pkcs8.pem");
const P384_PRIV: &[u8] = include_bytes!("../keys/ec_private_key_p384_pkcs8.pem");
const P384_PUB: &[u8] = include_bytes!("../keys/ec_public_key_p384_pkcs8.pem");
const P521_PRIV: &[u8] = include_bytes!("../keys/ec_private_key_p512_pkcs8.pem");
const P521_PUB: &[u8] = include_bytes!("../keys/ec_public_key_ec_p512_pkcs8.pem");

pub const ALL_ALGS: [&str; 13] = [
    "HS256", "HS384", "HS512", "RS256", "RS384", "RS512", "PS256", "PS384", "PS512", "ES256", "ES256K", "ES384", "ES512",
];

pub fn priv_pem(alg: &str) -> &'static [u8] {
    match alg {
        "ES256" => P256_PRIV,
        "ES256K" => P256K_PRIV,
        "ES384" => P384_PRIV,
        "ES512" => P521_PRIV,
        _ => RSA_PRIV,
    }
}
pub fn pub_pem(alg: &str) -> &'static [u8] {
    match alg {
        "ES256" => P256_PUB,
        "ES256K" => P256K_PUB,
        "ES384" => P384_PUB,
        "ES512" => P521_PUB,
        _ => RSA_PUB,
    }
}

pub fn pair(alg: &str) -> (KeyForEncoding, KeyForDecoding) {
    if alg.starts_with("ES") {
        (KeyForEncoding::from_ec_pem(priv_pem(alg)).expect("ec priv"), KeyForDecoding::from_ec_pem(pub_pem(alg)).expect("ec pub"))
    } else {
        (KeyForEncoding::from_rsa_pem(RSA_PRIV).expect("rsa priv"), KeyForDecoding::from_rsa_pem(RSA_PUB).expect("rsa pub"))
    }
}

/// the RSA test key as a JWK (n, e taken from the PEM with the rsa crate)
pub fn rsa_jwk() -> serde_json::Value {
    use rsa::pkcs8::DecodePublicKey;
    use rsa::traits::PublicKeyParts;
    let pem = std::str::from_utf8(RSA_PUB).unwrap();
    let k = rsa::RsaPublicKey::from_public_key_pem(pem).expect("rsa public pem");
    serde_json::json!({
        "kty": "RSA",
        "n": crate::indep::b64url_encode(&k.n().to_bytes_be()),
        "e": crate::indep::b64url_encode(&k.e().to_bytes_be()),
    })
}
