//! Wire format shared with the Coq model (see coq/theories/Wire.v).
use serde_json::{Map, Value};

pub fn hex(b: &[u8]) -> String {
    const D: &[u8; 16] = b"0123456789abcdef";
    let mut s = String::with_capacity(b.len() * 2);
    for x in b {
        s.push(D[(x >> 4) as usize] as char);
        s.push(D[(x & 15) as usize] as char);
    }
    s
}

pub fn enc_into(v: &Value, out: &mut String) {
    match v {
        Value::Null => out.push('N'),
        Value::Bool(true) => out.push('T'),
        Value::Bool(false) => out.push('F'),
        Value::Number(n) => {
            out.push('M');
            out.push_str(&n.to_string());
            out.push(';');
        }
        Value::String(s) => {
            out.push('S');
            out.push_str(&hex(s.as_bytes()));
            out.push(';');
        }
        Value::Array(a) => {
            out.push('A');
            out.push_str(&a.len().to_string());
            out.push(';');
            for x in a {
                enc_into(x, out);
            }
        }
        Value::Object(m) => {
            out.push('O');
            out.push_str(&m.len().to_string());
            out.push(';');
            for (k, x) in m {
                out.push('S');
                out.push_str(&hex(k.as_bytes()));
                out.push(';');
                enc_into(x, out);
            }
        }
    }
}

pub fn enc(v: &Value) -> String {
    let mut s = String::new();
    enc_into(v, &mut s);
    s
}

fn unhex(s: &str) -> Option<Vec<u8>> {
    let b = s.as_bytes();
    if b.len() % 2 != 0 {
        return None;
    }
    let hv = |c: u8| -> Option<u8> {
        match c {
            b'0'..=b'9' => Some(c - b'0'),
            b'a'..=b'f' => Some(c - b'a' + 10),
            _ => None,
        }
    };
    let mut out = Vec::with_capacity(b.len() / 2);
    for i in 0..b.len() / 2 {
        out.push(hv(b[2 * i])? * 16 + hv(b[2 * i + 1])?);
    }
    Some(out)
}

fn until_semi<'a>(s: &'a str, pos: &mut usize) -> Option<&'a str> {
    let j = s[*pos..].find(';')? + *pos;
    let r = &s[*pos..j];
    *pos = j + 1;
    Some(r)
}

fn dec_val(s: &str, pos: &mut usize) -> Option<Value> {
    let c = *s.as_bytes().get(*pos)?;
    *pos += 1;
    Some(match c {
        b'N' => Value::Null,
        b'T' => Value::Bool(true),
        b'F' => Value::Bool(false),
        b'M' => serde_json::from_str::<Value>(until_semi(s, pos)?).ok()?,
        b'S' => Value::String(String::from_utf8(unhex(until_semi(s, pos)?)?).ok()?),
        b'A' => {
            let n: usize = until_semi(s, pos)?.parse().ok()?;
            let mut a = Vec::with_capacity(n);
            for _ in 0..n {
                a.push(dec_val(s, pos)?);
            }
            Value::Array(a)
        }
        b'O' => {
            let n: usize = until_semi(s, pos)?.parse().ok()?;
            let mut m = Map::new();
            for _ in 0..n {
                let k = match dec_val(s, pos)? {
                    Value::String(k) => k,
                    _ => return None,
                };
                let v = dec_val(s, pos)?;
                m.insert(k, v);
            }
            Value::Object(m)
        }
        _ => return None,
    })
}

pub fn dec(s: &str) -> Option<Value> {
    let mut pos = 0;
    let v = dec_val(s, &mut pos)?;
    if pos == s.len() {
        Some(v)
    } else {
        None
    }
}
