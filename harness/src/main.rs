#![allow(unexpected_cfgs)]
//! Correspondence harness: generates cases, runs the implementation (sdjwt from /repo's working
//! tree) on them, and prints one line per case:  kind \t input \t observed  (wire format).
//! The verdict is computed by the extracted Coq model (ocaml/driver.ml).
mod cases;
mod gen;
mod indep;
mod keys;
mod refissuer;
mod rng;
mod wire;

use serde_json::Value;
use std::io::{BufRead, Write};

pub struct Emitter<'a> {
    pub shard: usize,
    pub nshards: usize,
    pub count: usize,
    pub out: &'a mut dyn Write,
}

impl<'a> Emitter<'a> {
    /// Give a case to the emitter; it is executed only when it belongs to this shard.
    pub fn case(&mut self, kind: &str, input: Value) {
        let mine = self.count % self.nshards == self.shard;
        self.count += 1;
        if mine {
            run_one(kind, &input, self.out);
        }
    }
}

fn run_one(kind: &str, input: &Value, out: &mut dyn Write) {
    let obs = cases::execute(kind, input);
    writeln!(out, "{}\t{}\t{}", kind, wire::enc(input), wire::enc(&obs)).unwrap();
}

fn main() {
    // panics of the implementation are outcomes, not noise
    std::panic::set_hook(Box::new(|_| {}));
    let args: Vec<String> = std::env::args().collect();
    if args.get(1).map(|s| s.as_str()) == Some("deep-child") {
        // before stdout is locked below: the worker thread of the child prints its result itself
        let mut token = String::new();
        std::io::Read::read_to_string(&mut std::io::stdin(), &mut token).unwrap();
        cases::c10::deep_child(&token);
    }
    let stdout = std::io::stdout();
    let mut w = std::io::BufWriter::with_capacity(1 << 20, stdout.lock());
    match args.get(1).map(|s| s.as_str()) {
        Some("gen") => {
            let id = &args[2];
            let tier = &args[3];
            let seed: u64 = args[4].parse().expect("seed");
            let shard: usize = args.get(5).map(|s| s.parse().unwrap()).unwrap_or(0);
            let nshards: usize = args.get(6).map(|s| s.parse().unwrap()).unwrap_or(1);
            cases::selfcheck();
            let mut em = Emitter { shard, nshards, count: 0, out: &mut w };
            cases::generate(id, tier == "thorough", seed, &mut em);
        }
        Some("replay") => {
            cases::selfcheck();
            let stdin = std::io::stdin();
            for line in stdin.lock().lines() {
                let line = line.unwrap();
                let mut it = line.split('\t');
                let kind = it.next().unwrap_or("");
                let input = it.next().and_then(wire::dec);
                match input {
                    Some(input) => run_one(kind, &input, &mut w),
                    None => {
                        writeln!(w, "{}\tN\tN", kind).unwrap();
                    }
                }
            }
        }
        Some("hooks") => {
            writeln!(w, "{}", cases::hooks_state()).unwrap();
        }
        Some("show") => {
            // pretty-print wire values given on stdin (one per line), for replay files
            let stdin = std::io::stdin();
            for line in stdin.lock().lines() {
                let line = line.unwrap();
                for f in line.split('\t') {
                    match wire::dec(f) {
                        Some(v) => writeln!(w, "{}", serde_json::to_string(&v).unwrap()).unwrap(),
                        None => writeln!(w, "{}", f).unwrap(),
                    }
                }
            }
        }
        _ => {
            eprintln!("usage: harness gen <ID> <quick|thorough> <seed> [shard nshards] | replay | show");
            std::process::exit(2);
        }
    }
    w.flush().unwrap();
}
