//! Reference issuer: builds specification-conformant SD-JWT payloads and disclosures directly from
//! (claims, marking), sharing no code with the library's issuer. Used for C03, C08, C12 and others.
use crate::gen::{resolve, Tok, TPath};
use crate::indep;
use crate::rng::Rng;
use serde_json::{json, Map, Value};

#[derive(Clone, Debug)]
pub struct RefDisc {
    pub path: TPath,
    pub string: String,
    pub key: Option<String>,
    pub value: Value, // the (blinded) value carried by the disclosure
    pub digest: String,
}

#[derive(Clone, Debug)]
pub struct RefToken {
    pub alg: String,
    pub payload: Value,           // with _sd_alg (and whatever extra members were requested)
    pub discs: Vec<RefDisc>,      // in marking order (descendants first)
    pub decoys: Vec<String>,
}

pub struct RefOpts {
    pub alg: String,
    pub decoys: bool,
    pub odd_format: bool, // whitespace / escapes inside disclosures, odd salts
}

fn get_mut<'a>(v: &'a mut Value, p: &[Tok]) -> Option<&'a mut Value> {
    let mut cur = v;
    for t in p {
        cur = match (t, cur) {
            (Tok::Key(k), Value::Object(m)) => m.get_mut(k)?,
            (Tok::Idx(i), Value::Array(a)) => a.get_mut(*i)?,
            _ => return None,
        };
    }
    Some(cur)
}

fn salt(r: &mut Rng, odd: bool) -> Value {
    if odd && r.chance(1, 10) {
        return json!(r.below(1000)); // non-string salt: tolerated by processors that ignore the salt
    }
    let len = if odd { r.below(65) } else { 16 };
    let bytes: Vec<u8> = (0..len).map(|_| r.next() as u8).collect();
    json!(indep::b64url_encode(&bytes))
}

/// JSON text of a disclosure array with optional formatting noise (whitespace between tokens)
fn disclosure_text(r: &mut Rng, parts: &Value, odd: bool) -> String {
    if !odd {
        return serde_json::to_string(parts).unwrap();
    }
    match r.below(4) {
        0 => serde_json::to_string(parts).unwrap(),
        1 => serde_json::to_string_pretty(parts).unwrap(),
        2 => format!(" {}\n", serde_json::to_string(parts).unwrap()),
        _ => {
            // [ salt , name , value ] with spaces after the top-level commas
            let a = parts.as_array().unwrap();
            let items: Vec<String> = a.iter().map(|x| serde_json::to_string(x).unwrap()).collect();
            format!("[ {} ]", items.join(" ,\t"))
        }
    }
}

fn random_digest(r: &mut Rng, alg: &str) -> String {
    let bytes: Vec<u8> = (0..32).map(|_| r.next() as u8).collect();
    indep::hash(alg, &indep::b64url_encode(&bytes))
}

fn add_decoys(r: &mut Rng, v: &mut Value, alg: &str, out: &mut Vec<String>) {
    match v {
        Value::Object(m) => {
            for (_, c) in m.iter_mut() {
                add_decoys(r, c, alg, out);
            }
            if r.chance(1, 3) {
                let n = 1 + r.below(2);
                let ds: Vec<Value> = (0..n)
                    .map(|_| {
                        let d = random_digest(r, alg);
                        out.push(d.clone());
                        json!(d)
                    })
                    .collect();
                m.insert("_sd".to_string(), Value::Array(ds));
            }
        }
        Value::Array(a) => {
            for c in a.iter_mut() {
                add_decoys(r, c, alg, out);
            }
            if r.chance(1, 4) {
                // appended, so that the indices of the real elements are unchanged
                let d = random_digest(r, alg);
                out.push(d.clone());
                a.push(json!({ "...": d }));
            }
        }
        _ => {}
    }
}

/// marks must be listed descendants-before-ancestors and resolve in `claims`
pub fn ref_issue(r: &mut Rng, claims: &Value, marks: &[TPath], opts: &RefOpts) -> RefToken {
    let mut work = claims.clone();
    let mut decoys = Vec::new();
    if opts.decoys {
        add_decoys(r, &mut work, &opts.alg, &mut decoys);
    }
    let mut discs = Vec::new();
    for m in marks {
        assert!(resolve(claims, m).is_some(), "marking does not resolve");
        let (last, parent_path) = m.split_last().unwrap();
        let parent = get_mut(&mut work, parent_path).expect("parent");
        let s = salt(r, opts.odd_format);
        match (last, parent) {
            (Tok::Key(k), Value::Object(pm)) => {
                let value = pm.remove(k).expect("member");
                let parts = json!([s, k, value]);
                let string = indep::b64url_encode(disclosure_text(r, &parts, opts.odd_format).as_bytes());
                let digest = indep::hash(&opts.alg, &string);
                let sd = pm.entry("_sd".to_string()).or_insert_with(|| Value::Array(vec![]));
                let arr = sd.as_array_mut().unwrap();
                let pos = r.below(arr.len() + 1);
                arr.insert(pos, json!(digest));
                discs.push(RefDisc { path: m.clone(), string, key: Some(k.clone()), value, digest });
            }
            (Tok::Idx(i), Value::Array(pa)) => {
                let value = pa[*i].clone();
                let parts = json!([s, value]);
                let string = indep::b64url_encode(disclosure_text(r, &parts, opts.odd_format).as_bytes());
                let digest = indep::hash(&opts.alg, &string);
                pa[*i] = json!({ "...": digest });
                discs.push(RefDisc { path: m.clone(), string, key: None, value, digest });
            }
            _ => panic!("marking does not fit the tree"),
        }
    }
    if let Value::Object(m) = &mut work {
        m.insert("_sd_alg".to_string(), json!(opts.alg));
    }
    RefToken { alg: opts.alg.clone(), payload: work, discs, decoys }
}

pub fn with_member(mut payload: Value, k: &str, v: Value) -> Value {
    if let Value::Object(m) = &mut payload {
        m.insert(k.to_string(), v);
    }
    payload
}

#[allow(dead_code)]
pub fn empty_map() -> Map<String, Value> {
    Map::new()
}
