//! SplitMix64: every random choice of the harness derives from one state seeded by VERIF_SEED.
pub struct Rng(pub u64);

impl Rng {
    pub fn new(seed: u64) -> Self {
        Rng(seed.wrapping_mul(0x9E3779B97F4A7C15).wrapping_add(0x1234_5678_9abc_def1))
    }
    pub fn next(&mut self) -> u64 {
        self.0 = self.0.wrapping_add(0x9E3779B97F4A7C15);
        let mut z = self.0;
        z = (z ^ (z >> 30)).wrapping_mul(0xBF58476D1CE4E5B9);
        z = (z ^ (z >> 27)).wrapping_mul(0x94D049BB133111EB);
        z ^ (z >> 31)
    }
    /// uniform in 0..n (n > 0)
    pub fn below(&mut self, n: usize) -> usize {
        (self.next() % (n as u64)) as usize
    }
    /// true with probability num/den
    pub fn chance(&mut self, num: u64, den: u64) -> bool {
        self.next() % den < num
    }
    pub fn pick<'a, T>(&mut self, xs: &'a [T]) -> &'a T {
        &xs[self.below(xs.len())]
    }
    pub fn shuffle<T>(&mut self, xs: &mut [T]) {
        for i in (1..xs.len()).rev() {
            let j = self.below(i + 1);
            xs.swap(i, j);
        }
    }
    pub fn fork(&mut self) -> Rng {
        Rng(self.next())
    }
}
