//! Independent decoding of what the library produces or consumes: own base64url decoder, sha2 directly.
//! Never calls sdjwt::base64_hash, Disclosure::from_base64 or sd_jwt_parts.
use serde_json::Value;
use sha2::{Digest, Sha256, Sha384, Sha512};

fn b64val(c: u8) -> Option<u32> {
    match c {
        b'A'..=b'Z' => Some((c - b'A') as u32),
        b'a'..=b'z' => Some((c - b'a') as u32 + 26),
        b'0'..=b'9' => Some((c - b'0') as u32 + 52),
        b'-' => Some(62),
        b'_' => Some(63),
        _ => None,
    }
}

/// strict base64url without padding: URL-safe alphabet only, no '=', canonical trailing bits
pub fn b64url_decode(s: &str) -> Option<Vec<u8>> {
    let b = s.as_bytes();
    if b.len() % 4 == 1 {
        return None;
    }
    let mut out = Vec::with_capacity(b.len() * 3 / 4);
    let mut i = 0;
    while i + 4 <= b.len() {
        let n = (b64val(b[i])? << 18) | (b64val(b[i + 1])? << 12) | (b64val(b[i + 2])? << 6) | b64val(b[i + 3])?;
        out.push((n >> 16) as u8);
        out.push((n >> 8) as u8);
        out.push(n as u8);
        i += 4;
    }
    match b.len() - i {
        0 => {}
        2 => {
            let n = (b64val(b[i])? << 6) | b64val(b[i + 1])?;
            if n & 0xf != 0 {
                return None;
            }
            out.push((n >> 4) as u8);
        }
        3 => {
            let n = (b64val(b[i])? << 12) | (b64val(b[i + 1])? << 6) | b64val(b[i + 2])?;
            if n & 0x3 != 0 {
                return None;
            }
            out.push((n >> 10) as u8);
            out.push((n >> 2) as u8);
        }
        _ => return None,
    }
    Some(out)
}

pub fn b64url_encode(data: &[u8]) -> String {
    const A: &[u8; 64] = b"ABCDEFGHIJKLMNOPQRSTUVWXYZabcdefghijklmnopqrstuvwxyz0123456789-_";
    let mut s = String::with_capacity((data.len() * 4 + 2) / 3);
    for ch in data.chunks(3) {
        let n = match ch.len() {
            3 => ((ch[0] as u32) << 16) | ((ch[1] as u32) << 8) | ch[2] as u32,
            2 => ((ch[0] as u32) << 16) | ((ch[1] as u32) << 8),
            _ => (ch[0] as u32) << 16,
        };
        s.push(A[(n >> 18) as usize & 63] as char);
        s.push(A[(n >> 12) as usize & 63] as char);
        if ch.len() > 1 {
            s.push(A[(n >> 6) as usize & 63] as char);
        }
        if ch.len() > 2 {
            s.push(A[n as usize & 63] as char);
        }
    }
    s
}

/// HMAC (RFC 2104) over sha2, written out here so that it shares nothing with the library's signing code
pub fn hmac(alg: &str, key: &[u8], msg: &[u8]) -> Vec<u8> {
    use sha2::Digest;
    fn run<D: Digest>(block: usize, key: &[u8], msg: &[u8]) -> Vec<u8> {
        let mut k = if key.len() > block { D::digest(key).to_vec() } else { key.to_vec() };
        k.resize(block, 0);
        let ipad: Vec<u8> = k.iter().map(|b| b ^ 0x36).collect();
        let opad: Vec<u8> = k.iter().map(|b| b ^ 0x5c).collect();
        let inner = D::new().chain_update(&ipad).chain_update(msg).finalize().to_vec();
        D::new().chain_update(&opad).chain_update(&inner).finalize().to_vec()
    }
    match alg {
        "HS384" => run::<sha2::Sha384>(128, key, msg),
        "HS512" => run::<sha2::Sha512>(128, key, msg),
        _ => run::<sha2::Sha256>(64, key, msg),
    }
}

pub fn hash(alg: &str, data: &str) -> String {
    match alg {
        "sha-256" => b64url_encode(&Sha256::digest(data.as_bytes())),
        "sha-384" => b64url_encode(&Sha384::digest(data.as_bytes())),
        "sha-512" => b64url_encode(&Sha512::digest(data.as_bytes())),
        _ => format!("!unsupported-alg:{}", alg),
    }
}

/// base64url -> UTF-8 -> JSON of a presented disclosure (or any segment)
pub fn decode_json(s: &str) -> Option<Value> {
    let bytes = b64url_decode(s)?;
    let text = String::from_utf8(bytes).ok()?;
    serde_json::from_str::<Value>(&text).ok()
}

pub const ALGS: [&str; 3] = ["sha-256", "sha-384", "sha-512"];

/// hex of the raw digest bytes (before base64url), for the base64url model of the Coq development
pub fn hash_raw_hex(alg: &str, data: &str) -> String {
    let bytes: Vec<u8> = match alg {
        "sha-384" => Sha384::digest(data.as_bytes()).to_vec(),
        "sha-512" => Sha512::digest(data.as_bytes()).to_vec(),
        _ => Sha256::digest(data.as_bytes()).to_vec(),
    };
    bytes.iter().map(|b| format!("{:02x}", b)).collect()
}
