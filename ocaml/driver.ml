(* Generic driver: every line is kind \t input \t observed (wire format, ASCII). The verdict is
   computed entirely by the extracted Coq function Model.run_line. *)
let explode (s : string) : char list = List.init (String.length s) (String.get s)
let implode (l : char list) : string = String.of_seq (List.to_seq l)

let () =
  let n = ref 0 in
  (try
     while true do
       let line = input_line stdin in
       incr n;
       match String.split_on_char '\t' line with
       | [kind; input; obs] ->
           let v = (try implode (Model.run_line (explode kind) (explode input) (explode obs))
                    with Stack_overflow -> "badcase driver stack overflow") in
           print_string v; print_newline ()
       | _ -> print_string "badcase line does not have three fields"; print_newline ()
     done
   with End_of_file -> ());
  flush stdout
