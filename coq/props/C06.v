(* C06 - Undisclosed claims stay confidential in the issuer JWT and in presentations. *)
From Coq Require Import List String Ascii Bool Arith.
Import ListNotations.
Require Import SDJ.Json SDJ.Wire SDJ.Model2 SDJ.Out SDJ.Restore2 SDJ.Split SDJ.SplitM SDJ.Verify SDJ.HolderProofs SDJ.ATree SDJ.T2c SDJ.T2h SDJ.T1e SDJ.T1h SDJ.T1j SDJ.Issuer1 SDJ.Issuer2 SDJ.T1k SDJ.C06Proofs.
Local Open Scope string_scope.

(* no disclosure of a redacted disclosable claim, nor of any claim whose path lies below it, is selected
   for the presentation - for every holder state and every redaction list *)
Theorem C06_withheld_not_presented :
  forall h r p,
    In r (h_redacted h) -> is_disclosable (h_paths h) r = true ->
    In p (h_paths h) -> (fst p = r \/ starts_with (r ++ "/") (fst p) = true) ->
    ~ In p (filter (fun p => negb (withheld (h_paths h) (h_redacted h) (fst p))) (h_paths h)).
Proof. exact selected_excludes. Qed.
Print Assumptions C06_withheld_not_presented.

(* the presentation's disclosures are exactly the selected ones, in the holder's order *)
Theorem C06_selected_is_filter :
  forall h, selected h = map (fun p => d_str (snd p)) (filter (fun p => negb (withheld (h_paths h) (h_redacted h) (fst p))) (h_paths h)).
Proof. exact selected_spec. Qed.
Print Assumptions C06_selected_is_filter.

(* issuer side: every string (member name or string value) of the blinded payload of ANY conformant annotated
   tree is a reserved name, an embedded digest, or a name / value lying outside every hidden node. Hence no name
   and no value of a selectively disclosable claim - nor anything inside it - occurs in the signed payload. *)
Theorem C06_payload_atoms :
  forall (H : string -> string) (enc : list json -> string) (t : atree), wf H enc t ->
    forall a, In a (atoms (blind H enc t)) ->
      a = "_sd" \/ a = "..." \/ In a (alldigs H enc t) \/ In a (vatoms t).
Proof. exact blind_atoms. Qed.
Print Assumptions C06_payload_atoms.

(* ... and the payload the issuer fold produces is such a blinded tree, whose full projection is the claims *)
Theorem C06_issuer_payload_is_blind :
  forall E C paths tks salts t',
    jwf C -> split_paths paths = Some tks ->
    T1j.mark_fold (ie_hash E) (ie_enc E) Issuer2.parse_index Issuer2.parse_usize (ie_pos E) (embed C) tks salts = Some t' ->
    exists ds, Issuer2.issue_fold E C paths salts = Ok (blind (ie_hash E) (ie_enc E) t', ds) /\
               wf (ie_hash E) (ie_enc E) t' /\ proj (ie_hash E) (ie_enc E) Rall t' = C.
Proof. exact issuer2_payload_blind. Qed.
Print Assumptions C06_issuer_payload_is_blind.

(* in a session (build, redact more, build again ...) every build selects exactly the disclosures that no redaction made
   SO FAR withholds - earlier builds do not freeze the selection - and builds are pure *)
Require Import SDJ.Sessions.
Theorem C06_session_selection :
  forall O pre h,
  selected (fst (hrun O h pre)) =
  map (fun p => d_str (snd p))
      (filter (fun p => negb (withheld (h_paths h) (h_redacted h ++ redactions pre) (fst p))) (h_paths h)).
Proof. exact session_build_selection. Qed.
Print Assumptions C06_session_selection.

Theorem C06_builds_are_pure : forall O ops h, fst (hrun O h ops) = fst (hrun O h (filter not_build ops)).
Proof. exact builds_are_pure. Qed.
Print Assumptions C06_builds_are_pure.
