(* C06 - Undisclosed claims stay confidential in the issuer JWT and in presentations. *)
From Coq Require Import List String Ascii Bool Arith.
Import ListNotations.
Require Import SDJ.Json SDJ.Wire SDJ.Model2 SDJ.Out SDJ.Restore2 SDJ.Split SDJ.SplitM SDJ.Verify SDJ.HolderProofs.
Local Open Scope string_scope.

(* no disclosure of a redacted disclosable claim, nor of any claim whose path lies below it, is selected
   for the presentation - for every holder state and every redaction list *)
Theorem C06_withheld_not_presented :
  forall h r p,
    In r (h_redacted h) -> is_disclosable (h_paths h) r = true ->
    In p (h_paths h) -> (fst p = r \/ starts_with (r ++ "/") (fst p) = true) ->
    ~ In p (filter (fun p => negb (withheld (h_paths h) (h_redacted h) (fst p))) (h_paths h)).
Proof. exact selected_excludes. Qed.
Print Assumptions C06_withheld_not_presented.

(* the presentation's disclosures are exactly the selected ones, in the holder's order *)
Theorem C06_selected_is_filter :
  forall h, selected h = map (fun p => d_str (snd p)) (filter (fun p => negb (withheld (h_paths h) (h_redacted h) (fst p))) (h_paths h)).
Proof. exact selected_spec. Qed.
Print Assumptions C06_selected_is_filter.
