(* C02 - Selective disclosure end to end: the verifier sees the original claims minus the redacted ones. *)
From Coq Require Import List String Ascii Bool Arith.
Import ListNotations.
Require Import SDJ.Json SDJ.Wire SDJ.Model2 SDJ.Out SDJ.Restore2 SDJ.Split SDJ.SplitM SDJ.Verify SDJ.HolderProofs.
Local Open Scope string_scope.

(* redacting a path that is not disclosable, or does not exist, changes nothing *)
Theorem C02_foreign_path_changes_nothing :
  forall h r, is_disclosable (h_paths h) r = false -> selected (holder_redact h r) = selected h.
Proof. exact selected_redact_foreign. Qed.
Print Assumptions C02_foreign_path_changes_nothing.

(* the presentation depends on the set of redacted paths only *)
Theorem C02_redaction_order_irrelevant :
  forall paths a b p, (forall r, In r a <-> In r b) -> withheld paths a p = withheld paths b p.
Proof. exact withheld_perm. Qed.
Print Assumptions C02_redaction_order_irrelevant.

(* every disclosure that is neither redacted nor below a redacted disclosable claim is presented *)
Theorem C02_others_kept :
  forall h p, In p (h_paths h) ->
    (forall r, In r (h_redacted h) -> is_disclosable (h_paths h) r = true -> fst p <> r /\ starts_with (r ++ "/") (fst p) = false) ->
    In (d_str (snd p)) (selected h).
Proof. exact selected_keeps. Qed.
Print Assumptions C02_others_kept.

(* End to end (unbound tokens): the holder receives a token whose JWT part carries the payload of a
   conformant token t together with any duplicate-free list L of decodable disclosures of it (all of them, or
   fewer), calls presentation(), any sequence rs of redact() calls, and build(); the verifier, given the
   built string, accepts and returns the issuer's header and the projection of t determined by the selected
   disclosures - `selected` being exactly the disclosures whose reported path is neither a redacted
   disclosable path nor below one (C02_others_kept and the C06 theorems), each reported path being the position of its
   hidden node (T2o.restore_full_ok_paths). *)
Require Import SDJ.ATree SDJ.T2c SDJ.T2h SDJ.T2m SDJ.C03Proofs SDJ.C02Proofs.
Theorem C02_present_redact_build_verify :
  forall (O : oracles) (H : string -> string) (enc : list json -> string),
    (forall x y, H x = H y -> x = y) ->
    (forall ps, o_dec O (enc ps) = DJson (JArr ps)) ->
    forall t : atree, wf H enc t -> NoDup (alldigs H enc t) -> NoDup (hdigs H enc t) -> aheight t <= 129 ->
    forall token jwt L ds s1 cseg s3 hdr0 alg (rs : list string) (E : build_env) kbpol,
      sd_jwt_parts token = (jwt, L, None) -> jwt_parts_m jwt = Val (s1, cseg, s3) ->
      o_claims O cseg = Ok (blind H enc t) -> o_jwt O jwt = Val (hdr0, blind H enc t) ->
      declared_halg (blind H enc t) = Some alg -> o_hash O alg = H ->
      kb_bound (blind H enc t) = false ->
      NoDup L -> (forall s, In s L -> In (H s) (alldigs H enc t) -> In (H s) (hdigs H enc t)) ->
      decode_all H (o_dec O) L = Ok ds ->
      Forall (fun x => contains tilde x = false) (jwt :: L) ->
      exists h0, holder_presentation O token = Val h0 /\
        let h := redact_all h0 rs in
        h_redacted h = rs /\
        holder_build O E h = Val (presentation_prefix jwt (selected h)) /\
        (forall s, In s (selected h) -> In s L) /\
        verifier_verify O (presentation_prefix jwt (selected h)) kbpol =
          Val (hdr0, drop_alg (proj H enc (ownS H (selected h)) t)).
Proof. exact present_redact_build_verify. Qed.
Print Assumptions C02_present_redact_build_verify.

(* The key-bound variant: presentation(), redact()*, key_binding(aud, alg), build(), then Verifier::verify with
   a key-binding policy. The holder's signing of the KB-JWT and its verification under the key bound in cnf
   are the oracles e_sign / o_kb; the premise says that what the holder signed verifies (that is C05's subject).
   The built string is <presentation prefix><kb>, the KB-JWT carries sd_hash = hash of exactly that prefix, and
   the verifier accepts and returns the projection determined by the selected disclosures. *)
Theorem C02_present_redact_bind_build_verify :
  forall (O : oracles) (H : string -> string) (enc : list json -> string),
    (forall x y, H x = H y -> x = y) ->
    (forall ps, o_dec O (enc ps) = DJson (JArr ps)) ->
    forall t : atree, wf H enc t -> NoDup (alldigs H enc t) -> NoDup (hdigs H enc t) -> aheight t <= 129 ->
    forall token jwt L ds s1 cseg s3 hdr0 alg (rs : list string) (E : build_env) aud jalg kb n e,
      sd_jwt_parts token = (jwt, L, None) -> jwt_parts_m jwt = Val (s1, cseg, s3) ->
      o_claims O cseg = Ok (blind H enc t) -> o_jwt O jwt = Val (hdr0, blind H enc t) ->
      declared_halg (blind H enc t) = Some alg -> o_hash O alg = H ->
      kb_bound (blind H enc t) = true -> is_null (jget "cnf" (blind H enc t)) = false ->
      jget "kty" (jget "cnf" (blind H enc t)) = JStr "RSA" -> jget "e" (jget "cnf" (blind H enc t)) = JStr e ->
      jget "n" (jget "cnf" (blind H enc t)) = JStr n ->
      NoDup L -> (forall s, In s L -> In (H s) (alldigs H enc t) -> In (H s) (hdigs H enc t)) ->
      decode_all H (o_dec O) L = Ok ds ->
      Forall (fun x => contains tilde x = false) (jwt :: L) ->
      forall ps, holder_presentation O token = Val {| h_jwt := jwt; h_redacted := []; h_paths := ps; h_kb := None |} ->
      let h := holder_key_binding (redact_all {| h_jwt := jwt; h_redacted := []; h_paths := ps; h_kb := None |} rs) aud jalg in
      let prefix := presentation_prefix jwt (selected h) in
      e_sign E (kb_header jalg) (kb_claims aud (e_nonce E) (e_iat E) (H prefix)) = Val kb ->
      kb <> "" -> contains tilde kb = false ->
      o_kb O kb n e = Val (kb_header jalg, kb_claims aud (e_nonce E) (e_iat E) (H prefix)) ->
      holder_build O E h = Val (prefix ++ kb)%string /\
      verifier_verify O (prefix ++ kb)%string true = Val (hdr0, drop_alg (proj H enc (ownS H (selected h)) t)).
Proof. exact present_redact_bind_build_verify. Qed.
Print Assumptions C02_present_redact_bind_build_verify.

(* Sessions: the operations on one Holder object may be interleaved in any order and repeated; the k-th build is the
   presentation of the state reached by everything before it - all redactions made so far (before or after earlier
   builds), the key-binding parameters supplied last - and building changes nothing. *)
Require Import SDJ.Sessions.
Theorem C02_session_every_build_is_the_presentation_of_the_state_before_it :
  forall O pre E post h,
  exists outs_pre outs_post,
    snd (hrun O h (pre ++ HBuild E :: post)) = (outs_pre ++ holder_build O E (fst (hrun O h pre)) :: outs_post)%list /\
    outs_pre = snd (hrun O h pre).
Proof. exact session_builds. Qed.
Print Assumptions C02_session_every_build_is_the_presentation_of_the_state_before_it.

Theorem C02_session_state :
  forall O ops h,
  fst (hrun O h ops) = {| h_jwt := h_jwt h; h_redacted := (h_redacted h ++ redactions ops)%list;
                          h_paths := h_paths h; h_kb := last_kb (h_kb h) ops |}.
Proof. exact hrun_state. Qed.
Print Assumptions C02_session_state.
