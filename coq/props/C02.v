(* C02 - Selective disclosure end to end: the verifier sees the original claims minus the redacted ones. *)
From Coq Require Import List String Ascii Bool Arith.
Import ListNotations.
Require Import SDJ.Json SDJ.Wire SDJ.Model2 SDJ.Out SDJ.Restore2 SDJ.Split SDJ.SplitM SDJ.Verify SDJ.HolderProofs.
Local Open Scope string_scope.

(* redacting a path that is not disclosable, or does not exist, changes nothing *)
Theorem C02_foreign_path_changes_nothing :
  forall h r, is_disclosable (h_paths h) r = false -> selected (holder_redact h r) = selected h.
Proof. exact selected_redact_foreign. Qed.
Print Assumptions C02_foreign_path_changes_nothing.

(* the presentation depends on the set of redacted paths only *)
Theorem C02_redaction_order_irrelevant :
  forall paths a b p, (forall r, In r a <-> In r b) -> withheld paths a p = withheld paths b p.
Proof. exact withheld_perm. Qed.
Print Assumptions C02_redaction_order_irrelevant.

(* every disclosure that is neither redacted nor below a redacted disclosable claim is presented *)
Theorem C02_others_kept :
  forall h p, In p (h_paths h) ->
    (forall r, In r (h_redacted h) -> is_disclosable (h_paths h) r = true -> fst p <> r /\ starts_with (r ++ "/") (fst p) = false) ->
    In (d_str (snd p)) (selected h).
Proof. exact selected_keeps. Qed.
Print Assumptions C02_others_kept.
