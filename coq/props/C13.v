(* C13 - Salts, digests and decoys give no handle for linking or counting claims.
   The theorems state the STRUCTURE (which draw goes where). That thread_rng's draws are in fact distinct,
   unpredictable and uniform is runtime behaviour no Gallina model exhibits; the history run of this check
   is statistical support for those premises, not a proof. *)
From Coq Require Import List String Ascii Bool Arith ZArith.
Import ListNotations.
Require Import SDJ.Json SDJ.Wire SDJ.Model2 SDJ.Out SDJ.Split SDJ.Restore2 SDJ.Issuer1 SDJ.Issuer2 SDJ.C13Proofs.
Local Open Scope string_scope.

Theorem C13_one_salt_draw_per_disclosure :
  forall E paths salts c c' ds,
    issue_fold E c paths salts = Ok (c', ds) -> Forall2 (made_with E) ds (firstn (List.length paths) salts).
Proof. exact issue_fold_salts. Qed.
Print Assumptions C13_one_salt_draw_per_disclosure.

Theorem C13_digests_distinct :
  forall E, (forall a b, ie_enc E a = ie_enc E b -> a = b) -> (forall a b, ie_hash E a = ie_hash E b -> a = b) ->
    forall ds salts, Forall2 (made_with E) ds salts -> NoDup salts -> NoDup (map d_digest ds).
Proof. exact digests_distinct. Qed.
Print Assumptions C13_digests_distinct.

Theorem C13_list_order_is_the_draw :
  forall E key salt kvs v ds,
    obj_get key kvs = Some v -> (String.eqb key "_sd" || String.eqb key "...") = false ->
    obj_get "_sd" (obj_remove key kvs) = Some (JArr ds) ->
    exists d, disclose_here E key salt (JObj kvs) =
              Ok (JObj (obj_insert "_sd" (JArr (insert_at (ie_pos E (d_digest d)) (JStr (d_digest d)) ds)) (obj_remove key kvs)), d)
              /\ d = mk_disc E salt (Some key) v.
Proof. exact sd_insertion_position. Qed.
Print Assumptions C13_list_order_is_the_draw.

Theorem C13_decoys_appended :
  forall kvs ds decoys, obj_get "_sd" kvs = Some (JArr ds) ->
    add_decoys kvs decoys = Ok (obj_insert "_sd" (JArr (ds ++ map JStr decoys)) kvs).
Proof. exact decoys_appended. Qed.
Print Assumptions C13_decoys_appended.

Theorem C13_top_list_shuffled :
  forall E kvs ds, obj_get "_sd" kvs = Some (JArr ds) -> shuffle_top E kvs = obj_insert "_sd" (JArr (ie_perm E ds)) kvs.
Proof. exact top_list_shuffled. Qed.
Print Assumptions C13_top_list_shuffled.
