(* C01 - Issuance round trip returns exactly the original claims and their paths. *)
From Coq Require Import List String Ascii Bool Arith.
Import ListNotations.
Require Import SDJ.Json SDJ.Wire SDJ.Model2 SDJ.Out SDJ.Restore2 SDJ.ATree SDJ.T2c SDJ.T2h SDJ.T1e SDJ.T1j SDJ.Issuer1 SDJ.Issuer2 SDJ.T1k SDJ.T1m SDJ.Verify SDJ.T1p.
From Coq Require Import ZArith.
Local Open Scope string_scope.

(* For every well-formed claims value C (key-sorted objects, no reserved names), every list of path strings
   that parse (split_paths) and on which marking succeeds (mark_fold: each path addresses a plain node of the
   current tree - in particular descendants before ancestors, no repeats), every sequence of distinct salt
   draws, every insertion-position draw (ie_pos E) and every injective hash/encoding:
   the issuer fold produces a payload and disclosures such that the COMPLETE restore_disclosures (decode all,
   passes until no progress, duplicate and structure checks) with all disclosures succeeds, and stripping the
   bookkeeping from its result gives back exactly C.
   PARTIAL with respect to the property: (a) 'valid marking => mark_fold succeeds', (b) the path component
   (one path per marked claim) are carried by the correspondence run, not yet by a theorem. The
   post-processing of encode and the entry points are covered by C01_encode_then_holder_verify below. *)
Theorem C01_roundtrip_claims_partial :
  forall E (dec : string -> dec_result),
  (forall x y, ie_hash E x = ie_hash E y -> x = y) ->
  (forall ps, dec (ie_enc E ps) = DJson (JArr ps)) ->
  forall C paths tks salts t',
    jwf C -> NoDup salts -> split_paths paths = Some tks ->
    T1j.mark_fold (ie_hash E) (ie_enc E) Issuer2.parse_index Issuer2.parse_usize (ie_pos E) (embed C) tks salts = Some t' ->
    aheight t' <= 129 ->
    exists payload ds claims ps,
      Issuer2.issue_fold E C paths salts = Ok (payload, ds) /\
      restore_disclosures (ie_hash E) dec Wire.show_nat payload (map d_str ds) = Ok (claims, ps) /\
      strip claims = C.
Proof. exact issuer2_roundtrip. Qed.
Print Assumptions C01_roundtrip_claims_partial.

(* stripping a restored view is the property's projection (original claims minus unopened nodes) *)
Theorem C01_strip_is_projection :
  forall (H : string -> string) (enc : list json -> string) (R : Rset) (t : atree),
    wf H enc t -> strip (view H enc R t) = proj H enc R t.
Proof. exact strip_view. Qed.
Print Assumptions C01_strip_is_projection.

(* The entry points: Issuer::encode (disclosure fold, decoys when requested, shuffle of the top-level digest
   list, _sd_alg, cnf, signing, serialisation with '~') followed by Holder::verify (split at '~', JWT decode,
   _sd_alg check, complete restore_disclosures, removal of bookkeeping and _sd_alg).
   For every claims object (key-sorted, no reserved names, no _sd_alg/cnf of its own), every non-empty path
   list on which marking succeeds, distinct salt draws, any insertion positions, any decoy draws that are
   distinct and collide with no digest of the token, any permutation as the shuffle, with or without decoys
   and holder key; under the idealised primitives stated as hypotheses (injective hash, base64url/JSON
   decode inverts encode and produces no '~', the JWT layer returns header and payload of what was signed,
   signing succeeds with a '~'-free compact JWT):
   encode succeeds, Holder::verify on its token succeeds and returns the issuer's header and EXACTLY the
   original claims (plus the cnf member when a holder key was required). *)
Theorem C01_encode_then_holder_verify :
  forall (E : issue_env) (O : oracles),
  (forall x y, ie_hash E x = ie_hash E y -> x = y) ->
  (forall ps, o_dec O (ie_enc E ps) = DJson (JArr ps)) ->
  o_hash O SHA256 = ie_hash E ->
  (forall h p j, ie_sign E h p = Val j -> o_jwt O j = Val (h, p)) ->
  (forall h p, exists j, ie_sign E h p = Val j /\ Split.contains Split.tilde j = false) ->
  (forall ps, Split.contains Split.tilde (ie_enc E ps) = false) ->
  (forall xs, Permutation.Permutation (ie_perm E xs) xs) ->
  forall (ckvs : list (string * json)) (paths : list string) tks (t' : atree)
         (max_decoys : option Z) (cnf : option json) (header : json),
  jwf (JObj ckvs) -> ~ In "_sd_alg" (map fst ckvs) -> ~ In "cnf" (map fst ckvs) ->
  NoDup (ie_salts E) -> paths <> [] -> split_paths paths = Some tks ->
  T1j.mark_fold (ie_hash E) (ie_enc E) Issuer2.parse_index Issuer2.parse_usize (ie_pos E) (embed (JObj ckvs)) tks (ie_salts E) = Some t' ->
  NoDup (decoys_used E max_decoys) ->
  (forall g, In g (decoys_used E max_decoys) -> ~ In g (alldigs (ie_hash E) (ie_enc E) t')) ->
  (match cnf with Some c => jwf c /\ S (aheight (embed c)) <= 129 | None => True end) ->
  aheight t' <= 129 ->
  exists token payload ds ps,
    issue E (JObj ckvs) paths max_decoys cnf header = Val (token, payload, ds) /\
    holder_verify O token = Val (header, match cnf with Some c => JObj (obj_insert "cnf" c ckvs) | None => JObj ckvs end, ps).
Proof. exact encode_then_holder_verify. Qed.
Print Assumptions C01_encode_then_holder_verify.

(* the premises are satisfiable: marking a top-level claim, a nested claim and an array element succeeds *)
Example C01_premises_nonvacuous :
  exists t', T1j.mark_fold (fun x => x) (fun _ => "e") Issuer2.parse_index Issuer2.parse_usize (fun _ => 0)
    (embed (JObj [("a", JNum "1"); ("b", JObj [("c", JArr [JStr "x"; JStr "y"])])]))
    [(["b"; "c"], "1"); (["b"], "c"); ([], "a")] [JStr "s1"; JStr "s2"; JStr "s3"] = Some t' /\ aheight t' <= 129.
Proof. eexists. split; [vm_compute; reflexivity|vm_compute; repeat constructor]. Qed.

(* The path component: "the holder is told one path per disclosable claim, equal to the path the issuer was
   given, together with that claim's name and value". addrs are the addresses the issuer's paths resolve to
   in the claims (T1r.jresolve); render writes an address the way the holder does (member names verbatim,
   indices in decimal). The reported list is a permutation of the issuer's disclosures (name and value are
   components of each disclosure), and the i-th disclosure is reported with the rendered address of the
   i-th path. C01_rendered_path_is_issuer_path: when index tokens are written canonically that string is the
   issuer's token list joined by '/'. *)
Require Import SDJ.T1r SDJ.T1s.
Theorem C01_encode_then_holder_verify_paths :
  forall (E : issue_env) (O : oracles),
  (forall x y, ie_hash E x = ie_hash E y -> x = y) ->
  (forall ps, o_dec O (ie_enc E ps) = DJson (JArr ps)) ->
  o_hash O SHA256 = ie_hash E ->
  (forall h p j, ie_sign E h p = Val j -> o_jwt O j = Val (h, p)) ->
  (forall h p, exists j, ie_sign E h p = Val j /\ Split.contains Split.tilde j = false) ->
  (forall ps, Split.contains Split.tilde (ie_enc E ps) = false) ->
  (forall xs, Permutation.Permutation (ie_perm E xs) xs) ->
  forall (ckvs : list (string * json)) (paths : list string) tks (addrs : list addr) (t' : atree)
         (max_decoys : option Z) (cnf : option json) (header : json),
  jwf (JObj ckvs) -> ~ In "_sd_alg" (map fst ckvs) -> ~ In "cnf" (map fst ckvs) ->
  NoDup (ie_salts E) -> paths <> [] -> split_paths paths = Some tks ->
  Forall2 (fun p a => jresolve Issuer2.parse_index Issuer2.parse_usize (fst p) (snd p) (JObj ckvs) = Some a) tks addrs ->
  ordered addrs ->
  T1j.mark_fold (ie_hash E) (ie_enc E) Issuer2.parse_index Issuer2.parse_usize (ie_pos E) (embed (JObj ckvs)) tks (ie_salts E) = Some t' ->
  NoDup (decoys_used E max_decoys) ->
  (forall g, In g (decoys_used E max_decoys) -> ~ In g (alldigs (ie_hash E) (ie_enc E) t')) ->
  (match cnf with Some c => jwf c /\ S (aheight (embed c)) <= 129 | None => True end) ->
  aheight t' <= 129 ->
  exists token payload ds ps,
    issue E (JObj ckvs) paths max_decoys cnf header = Val (token, payload, ds) /\
    holder_verify O token = Val (header, match cnf with Some c => JObj (obj_insert "cnf" c ckvs) | None => JObj ckvs end, ps) /\
    Permutation.Permutation (map snd ps) ds /\
    Forall2 (fun d a => In (render Wire.show_nat a, d) ps) ds addrs.
Proof. exact encode_then_holder_verify_paths. Qed.
Print Assumptions C01_encode_then_holder_verify_paths.

Theorem C01_rendered_path_is_issuer_path :
  forall (show_nat : nat -> string) (parse_index parse_usize : string -> option nat) toks key j a,
  jresolve parse_index parse_usize toks key j = Some a ->
  Forall (canonical show_nat parse_index parse_usize) (toks ++ [key]) ->
  render show_nat a = join_tokens (toks ++ [key]).
Proof. exact render_tokens. Qed.
Print Assumptions C01_rendered_path_is_issuer_path.

(* ---- the same at the level of the path STRINGS ("equal to the path the issuer was given") ----
   The issuer is given the JSON pointers (RFC 6901: member names with '~' and '/' escaped, indices in decimal) of
   existing nodes of the claims (node_addr: non-empty address, present in the claims, indices representable as
   usize), descendants before ancestors and without repeats (ordered). Then these strings parse (split_paths),
   marking succeeds, and under the premises of C01_encode_then_holder_verify: encode succeeds, Holder::verify
   returns the header and exactly the original claims (+cnf), and the i-th disclosure is reported under exactly
   the i-th string the issuer was given. Pieces: PathStr.unescape_esc / split_render / parse_path_render (the
   pointer codec), DecStr.parse_usize_show / parse_index_show (decimal codec), PathStr.jresolve_render. *)
Require Import SDJ.DecStr SDJ.PathStr SDJ.PathThm.
Theorem C01_encode_json_pointers :
  forall (E : issue_env) (O : oracles),
  (forall x y, ie_hash E x = ie_hash E y -> x = y) ->
  (forall ps, o_dec O (ie_enc E ps) = DJson (JArr ps)) ->
  o_hash O SHA256 = ie_hash E ->
  (forall h p j, ie_sign E h p = Val j -> o_jwt O j = Val (h, p)) ->
  (forall h p, exists j, ie_sign E h p = Val j /\ Split.contains Split.tilde j = false) ->
  (forall ps, Split.contains Split.tilde (ie_enc E ps) = false) ->
  (forall xs, Permutation.Permutation (ie_perm E xs) xs) ->
  forall (ckvs : list (string * json)) (addrs : list addr) (max_decoys : option Z) (cnf : option json) (header : json),
  jwf (JObj ckvs) -> ~ In "_sd_alg" (map fst ckvs) -> ~ In "cnf" (map fst ckvs) ->
  NoDup (ie_salts E) -> addrs <> [] -> Forall (node_addr (JObj ckvs)) addrs -> ordered addrs ->
  List.length addrs <= List.length (ie_salts E) ->
  exists t',
    (exists tks, split_paths (map (T1s.render Wire.show_nat) addrs) = Some tks /\
       T1j.mark_fold (ie_hash E) (ie_enc E) Issuer2.parse_index Issuer2.parse_usize (ie_pos E) (embed (JObj ckvs)) tks (ie_salts E) = Some t') /\
    (NoDup (decoys_used E max_decoys) ->
     (forall g, In g (decoys_used E max_decoys) -> ~ In g (alldigs (ie_hash E) (ie_enc E) t')) ->
     (match cnf with Some c => jwf c /\ S (aheight (embed c)) <= 129 | None => True end) ->
     aheight t' <= 129 ->
     exists token payload ds ps,
       issue E (JObj ckvs) (map (T1s.render Wire.show_nat) addrs) max_decoys cnf header = Val (token, payload, ds) /\
       holder_verify O token = Val (header, match cnf with Some c => JObj (obj_insert "cnf" c ckvs) | None => JObj ckvs end, ps) /\
       Permutation.Permutation (map snd ps) ds /\
       Forall2 (fun d p => In (p, d) ps) ds (map (T1s.render Wire.show_nat) addrs)).
Proof. exact encode_json_pointers. Qed.
Print Assumptions C01_encode_json_pointers.

(* the pointer codec by itself: the issuer's parse of a rendered address gives back the (unescaped) tokens, and
   they resolve to that node *)
Theorem C01_pointer_codec :
  forall (a : addr) (t : step) (C : json),
    jwf C -> jat (a ++ [t])%list C -> small (a ++ [t])%list ->
    exists toks key, parse_path (T1s.render Wire.show_nat (a ++ [t])%list) = Some (toks, key) /\
                     jresolve Issuer2.parse_index Issuer2.parse_usize toks key C = Some (a ++ [t])%list.
Proof. exact render_resolves. Qed.
Print Assumptions C01_pointer_codec.

(* the premises are satisfiable: "/a~1b/0" addresses element 0 of the member "a/b" *)
Example C01_pointer_codec_nonvacuous :
  let C := JObj [("a/b", JArr [JStr "x"; JStr "y"])] in
  jwf C /\ node_addr C [SKey "a/b"; SIdx 0] /\ T1s.render Wire.show_nat [SKey "a/b"; SIdx 0] = "/a~1b/0".
Proof.
  cbv zeta. split; [|split; [|reflexivity]].
  - constructor; [repeat constructor|]. repeat constructor; cbn; try discriminate.
  - split; [discriminate|]. split; [cbn; exact I|]. repeat constructor. cbn. vm_compute. discriminate.
Qed.

(* The same entry-point theorem with the two premises about the disclosure encoding DISCHARGED: when the encoding is
   base64url (Base64.v, proved) of a JSON text (ser / parse, with parse (ser ps) = Some (JArr ps) the one assumption left
   about the text layer), "decoding inverts encoding" and "an encoded disclosure contains no '~'" are theorems. *)
Require Import SDJ.Base64Env.
Theorem C01_encode_then_holder_verify_base64 :
  forall (ser : list json -> string) (parse : string -> option json),
  (forall ps, parse (ser ps) = Some (JArr ps)) ->
  forall (E : issue_env) (O : oracles),
  ie_enc E = enc64 ser -> o_dec O = dec64 parse ->
  (forall x y, ie_hash E x = ie_hash E y -> x = y) ->
  o_hash O SHA256 = ie_hash E ->
  (forall h p j, ie_sign E h p = Val j -> o_jwt O j = Val (h, p)) ->
  (forall h p, exists j, ie_sign E h p = Val j /\ Split.contains Split.tilde j = false) ->
  (forall xs, Permutation.Permutation (ie_perm E xs) xs) ->
  forall (ckvs : list (string * json)) (paths : list string) tks (t' : atree)
         (max_decoys : option Z) (cnf : option json) (header : json),
  jwf (JObj ckvs) -> ~ In "_sd_alg" (map fst ckvs) -> ~ In "cnf" (map fst ckvs) ->
  NoDup (ie_salts E) -> paths <> [] -> split_paths paths = Some tks ->
  T1j.mark_fold (ie_hash E) (ie_enc E) Issuer2.parse_index Issuer2.parse_usize (ie_pos E) (embed (JObj ckvs)) tks (ie_salts E) = Some t' ->
  NoDup (decoys_used E max_decoys) ->
  (forall g, In g (decoys_used E max_decoys) -> ~ In g (alldigs (ie_hash E) (ie_enc E) t')) ->
  (match cnf with Some c => jwf c /\ S (aheight (embed c)) <= 129 | None => True end) ->
  aheight t' <= 129 ->
  exists token payload ds ps,
    issue E (JObj ckvs) paths max_decoys cnf header = Val (token, payload, ds) /\
    holder_verify O token = Val (header, match cnf with Some c => JObj (obj_insert "cnf" c ckvs) | None => JObj ckvs end, ps).
Proof. exact encode_then_holder_verify_b64. Qed.
Print Assumptions C01_encode_then_holder_verify_base64.
