(* C01 - Issuance round trip returns exactly the original claims and their paths. *)
From Coq Require Import List String Ascii Bool Arith.
Require Import SDJ.Json SDJ.Model2 SDJ.Restore2 SDJ.ATree SDJ.T2c SDJ.T2h.
Local Open Scope string_scope.

(* placeholder while the issuer theorems are ported to the final issuer model: stripping is projection *)
Theorem C01_strip_is_projection :
  forall (H : string -> string) (enc : list json -> string) (R : Rset) (t : atree),
    wf H enc t -> strip (view H enc R t) = proj H enc R t.
Proof. exact strip_view. Qed.
Print Assumptions C01_strip_is_projection.
