(* C01 - Issuance round trip returns exactly the original claims and their paths. *)
From Coq Require Import List String Ascii Bool Arith.
Import ListNotations.
Require Import SDJ.Json SDJ.Wire SDJ.Model2 SDJ.Out SDJ.Restore2 SDJ.ATree SDJ.T2c SDJ.T2h SDJ.T1e SDJ.T1j SDJ.Issuer1 SDJ.Issuer2 SDJ.T1k.
Local Open Scope string_scope.

(* For every well-formed claims value C (key-sorted objects, no reserved names), every list of path strings
   that parse (split_paths) and on which marking succeeds (mark_fold: each path addresses a plain node of the
   current tree - in particular descendants before ancestors, no repeats), every sequence of distinct salt
   draws, every insertion-position draw (ie_pos E) and every injective hash/encoding:
   the issuer fold produces a payload and disclosures such that the COMPLETE restore_disclosures (decode all,
   passes until no progress, duplicate and structure checks) with all disclosures succeeds, and stripping the
   bookkeeping from its result gives back exactly C.
   PARTIAL with respect to the property: (a) 'valid marking => mark_fold succeeds', (b) the path component
   (one path per marked claim), (c) the post-processing of encode (decoys, top-level shuffle, _sd_alg, cnf)
   and the JWT layer are carried by the correspondence run, not yet by this theorem. *)
Theorem C01_roundtrip_claims_partial :
  forall E (dec : string -> dec_result),
  (forall x y, ie_hash E x = ie_hash E y -> x = y) ->
  (forall ps, dec (ie_enc E ps) = DJson (JArr ps)) ->
  forall C paths tks salts t',
    jwf C -> NoDup salts -> split_paths paths = Some tks ->
    T1j.mark_fold (ie_hash E) (ie_enc E) Issuer2.parse_index Issuer2.parse_usize (ie_pos E) (embed C) tks salts = Some t' ->
    aheight t' <= 129 ->
    exists payload ds claims ps,
      Issuer2.issue_fold E C paths salts = Ok (payload, ds) /\
      restore_disclosures (ie_hash E) dec Wire.show_nat payload (map d_str ds) = Ok (claims, ps) /\
      strip claims = C.
Proof. exact issuer2_roundtrip. Qed.
Print Assumptions C01_roundtrip_claims_partial.

(* stripping a restored view is the property's projection (original claims minus unopened nodes) *)
Theorem C01_strip_is_projection :
  forall (H : string -> string) (enc : list json -> string) (R : Rset) (t : atree),
    wf H enc t -> strip (view H enc R t) = proj H enc R t.
Proof. exact strip_view. Qed.
Print Assumptions C01_strip_is_projection.
