(* C09 - The holder's key-binding JWT commits to exactly the presentation it is attached to. *)
From Coq Require Import List String Ascii Bool Arith.
Import ListNotations.
Require Import SDJ.Json SDJ.Wire SDJ.Model2 SDJ.Out SDJ.Restore2 SDJ.Split SDJ.SplitM SDJ.Verify SDJ.KbProofs.
Local Open Scope string_scope.

Theorem C09_build_shape :
  forall O E h a cseg c claims alg aud jalg kb,
    jwt_parts_m (h_jwt h) = Val (a, cseg, c) -> o_claims O cseg = Ok claims -> jhas "cnf" claims = true ->
    parse_halg (jstr_or_empty (jget "_sd_alg" claims)) = Some alg -> h_kb h = Some (aud, jalg) ->
    e_sign E (kb_header jalg) (kb_claims aud (e_nonce E) (e_iat E) (o_hash O alg (presentation_prefix (h_jwt h) (selected h)))) = Val kb ->
    holder_build O E h = Val (presentation_prefix (h_jwt h) (selected h) ++ kb).
Proof. exact build_bound_shape. Qed.
Print Assumptions C09_build_shape.

Theorem C09_repeat_same_disclosures :
  forall O E1 E2 h p1 p2, holder_build O E1 h = Val p1 -> holder_build O E2 h = Val p2 ->
    exists k1 k2, p1 = presentation_prefix (h_jwt h) (selected h) ++ k1 /\ p2 = presentation_prefix (h_jwt h) (selected h) ++ k2.
Proof. exact build_repeatable. Qed.
Print Assumptions C09_repeat_same_disclosures.
