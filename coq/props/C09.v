(* C09 - The holder's key-binding JWT commits to exactly the presentation it is attached to. *)
From Coq Require Import List String Ascii Bool Arith.
Import ListNotations.
Require Import SDJ.Json SDJ.Wire SDJ.Model2 SDJ.Out SDJ.Restore2 SDJ.Split SDJ.SplitM SDJ.Verify SDJ.KbProofs.
Local Open Scope string_scope.

Theorem C09_build_shape :
  forall O E h a cseg c claims alg aud jalg kb,
    jwt_parts_m (h_jwt h) = Val (a, cseg, c) -> o_claims O cseg = Ok claims -> kb_bound claims = true ->
    declared_halg claims = Some alg -> h_kb h = Some (aud, jalg) ->
    e_sign E (kb_header jalg) (kb_claims aud (e_nonce E) (e_iat E) (o_hash O alg (presentation_prefix (h_jwt h) (selected h)))) = Val kb ->
    holder_build O E h = Val (presentation_prefix (h_jwt h) (selected h) ++ kb).
Proof. exact build_bound_shape. Qed.
Print Assumptions C09_build_shape.

Theorem C09_repeat_same_disclosures :
  forall O E1 E2 h p1 p2, holder_build O E1 h = Val p1 -> holder_build O E2 h = Val p2 ->
    exists k1 k2, p1 = presentation_prefix (h_jwt h) (selected h) ++ k1 /\ p2 = presentation_prefix (h_jwt h) (selected h) ++ k2.
Proof. exact build_repeatable. Qed.
Print Assumptions C09_repeat_same_disclosures.

(* The commitment, read from the verifier's side: if Verifier::verify_raw accepts a presentation token' that
   carries the KB-JWT kb, and kb's sd_hash is the hash (under the token's _sd_alg) of the presentation prefix
   serialise jwt ds "" it was built for, and the hash is injective, then token' consists of exactly that issuer
   JWT and exactly that disclosure list, in that order: nothing can be added, dropped, reordered or swapped
   under an existing KB-JWT. *)
Require Import SDJ.Split SDJ.C05Proofs SDJ.C09Proofs.
Theorem C09_kb_commits_to_exactly_this_presentation :
  forall (O : oracles) token' kbpol hdr claims jwt' ds' kb jwt ds alg0,
  (forall x y, o_hash O alg0 x = o_hash O alg0 y -> x = y) ->
  verifier_verify_raw O token' kbpol = Val (hdr, claims, ds') ->
  sd_jwt_parts token' = (jwt', ds', Some kb) ->
  token' = serialise jwt' ds' kb ->
  Forall (fun x => contains tilde x = false) (jwt' :: ds') -> contains tilde kb = false ->
  Forall (fun x => contains tilde x = false) (jwt :: ds) ->
  (forall h' kc, verify_kb O kb (jget "cnf" claims) = Val (h', kc) -> jget "sd_hash" kc = JStr (o_hash O alg0 (serialise jwt ds ""))) ->
  (forall alg, declared_halg claims = Some alg -> alg = alg0) ->
  jwt' = jwt /\ ds' = ds.
Proof. exact kb_commits. Qed.
Print Assumptions C09_kb_commits_to_exactly_this_presentation.
