(* C04 - Only the exact issuer-signed JWT, the right key and the configured algorithm verify. *)
From Coq Require Import List String Ascii Bool Arith NArith.
Import ListNotations.
Require Import SDJ.Json SDJ.Wire SDJ.Model2 SDJ.Out SDJ.Restore2 SDJ.Split SDJ.SplitM SDJ.Verify SDJ.Jwt SDJ.C04Proofs.
Local Open Scope string_scope.

(* decode accepts exactly when: the token parses, its header algorithm is the configured one, the key is
   of that algorithm's family, the signature oracle accepts the token under that algorithm, the payload is
   an object and the policy's claim checks hold *)
Theorem C04_accept_iff :
  forall W token v hdr payload,
  decode_model W token v = Val (hdr, payload) <->
  jw_parse W token = Some (hdr, payload) /\
  exists a claims, jalg_of_name (jstr_or_empty_ (jget "alg" hdr)) = Some a /\ jalg_eqb a (v_alg v) = true /\
    family_ok (jw_family W) a = true /\ jw_sig_ok W token a = true /\ payload = JObj claims /\
    validate claims (build_validation v) (jw_now W) = Val tt.
Proof. exact decode_model_iff. Qed.
Print Assumptions C04_accept_iff.

(* with an ideal signature scheme - only the exact issued token verifies under this key, and only under the
   algorithm it was signed with - nothing else is accepted, whatever the policy *)
Theorem C04_only_exact :
  forall W tok0 A,
  (forall t a, jw_sig_ok W t a = true -> t = tok0 /\ a = A) ->
  forall token v r, decode_model W token v = Val r -> token = tok0 /\ v_alg v = A /\ family_ok (jw_family W) A = true.
Proof. exact decode_only_exact. Qed.
Print Assumptions C04_only_exact.

Theorem C04_key_families :
  forall k a, family_ok k a = true <->
  (k = KSecret /\ In a [HS256; HS384; HS512]) \/ (k = KRsa /\ In a [RS256; RS384; RS512; PS256; PS384; PS512]) \/
  (k = KEc /\ In a [ES256; ES256K; ES384; ES512]).
Proof. exact family_table. Qed.
Print Assumptions C04_key_families.

(* holder and verifier decode the first '~'-segment before touching anything else *)
Theorem C04_holder_decodes_first :
  forall O token, (forall jwt ds kb, sd_jwt_parts token = (jwt, ds, kb) -> o_jwt O jwt = Fail) -> holder_verify O token = Fail.
Proof. exact holder_decodes_first. Qed.
Print Assumptions C04_holder_decodes_first.

Theorem C04_verifier_decodes_first :
  forall O token kbpol, (forall jwt ds kb, sd_jwt_parts token = (jwt, ds, kb) -> o_jwt O jwt = Fail) -> verifier_verify O token kbpol = Fail.
Proof. exact verifier_decodes_first. Qed.
Print Assumptions C04_verifier_decodes_first.
