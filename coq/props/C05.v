(* C05 - Key binding enforced: bound SD-JWTs need a valid KB-JWT over this presentation. *)
From Coq Require Import List String Ascii Bool Arith.
Import ListNotations.
Require Import SDJ.Json SDJ.Wire SDJ.Model2 SDJ.Out SDJ.Restore2 SDJ.Split SDJ.SplitM SDJ.Verify SDJ.C05Proofs SDJ.HolderProofs.
Local Open Scope string_scope.

Theorem C05_verify_kb_iff :
  forall O kb cnf hdr claims,
    verify_kb O kb cnf = Val (hdr, claims) <->
    exists n e, jget "kty" cnf = JStr "RSA" /\ jget "e" cnf = JStr e /\ jget "n" cnf = JStr n /\
                o_kb O kb n e = Val (hdr, claims) /\ jget "typ" hdr = JStr "kb+jwt".
Proof. exact verify_kb_iff. Qed.
Print Assumptions C05_verify_kb_iff.

Theorem C05_accept_iff :
  forall O token kbpol hdr claims ds,
    verifier_verify_raw O token kbpol = Val (hdr, claims, ds) <->
    exists jwt kb alg,
      sd_jwt_parts token = (jwt, ds, kb) /\ o_jwt O jwt = Val (hdr, claims) /\
      declared_halg claims = Some alg /\
      ( (kb_required claims = false /\ kb = None) \/
        (kb_required claims = true /\ exists k h' kc hs,
            kb = Some k /\ kbpol = true /\ verify_kb O k (jget "cnf" claims) = Val (h', kc) /\
            jget "sd_hash" kc = JStr hs /\ o_hash O alg (drop_kb token) = hs) ).
Proof. exact verifier_verify_raw_iff. Qed.
Print Assumptions C05_accept_iff.

Theorem C05_bound_without_kb_rejected :
  forall O token kbpol jwt ds hdr claims,
    sd_jwt_parts token = (jwt, ds, None) -> o_jwt O jwt = Val (hdr, claims) -> kb_required claims = true ->
    forall r, verifier_verify_raw O token kbpol <> Val r.
Proof. exact bound_without_kb_rejected. Qed.
Print Assumptions C05_bound_without_kb_rejected.

Theorem C05_kb_on_unbound_rejected :
  forall O token kbpol jwt ds k hdr claims,
    sd_jwt_parts token = (jwt, ds, Some k) -> o_jwt O jwt = Val (hdr, claims) -> kb_required claims = false ->
    forall r, verifier_verify_raw O token kbpol <> Val r.
Proof. exact kb_on_unbound_rejected. Qed.
Print Assumptions C05_kb_on_unbound_rejected.

Theorem C05_no_policy_rejected :
  forall O token jwt ds k hdr claims,
    sd_jwt_parts token = (jwt, ds, Some k) -> o_jwt O jwt = Val (hdr, claims) ->
    forall r, verifier_verify_raw O token false <> Val r.
Proof. exact no_policy_rejected. Qed.
Print Assumptions C05_no_policy_rejected.

Theorem C05_accepted_commits :
  forall O token kbpol hdr claims ds jwt k,
    verifier_verify_raw O token kbpol = Val (hdr, claims, ds) -> sd_jwt_parts token = (jwt, ds, Some k) ->
    exists h' kc alg, verify_kb O k (jget "cnf" claims) = Val (h', kc) /\
       declared_halg claims = Some alg /\ jget "sd_hash" kc = JStr (o_hash O alg (drop_kb token)).
Proof. exact accepted_commits. Qed.
Print Assumptions C05_accepted_commits.

Theorem C05_holder_refuses_unbound_build :
  forall O E h cseg a c claims,
    jwt_parts_m (h_jwt h) = Val (a, cseg, c) -> o_claims O cseg = Ok claims -> kb_bound claims = true ->
    h_kb h = None -> holder_build O E h = Fail.
Proof. exact build_bound_requires_kb. Qed.
Print Assumptions C05_holder_refuses_unbound_build.
