(* C16 - The JOSE header set by the issuer reaches holder and verifier unchanged. *)
From Coq Require Import List String Ascii Bool Arith NArith.
Import ListNotations.
Require Import SDJ.Json SDJ.Wire SDJ.Model2 SDJ.Out SDJ.Jwt SDJ.C04Proofs.
Local Open Scope string_scope.

(* for every header value (all strings, all list lengths, every subset of the nine optional fields, all 13
   algorithms): the JSON of the translated header has each set field under the member of the same meaning,
   no member for an unset field, and no other member *)
Theorem C16_header_roundtrip :
  forall h,
  let j := jheader_json (build_header h) in
  jget "alg" j = JStr (jalg_name (h_alg h)) /\ jget "typ" j = opt_str_json (h_typ h) /\ jget "cty" j = opt_str_json (h_cty h) /\
  jget "jku" j = opt_str_json (h_jku h) /\ jget "kid" j = opt_str_json (h_kid h) /\ jget "x5u" j = opt_str_json (h_x5u h) /\
  jget "x5c" j = opt_list_json (h_x5c h) /\ jget "x5t" j = opt_str_json (h_x5t h) /\
  jget "x5t_s256" j = opt_str_json (h_x5t_s256 h) /\ jget "crit" j = opt_list_json (h_crit h) /\
  (forall k, ~ In k ["alg"; "typ"; "cty"; "jku"; "kid"; "x5u"; "x5c"; "x5t"; "x5t_s256"; "crit"] -> jget k j = JNull).
Proof. exact header_roundtrip. Qed.
Print Assumptions C16_header_roundtrip.

(* decode hands back the header the token carries (as parsed), together with acceptance (C04) *)
Theorem C16_decode_returns_parsed_header :
  forall W token v hdr payload, decode_model W token v = Val (hdr, payload) -> jw_parse W token = Some (hdr, payload).
Proof. intros W token v hdr payload H. apply decode_model_iff in H. tauto. Qed.
Print Assumptions C16_decode_returns_parsed_header.
