(* C12 - SD-JWTs the specification says must be rejected are rejected. *)
From Coq Require Import List String Ascii Bool Arith.
Import ListNotations.
Require Import SDJ.Json SDJ.Wire SDJ.Model2 SDJ.Out SDJ.Restore2 SDJ.Split SDJ.SplitM SDJ.Verify SDJ.C12Proofs SDJ.T2n SDJ.C12Tree.
Local Open Scope string_scope.

(* a presented string that is not a JSON array of 2 or 3 elements rejects the whole presentation,
   wherever it stands in the list and whatever the signed claims are *)
Theorem C12_not_array_rejected :
  forall (H : string -> string) (dec : string -> dec_result) (show_nat : nat -> string) claims L s,
    In s L -> (forall xs, dec s <> DJson (JArr xs)) -> restore_disclosures H dec show_nat claims L = Err.
Proof. intros. eapply restore_disclosures_bad_member; eauto using from_base64_not_array. Qed.
Print Assumptions C12_not_array_rejected.

Theorem C12_wrong_arity_rejected :
  forall (H : string -> string) (dec : string -> dec_result) (show_nat : nat -> string) claims L s xs,
    In s L -> dec s = DJson (JArr xs) -> List.length xs <> 2 -> List.length xs <> 3 ->
    restore_disclosures H dec show_nat claims L = Err.
Proof. intros. eapply restore_disclosures_bad_member; eauto using from_base64_arity. Qed.
Print Assumptions C12_wrong_arity_rejected.

Theorem C12_name_not_string_rejected :
  forall (H : string -> string) (dec : string -> dec_result) (show_nat : nat -> string) claims L s salt k v,
    In s L -> dec s = DJson (JArr [salt; k; v]) -> (forall n, k <> JStr n) ->
    restore_disclosures H dec show_nat claims L = Err.
Proof. intros. eapply restore_disclosures_bad_member; eauto using from_base64_name_not_string. Qed.
Print Assumptions C12_name_not_string_rejected.

Theorem C12_reserved_name_rejected :
  forall (H : string -> string) (dec : string -> dec_result) (show_nat : nat -> string) claims L s salt n v,
    In s L -> dec s = DJson (JArr [salt; JStr n; v]) -> n = "_sd" \/ n = "..." ->
    restore_disclosures H dec show_nat claims L = Err.
Proof. intros. eapply restore_disclosures_bad_member; eauto using from_base64_reserved. Qed.
Print Assumptions C12_reserved_name_rejected.

(* object step: a disclosed name that already exists next to the digest is an error, never an overwrite *)
Theorem C12_collision_step :
  forall d path kvs sd k x,
    obj_get "_sd" kvs = Some sd -> sd_contains sd (d_digest d) = Ok true ->
    d_key d = Some k -> obj_get k kvs = Some x -> sd_step d path kvs = Err.
Proof. exact sd_step_collision. Qed.
Print Assumptions C12_collision_step.

Theorem C12_element_disclosure_in_sd_step :
  forall d path kvs sd,
    obj_get "_sd" kvs = Some sd -> sd_contains sd (d_digest d) = Ok true -> d_key d = None -> sd_step d path kvs = Err.
Proof. exact sd_step_element_in_sd. Qed.
Print Assumptions C12_element_disclosure_in_sd_step.

Theorem C12_sd_not_array_check :
  forall n kvs sd seen,
    obj_get "_sd" kvs = Some sd -> (forall xs, sd <> JArr xs) -> check_digests (S n) (JObj kvs) seen = Err.
Proof. exact check_digests_sd_not_array. Qed.
Print Assumptions C12_sd_not_array_check.

Theorem C12_unsupported_alg_verifier :
  forall O token kbpol jwt ds kb hdr claims,
    sd_jwt_parts_m token = Val (jwt, ds, kb) -> o_jwt O jwt = Val (hdr, claims) ->
    jhas "_sd_alg" claims = true -> (forall a, jget "_sd_alg" claims = JStr a -> parse_halg a = None) ->
    verifier_verify O token kbpol = Fail.
Proof. exact verifier_bad_alg. Qed.
Print Assumptions C12_unsupported_alg_verifier.

Theorem C12_unsupported_alg_holder :
  forall O token jwt ds hdr claims,
    sd_jwt_parts_m token = Val (jwt, ds, None) -> o_jwt O jwt = Val (hdr, claims) ->
    jhas "_sd_alg" claims = true -> (forall a, jget "_sd_alg" claims = JStr a -> parse_halg a = None) ->
    holder_verify O token = Fail.
Proof. exact holder_bad_alg. Qed.
Print Assumptions C12_unsupported_alg_holder.

Theorem C12_alg_names : forall a alg, parse_halg a = Some alg -> a = "sha-256" \/ a = "sha-384" \/ a = "sha-512".
Proof. exact parse_halg_some. Qed.
Print Assumptions C12_alg_names.

(* whole tree, any depth: whenever restore_disclosures (hence Holder::verify, Verifier::verify,
   Holder::presentation in the model) accepts, the restored tree contains - anywhere - no _sd that is not an
   array, no array placeholder with additional members, and no digest embedded more than once *)
Theorem C12_accept_implies_clean :
  forall (H : string -> string) (dec : string -> dec_result) (show_nat : nat -> string) claims L c ps,
    restore_disclosures H dec show_nat claims L = Ok (c, ps) ->
    NoDup (cdigs c) /\
    forall v, sub v c ->
      (forall kvs sd, v = JObj kvs -> obj_get "_sd" kvs = Some sd -> exists xs, sd = JArr xs) /\
      (forall xs kvs d, v = JArr xs -> In (JObj kvs) xs -> obj_get "..." kvs = Some d -> List.length kvs = 1).
Proof. exact accepted_tree_is_clean. Qed.
Print Assumptions C12_accept_implies_clean.
