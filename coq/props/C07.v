(* C07 - Issued SD-JWTs are spec-conformant as judged by an independent verifier. *)
From Coq Require Import List String Ascii Bool Arith.
Import ListNotations.
Require Import SDJ.Json SDJ.Wire SDJ.Model2 SDJ.Out SDJ.Split SDJ.Restore2 SDJ.Issuer1 SDJ.Issuer2 SDJ.C07Proofs.
Local Open Scope string_scope.

(* a disclosure built for (name, value) decodes back to that name and value, with the digest being the
   hash of the encoded string - for every name that is not reserved, every value, every salt *)
Theorem C07_built_disclosure_decodes :
  forall E (dec : string -> dec_result) salt key v,
    (forall ps, dec (ie_enc E ps) = DJson (JArr ps)) ->
    (match key with Some k => reserved k = false | None => True end) ->
    from_base64 (ie_hash E) dec (d_str (mk_disc E salt key v)) = Ok (mk_disc E salt key v).
Proof. exact built_disclosure_decodes. Qed.
Print Assumptions C07_built_disclosure_decodes.

Theorem C07_digest_is_hash_of_string :
  forall E salt key v, d_digest (mk_disc E salt key v) = ie_hash E (d_str (mk_disc E salt key v)).
Proof. exact built_disclosure_digest. Qed.
Print Assumptions C07_digest_is_hash_of_string.

(* framing: the serialised token splits into the JWT, exactly the disclosures, and no key-binding JWT *)
Theorem C07_framing :
  forall (E : issue_env) jwt ds,
    Forall (fun x => contains tilde x = false) (jwt :: map d_str ds) ->
    sd_jwt_parts (serialise_token jwt ds) = (jwt, map d_str ds, None).
Proof. exact token_framing. Qed.
Print Assumptions C07_framing.

(* The independent reference verifier (RefVerify.v: the specification's algorithm, top-down, one pass, digest
   table; it shares no code with the model of the library's restorer) is SOUND with respect to the projection:
   for every conformant token t and every list of presented strings (none hashing to a decoy), whenever it
   accepts, its result is the projection determined by the presented set, minus _sd_alg - the value the
   library model's Verifier::verify returns for the same presentation (C03_verifier_entry_complete). So the
   per-run agreement "library = model = reference verifier" of the correspondence run compares the library
   against a specification-level algorithm whose meaning is pinned by this theorem. (Completeness of the
   reference verifier - that it accepts - is checked per run, not proved.) *)
Require Import SDJ.ATree SDJ.T2c SDJ.T2h SDJ.T2m SDJ.RefVerify SDJ.C03Proofs SDJ.RefProofs.
Theorem C07_reference_verifier_sound :
  forall (H : string -> string) (enc : list json -> string) (dec : string -> option json),
    (forall x y, H x = H y -> x = y) ->
    (forall ps, dec (enc ps) = Some (JArr ps)) ->
    forall t : atree, wf H enc t -> NoDup (alldigs H enc t) -> NoDup (hdigs H enc t) ->
    forall (L : list string) (j : json),
      (forall s, In s L -> In (H s) (alldigs H enc t) -> In (H s) (hdigs H enc t)) ->
      ref_verify H dec (blind H enc t) L = Some j -> j = drop_alg (proj H enc (ownS H L) t).
Proof. exact ref_verify_sound. Qed.
Print Assumptions C07_reference_verifier_sound.

(* ... and COMPLETE: on a conformant token within the nesting limit the reference verifier accepts every list
   of strings each of which decodes as a disclosure (any subset of the token's disclosures in any order, also
   foreign ones), none hashing to a decoy, and returns that projection. Together with the entry-point theorem
   of the issuer (C01) this is "issued SD-JWTs are conformant as judged by an independent verifier". *)
Theorem C07_reference_verifier_complete :
  forall (H : string -> string) (enc : list json -> string) (dec : string -> option json),
    (forall x y, H x = H y -> x = y) ->
    (forall ps, dec (enc ps) = Some (JArr ps)) ->
    forall t : atree, wf H enc t -> NoDup (alldigs H enc t) -> NoDup (hdigs H enc t) ->
    forall (L : list string) (T : rtable),
      (forall s, In s L -> In (H s) (alldigs H enc t) -> In (H s) (hdigs H enc t)) ->
      rdecode H dec L = Some T -> aheight t <= 200 ->
      ref_verify H dec (blind H enc t) L = Some (drop_alg (proj H enc (ownS H L) t)).
Proof. exact ref_verify_complete. Qed.
Print Assumptions C07_reference_verifier_complete.

(* "with reserved names never used as claim names": claims of the caller that use _sd or ... as a member name
   (at any depth) or _sd_alg at the top level have no conformant SD-JWT; Issuer::encode refuses them (repair F19) *)
Require Import SDJ.C14Proofs.
Theorem C07_reserved_names_refused :
  forall E claims paths (max_decoys : option BinNums.Z) cnf header,
    has_reserved true claims = true -> issue E claims paths max_decoys cnf header = Fail.
Proof. exact issue_reserved_refused. Qed.
Print Assumptions C07_reserved_names_refused.

(* the payload of a JWT is a JSON object: for claims of any other type nothing is issued (repair F29) *)
Theorem C07_non_object_claims_refused :
  forall E claims paths (max_decoys : option BinNums.Z) cnf header,
    (forall kvs, claims <> JObj kvs) -> issue E claims paths max_decoys cnf header = Fail.
Proof. exact issue_non_object_refused. Qed.
Print Assumptions C07_non_object_claims_refused.

(* a cnf claim of the caller cannot coexist with the holder key the issuer writes under cnf: refused (repair F21) *)
Theorem C07_own_cnf_with_key_binding_refused :
  forall E claims paths (max_decoys : option BinNums.Z) k header,
    jhas_ "cnf" claims = true -> issue E claims paths max_decoys (Some k) header = Fail.
Proof. exact issue_own_cnf_refused. Qed.
Print Assumptions C07_own_cnf_with_key_binding_refused.

(* "each disclosure the base64url (unpadded) encoding of a JSON array": base64url without padding as an executable
   model (Base64.v; the RFC 4648 vectors are an Example there), tied to the library's encoder by the discbuild cases
   (model encode of the decoded text = the library's disclosure string; model encode of the raw hash = its digest).
   Decoding inverts encoding for every byte string, and no output character is '~' or '.', the separators of the
   SD-JWT framing and of the compact JWS form. *)
Require Import SDJ.Base64 SDJ.Base64Env.
Theorem C07_base64url_decode_encode : forall s, Base64.decode (Base64.encode s) = Some s.
Proof. exact Base64.decode_encode. Qed.
Print Assumptions C07_base64url_decode_encode.

Theorem C07_base64url_output_has_no_separator : forall s, Base64.all_chars Base64.separator_free (Base64.encode s) = true.
Proof. exact Base64.encode_separator_free. Qed.
Print Assumptions C07_base64url_output_has_no_separator.

(* the disclosure encoding = JSON text (oracle pair ser / parse) followed by base64url: decoding inverts it, it is
   injective and '~'-free as soon as JSON parsing inverts JSON printing *)
Theorem C07_disclosure_encoding_invertible :
  forall (ser : list json -> string) (parse : string -> option json),
  (forall ps, parse (ser ps) = Some (JArr ps)) ->
  forall ps, dec64 parse (enc64 ser ps) = DJson (JArr ps) /\ Split.contains Split.tilde (enc64 ser ps) = false.
Proof. intros ser parse H ps. split; [apply dec64_enc64; exact H|apply enc64_tilde_free]. Qed.
Print Assumptions C07_disclosure_encoding_invertible.

(* the JSON half of the encoding: the compact printer (what serde_json writes for a Value) and a parser for it; every
   value whose number literals consist of number characters and whose objects have strictly sorted keys - every
   serde_json Value - is read back from its text, and so is a whole disclosure from its base64url string *)
Require Import SDJ.JsonText SDJ.JsonTextProofs.
Theorem C07_json_text_roundtrip : forall v, twf v -> JsonText.parse (JsonText.print v) = Some v.
Proof. exact parse_print. Qed.
Print Assumptions C07_json_text_roundtrip.

Theorem C07_disclosure_string_roundtrip :
  forall ps, Forall twf ps -> dec64 JsonText.parse (enc64 ser_json ps) = DJson (JArr ps).
Proof. exact disclosure_text_roundtrip. Qed.
Print Assumptions C07_disclosure_string_roundtrip.
