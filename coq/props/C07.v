(* C07 - Issued SD-JWTs are spec-conformant as judged by an independent verifier. *)
From Coq Require Import List String Ascii Bool Arith.
Import ListNotations.
Require Import SDJ.Json SDJ.Wire SDJ.Model2 SDJ.Out SDJ.Split SDJ.Restore2 SDJ.Issuer1 SDJ.Issuer2 SDJ.C07Proofs.
Local Open Scope string_scope.

(* a disclosure built for (name, value) decodes back to that name and value, with the digest being the
   hash of the encoded string - for every name that is not reserved, every value, every salt *)
Theorem C07_built_disclosure_decodes :
  forall E (dec : string -> dec_result) salt key v,
    (forall ps, dec (ie_enc E ps) = DJson (JArr ps)) ->
    (match key with Some k => reserved k = false | None => True end) ->
    from_base64 (ie_hash E) dec (d_str (mk_disc E salt key v)) = Ok (mk_disc E salt key v).
Proof. exact built_disclosure_decodes. Qed.
Print Assumptions C07_built_disclosure_decodes.

Theorem C07_digest_is_hash_of_string :
  forall E salt key v, d_digest (mk_disc E salt key v) = ie_hash E (d_str (mk_disc E salt key v)).
Proof. exact built_disclosure_digest. Qed.
Print Assumptions C07_digest_is_hash_of_string.

(* framing: the serialised token splits into the JWT, exactly the disclosures, and no key-binding JWT *)
Theorem C07_framing :
  forall (E : issue_env) jwt ds,
    Forall (fun x => contains tilde x = false) (jwt :: map d_str ds) ->
    sd_jwt_parts (serialise_token jwt ds) = (jwt, map d_str ds, None).
Proof. exact token_framing. Qed.
Print Assumptions C07_framing.
