(* C10 - No untrusted input can crash or hang the holder, the verifier or the parsers.
   Only theorem statements live here; each is closed by [exact] of a lemma proved in theories/. *)
From Coq Require Import List String Ascii Bool Arith.
Require Import SDJ.Json SDJ.Model2 SDJ.Out SDJ.Split SDJ.SplitM SDJ.SplitMProofs.
Local Open Scope string_scope.

(* the splitter: total on every string, and equal to the panic-free specification *)
Theorem C10_sd_jwt_parts_total : forall s : string, sd_jwt_parts_m s = Val (sd_jwt_parts s).
Proof. exact sd_jwt_parts_m_total. Qed.
Print Assumptions C10_sd_jwt_parts_total.

Theorem C10_drop_kb_total : forall s : string, drop_kb_m s = Val (drop_kb s).
Proof. exact drop_kb_m_total. Qed.
Print Assumptions C10_drop_kb_total.

Theorem C10_jwt_parts_no_panic : forall s : string, jwt_parts_m s <> Panic.
Proof. exact jwt_parts_m_no_panic. Qed.
Print Assumptions C10_jwt_parts_no_panic.

(* finding F5 (repaired): the pinned splitter panics on every '~'-free string *)
Theorem C10_pinned_splitter_refuted : forall s : string, contains tilde s = false -> sd_jwt_parts_pinned s = Panic.
Proof. exact sd_jwt_parts_pinned_panics. Qed.
Print Assumptions C10_pinned_splitter_refuted.

(* At the entry points: if the JWT dependency does not panic (oracles o_jwt, o_kb, e_sign; see the known
   finding KF-1 for where it does), then no input string makes Verifier::verify, Holder::verify,
   Holder::presentation or Holder::build panic: every slice, index and subtraction of the library's own code is
   modelled by a checked primitive of Out.v/SplitM.v, restoration and stripping are total functions. *)
Require Import SDJ.Out SDJ.Verify SDJ.C10Proofs.
Theorem C10_verifier_verify_no_panic :
  forall O, (forall j, o_jwt O j <> Panic) -> (forall k n e, o_kb O k n e <> Panic) ->
  forall token kbpol, verifier_verify O token kbpol <> Panic.
Proof. exact verifier_verify_no_panic. Qed.
Print Assumptions C10_verifier_verify_no_panic.

Theorem C10_holder_verify_no_panic :
  forall O, (forall j, o_jwt O j <> Panic) -> forall token, holder_verify O token <> Panic.
Proof. exact holder_verify_no_panic. Qed.
Print Assumptions C10_holder_verify_no_panic.

Theorem C10_holder_presentation_no_panic : forall O token, holder_presentation O token <> Panic.
Proof. exact holder_presentation_no_panic. Qed.
Print Assumptions C10_holder_presentation_no_panic.

Theorem C10_holder_build_no_panic :
  forall O (E : build_env) h, (forall hd c, e_sign E hd c <> Panic) -> holder_build O E h <> Panic.
Proof. exact holder_build_no_panic. Qed.
Print Assumptions C10_holder_build_no_panic.
