(* C03 - The verifier never returns what the issuer did not sign, whatever the holder sends. *)
From Coq Require Import List String Ascii Bool Arith.
Require Import SDJ.Json SDJ.Model2 SDJ.Restore2 SDJ.ATree SDJ.T2c SDJ.T2h SDJ.T2m.
Local Open Scope string_scope.

(* For every conformant token (annotated tree t: any shape, any marking, decoys anywhere) and every
   duplicate-free list L of presented strings - own, foreign, altered, malformed, in any order - none of
   which hashes to a decoy: the pass loop of restore_disclosures either rejects or ends in view (own L) t,
   the tree in which exactly the hidden nodes whose own disclosure and all enclosing disclosures are in L
   are opened.  PARTIAL: the duplicate/structure checks that follow the pass loop, and lists with
   repetitions, are covered by C03_* theorems still to be added (see DESIGN.md section 7, C03). *)
Theorem C03_sound_passes_partial :
  forall (H : string -> string) (enc : list json -> string) (dec : string -> dec_result) (show_nat : nat -> string),
    (forall x y, H x = H y -> x = y) ->
    (forall ps, dec (enc ps) = DJson (JArr ps)) ->
    forall t : atree, wf H enc t -> NoDup (alldigs H enc t) -> NoDup (hdigs H enc t) -> aheight t <= 129 ->
    forall L : list string, NoDup L ->
      (forall s, In s L -> In (H s) (alldigs H enc t) -> In (H s) (hdigs H enc t)) ->
      restore_passes H dec show_nat (blind H enc t) L = Err \/
      (exists ps, restore_passes H dec show_nat (blind H enc t) L = Ok (view H enc (ownS H L) t, ps)).
Proof. exact restore_disclosures_spec. Qed.
Print Assumptions C03_sound_passes_partial.

(* stripping the bookkeeping from a view is the property's projection: original claims minus unopened nodes *)
Theorem C03_strip_is_projection :
  forall (H : string -> string) (enc : list json -> string) (R : Rset) (t : atree),
    wf H enc t -> strip (view H enc R t) = proj H enc R t.
Proof. exact strip_view. Qed.
Print Assumptions C03_strip_is_projection.
