(* C03 - The verifier never returns what the issuer did not sign, whatever the holder sends. *)
From Coq Require Import List String Ascii Bool Arith.
Require Import SDJ.Json SDJ.Wire SDJ.Model2 SDJ.Restore2 SDJ.ATree SDJ.T2c SDJ.T2h SDJ.T2m SDJ.T2o SDJ.T2q SDJ.Out SDJ.Split SDJ.Verify SDJ.C03Proofs.
Local Open Scope string_scope.

(* For every conformant token (annotated tree t: any shape, any marking, decoys anywhere, nesting up to the
   depth limit) and EVERY list L of presented strings - own, foreign, altered, malformed, in any order, with
   any repetitions - none of which hashes to a decoy: the complete restore_disclosures of the model (decode all,
   passes until no progress, duplicate and structure checks) either rejects or returns view (own L) t, the
   tree in which exactly the hidden nodes whose own disclosure and all enclosing disclosures are in L are
   opened. Order independence is immediate: own L depends on the set only.
   Repetitions: a repeated member disclosure makes the call fail (T2q.restore1_opened_err), a repeated
   array-element disclosure is invisible the second time; either way nothing is multiplied. *)
Theorem C03_sound :
  forall (H : string -> string) (enc : list json -> string) (dec : string -> dec_result) (show_nat : nat -> string),
    (forall x y, H x = H y -> x = y) ->
    (forall ps, dec (enc ps) = DJson (JArr ps)) ->
    forall t : atree, wf H enc t -> NoDup (alldigs H enc t) -> NoDup (hdigs H enc t) -> aheight t <= 129 ->
    forall L : list string,
      (forall s, In s L -> In (H s) (alldigs H enc t) -> In (H s) (hdigs H enc t)) ->
      restore_disclosures H dec show_nat (blind H enc t) L = Err \/
      (exists ps, restore_disclosures H dec show_nat (blind H enc t) L = Ok (view H enc (ownS H L) t, ps)).
Proof. exact restore_any_spec. Qed.
Print Assumptions C03_sound.

(* completeness: when every presented string decodes, the presentation is accepted *)
Theorem C03_complete :
  forall (H : string -> string) (enc : list json -> string) (dec : string -> dec_result) (show_nat : nat -> string),
    (forall x y, H x = H y -> x = y) ->
    (forall ps, dec (enc ps) = DJson (JArr ps)) ->
    forall t : atree, wf H enc t -> NoDup (alldigs H enc t) -> NoDup (hdigs H enc t) -> aheight t <= 129 ->
    forall (L : list string) (ds : list disc), NoDup L ->
      (forall s, In s L -> In (H s) (alldigs H enc t) -> In (H s) (hdigs H enc t)) ->
      decode_all H dec L = Ok ds ->
      exists ps, restore_disclosures H dec show_nat (blind H enc t) L = Ok (view H enc (ownS H L) t, ps).
Proof. exact restore_full_ok. Qed.
Print Assumptions C03_complete.

(* stripping the bookkeeping from a view is the property's projection: original claims minus unopened nodes *)
Theorem C03_strip_is_projection :
  forall (H : string -> string) (enc : list json -> string) (R : Rset) (t : atree),
    wf H enc t -> strip (view H enc R t) = proj H enc R t.
Proof. exact strip_view. Qed.
Print Assumptions C03_strip_is_projection.

(* The same at the entry point, for ANY presentation string: split it as the verifier does; if its JWT part
   decodes (under the verifier's key and policy: oracle o_jwt) to the payload of a conformant token t, then
   whatever else the string contains - any disclosure list, a KB-JWT or none - Verifier::verify either does
   not succeed or returns the issuer's header and the projection of t determined by the set of presented
   strings, minus _sd_alg. Nothing the issuer did not sign, nothing whose disclosure chain is incomplete. *)
Theorem C03_verifier_entry_sound :
  forall (O : oracles) (H : string -> string) (enc : list json -> string),
    (forall x y, H x = H y -> x = y) ->
    (forall ps, o_dec O (enc ps) = DJson (JArr ps)) ->
    forall t : atree, wf H enc t -> NoDup (alldigs H enc t) -> NoDup (hdigs H enc t) -> aheight t <= 129 ->
    forall token kbpol jwt L kb hdr0 hdr claims' alg,
      sd_jwt_parts token = (jwt, L, kb) -> o_jwt O jwt = Val (hdr0, blind H enc t) ->
      declared_halg (blind H enc t) = Some alg -> o_hash O alg = H ->
      (forall s, In s L -> In (H s) (alldigs H enc t) -> In (H s) (hdigs H enc t)) ->
      verifier_verify O token kbpol = Val (hdr, claims') ->
      hdr = hdr0 /\ claims' = drop_alg (proj H enc (ownS H L) t).
Proof. exact verifier_verify_sound. Qed.
Print Assumptions C03_verifier_entry_sound.

(* acceptance of duplicate-free lists of decodable strings on unbound tokens, in any order *)
Theorem C03_verifier_entry_complete :
  forall (O : oracles) (H : string -> string) (enc : list json -> string),
    (forall x y, H x = H y -> x = y) ->
    (forall ps, o_dec O (enc ps) = DJson (JArr ps)) ->
    forall t : atree, wf H enc t -> NoDup (alldigs H enc t) -> NoDup (hdigs H enc t) -> aheight t <= 129 ->
    forall token kbpol jwt L ds hdr0 alg,
      sd_jwt_parts token = (jwt, L, None) -> o_jwt O jwt = Val (hdr0, blind H enc t) ->
      declared_halg (blind H enc t) = Some alg -> o_hash O alg = H ->
      jget "cnf" (blind H enc t) = JNull ->
      NoDup L -> (forall s, In s L -> In (H s) (alldigs H enc t) -> In (H s) (hdigs H enc t)) ->
      decode_all H (o_dec O) L = Ok ds ->
      verifier_verify O token kbpol = Val (hdr0, drop_alg (proj H enc (ownS H L) t)).
Proof. exact verifier_verify_complete. Qed.
Print Assumptions C03_verifier_entry_complete.
