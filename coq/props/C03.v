(* C03 - The verifier never returns what the issuer did not sign, whatever the holder sends. *)
From Coq Require Import List String Ascii Bool Arith.
Require Import SDJ.Json SDJ.Model2 SDJ.Restore2 SDJ.ATree SDJ.T2c SDJ.T2h SDJ.T2m SDJ.T2o.
Local Open Scope string_scope.

(* For every conformant token (annotated tree t: any shape, any marking, decoys anywhere, nesting up to the
   depth limit) and every duplicate-free list L of presented strings - own, foreign, altered, malformed, in
   any order - none of which hashes to a decoy: the complete restore_disclosures of the model (decode all,
   passes until no progress, duplicate and structure checks) either rejects or returns view (own L) t, the
   tree in which exactly the hidden nodes whose own disclosure and all enclosing disclosures are in L are
   opened. Order independence is immediate: own L depends on the set only.
   Remaining gap to the property text: lists with repetitions (the correspondence run covers them: a repeated
   member disclosure is rejected, a repeated array-element disclosure is invisible the second time). *)
Theorem C03_sound :
  forall (H : string -> string) (enc : list json -> string) (dec : string -> dec_result) (show_nat : nat -> string),
    (forall x y, H x = H y -> x = y) ->
    (forall ps, dec (enc ps) = DJson (JArr ps)) ->
    forall t : atree, wf H enc t -> NoDup (alldigs H enc t) -> NoDup (hdigs H enc t) -> aheight t <= 129 ->
    forall L : list string, NoDup L ->
      (forall s, In s L -> In (H s) (alldigs H enc t) -> In (H s) (hdigs H enc t)) ->
      restore_disclosures H dec show_nat (blind H enc t) L = Err \/
      (exists ps, restore_disclosures H dec show_nat (blind H enc t) L = Ok (view H enc (ownS H L) t, ps)).
Proof. exact restore_full_spec. Qed.
Print Assumptions C03_sound.

(* completeness: when every presented string decodes, the presentation is accepted *)
Theorem C03_complete :
  forall (H : string -> string) (enc : list json -> string) (dec : string -> dec_result) (show_nat : nat -> string),
    (forall x y, H x = H y -> x = y) ->
    (forall ps, dec (enc ps) = DJson (JArr ps)) ->
    forall t : atree, wf H enc t -> NoDup (alldigs H enc t) -> NoDup (hdigs H enc t) -> aheight t <= 129 ->
    forall (L : list string) (ds : list disc), NoDup L ->
      (forall s, In s L -> In (H s) (alldigs H enc t) -> In (H s) (hdigs H enc t)) ->
      decode_all H dec L = Ok ds ->
      exists ps, restore_disclosures H dec show_nat (blind H enc t) L = Ok (view H enc (ownS H L) t, ps).
Proof. exact restore_full_ok. Qed.
Print Assumptions C03_complete.

(* stripping the bookkeeping from a view is the property's projection: original claims minus unopened nodes *)
Theorem C03_strip_is_projection :
  forall (H : string -> string) (enc : list json -> string) (R : Rset) (t : atree),
    wf H enc t -> strip (view H enc R t) = proj H enc R t.
Proof. exact strip_view. Qed.
Print Assumptions C03_strip_is_projection.
