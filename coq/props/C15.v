(* C15 - YAML claims with !sd tags mean the same as JSON claims plus those paths. *)
From Coq Require Import List String Ascii Bool Arith.
Import ListNotations.
Require Import SDJ.Json SDJ.Wire SDJ.Model2 SDJ.Yaml SDJ.T1e SDJ.C15Proofs.
Local Open Scope string_scope.

(* no untagged node is reported: a document without tags yields no path and an unchanged tree *)
Theorem C15_untagged_yields_nothing : forall y path, tagfree y = true -> collect path y = Ok (y, []).
Proof. exact collect_tagfree. Qed.
Print Assumptions C15_untagged_yields_nothing.

(* The main statement. For every well-formed claims value j (objects with strictly sorted string keys) and
   EVERY set of tagged nodes (marked : path -> bool; tags on mapping keys at any depth - also inside sequences,
   below tagged keys, in single-entry mappings - and on string sequence items): running the model of
   parse_yaml on the value tree of that document returns exactly j and exactly the JSON pointers of the
   tagged nodes (epaths: each tagged node once, nothing else), nested ones before the node enclosing them. *)
Theorem C15_parse_tagged :
  forall (marked : list string -> bool) j, jwf j ->
    parse_yaml_tree (ytree marked [] j) = Ok (j, epaths marked [] j).
Proof. exact parse_yaml_tagged. Qed.
Print Assumptions C15_parse_tagged.

Theorem C15_collect_tagged :
  forall (marked : list string -> bool) j path,
    collect path (ytree marked path j) = Ok (yplain j, epaths marked path j).
Proof. exact collect_ytree. Qed.
Print Assumptions C15_collect_tagged.
