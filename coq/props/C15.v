(* C15 - YAML claims with !sd tags mean the same as JSON claims plus those paths. *)
From Coq Require Import List String Ascii Bool Arith.
Import ListNotations.
Require Import SDJ.Json SDJ.Wire SDJ.Model2 SDJ.Yaml SDJ.C15Proofs.
Local Open Scope string_scope.

(* no untagged node is reported: a document without tags yields no path and an unchanged tree *)
Theorem C15_untagged_yields_nothing : forall y path, tagfree y = true -> collect path y = Ok (y, []).
Proof. exact collect_tagfree. Qed.
Print Assumptions C15_untagged_yields_nothing.
