(* C15 - YAML claims with !sd tags mean the same as JSON claims plus those paths. *)
From Coq Require Import List String Ascii Bool Arith.
Import ListNotations.
Require Import SDJ.Json SDJ.Wire SDJ.Model2 SDJ.Yaml SDJ.T1e SDJ.C15Proofs.
Local Open Scope string_scope.

(* no untagged node is reported: a document without tags yields no path and an unchanged tree *)
Theorem C15_untagged_yields_nothing : forall y path, tagfree y = true -> collect path y = Ok (y, []).
Proof. exact collect_tagfree. Qed.
Print Assumptions C15_untagged_yields_nothing.

(* The main statement. For every well-formed claims value j (objects with strictly sorted string keys) and
   EVERY set of tagged nodes (marked : path -> bool; tags on mapping keys at any depth - also inside sequences,
   below tagged keys, in single-entry mappings - and on string sequence items): running the model of
   parse_yaml on the value tree of that document returns exactly j and exactly the JSON pointers of the
   tagged nodes (epaths: each tagged node once, nothing else), nested ones before the node enclosing them. *)
Theorem C15_parse_tagged :
  forall (marked : list string -> bool) j, jwf j ->
    parse_yaml_tree (ytree marked [] j) = Ok (j, epaths marked [] j).
Proof. exact parse_yaml_tagged. Qed.
Print Assumptions C15_parse_tagged.

Theorem C15_collect_tagged :
  forall (marked : list string -> bool) j path,
    collect path (ytree marked path j) = Ok (yplain j, epaths marked path j).
Proof. exact collect_ytree. Qed.
Print Assumptions C15_collect_tagged.

(* ---- "ordered so that issuing with them succeeds" and "issuing from the parsed result is equivalent to issuing
   from the plain JSON claims with those paths" ----
   eaddrs marked [] j are the addresses of the tagged nodes in the order parse_yaml reports them. The reported
   strings are their JSON pointers; each is a node of the claims below the root; no address comes after itself or
   after one of its ancestors (descendants first, no repeats): a valid marking in the sense of C14. *)
Require Import SDJ.T1r SDJ.T1s SDJ.DecStr SDJ.PathStr SDJ.PathThm SDJ.YamlOrd SDJ.YamlIssue.
Theorem C15_paths_are_a_valid_marking :
  forall (marked : list string -> bool) j,
    jwf j -> (forall a, In a (eaddrs marked [] j) -> small a) ->
    epaths marked [] j = map (T1s.render Wire.show_nat) (eaddrs marked [] j) /\
    Forall (node_addr j) (eaddrs marked [] j) /\ ordered (eaddrs marked [] j).
Proof. exact yaml_paths_are_pointers. Qed.
Print Assumptions C15_paths_are_a_valid_marking.

(* end to end: whatever parse_yaml returns for the tagged document of claims (JObj ckvs) can be handed to the issuer
   as it is; encode succeeds, Holder::verify returns the claims of the document without its tags, and every
   disclosure is reported under the path parse_yaml reported for its node (premises as in C01_encode_json_pointers) *)
Require Import SDJ.Out SDJ.Restore2 SDJ.ATree SDJ.T2c SDJ.T1j SDJ.T1k SDJ.T1p SDJ.Issuer2 SDJ.Verify.
Theorem C15_yaml_then_issue :
  forall (E : issue_env) (O : oracles),
  (forall x y, ie_hash E x = ie_hash E y -> x = y) ->
  (forall ps, o_dec O (ie_enc E ps) = DJson (JArr ps)) ->
  o_hash O SHA256 = ie_hash E ->
  (forall h p j, ie_sign E h p = Val j -> o_jwt O j = Val (h, p)) ->
  (forall h p, exists j, ie_sign E h p = Val j /\ Split.contains Split.tilde j = false) ->
  (forall ps, Split.contains Split.tilde (ie_enc E ps) = false) ->
  (forall xs, Permutation.Permutation (ie_perm E xs) xs) ->
  forall (marked : list string -> bool) (ckvs : list (string * json)) (max_decoys : option BinNums.Z) (cnf : option json) (header : json),
  jwf (JObj ckvs) -> ~ In "_sd_alg" (map fst ckvs) -> ~ In "cnf" (map fst ckvs) ->
  NoDup (ie_salts E) ->
  (forall a, In a (eaddrs marked [] (JObj ckvs)) -> small a) ->
  forall paths, parse_yaml_tree (ytree marked [] (JObj ckvs)) = Ok (JObj ckvs, paths) ->
  paths <> [] -> List.length paths <= List.length (ie_salts E) ->
  exists t',
    (exists tks, split_paths paths = Some tks /\
       T1j.mark_fold (ie_hash E) (ie_enc E) Issuer2.parse_index Issuer2.parse_usize (ie_pos E) (embed (JObj ckvs)) tks (ie_salts E) = Some t') /\
    (NoDup (decoys_used E max_decoys) ->
     (forall g, In g (decoys_used E max_decoys) -> ~ In g (alldigs (ie_hash E) (ie_enc E) t')) ->
     (match cnf with Some c => jwf c /\ S (aheight (embed c)) <= 129 | None => True end) ->
     aheight t' <= 129 ->
     exists token payload ds ps,
       issue E (JObj ckvs) paths max_decoys cnf header = Val (token, payload, ds) /\
       holder_verify O token = Val (header, match cnf with Some c => JObj (obj_insert "cnf" c ckvs) | None => JObj ckvs end, ps) /\
       Permutation.Permutation (map snd ps) ds /\
       Forall2 (fun d p => In (p, d) ps) ds paths).
Proof. exact yaml_then_issue. Qed.
Print Assumptions C15_yaml_then_issue.
