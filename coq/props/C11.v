(* C11 - Validation policy: builder steps independent, every configured check enforced. *)
From Coq Require Import List String Ascii Bool Arith NArith.
Import ListNotations.
From Coq Require Import Permutation.
Require Import SDJ.Json SDJ.Wire SDJ.Model2 SDJ.Out SDJ.Jwt SDJ.C11Proofs SDJ.C11Order.
Local Open Scope string_scope.

Theorem C11_frame :
  forall v s,
  (named s <> FRequired -> v_required (step v s) = v_required v) /\
  (named s <> FLeeway -> v_leeway (step v s) = v_leeway v) /\
  (named s <> FExp -> v_exp (step v s) = v_exp v) /\
  v_nbf (step v s) = v_nbf v /\
  v_validate_aud (step v s) = v_validate_aud v /\
  (named s <> FAud -> v_aud (step v s) = v_aud v) /\
  (named s <> FIss -> v_iss (step v s) = v_iss v) /\
  (named s <> FSub -> v_sub (step v s) = v_sub v) /\
  (named s <> FAlg -> v_alg (step v s) = v_alg v).
Proof. exact step_frame. Qed.
Print Assumptions C11_frame.

Theorem C11_commute : forall v a b, named a <> named b -> step (step v a) b = step (step v b) a.
Proof. exact step_commute. Qed.
Print Assumptions C11_commute.

(* "the resulting policy does not depend on the order in which steps are applied": any permutation of a
   sequence of builder steps that names every setting at most once builds the same policy ... *)
Theorem C11_order_irrelevant :
  forall l1 l2, Permutation l1 l2 -> NoDup (map named l1) -> forall v, run_steps l1 v = run_steps l2 v.
Proof. exact steps_order_irrelevant. Qed.
Print Assumptions C11_order_irrelevant.

(* ... and with_required_claim may be repeated (it adds to a set): on a policy whose required-claims set is a
   set (every policy reachable from Validation::new is: policy_ok_new, run_steps_policy_ok) any permutation of a
   sequence in which every OTHER setting is named at most once builds the same policy *)
Theorem C11_order_irrelevant_required_sets :
  forall l1 l2, Permutation l1 l2 -> others_once l1 -> forall v, policy_ok v -> run_steps l1 v = run_steps l2 v.
Proof. exact steps_order_irrelevant_sets. Qed.
Print Assumptions C11_order_irrelevant_required_sets.

Theorem C11_reachable_policies_are_sets :
  forall a l, policy_ok (run_steps l (validation_new a)).
Proof. intros a l. apply run_steps_policy_ok. exact (policy_ok_new a). Qed.
Print Assumptions C11_reachable_policies_are_sets.

Theorem C11_forward :
  forall v,
  jo_algs (build_validation v) = [v_alg v] /\ jo_leeway (build_validation v) = v_leeway v /\
  jo_exp (build_validation v) = v_exp v /\ jo_nbf (build_validation v) = v_nbf v /\
  jo_auds (build_validation v) = v_aud v /\ jo_iss (build_validation v) = v_iss v /\
  jo_sub (build_validation v) = v_sub v /\ jo_required (build_validation v) = v_required v.
Proof. exact build_validation_forwards. Qed.
Print Assumptions C11_forward.

(* enforcement, for claims whose time values do not make the dependency's u64 arithmetic overflow *)
Theorem C11_enforce :
  forall claims o now,
  (forall t n, obj_get "exp" claims = Some t -> as_u64 t = Some n -> (n + jo_leeway o <= u64_max)%N) ->
  (forall t n, obj_get "nbf" claims = Some t -> as_u64 t = Some n -> (jo_leeway o <= n)%N) ->
  (validate claims o now = Val tt <->
   exp_holds claims o now /\ nbf_holds claims o now /\ str_holds claims "iss" (jo_iss o) /\
   str_holds claims "sub" (jo_sub o) /\ aud_holds claims (jo_auds o) /\ required_holds claims (jo_required o)).
Proof. exact validate_iff. Qed.
Print Assumptions C11_enforce.

Theorem C11_decode_accepts_only :
  forall W token v hdr payload,
  decode_model W token v = Val (hdr, payload) ->
  jw_parse W token = Some (hdr, payload) /\
  exists a claims, jalg_of_name (jstr_or_empty_ (jget "alg" hdr)) = Some a /\ jalg_eqb a (v_alg v) = true /\
    family_ok (jw_family W) a = true /\ jw_sig_ok W token a = true /\ payload = JObj claims /\
    validate claims (build_validation v) (jw_now W) = Val tt.
Proof. exact decode_model_accepts. Qed.
Print Assumptions C11_decode_accepts_only.

(* finding F7 (repaired): the pinned without_expiry reset the other settings *)
Theorem C11_pinned_without_expiry_refuted : exists v, v_alg (step_pinned v SWithoutExpiry) <> v_alg v.
Proof. exact step_pinned_refuted. Qed.
Print Assumptions C11_pinned_without_expiry_refuted.
