(* C14 - Issuing is total, side-effect free and repeatable. *)
From Coq Require Import List String Ascii Bool Arith ZArith.
Import ListNotations.
Require Import SDJ.Json SDJ.Wire SDJ.Model2 SDJ.Out SDJ.Split SDJ.Issuer1 SDJ.Issuer2 SDJ.C14Proofs.
Local Open Scope string_scope.

(* for EVERY claims value, a JSON object or not (since repair F29 claims that are not an object are refused) *)
Theorem C14_encode_never_panics :
  forall E claims paths (max_decoys : option Z) cnf header,
    (forall h p, ie_sign E h p <> Panic) -> issue E claims paths max_decoys cnf header <> Panic.
Proof. exact issue_no_panic_any. Qed.
Print Assumptions C14_encode_never_panics.

Theorem C14_non_object_claims_are_an_error :
  forall E claims paths (max_decoys : option Z) cnf header,
    (forall kvs, claims <> JObj kvs) -> issue E claims paths max_decoys cnf header = Fail.
Proof. exact issue_non_object_refused. Qed.
Print Assumptions C14_non_object_claims_are_an_error.

Theorem C14_no_slash_is_error :
  forall E claims p salt, contains slash p = false -> build_disclosure E claims p salt = Err.
Proof. exact build_disclosure_no_slash. Qed.
Print Assumptions C14_no_slash_is_error.

(* one unresolvable path, at any position of the list, makes encode fail *)
Theorem C14_bad_path_anywhere :
  forall E pre claims p post salts c ds s,
    issue_fold E claims pre salts = Ok (c, ds) -> nth_error salts (List.length pre) = Some s ->
    build_disclosure E c p s = Err -> issue_fold E claims (pre ++ p :: post) salts = Err.
Proof. exact issue_fold_err. Qed.
Print Assumptions C14_bad_path_anywhere.

Theorem C14_unknown_member : forall E key salt kvs, obj_get key kvs = None -> disclose_here E key salt (JObj kvs) = Err.
Proof. exact disclose_here_unknown_member. Qed.
Print Assumptions C14_unknown_member.

Theorem C14_index_out_of_range :
  forall E key salt xs i, parse_usize key = Some i -> List.length xs <= i -> disclose_here E key salt (JArr xs) = Err.
Proof. exact disclose_here_out_of_range. Qed.
Print Assumptions C14_index_out_of_range.

Theorem C14_non_numeric_index : forall E key salt xs, parse_usize key = None -> disclose_here E key salt (JArr xs) = Err.
Proof. exact disclose_here_non_numeric. Qed.
Print Assumptions C14_non_numeric_index.

(* a path with a reference token _sd or ... can only lead into the digest lists and placeholders that earlier
   paths of the same list left in the working copy (the claims themselves hold no such member: C07_reserved_names_refused) *)
Theorem C14_path_into_bookkeeping_is_error :
  forall E claims p salt, reserved_token p = true -> build_disclosure E claims p salt = Err.
Proof. exact build_disclosure_reserved_token. Qed.
Print Assumptions C14_path_into_bookkeeping_is_error.

(* an array element that an earlier path made disclosable is a placeholder now: addressing it again is an error *)
Theorem C14_repeated_array_element_is_error :
  forall E key salt xs i v,
    parse_usize key = Some i -> nth_error xs i = Some v -> has_dots v = true -> disclose_here E key salt (JArr xs) = Err.
Proof. exact disclose_here_placeholder. Qed.
Print Assumptions C14_repeated_array_element_is_error.

(* "issuing succeeds whenever each path addresses an existing member or element, nested paths precede
   enclosing ones and no path repeats, including when only nested members or only array elements are
   disclosable": jresolve is resolution of the path in the claims as given (member lookup, JSON-pointer index
   for inner tokens, usize parse for the last token); `ordered` says that no address comes after itself or
   after one of its ancestors. Under these premises the issuer's fold accepts the whole list, whatever the
   salts and insertion positions; and (second part) encode then succeeds and Holder::verify returns the
   original claims, under the premises of C01_encode_then_holder_verify. *)
Require Import SDJ.ATree SDJ.T2c SDJ.T1e SDJ.T1j SDJ.T1k SDJ.T1r SDJ.T1p SDJ.Verify SDJ.Restore2.
Theorem C14_valid_marking_accepted :
  forall (H : string -> string) (enc : list json -> string) (parse_index parse_usize : string -> option nat) (pos : string -> nat)
         (C : json) (paths : list (list string * string)) (addrs : list addr) (salts : list json),
  jwf C -> Forall2 (fun p a => jresolve parse_index parse_usize (fst p) (snd p) C = Some a) paths addrs -> ordered addrs ->
  List.length paths <= List.length salts ->
  exists t', T1j.mark_fold H enc parse_index parse_usize pos (embed C) paths salts = Some t'.
Proof. exact valid_marking_accepted. Qed.
Print Assumptions C14_valid_marking_accepted.

Theorem C14_valid_marking_issues :
  forall (E : issue_env) (O : oracles),
  (forall x y, ie_hash E x = ie_hash E y -> x = y) ->
  (forall ps, o_dec O (ie_enc E ps) = DJson (JArr ps)) ->
  o_hash O SHA256 = ie_hash E ->
  (forall h p j, ie_sign E h p = Val j -> o_jwt O j = Val (h, p)) ->
  (forall h p, exists j, ie_sign E h p = Val j /\ contains tilde j = false) ->
  (forall ps, contains tilde (ie_enc E ps) = false) ->
  (forall xs, Permutation.Permutation (ie_perm E xs) xs) ->
  forall (ckvs : list (string * json)) (paths : list string) tks (addrs : list addr)
         (max_decoys : option Z) (cnf : option json) (header : json),
  jwf (JObj ckvs) -> ~ In "_sd_alg" (map fst ckvs) -> ~ In "cnf" (map fst ckvs) ->
  NoDup (ie_salts E) -> paths <> [] -> split_paths paths = Some tks ->
  Forall2 (fun p a => jresolve Issuer2.parse_index Issuer2.parse_usize (fst p) (snd p) (JObj ckvs) = Some a) tks addrs ->
  ordered addrs -> List.length tks <= List.length (ie_salts E) ->
  exists t',
    T1j.mark_fold (ie_hash E) (ie_enc E) Issuer2.parse_index Issuer2.parse_usize (ie_pos E) (embed (JObj ckvs)) tks (ie_salts E) = Some t' /\
    (NoDup (decoys_used E max_decoys) ->
     (forall g, In g (decoys_used E max_decoys) -> ~ In g (alldigs (ie_hash E) (ie_enc E) t')) ->
     (match cnf with Some c => jwf c /\ S (aheight (embed c)) <= 129 | None => True end) ->
     aheight t' <= 129 ->
     exists token payload ds ps,
       issue E (JObj ckvs) paths max_decoys cnf header = Val (token, payload, ds) /\
       holder_verify O token = Val (header, match cnf with Some c => JObj (obj_insert "cnf" c ckvs) | None => JObj ckvs end, ps)).
Proof. exact valid_marking_issues. Qed.
Print Assumptions C14_valid_marking_issues.

(* the premises are satisfiable: a nested member, an array element and then their enclosing member *)
Example C14_valid_marking_nonvacuous :
  let C := JObj [("a", JObj [("b", JNum "1"); ("c", JArr [JStr "x"; JStr "y"])])] in
  Forall2 (fun p a => jresolve Issuer2.parse_index Issuer2.parse_usize (fst p) (snd p) C = Some a)
          [(["a"], "b"); (["a"; "c"], "1"); ([], "a")] [[SKey "a"; SKey "b"]; [SKey "a"; SKey "c"; SIdx 1]; [SKey "a"]]
  /\ ordered [[SKey "a"; SKey "b"]; [SKey "a"; SKey "c"; SIdx 1]; [SKey "a"]].
Proof.
  split; [repeat constructor|].
  cbn. repeat split; repeat constructor; intros [c Hc]; discriminate.
Qed.

(* "Issuing does not change the issuer object: it can be repeated": the Issuer as a state machine over its builder calls
   and encode(); encode leaves the configuration as it is, and every encode of a session is the issuance for the
   configuration in force at that moment (with its own random choices) *)
Require Import SDJ.Sessions.
Theorem C14_encode_does_not_change_the_issuer : forall ops s, fst (irun s ops) = fst (irun s (filter not_encode ops)).
Proof. exact encode_is_pure. Qed.
Print Assumptions C14_encode_does_not_change_the_issuer.

Theorem C14_every_encode_issues_the_current_configuration :
  forall pre E post s,
  exists outs_pre outs_post,
    snd (irun s (pre ++ IEncode E :: post)) =
      (outs_pre ++ (let c := fst (irun s pre) in issue E (i_claims c) (i_paths c) (i_decoys c) (i_cnf c) (i_header c)) :: outs_post)%list.
Proof. exact session_encodes. Qed.
Print Assumptions C14_every_encode_issues_the_current_configuration.
