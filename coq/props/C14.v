(* C14 - Issuing is total, side-effect free and repeatable. *)
From Coq Require Import List String Ascii Bool Arith ZArith.
Import ListNotations.
Require Import SDJ.Json SDJ.Wire SDJ.Model2 SDJ.Out SDJ.Split SDJ.Issuer1 SDJ.Issuer2 SDJ.C14Proofs.
Local Open Scope string_scope.

Theorem C14_encode_never_panics :
  forall E kvs paths (max_decoys : option Z) cnf header,
    (forall h p, ie_sign E h p <> Panic) -> issue E (JObj kvs) paths max_decoys cnf header <> Panic.
Proof. exact issue_no_panic. Qed.
Print Assumptions C14_encode_never_panics.

Theorem C14_no_slash_is_error :
  forall E claims p salt, contains slash p = false -> build_disclosure E claims p salt = Err.
Proof. exact build_disclosure_no_slash. Qed.
Print Assumptions C14_no_slash_is_error.

(* one unresolvable path, at any position of the list, makes encode fail *)
Theorem C14_bad_path_anywhere :
  forall E pre claims p post salts c ds s,
    issue_fold E claims pre salts = Ok (c, ds) -> nth_error salts (List.length pre) = Some s ->
    build_disclosure E c p s = Err -> issue_fold E claims (pre ++ p :: post) salts = Err.
Proof. exact issue_fold_err. Qed.
Print Assumptions C14_bad_path_anywhere.

Theorem C14_unknown_member : forall E key salt kvs, obj_get key kvs = None -> disclose_here E key salt (JObj kvs) = Err.
Proof. exact disclose_here_unknown_member. Qed.
Print Assumptions C14_unknown_member.

Theorem C14_index_out_of_range :
  forall E key salt xs i, parse_usize key = Some i -> List.length xs <= i -> disclose_here E key salt (JArr xs) = Err.
Proof. exact disclose_here_out_of_range. Qed.
Print Assumptions C14_index_out_of_range.

Theorem C14_non_numeric_index : forall E key salt xs, parse_usize key = None -> disclose_here E key salt (JArr xs) = Err.
Proof. exact disclose_here_non_numeric. Qed.
Print Assumptions C14_non_numeric_index.
