(* C08 - Conformant SD-JWTs from other issuers are processed as the specification says. *)
From Coq Require Import List String Ascii Bool Arith.
Import ListNotations.
Require Import SDJ.Json SDJ.Wire SDJ.Model2 SDJ.Out SDJ.Restore2 SDJ.ATree SDJ.T2c SDJ.T2h SDJ.T2e SDJ.T2m SDJ.T2o SDJ.Split SDJ.Verify SDJ.C03Proofs SDJ.C12Proofs.
Local Open Scope string_scope.

(* For EVERY conformant token - described by any well-formed annotated tree t: any shape, recursive
   disclosures, decoys in any _sd list and as array placeholders, salts of any JSON value, any digest
   function H - and every duplicate-free list of presented strings that decode (own disclosures in any
   order, nested ones before or after their enclosing ones, foreign ones), the complete restore_disclosures
   (passes + duplicate and structure checks) accepts and returns exactly view (own L) t. dec hides JSON
   whitespace and formatting of the presented string: the digest is over the string as presented, the content
   is its parse. *)
Theorem C08_interop :
  forall (H : string -> string) (enc : list json -> string) (dec : string -> dec_result) (show_nat : nat -> string),
    (forall x y, H x = H y -> x = y) ->
    (forall ps, dec (enc ps) = DJson (JArr ps)) ->
    forall t : atree, wf H enc t -> NoDup (alldigs H enc t) -> NoDup (hdigs H enc t) -> aheight t <= 129 ->
    forall (L : list string) (ds : list disc), NoDup L ->
      (forall s, In s L -> In (H s) (alldigs H enc t) -> In (H s) (hdigs H enc t)) ->
      decode_all H dec L = Ok ds ->
      exists ps, restore_disclosures H dec show_nat (blind H enc t) L = Ok (view H enc (ownS H L) t, ps).
Proof. exact restore_full_ok. Qed.
Print Assumptions C08_interop.

(* the digest algorithm used for every disclosure is the one named by the signed _sd_alg claim *)
Theorem C08_algorithm_from_sd_alg :
  forall O claims ds alg,
    declared_halg claims = Some alg ->
    restore_and_strip O claims ds =
    obind (of_res (restore_disclosures (o_hash O alg) (o_dec O) show_nat claims ds)) (fun cp => Val (remove_digests (fst cp), snd cp)).
Proof. exact restore_and_strip_alg. Qed.
Print Assumptions C08_algorithm_from_sd_alg.

(* At the entry points, for a token of ANY conformant issuer (tree t, digest algorithm among the three the
   library supports, any formatting of the disclosure strings that decodes): the verifier accepts every
   duplicate-free list of decodable disclosures in any order and returns the projection; the holder does the
   same and reports every placed disclosure with the path of its node. *)
Theorem C08_verifier_accepts :
  forall (O : oracles) (H : string -> string) (enc : list json -> string),
    (forall x y, H x = H y -> x = y) ->
    (forall ps, o_dec O (enc ps) = DJson (JArr ps)) ->
    forall t : atree, wf H enc t -> NoDup (alldigs H enc t) -> NoDup (hdigs H enc t) -> aheight t <= 129 ->
    forall token kbpol jwt L ds hdr0 alg,
      sd_jwt_parts token = (jwt, L, None) -> o_jwt O jwt = Val (hdr0, blind H enc t) ->
      declared_halg (blind H enc t) = Some alg -> o_hash O alg = H ->
      jget "cnf" (blind H enc t) = JNull ->
      NoDup L -> (forall s, In s L -> In (H s) (alldigs H enc t) -> In (H s) (hdigs H enc t)) ->
      decode_all H (o_dec O) L = Ok ds ->
      verifier_verify O token kbpol = Val (hdr0, drop_alg (proj H enc (ownS H L) t)).
Proof. exact verifier_verify_complete. Qed.
Print Assumptions C08_verifier_accepts.

Theorem C08_holder_accepts :
  forall (O : oracles) (H : string -> string) (enc : list json -> string),
    (forall x y, H x = H y -> x = y) ->
    (forall ps, o_dec O (enc ps) = DJson (JArr ps)) ->
    forall t : atree, wf H enc t -> NoDup (alldigs H enc t) -> NoDup (hdigs H enc t) -> aheight t <= 129 ->
    forall token jwt L ds hdr0 alg,
      sd_jwt_parts token = (jwt, L, None) -> o_jwt O jwt = Val (hdr0, blind H enc t) ->
      declared_halg (blind H enc t) = Some alg -> o_hash O alg = H ->
      NoDup L -> (forall s, In s L -> In (H s) (alldigs H enc t) -> In (H s) (hdigs H enc t)) ->
      decode_all H (o_dec O) L = Ok ds ->
      exists ps, holder_verify O token = Val (hdr0, drop_alg (proj H enc (ownS H L) t), ps) /\
        Forall (fun pd : dpath => In (snd pd) ds /\ NodePath H enc show_nat (d_digest (snd pd)) t (fst pd)) ps.
Proof. exact holder_verify_complete. Qed.
Print Assumptions C08_holder_accepts.

(* "If the _sd_alg claim is not present at the top level, a default value of sha-256 MUST be used" (repair F18):
   with the two theorems above, a conformant token without the claim is accepted and restored with SHA-256 *)
Theorem C08_missing_sd_alg_means_sha256 :
  forall claims, jhas "_sd_alg" claims = false -> declared_halg claims = Some SHA256.
Proof. exact declared_halg_default. Qed.
Print Assumptions C08_missing_sd_alg_means_sha256.
