(* Extraction of the executable model + case glue. Directives: exactly those of ExtrOcamlBasic and
   ExtrOcamlString; nat, N, Z, positive stay the extracted inductives. *)
Require Import SDJ.Cases.
From Coq Require Import Extraction ExtrOcamlBasic ExtrOcamlString.
Extraction Language OCaml.
Extraction "model.ml" run_line.
