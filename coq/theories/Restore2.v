(* Model of the verify side above restore_disclosure (utils.rs, disclosure.rs), as repaired:
   Disclosure::from_base64 / reconstruct_disclosure, restore_disclosures (decode all, passes until no
   progress, duplicate-digest and structure checks), remove_digests / remove_all_digests. *)
From Coq Require Import List String Ascii Bool Arith.
Import ListNotations.
Require Import SDJ.Json SDJ.Model2.
Local Open Scope string_scope.

(* base64url(no pad) decode + from_utf8 + serde_json::from_str of a presented disclosure: an oracle *)
Inductive dec_result := DErr | DJson (j : json).

Definition reserved (k : string) : bool := String.eqb k "_sd" || String.eqb k "...".

Section R2.
Variable H : string -> string.          (* base64_hash under the token's _sd_alg *)
Variable dec : string -> dec_result.
Variable show_nat : nat -> string.

(* Disclosure::from_base64; the digest is that of the presented string *)
Definition from_base64 (s : string) : res disc :=
  match dec s with
  | DJson (JArr xs) =>
      match xs with
      | [salt; v] => Ok {| d_str := s; d_digest := H s; d_key := None; d_val := v |}
      | [salt; k; v] =>
          match k with
          | JStr name => if reserved name then Err else Ok {| d_str := s; d_digest := H s; d_key := Some name; d_val := v |}
          | _ => Err end
      | _ => Err
      end
  | _ => Err
  end.

Fixpoint decode_all (l : list string) : res (list disc) :=
  match l with
  | [] => Ok []
  | s :: r => do d <- from_base64 s; do ds <- decode_all r; Ok (d :: ds)
  end.

(* decode everything, then passes over the pending list until a pass places nothing *)
Definition restore_passes (claims : json) (L : list string) : res (json * list dpath) :=
  do ds <- decode_all L; passes show_nat (S (List.length ds)) ds claims [].

(* HashSet::insert returning false = duplicate *)
Definition set_insert (g : string) (seen : list string) : res (list string) :=
  if existsb (String.eqb g) seen then Err else Ok (g :: seen).

Fixpoint insert_all (gs : list string) (seen : list string) : res (list string) :=
  match gs with [] => Ok seen | g :: r => do s <- set_insert g seen; insert_all r s end.

Definition strs_of (xs : list json) : list string :=
  flat_map (fun x => match x with JStr s => [s] | _ => [] end) xs.

(* digest carried by an array item that is a placeholder object; Err when "..." has company *)
Definition item_digest (item : json) : res (option string) :=
  match item with
  | JObj kvs => match obj_get "..." kvs with
                | Some v => if Nat.eqb (List.length kvs) 1
                            then Ok (match v with JStr g => Some g | _ => None end) else Err
                | None => Ok None end
  | _ => Ok None
  end.

(* check_digests: every digest embedded in the final tree (plus those of placed array elements) at most
   once; _sd must be an array; placeholders must be single-member objects; nesting budget as restore1 *)
Fixpoint check_digests (n : nat) (j : json) (seen : list string) : res (list string) :=
  match n with
  | O => Err
  | S n =>
    match j with
    | JObj kvs =>
        do seen1 <- match obj_get "_sd" kvs with
                    | Some (JArr xs) => insert_all (strs_of xs) seen
                    | Some _ => Err
                    | None => Ok seen end;
        fold_left (fun acc kv => let '(_, v) := kv in do s <- acc; check_digests n v s) kvs (Ok seen1)
    | JArr xs =>
        fold_left (fun acc item =>
                     do s <- acc;
                     do g <- item_digest item;
                     do s1 <- match g with Some g => set_insert g s | None => Ok s end;
                     check_digests n item s1) xs (Ok seen)
    | _ => Ok seen
    end
  end.

(* digests of the array-element disclosures that were placed (their placeholders are gone) *)
Definition placed_item_digests (ps : list dpath) : list string :=
  flat_map (fun p => match d_key (snd p) with None => [d_digest (snd p)] | Some _ => [] end) ps.

Definition restore_disclosures (claims : json) (L : list string) : res (json * list dpath) :=
  do (c, ps) <- restore_passes claims L;
  do seen <- insert_all (placed_item_digests ps) [];
  do _ <- check_digests 129 c seen;
  Ok (c, ps).
End R2.

(* ---------- remove_all_digests / remove_digests ---------- *)
Definition is_placeholder (j : json) : bool :=
  match j with
  | JObj kvs => match obj_get "..." kvs with Some (JStr _) => true | _ => false end
  | _ => false end.

Fixpoint strip (j : json) : json :=
  match j with
  | JArr xs => JArr (flat_map (fun x => if is_placeholder x then [] else [strip x]) xs)
  | JObj kvs => JObj (flat_map (fun kv => let '(k, v) := kv in if String.eqb k "_sd" then [] else [(k, strip v)]) kvs)
  | _ => j
  end.

Definition remove_digests (j : json) : json :=
  match j with
  | JObj kvs => strip (JObj (filter (fun kv => negb (String.eqb (fst kv) "_sd_alg")) kvs))
  | _ => strip j end.
