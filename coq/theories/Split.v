From Coq Require Import List String Ascii Bool Arith Lia.
Import ListNotations.
Local Open Scope string_scope.

(* Rust: s.split(sep).collect::<Vec<&str>>() - never empty *)
Fixpoint split_on (sep : ascii) (s : string) : list string :=
  match s with
  | EmptyString => [EmptyString]
  | String c r =>
      if Ascii.eqb c sep then EmptyString :: split_on sep r
      else match split_on sep r with
           | [] => [String c EmptyString]
           | h :: t => String c h :: t
           end
  end.

Fixpoint join (sep : string) (l : list string) : string :=
  match l with
  | [] => ""
  | [x] => x
  | x :: r => x ++ sep ++ join sep r
  end.

Fixpoint contains (sep : ascii) (s : string) : bool :=
  match s with EmptyString => false | String c r => Ascii.eqb c sep || contains sep r end.

Lemma split_on_nonempty sep s : split_on sep s <> [].
Proof. destruct s as [|c r]; cbn; [discriminate|]. destruct (Ascii.eqb c sep); [discriminate|]. destruct (split_on sep r); discriminate. Qed.

Lemma split_no_sep sep s : contains sep s = false -> split_on sep s = [s].
Proof.
  induction s as [|c r IH]; cbn; [reflexivity|]. intros Hc. apply orb_false_iff in Hc as [Hc1 Hc2].
  rewrite Hc1, IH by assumption. reflexivity.
Qed.

Lemma split_app_sep sep a b : contains sep a = false ->
  split_on sep (a ++ String sep b) = a :: split_on sep b.
Proof.
  induction a as [|c r IH]; cbn; intros Hc.
  - rewrite Ascii.eqb_refl. reflexivity.
  - apply orb_false_iff in Hc as [Hc1 Hc2]. rewrite Hc1, IH by assumption. reflexivity.
Qed.

Lemma split_join sep l : l <> [] -> Forall (fun x => contains sep x = false) l ->
  split_on sep (join (String sep "") l) = l.
Proof.
  induction l as [|x r IH]; [congruence|]. intros _ HF. inversion HF as [|? ? Hx Hr]; subst.
  destruct r as [|y r'].
  - cbn. apply split_no_sep. assumption.
  - change (join (String sep "") (x :: y :: r')) with (x ++ String sep (join (String sep "") (y :: r'))).
    rewrite split_app_sep by assumption. f_equal. apply IH; [discriminate|assumption].
Qed.

Lemma join_split sep s : join (String sep "") (split_on sep s) = s.
Proof.
  induction s as [|c r IH]; [reflexivity|]. cbn [split_on].
  destruct (Ascii.eqb_spec c sep) as [->|Hne].
  - pose proof (split_on_nonempty sep r). destruct (split_on sep r) as [|h t] eqn:E; [contradiction|].
    change (join (String sep "") ("" :: h :: t)) with ("" ++ String sep (join (String sep "") (h :: t))).
    rewrite IH. reflexivity.
  - pose proof (split_on_nonempty sep r). destruct (split_on sep r) as [|h t] eqn:E; [contradiction|].
    destruct t as [|h2 t2]; cbn in IH |- *; rewrite <- IH; reflexivity.
Qed.

(* ---- sd_jwt_parts and drop_kb, as repaired ---- *)
Definition tilde : ascii := "~"%char.

Definition sd_jwt_parts (s : string) : string * list string * option string :=
  let parts := split_on tilde s in
  match parts with
  | [] | [_] => (s, [], None)
  | jwt :: rest =>
      let last_ := last rest "" in
      (jwt, removelast rest, if String.eqb last_ "" then None else Some last_)
  end.

Definition drop_kb (s : string) : string :=
  let parts := split_on tilde s in
  match parts with
  | [] | [_] => s
  | _ => join "~" (removelast parts) ++ "~"
  end.

(* serialisation used by issuer and holder *)
Definition serialise (jwt : string) (ds : list string) (kb : string) : string :=
  join "~" (jwt :: ds) ++ "~" ++ kb.

Lemma removelast_app_one {A} (l : list A) x : removelast (l ++ [x]) = l.
Proof. apply removelast_last. Qed.

Lemma append_assoc_ (a b c : string) : (a ++ b) ++ c = a ++ (b ++ c).
Proof. induction a; cbn; congruence. Qed.

Lemma join_app_one sep l x : l <> [] -> join sep (l ++ [x]) = join sep l ++ sep ++ x.
Proof.
  induction l as [|y r IH]; [congruence|]. intros _. destruct r as [|z r'].
  - reflexivity.
  - change (join sep ((y :: z :: r') ++ [x])) with (y ++ sep ++ join sep ((z :: r') ++ [x])).
    rewrite IH by discriminate. cbn [join]. rewrite !append_assoc_. reflexivity.
Qed.

Theorem parts_of_serialise jwt ds kb :
  Forall (fun x => contains tilde x = false) (jwt :: ds) -> contains tilde kb = false ->
  split_on tilde (serialise jwt ds kb) = (jwt :: ds ++ [kb])%list.
Proof.
  intros HF Hkb. unfold serialise.
  assert (Hj : join "~" (jwt :: ds) ++ "~" ++ kb = join "~" ((jwt :: ds) ++ [kb])).
  { rewrite join_app_one by discriminate. reflexivity. }
  rewrite Hj. apply split_join; [discriminate|].
  change (jwt :: ds ++ [kb])%list with ((jwt :: ds) ++ [kb])%list.
  apply Forall_app. split; [assumption|]. constructor; [assumption|constructor].
Qed.

Theorem sd_jwt_parts_serialise jwt ds kb :
  Forall (fun x => contains tilde x = false) (jwt :: ds) -> contains tilde kb = false ->
  sd_jwt_parts (serialise jwt ds kb) = (jwt, ds, if String.eqb kb "" then None else Some kb).
Proof.
  intros HF Hkb. unfold sd_jwt_parts. rewrite parts_of_serialise by assumption.
  cbn [app]. destruct (ds ++ [kb])%list as [|y r] eqn:E; [destruct ds; discriminate|].
  rewrite <- E. rewrite last_last, removelast_last. reflexivity.
Qed.

Theorem drop_kb_serialise jwt ds kb :
  Forall (fun x => contains tilde x = false) (jwt :: ds) -> contains tilde kb = false ->
  drop_kb (serialise jwt ds kb) = serialise jwt ds "".
Proof.
  intros HF Hkb. unfold drop_kb. rewrite parts_of_serialise by assumption.
  destruct ds as [|d r]; [reflexivity|].
  change (jwt :: (d :: r) ++ [kb])%list with (jwt :: d :: (r ++ [kb]))%list. cbv iota beta.
  change (jwt :: d :: (r ++ [kb]))%list with ((jwt :: d :: r) ++ [kb])%list.
  rewrite removelast_last. reflexivity.
Qed.
