From Coq Require Import List String Ascii Bool Arith Lia Sorting.Sorted Permutation.
Import ListNotations.
Require Import SDJ.Json SDJ.Model2 SDJ.ATree SDJ.T2a SDJ.T2b SDJ.T2c SDJ.T2d SDJ.T2e SDJ.T2h SDJ.T2k SDJ.T2m SDJ.Issuer1 SDJ.T1a SDJ.T1b SDJ.T1c SDJ.T1d SDJ.T1e SDJ.T1f SDJ.T1g SDJ.T1h SDJ.T1i SDJ.Restore2.
Local Open Scope string_scope.

Section T1j.
Variable H : string -> string.
Variable enc : list json -> string.
Variable dec : string -> dec_result.
Variable show_nat : nat -> string.
Variable parse_index : string -> option nat.
Variable parse_usize : string -> option nat.
Variable pos : string -> nat.
Hypothesis hash_inj : forall x y, H x = H y -> x = y.
Hypothesis dec_enc : forall ps, dec (enc ps) = DJson (JArr ps).

Notation blind := (blind H enc).
Notation view := (view H enc).
Notation wf := (wf H enc).
Notation hdigs := (hdigs H enc).
Notation alldigs := (alldigs H enc).
Notation IsNode := (IsNode H enc).
Notation mark := (mark H enc parse_index parse_usize pos).
Notation target := (target parse_index parse_usize).
Notation mk_disc := (mk_disc H enc).
Notation build_disclosure := (build_disclosure H enc parse_index parse_usize pos).
Notation proj := (proj H enc).

Definition path := (list string * string)%type.   (* parent tokens, last token *)

(* Issuer::encode, the disclosure-building fold (decoys, shuffles, _sd_alg are post-processing) *)
Fixpoint issue_fold (claims : json) (paths : list path) (salts : list json) : res (json * list disc) :=
  match paths, salts with
  | [], _ => Ok (claims, [])
  | (toks, key) :: ps, salt :: ss =>
      do (c1, d) <- build_disclosure claims toks key salt;
      do (c2, ds) <- issue_fold c1 ps ss;
      Ok (c2, d :: ds)
  | _ :: _, [] => Err
  end.

Fixpoint mark_fold (t : atree) (paths : list path) (salts : list json) : option atree :=
  match paths, salts with
  | [], _ => Some t
  | (toks, key) :: ps, salt :: ss =>
      match mark toks key salt t with Some t1 => mark_fold t1 ps ss | None => None end
  | _ :: _, [] => None
  end.

Definition made_with (d : disc) (salt : json) : Prop := d = mk_disc salt (d_key d) (d_val d).

Theorem issue_fold_spec : forall paths salts t t',
  wf t -> mark_fold t paths salts = Some t' ->
  exists ds, issue_fold (blind t) paths salts = Ok (blind t', ds) /\ wf t' /\
    Permutation (hdigs t') (map d_digest ds ++ hdigs t) /\
    Permutation (alldigs t') (map d_digest ds ++ alldigs t) /\
    Forall (fun d => IsNode (d_digest d) (d_key d) (d_val d) t') ds /\
    (forall g k v, IsNode g k v t -> IsNode g k v t') /\
    proj Rall t' = proj Rall t /\
    Forall2 made_with ds (firstn (List.length paths) salts).
Proof.
  induction paths as [|[toks key] ps IH]; intros salts t t' Hw Hm.
  - cbn in Hm. injection Hm as <-. exists []. cbn. repeat split; auto.
  - destruct salts as [|salt ss]; [discriminate|]. cbn [mark_fold] in Hm.
    destruct (mark toks key salt t) as [t1|] eqn:Em; [|discriminate].
    destruct (build_disclosure_mark H enc parse_index parse_usize pos key salt toks t t1 Hw Em) as (k & s & Ht & Hb).
    pose proof (mark_wf H enc parse_index parse_usize pos key salt toks t t1 Hw Em) as Hw1.
    destruct (mark_digs H enc parse_index parse_usize pos key salt toks t t1 k s Hw Em Ht) as [Hp1 Hp2].
    pose proof (mark_IsNode_new H enc parse_index parse_usize pos key salt toks t t1 k s Hw Em Ht) as Hnew.
    destruct (IH ss t1 t' Hw1 Hm) as (ds & Hf & Hw' & Hq1 & Hq2 & Hnodes & Hpres & Hproj & Hmade).
    exists (mk_disc salt k (blind s) :: ds). cbn [issue_fold]. rewrite Hb. cbn [bind]. rewrite Hf. cbn [bind].
    split; [reflexivity|]. split; [assumption|].
    split.
    { etransitivity; [exact Hq1|]. cbn [map app]. etransitivity; [apply Permutation_app_head; exact Hp1|].
      symmetry. apply Permutation_middle. }
    split.
    { etransitivity; [exact Hq2|]. cbn [map app]. etransitivity; [apply Permutation_app_head; exact Hp2|].
      symmetry. apply Permutation_middle. }
    split; [constructor; [apply Hpres; exact Hnew|assumption]|].
    split; [intros g k0 v Hn; apply Hpres; exact (mark_IsNode_old H enc parse_index parse_usize pos g k0 v key salt toks t t1 Hw Em Hn)|].
    split; [rewrite Hproj; exact (mark_orig H enc parse_index parse_usize pos key salt toks t t1 Hw Em)|].
    cbn [List.length firstn]. constructor; [|assumption]. unfold made_with. destruct k; reflexivity.
Qed.

Lemma proj_embed R : forall j, proj R (embed j) = j.
Proof.
  induction j as [| | | | xs IH | kvs IH] using json_ind'; try reflexivity.
  - cbn. f_equal. induction xs as [|x r IHr]; [reflexivity|]. inversion IH; subst. cbn. f_equal; auto.
  - cbn. f_equal. induction kvs as [|[k v] r IHr]; [reflexivity|]. inversion IH; subst. cbn in *. f_equal; [f_equal; assumption|auto].
Qed.

Lemma In_firstn {A} (x : A) n l : In x (firstn n l) -> In x l.
Proof. intros Hin. rewrite <- (firstn_skipn n l). apply in_or_app. left. assumption. Qed.
Lemma NoDup_firstn' {A} n (l : list A) : NoDup l -> NoDup (firstn n l).
Proof. revert l. induction n as [|n IH]; intros [|x r] Hnd; cbn; try constructor.
  - inversion Hnd; subst. intros Hin. apply In_firstn in Hin. contradiction.
  - inversion Hnd; subst. auto. Qed.

Lemma enc_inj ps qs : enc ps = enc qs -> ps = qs.
Proof. intros Hq. pose proof (dec_enc ps) as H1. rewrite Hq, dec_enc in H1. congruence. Qed.

Lemma made_with_nodup : forall ds salts, Forall2 made_with ds salts -> NoDup salts -> NoDup (map d_str ds).
Proof.
  induction 1 as [|d salt ds salts Hm HF IH]; intros Hnd; cbn; [constructor|].
  inversion Hnd as [|? ? Hni Hnd']; subst. constructor; [|auto].
  intros Hin. apply in_map_iff in Hin as [d' [Hq Hd']].
  apply Hni. clear -HF Hd' Hq Hm dec_enc.
  induction HF as [|d2 salt2 ds salts Hm2 HF IH]; [destruct Hd'|]. destruct Hd' as [->|Hd'].
  - left. unfold made_with in Hm, Hm2. rewrite Hm, Hm2 in Hq. cbn in Hq. apply enc_inj in Hq.
    destruct (d_key d'), (d_key d); cbn in Hq; congruence.
  - right. apply IH. assumption.
Qed.

(* prototype of C01 (claims part): what the issuer produces, restored with all disclosures, is the original *)
Theorem issue_restore_roundtrip C paths salts t' :
  jwf C -> NoDup salts -> mark_fold (embed C) paths salts = Some t' -> aheight t' <= 129 ->
  exists payload ds claims ps,
    issue_fold C paths salts = Ok (payload, ds) /\
    restore_passes H dec show_nat payload (map d_str ds) = Ok (claims, ps) /\
    strip claims = C.
Proof.
  intros HC Hnds Hm Hh.
  destruct (issue_fold_spec paths salts (embed C) t' (wf_embed H enc C HC) Hm)
    as (ds & Hf & Hw' & Hq1 & Hq2 & Hnodes & Hpres & Hproj & Hmade).
  rewrite (blind_embed H enc) in Hf. rewrite (hdigs_embed H enc), app_nil_r in Hq1. rewrite (alldigs_embed H enc), app_nil_r in Hq2.
  assert (HndL : NoDup (map d_str ds)).
  { eapply made_with_nodup; [exact Hmade|]. apply NoDup_firstn'. assumption. }
  assert (Hdig : forall d, In d ds -> d_digest d = H (d_str d)).
  { clear -Hmade. induction Hmade as [|d0 salt ds0 ss Hmw HF IH]; intros d Hd; [destruct Hd|]. destruct Hd as [<-|Hd]; [|auto].
    unfold made_with in Hmw. rewrite Hmw. reflexivity. }
  assert (Hmd : map d_digest ds = map H (map d_str ds)).
  { rewrite map_map. apply map_ext_in. intros d Hd. apply Hdig. assumption. }
  assert (Hndd : NoDup (map d_digest ds)).
  { rewrite Hmd. clear -HndL hash_inj. induction HndL as [|s r Hni _ IH]; cbn; constructor; [|assumption].
    intros Hin. apply in_map_iff in Hin as [s' [Hq Hs']]. apply hash_inj in Hq. subst. contradiction. }
  assert (Hndh : NoDup (hdigs t')) by (eapply Permutation_NoDup; [symmetry; exact Hq1|assumption]).
  assert (Hnda : NoDup (alldigs t')) by (eapply Permutation_NoDup; [symmetry; exact Hq2|assumption]).
  assert (Hdecode : decode_all H dec (map d_str ds) = Ok ds).
  { assert (Hall : forall d, In d ds -> from_base64 H dec (d_str d) = Ok d).
    { intros d Hd.
      assert (Hmw : exists salt, made_with d salt).
      { clear -Hmade Hd. induction Hmade as [|d0 salt ds0 ss Hmw HF IH]; [destruct Hd|]. destruct Hd as [<-|Hd]; eauto. }
      destruct Hmw as [salt Hmw]. rewrite Forall_forall in Hnodes. specialize (Hnodes d Hd).
      unfold made_with in Hmw. rewrite Hmw. unfold from_base64. cbn [d_str Issuer1.mk_disc]. rewrite dec_enc.
      destruct (d_key d) as [name|] eqn:Ek.
      - cbn. rewrite (IsNode_name_ok H enc _ _ _ _ Hw' Hnodes). reflexivity.
      - reflexivity. }
    clear -Hall. induction ds as [|d r IH]; [reflexivity|]. cbn. rewrite Hall by (left; reflexivity). cbn.
    rewrite IH by (intros; apply Hall; right; assumption). reflexivity. }
  assert (Hdecoy : forall s, In s (map d_str ds) -> In (H s) (alldigs t') -> In (H s) (hdigs t')).
  { intros s _ Hin. eapply Permutation_in; [symmetry; exact Hq1|]. eapply Permutation_in; [exact Hq2|assumption]. }
  destruct (restore_disclosures_ok H enc dec show_nat hash_inj dec_enc t' Hw' Hnda Hndh Hh (map d_str ds) ds HndL Hdecoy Hdecode) as [ps Hps].
  exists (blind t'), ds, (view (ownS H (map d_str ds)) t'), ps. split; [assumption|]. split; [assumption|].
  rewrite (view_ext H enc (ownS H (map d_str ds)) Rall).
  - rewrite (strip_view H enc Rall t' Hw'). rewrite Hproj. apply proj_embed.
  - intros g Hg. unfold Rall. unfold ownS. apply existsb_exists.
    assert (Hgd : In g (map d_digest ds)) by (eapply Permutation_in; [exact Hq1|assumption]).
    apply in_map_iff in Hgd as [d [Hq Hd]]. exists (d_str d). split; [apply in_map; assumption|].
    rewrite <- Hq, (Hdig d Hd). apply String.eqb_refl.
Qed.
Print Assumptions issue_restore_roundtrip.
End T1j.
