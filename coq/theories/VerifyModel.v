From Coq Require Import List String Ascii Bool Arith.
Import ListNotations.
Require Import SDJ.Json SDJ.Model2 SDJ.Restore2.
Local Open Scope string_scope.

(* Verifier::verify / Holder::verify after signature checking: restore, then remove_digests *)
Definition verify_claims (H : string -> string) (dec : string -> dec_result) (show_nat : nat -> string)
  (payload : json) (L : list string) : res (json * list (string * option string * json)) :=
  match restore_disclosures H dec show_nat payload L with
  | Ok (claims, ps) => Ok (remove_digests claims, map (fun p => (fst p, d_key (snd p), d_val (snd p))) ps)
  | Err => Err end.
