(* C06, issuer side: which strings can occur in the signed payload. *)
From Coq Require Import List String Ascii Bool Arith Lia.
Import ListNotations.
Require Import SDJ.Json SDJ.Model2 SDJ.ATree SDJ.T2a SDJ.T2c SDJ.T2d SDJ.T2h.
Local Open Scope string_scope.

(* every member name and every string value of a JSON value *)
Fixpoint atoms (j : json) : list string :=
  match j with
  | JStr s => [s]
  | JArr xs => flat_map atoms xs
  | JObj kvs => flat_map (fun kv => let '(k, v) := kv in k :: atoms v) kvs
  | _ => [] end.

Section A.
Variable H : string -> string.
Variable enc : list json -> string.
Notation blind := (blind H enc).
Notation alldigs := (alldigs H enc).
Notation dig_item := (dig_item H enc).
Notation wf := (wf H enc).

(* the names and string values that are NOT inside any hidden node *)
Fixpoint vatoms (t : atree) : list string :=
  match t with
  | ALeaf j => atoms j
  | AArr items => flat_map (fun it => let '(k, s) := it in match k with IPlain => vatoms s | _ => [] end) items
  | AObj mems => flat_map (fun m => let '(name, (k, s)) := m in match k with MPlain => name :: vatoms s | _ => [] end) mems
  end.

(* every string of the blinded payload is a reserved name, an embedded digest, or a name / string value that
   lies outside every hidden node: no name and no value of a hidden claim - nor anything inside it - occurs *)
Lemma atoms_strs l : atoms (JArr (map JStr l)) = l.
Proof. cbn [atoms]. induction l as [|x r IH]; [reflexivity|]. cbn. rewrite IH. reflexivity. Qed.

Theorem blind_atoms : forall t, wf t -> forall a, In a (atoms (blind t)) ->
  a = "_sd" \/ a = "..." \/ In a (alldigs t) \/ In a (vatoms t).
Proof.
  induction t as [j | items IH | mems IH] using atree_ind'; intros Hw a Ha.
  - right. right. right. exact Ha.
  - inversion Hw as [| ? Hall Hiok |]; subst. cbn [ATree.blind atoms] in Ha. rewrite flat_map_map' in Ha. apply in_flat_map in Ha as [[k s] [Hin Ha]].
    rewrite Forall_forall in IH, Hall. specialize (IH _ Hin (Hall _ Hin)). cbn [snd] in IH.
    destruct k as [|salt|g].
    + destruct (IH a Ha) as [?|[?|[Hd|Hv]]]; auto.
      * right. right. left. rewrite alldigs_arr. apply in_flat_map. exists (IPlain, s). auto.
      * right. right. right. cbn [vatoms]. apply in_flat_map. exists (IPlain, s). auto.
    + cbn in Ha. destruct Ha as [<-|[<-|[]]]; [auto|]. right. right. left. rewrite alldigs_arr. apply in_flat_map.
      exists (IHid salt, s). split; [assumption|]. left. reflexivity.
    + cbn in Ha. destruct Ha as [<-|[<-|[]]]; [auto|]. right. right. left. rewrite alldigs_arr. apply in_flat_map.
      exists (IDecoy g, s). split; [assumption|]. left. reflexivity.
  - inversion Hw as [| | ? Hs Hall Hok]; subst.
    cbn [ATree.blind atoms] in Ha. rewrite flat_map_flat_map in Ha. apply in_flat_map in Ha as [[name [k s]] [Hin Ha]].
    rewrite Forall_forall in IH, Hall, Hok. specialize (IH _ Hin (Hall _ Hin)). cbn [snd] in IH. specialize (Hok _ Hin). cbn in Hok.
    destruct k as [|salt|l]; cbn in Ha.
    + rewrite app_nil_r in Ha. destruct Ha as [<-|Ha].
      * right. right. right. cbn [vatoms]. apply in_flat_map. exists (name, (MPlain, s)). split; [assumption|]. left. reflexivity.
      * destruct (IH a Ha) as [?|[?|[Hd|Hv]]]; auto.
        -- right. right. left. rewrite alldigs_obj. apply in_flat_map. exists (name, (MPlain, s)). auto.
        -- right. right. right. cbn [vatoms]. apply in_flat_map. exists (name, (MPlain, s)). split; [assumption|]. right. assumption.
    + destruct Ha.
    + rewrite app_nil_r in Ha. destruct Ha as [<-|Ha].
      * left. tauto.
      * change (In a (atoms (JArr (map JStr l)))) in Ha. rewrite atoms_strs in Ha.
        right. right. left. rewrite alldigs_obj. apply in_flat_map. exists (name, (MSd l, s)). auto.
Qed.
End A.
