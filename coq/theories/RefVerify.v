(* The specification's verification algorithm, written top-down in one pass with a digest table.
   It shares no code with Model2/Restore2 (the model of the library's restorer) and serves as the
   independent reference verifier of C07 and C08. Unreferenced disclosures are ignored, so that every
   sub-list of a token's disclosures can be judged. *)
From Coq Require Import List String Ascii Bool Arith.
Import ListNotations.
Require Import SDJ.Json.
Local Open Scope string_scope.

Inductive rdisc := RMember (name : string) (v : json) | RElement (v : json).

(* decoded disclosures by digest *)
Definition rtable := list (string * rdisc).

Definition rlookup (g : string) (t : rtable) : option rdisc :=
  match find (fun e => String.eqb (fst e) g) t with Some e => Some (snd e) | None => None end.

(* result: None = reject *)
Definition rstate := list string.   (* digests already used *)

Definition use_digest (g : string) (used : rstate) : option rstate :=
  if existsb (String.eqb g) used then None else Some (g :: used).

Definition has_key (k : string) (kvs : list (string * json)) : bool :=
  existsb (fun kv => String.eqb (fst kv) k) kvs.

Fixpoint sorted_insert (k : string) (v : json) (kvs : list (string * json)) : list (string * json) :=
  match kvs with
  | [] => [(k, v)]
  | (k', v') :: r => match String.compare k k' with
                     | Lt => (k, v) :: kvs
                     | Eq => (k, v) :: r
                     | Gt => (k', v') :: sorted_insert k v r end
  end.

Definition single_placeholder (j : json) : option (option json) :=
  (* Some (Some d): {"...": d} alone; Some None: not a placeholder; None: "..." with other members -> reject *)
  match j with
  | JObj kvs => if has_key "..." kvs
                then match kvs with [(_, d)] => Some (Some d) | _ => None end
                else Some None
  | _ => Some None end.

Fixpoint rprocess (fuel : nat) (t : rtable) (j : json) (used : rstate) : option (json * rstate) :=
  match fuel with
  | O => None
  | S fuel =>
    match j with
    | JObj kvs =>
        (* plain members first *)
        let plain := filter (fun kv => negb (String.eqb (fst kv) "_sd")) kvs in
        let step1 := fold_left (fun acc kv =>
                        match acc with
                        | None => None
                        | Some (out, u) => match rprocess fuel t (snd kv) u with
                                           | Some (v', u') => Some (sorted_insert (fst kv) v' out, u')
                                           | None => None end
                        end) plain (Some ([], used)) in
        match step1 with
        | None => None
        | Some (out, u) =>
            match find (fun kv => String.eqb (fst kv) "_sd") kvs with
            | None => Some (JObj out, u)
            | Some (_, JArr ds) =>
                let step2 := fold_left (fun acc d =>
                                match acc with
                                | None => None
                                | Some (out, u) =>
                                    match d with
                                    | JStr g =>
                                        match use_digest g u with
                                        | None => None
                                        | Some u1 =>
                                            match rlookup g t with
                                            | None => Some (out, u1)                    (* no disclosure: decoy or withheld *)
                                            | Some (RElement _) => None
                                            | Some (RMember name v) =>
                                                if String.eqb name "_sd" || String.eqb name "..." || has_key name out then None
                                                else match rprocess fuel t v u1 with
                                                     | Some (v', u2) => Some (sorted_insert name v' out, u2)
                                                     | None => None end
                                            end
                                        end
                                    | _ => None
                                    end
                                end) ds (Some (out, u)) in
                match step2 with Some (out2, u2) => Some (JObj out2, u2) | None => None end
            | Some (_, _) => None
            end
        end
    | JArr xs =>
        let step := fold_left (fun acc x =>
                       match acc with
                       | None => None
                       | Some (out, u) =>
                           match single_placeholder x with
                           | None => None
                           | Some (Some (JStr g)) =>
                               match use_digest g u with
                               | None => None
                               | Some u1 =>
                                   match rlookup g t with
                                   | None => Some (out, u1)
                                   | Some (RMember _ _) => None
                                   | Some (RElement v) =>
                                       match rprocess fuel t v u1 with
                                       | Some (v', u2) => Some ((out ++ [v'])%list, u2)
                                       | None => None end
                                   end
                               end
                           | Some (Some _) => None
                           | Some None =>
                               match rprocess fuel t x u with
                               | Some (x', u') => Some ((out ++ [x'])%list, u')
                               | None => None end
                           end
                       end) xs (Some ([], used)) in
        match step with Some (out, u) => Some (JArr out, u) | None => None end
    | _ => Some (j, used)
    end
  end.

(* decode the presented strings into the digest table; malformed ones reject *)
Definition rdecode (H : string -> string) (dec : string -> option json) (L : list string) : option rtable :=
  fold_right (fun s acc =>
                match acc, dec s with
                | Some t, Some (JArr [_; JStr name; v]) => Some ((H s, RMember name v) :: t)
                | Some t, Some (JArr [_; v]) => Some ((H s, RElement v) :: t)
                | _, _ => None end) (Some []) L.

(* the specification's rule for the digest algorithm: the name under _sd_alg; "sha-256" when the claim is absent *)
Definition ref_alg_name (payload : json) : option string :=
  match payload with
  | JObj kvs => match obj_get "_sd_alg" kvs with
                | Some (JStr a) => Some a
                | Some _ => None
                | None => Some "sha-256" end
  | _ => Some "sha-256"
  end.

Definition ref_verify (H : string -> string) (dec : string -> option json) (payload : json) (L : list string) : option json :=
  match rdecode H dec L with
  | None => None
  | Some t =>
      match rprocess 200 t payload [] with
      | Some (JObj kvs, _) => Some (JObj (filter (fun kv => negb (String.eqb (fst kv) "_sd_alg")) kvs))
      | Some (j, _) => Some j
      | None => None end
  end.
