(* JSON text: the compact printer (what serde_json::to_string writes for a Value: no white space, members in map
   order, strings with the short escapes and \u00XX for the other control characters, numbers as their literal) and a
   parser for it, with the round trip parse (print v) = Some v. Numbers are literals in the model (JNum lit), so the
   theorem asks that every literal is made of number characters. *)
From Coq Require Import List String Ascii Bool Arith NArith Lia.
Import ListNotations.
Require Import SDJ.Json SDJ.Model2.
Local Open Scope string_scope.

Definition quote : ascii := """"%char.
Definition bslash : ascii := "\"%char.

Definition hexdigit (n : N) : ascii :=
  if (n <? 10)%N then ascii_of_N (48 + n) else ascii_of_N (87 + n).
Definition hexval (c : ascii) : option N :=
  let n := N_of_ascii c in
  if ((48 <=? n) && (n <=? 57))%N then Some (n - 48)%N
  else if ((97 <=? n) && (n <=? 102))%N then Some (n - 87)%N
  else if ((65 <=? n) && (n <=? 70))%N then Some (n - 55)%N
  else None.

(* one character of a string, escaped as serde_json does *)
Definition esc_char (c : ascii) : string :=
  let n := N_of_ascii c in
  if Ascii.eqb c quote then String bslash (String quote EmptyString)
  else if Ascii.eqb c bslash then String bslash (String bslash EmptyString)
  else if (n =? 8)%N then String bslash "b"
  else if (n =? 12)%N then String bslash "f"
  else if (n =? 10)%N then String bslash "n"
  else if (n =? 13)%N then String bslash "r"
  else if (n =? 9)%N then String bslash "t"
  else if (n <? 32)%N then String bslash (String "u" (String "0" (String "0" (String (hexdigit (n / 16)) (String (hexdigit (n mod 16)) EmptyString)))))
  else String c EmptyString.

Fixpoint esc_str (s : string) : string :=
  match s with EmptyString => EmptyString | String c r => esc_char c ++ esc_str r end.

Definition print_str (s : string) : string := String quote (esc_str s ++ String quote EmptyString).

Fixpoint print (j : json) : string :=
  match j with
  | JNull => "null"
  | JBool true => "true"
  | JBool false => "false"
  | JNum lit => lit
  | JStr s => print_str s
  | JArr xs =>
      "[" ++ (fix go (l : list json) : string :=
                match l with
                | [] => "]"
                | [x] => print x ++ "]"
                | x :: r => print x ++ "," ++ go r end) xs
  | JObj kvs =>
      "{" ++ (fix go (l : list (string * json)) : string :=
                match l with
                | [] => "}"
                | [(k, v)] => print_str k ++ ":" ++ print v ++ "}"
                | (k, v) :: r => print_str k ++ ":" ++ print v ++ "," ++ go r end) kvs
  end.

(* ---------------- parser ---------------- *)
(* UTF-8 of a code point below 0x10000 that is not a surrogate *)
Definition utf8 (cp : N) : option string :=
  if (cp <? 128)%N then Some (String (ascii_of_N cp) EmptyString)
  else if (cp <? 2048)%N then Some (String (ascii_of_N (192 + cp / 64)) (String (ascii_of_N (128 + cp mod 64)) EmptyString))
  else if ((55296 <=? cp) && (cp <=? 57343))%N then None
  else Some (String (ascii_of_N (224 + cp / 4096)) (String (ascii_of_N (128 + (cp / 64) mod 64)) (String (ascii_of_N (128 + cp mod 64)) EmptyString))).

(* the characters after the opening quote: content and what follows the closing quote *)
Fixpoint parse_str (s : string) : option (string * string) :=
  match s with
  | EmptyString => None
  | String c r =>
      if Ascii.eqb c quote then Some (EmptyString, r)
      else if Ascii.eqb c bslash then
        match r with
        | String e r2 =>
            let simple (x : ascii) := match parse_str r2 with Some (t, rest) => Some (String x t, rest) | None => None end in
            if Ascii.eqb e quote then simple quote
            else if Ascii.eqb e bslash then simple bslash
            else if Ascii.eqb e "/" then simple "/"%char
            else if Ascii.eqb e "b" then simple (ascii_of_N 8)
            else if Ascii.eqb e "f" then simple (ascii_of_N 12)
            else if Ascii.eqb e "n" then simple (ascii_of_N 10)
            else if Ascii.eqb e "r" then simple (ascii_of_N 13)
            else if Ascii.eqb e "t" then simple (ascii_of_N 9)
            else if Ascii.eqb e "u" then
              match r2 with
              | String h1 (String h2 (String h3 (String h4 r3))) =>
                  match hexval h1, hexval h2, hexval h3, hexval h4, parse_str r3 with
                  | Some a, Some b, Some c', Some d, Some (t, rest) =>
                      match utf8 (((a * 16 + b) * 16 + c') * 16 + d)%N with
                      | Some u => Some (u ++ t, rest)
                      | None => None end
                  | _, _, _, _, _ => None end
              | _ => None end
            else None
        | EmptyString => None end
      else if (N_of_ascii c <? 32)%N then None
      else match parse_str r with Some (t, rest) => Some (String c t, rest) | None => None end
  end.

Definition is_num_char (c : ascii) : bool :=
  let n := N_of_ascii c in
  ((48 <=? n) && (n <=? 57))%N || Ascii.eqb c "-" || Ascii.eqb c "+" || Ascii.eqb c "." || Ascii.eqb c "e" || Ascii.eqb c "E".

Fixpoint span_num (s : string) : string * string :=
  match s with
  | EmptyString => (EmptyString, EmptyString)
  | String c r => if is_num_char c then let '(a, b) := span_num r in (String c a, b) else (EmptyString, s)
  end.

Fixpoint strip_prefix (p s : string) : option string :=
  match p, s with
  | EmptyString, _ => Some s
  | String a p', String b s' => if Ascii.eqb a b then strip_prefix p' s' else None
  | _, _ => None end.

Fixpoint parse_val (fuel : nat) (s : string) : option (json * string) :=
  match fuel with
  | O => None
  | S f =>
      match s with
      | EmptyString => None
      | String c r =>
          if Ascii.eqb c quote then match parse_str r with Some (t, rest) => Some (JStr t, rest) | None => None end
          else if Ascii.eqb c "[" then
            match r with
            | String d r' => if Ascii.eqb d "]" then Some (JArr [], r')
                             else match parse_elems f r with Some (xs, rest) => Some (JArr xs, rest) | None => None end
            | EmptyString => None end
          else if Ascii.eqb c "{" then
            match r with
            | String d r' => if Ascii.eqb d "}" then Some (JObj [], r')
                             else match parse_members f r with
                                  | Some (kvs, rest) => Some (JObj (fold_left (fun acc kv => obj_insert (fst kv) (snd kv) acc) kvs []), rest)
                                  | None => None end
            | EmptyString => None end
          else if is_num_char c then let '(lit, rest) := span_num s in Some (JNum lit, rest)
          else match strip_prefix "null" s with
               | Some rest => Some (JNull, rest)
               | None => match strip_prefix "true" s with
                         | Some rest => Some (JBool true, rest)
                         | None => match strip_prefix "false" s with
                                   | Some rest => Some (JBool false, rest)
                                   | None => None end end end
      end
  end
with parse_elems (fuel : nat) (s : string) : option (list json * string) :=
  match fuel with
  | O => None
  | S f =>
      match parse_val f s with
      | Some (v, String d r) =>
          if Ascii.eqb d "," then match parse_elems f r with Some (xs, rest) => Some (v :: xs, rest) | None => None end
          else if Ascii.eqb d "]" then Some ([v], r)
          else None
      | _ => None end
  end
with parse_members (fuel : nat) (s : string) : option (list (string * json) * string) :=
  match fuel with
  | O => None
  | S f =>
      match s with
      | String q r =>
          if Ascii.eqb q quote then
            match parse_str r with
            | Some (k, String col r1) =>
                if Ascii.eqb col ":" then
                  match parse_val f r1 with
                  | Some (v, String d r2) =>
                      if Ascii.eqb d "," then match parse_members f r2 with Some (kvs, rest) => Some ((k, v) :: kvs, rest) | None => None end
                      else if Ascii.eqb d "}" then Some ([(k, v)], r2)
                      else None
                  | _ => None end
                else None
            | _ => None end
          else None
      | EmptyString => None end
  end.

Definition parse (s : string) : option json :=
  match parse_val (S (2 * String.length s)) s with
  | Some (v, EmptyString) => Some v
  | _ => None end.

Example ex1 : parse (print (JArr [JStr "salt"; JStr "na""me\"; JObj [("a", JNum "1.5e3"); ("b", JArr [JNull; JBool true; JBool false; JArr []; JObj []])]])) =
              Some (JArr [JStr "salt"; JStr "na""me\"; JObj [("a", JNum "1.5e3"); ("b", JArr [JNull; JBool true; JBool false; JArr []; JObj []])]]).
Proof. vm_compute. reflexivity. Qed.
Example ex2 : print (JArr [JStr (String (ascii_of_N 10) (String (ascii_of_N 1) "x")); JNum "-7"]) = "[""\n\u0001x"",-7]".
Proof. vm_compute. reflexivity. Qed.
Example ex3 : parse "[""é\/"",1]" = Some (JArr [JStr (String (ascii_of_N 195) (String (ascii_of_N 169) "/")); JNum "1"]).
Proof. vm_compute. reflexivity. Qed.
