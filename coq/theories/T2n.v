(* check_digests (the duplicate/structure walk that follows the pass loop) succeeds on every view of a
   conformant token, given the digests of the array elements that were placed. *)
From Coq Require Import List String Ascii Bool Arith Lia Sorting.Sorted.
Import ListNotations.
Require Import SDJ.Json SDJ.Model2 SDJ.Restore2 SDJ.ATree SDJ.T2a SDJ.T2b SDJ.T2c SDJ.T2d SDJ.T2e SDJ.T2f SDJ.T2g SDJ.T2h SDJ.T2k SDJ.T2l.
Local Open Scope string_scope.

(* ---------- JSON level: what check_digests collects, in its order ---------- *)
Definition item_dl (x : json) : list string :=
  match item_digest x with Ok (Some g) => [g] | _ => [] end.

Fixpoint cdigs (j : json) : list string :=
  match j with
  | JObj kvs => (match obj_get "_sd" kvs with Some (JArr xs) => strs_of xs | _ => [] end ++
                 flat_map (fun kv => let '(_, v) := kv in cdigs v) kvs)%list
  | JArr xs => flat_map (fun x => (item_dl x ++ cdigs x)%list) xs
  | _ => [] end.

Lemma insert_all_ok gs : forall seen, NoDup (gs ++ seen) -> insert_all gs seen = Ok (rev gs ++ seen)%list.
Proof.
  induction gs as [|g r IH]; intros seen Hnd; [reflexivity|]. cbn [insert_all].
  cbn [app] in Hnd. inversion Hnd as [|? ? Hni Hnd']; subst.
  unfold set_insert. replace (existsb (String.eqb g) seen) with false.
  - cbn [bind]. rewrite IH.
    + cbn [rev]. rewrite <- app_assoc. reflexivity.
    + apply NoDup_app_intro.
      * apply NoDup_app_l in Hnd'. assumption.
      * constructor; [intros Hin; apply Hni; apply in_or_app; right; assumption|apply NoDup_app_r in Hnd'; assumption].
      * intros x Hx [<-|Hs]; [apply Hni; apply in_or_app; left; assumption|]. eapply NoDup_app_disj; eauto.
  - symmetry. apply not_true_is_false. intros He. apply existsb_exists in He as [x [Hx Hq]]. apply String.eqb_eq in Hq. subst.
    apply Hni. apply in_or_app. right. assumption.
Qed.

Lemma sdwf_item_digest x : sdwf x = true -> item_digest x = Ok (match item_digest x with Ok o => o | Err => None end).
Proof.
  intros Hs. destruct x; try reflexivity. rewrite sdwf_obj in Hs. apply andb_true_iff in Hs as [Hs _].
  unfold item_digest. destruct (obj_get "..." kvs); [|reflexivity]. rewrite Hs. reflexivity.
Qed.

(* ---- the walk is insert_all of the collected list: same result, same point of failure ---- *)
Lemma bind_ok_r {A} (x : res A) : bind x (fun a => Ok a) = x.
Proof. destruct x; reflexivity. Qed.
Lemma bind_assoc {A B C} (x : res A) (f : A -> res B) (g : B -> res C) :
  bind (bind x f) g = bind x (fun a => bind (f a) g).
Proof. destruct x; reflexivity. Qed.

Lemma insert_all_app a : forall b seen, insert_all (a ++ b) seen = bind (insert_all a seen) (insert_all b).
Proof.
  induction a as [|g r IH]; intros b seen; [reflexivity|]. cbn [app insert_all]. rewrite bind_assoc.
  destruct (set_insert g seen); [|reflexivity]. cbn [bind]. apply IH.
Qed.

Lemma fold_err {A B} (f : res A -> B -> res A) l : (forall b, f Err b = Err) -> fold_left f l Err = Err.
Proof. intros Hf. induction l as [|x r IH]; [reflexivity|]. cbn. rewrite Hf. exact IH. Qed.

Lemma item_step x s : sdwf x = true ->
  bind (item_digest x) (fun g => match g with Some g => set_insert g s | None => Ok s end) = insert_all (item_dl x) s.
Proof.
  intros Hs. unfold item_dl. rewrite (sdwf_item_digest x Hs). destruct (item_digest x) as [[g|]|]; cbn [bind insert_all]; try reflexivity.
  rewrite bind_ok_r. reflexivity.
Qed.

Theorem check_digests_collect : forall n j seen,
  sdwf j = true -> height j <= n -> check_digests n j seen = insert_all (cdigs j) seen.
Proof.
  induction n as [|n IH]; intros j seen Hs Hh.
  - destruct j; cbn in Hh; lia.
  - destruct j as [| b | l | s | xs | kvs]; try reflexivity.
    + (* arrays *)
      cbn [check_digests cdigs]. cbn [height] in Hh. apply le_S_n in Hh. cbn [sdwf] in Hs.
      assert (Hgen : forall acc, fold_left (fun acc item =>
                     do s <- acc; do g <- item_digest item;
                     do s1 <- match g with Some g => set_insert g s | None => Ok s end;
                     check_digests n item s1) xs acc =
                   bind acc (insert_all (flat_map (fun x => (item_dl x ++ cdigs x)%list) xs))).
      { induction xs as [|x r IHr]; intros acc; [cbn; rewrite bind_ok_r; reflexivity|].
        cbn [forallb] in Hs. apply andb_true_iff in Hs as [Hsx Hsr]. cbn [fold_right] in Hh.
        cbn [fold_left flat_map]. rewrite IHr by (assumption || lia).
        destruct acc as [s0|]; [|reflexivity]. cbn [bind].
        rewrite <- app_assoc, !insert_all_app, <- (item_step x s0 Hsx), !bind_assoc.
        destruct (item_digest x) as [g|]; [|reflexivity]. cbn [bind].
        destruct (match g with Some g0 => set_insert g0 s0 | None => Ok s0 end) as [s1|]; [|reflexivity]. cbn [bind].
        rewrite IH by (assumption || lia). rewrite insert_all_app. reflexivity. }
      rewrite Hgen. reflexivity.
    + (* objects *)
      cbn [check_digests cdigs]. cbn [height] in Hh. apply le_S_n in Hh. rewrite sdwf_obj in Hs.
      apply andb_true_iff in Hs as [_ Hs].
      assert (Hsd : match obj_get "_sd" kvs with Some (JArr xs) => insert_all (strs_of xs) seen | Some _ => Err | None => Ok seen end =
                    insert_all (match obj_get "_sd" kvs with Some (JArr xs) => strs_of xs | _ => [] end) seen).
      { destruct (obj_get "_sd" kvs) as [sd|] eqn:Eg; [|reflexivity]. apply obj_get_in in Eg.
        rewrite forallb_forall in Hs. specialize (Hs _ Eg). cbn in Hs. destruct sd; try discriminate. reflexivity. }
      rewrite Hsd, insert_all_app.
      assert (Hgen : forall acc, fold_left (fun acc (kv : string * json) => let '(_, v) := kv in do s <- acc; check_digests n v s) kvs acc =
                   bind acc (insert_all (flat_map (fun kv : string * json => let '(_, v) := kv in cdigs v) kvs))).
      { clear Hsd. induction kvs as [|[k v] r IHr]; intros acc; [cbn; rewrite bind_ok_r; reflexivity|].
        cbn [forallb] in Hs. apply andb_true_iff in Hs as [Hsx Hsr]. cbn [fold_right] in Hh.
        unfold wf_mem in Hsx. apply andb_true_iff in Hsx as [_ Hsv].
        cbn [fold_left flat_map]. rewrite IHr by (assumption || lia).
        destruct acc as [s0|]; [|reflexivity]. cbn [bind].
        rewrite insert_all_app. rewrite IH by (assumption || lia). reflexivity. }
      destruct (insert_all _ seen) as [seen1|]; [|reflexivity]. cbn [bind]. rewrite Hgen. reflexivity.
Qed.

Corollary check_digests_ok n j seen :
  sdwf j = true -> height j <= n -> NoDup (cdigs j ++ seen) -> exists seen', check_digests n j seen = Ok seen'.
Proof. intros Hs Hh Hnd. rewrite check_digests_collect by assumption. eexists. apply insert_all_ok. assumption. Qed.

(* ---------- annotated-tree level ---------- *)
Definition cnt (g : string) (l : list string) : nat := count_occ string_dec l g.

Lemma cnt_app g a b : cnt g (a ++ b) = cnt g a + cnt g b.
Proof. unfold cnt. apply count_occ_app. Qed.
Lemma cnt_nil g : cnt g [] = 0.
Proof. reflexivity. Qed.
Lemma cnt_cons g x l : cnt g (x :: l) = (if string_dec x g then 1 else 0) + cnt g l.
Proof. unfold cnt. cbn. destruct (string_dec x g); reflexivity. Qed.
Lemma cnt_in g l : In g l -> 1 <= cnt g l.
Proof. unfold cnt. intros Hin. apply (count_occ_In string_dec) in Hin. lia. Qed.
Lemma cnt_nodup g l : NoDup l -> cnt g l <= 1.
Proof. unfold cnt. intros Hnd. apply (proj1 (NoDup_count_occ string_dec l) Hnd). Qed.
Lemma cnt_zero_notin g l : cnt g l = 0 -> ~ In g l.
Proof. unfold cnt. intros Hz Hin. apply (count_occ_In string_dec) in Hin. lia. Qed.
Lemma nodup_of_cnt l : (forall g, cnt g l <= 1) -> NoDup l.
Proof. intros Hc. apply (proj2 (NoDup_count_occ string_dec l)). exact Hc. Qed.

Lemma cnt_flat_map_in {A} g (f : A -> list string) l x : In x l -> cnt g (f x) <= cnt g (flat_map f l).
Proof.
  induction l as [|y r IH]; [intros []|]. intros [->|Hin]; cbn [flat_map]; rewrite cnt_app; [lia|]. specialize (IH Hin). lia.
Qed.

(* three families of lists over the same index list, dominated pointwise *)
Lemma cnt_flat_map_le3 {A} g (f1 f2 f3 h : A -> list string) l :
  (forall x, In x l -> cnt g (f1 x) + cnt g (f2 x) + cnt g (f3 x) <= cnt g (h x)) ->
  cnt g (flat_map f1 l) + cnt g (flat_map f2 l) + cnt g (flat_map f3 l) <= cnt g (flat_map h l).
Proof.
  induction l as [|x r IH]; intros Hp; [cbn; lia|]. cbn [flat_map]. rewrite !cnt_app.
  pose proof (Hp x (or_introl eq_refl)). specialize (IH (fun y Hy => Hp y (or_intror Hy))). lia.
Qed.

Lemma flat_map_nil_const {A B} (l : list A) : flat_map (fun _ : A => @nil B) l = [].
Proof. induction l; cbn; auto. Qed.

Lemma item_digest_of_placeholder_of j : placeholder_of j = Ok None -> item_digest j = Ok None.
Proof.
  destruct j; try reflexivity. unfold placeholder_of, item_digest. destruct (obj_get "..." kvs); [|reflexivity].
  destruct (Nat.eqb (List.length kvs) 1); discriminate.
Qed.

Lemma cdigs_strs l : cdigs (JArr (map JStr l)) = [].
Proof. cbn [cdigs]. induction l as [|x r IH]; [reflexivity|]. cbn [map flat_map]. rewrite IH. reflexivity. Qed.

Lemma strs_of_strs l : strs_of (map JStr l) = l.
Proof. unfold strs_of. induction l as [|x r IH]; [reflexivity|]. cbn. rewrite IH. reflexivity. Qed.

Section N.
Variable H : string -> string.
Variable enc : list json -> string.
Notation blind := (blind H enc).
Notation view := (view H enc).
Notation dig_item := (dig_item H enc).
Notation dig_mem := (dig_mem H enc).
Notation hdigs := (hdigs H enc).
Notation alldigs := (alldigs H enc).
Notation wf := (wf H enc).
Notation vitem R := (ATree.view_item H enc (view R) R).
Notation vmem R := (ATree.view_mem H enc (view R) R).
Notation adigs_item := (adigs_item H enc alldigs).
Notation adigs_mem := (adigs_mem alldigs).
Notation Exposed := (Exposed H enc).

(* digests of the hidden array elements that are opened and reachable in the view *)
Fixpoint oitems (R : Rset) (t : atree) : list string :=
  match t with
  | ALeaf _ => []
  | AArr items => flat_map (fun it => let '(k, s) := it in
        match k with
        | IPlain => oitems R s
        | IHid salt => if R (dig_item salt s) then dig_item salt s :: oitems R s else []
        | IDecoy _ => [] end) items
  | AObj mems => flat_map (fun m => let '(name, (k, s)) := m in
        match k with
        | MPlain => oitems R s
        | MHid salt => if R (dig_mem salt name s) then oitems R s else []
        | MSd _ => [] end) mems
  end.

Definition oitem_of (R : Rset) (it : ikind * atree) : list string :=
  let '(k, s) := it in
  match k with
  | IPlain => oitems R s
  | IHid salt => if R (dig_item salt s) then dig_item salt s :: oitems R s else []
  | IDecoy _ => [] end.
Definition omem_of (R : Rset) (m : string * (mkind * atree)) : list string :=
  let '(name, (k, s)) := m in
  match k with
  | MPlain => oitems R s
  | MHid salt => if R (dig_mem salt name s) then oitems R s else []
  | MSd _ => [] end.
Lemma oitems_arr R items : oitems R (AArr items) = flat_map (oitem_of R) items.
Proof. reflexivity. Qed.
Lemma oitems_obj R mems : oitems R (AObj mems) = flat_map (omem_of R) mems.
Proof. reflexivity. Qed.

Definition sd_part (m : string * (mkind * atree)) : list string :=
  match fst (snd m) with MSd l => l | _ => [] end.

(* what obj_get "_sd" returns on the view of an object *)
Lemma sd_get_view R mems : wf (AObj mems) ->
  match obj_get "_sd" (flat_map (vmem R) mems) with
  | Some sd => exists y l, In y mems /\ fst (snd y) = MSd l /\ sd = JArr (map JStr l)
  | None => True end.
Proof.
  intros Hw. inversion Hw as [| | ? Hs Hall Hok]; subst.
  destruct (obj_get "_sd" (flat_map (vmem R) mems)) as [sd|] eqn:Hget; [|exact I].
  apply obj_get_in in Hget. apply in_flat_map in Hget as [[ny [mk sy]] [Hy Hkv]].
  rewrite Forall_forall in Hok. specialize (Hok _ Hy). cbn in Hok.
  exists (ny, (mk, sy)). destruct mk as [|salt|l]; cbn in Hkv.
  - destruct Hkv as [Hq|[]]. injection Hq as -> _. tauto.
  - destruct (R (dig_mem salt ny sy)); [|destruct Hkv]. destruct Hkv as [Hq|[]]. injection Hq as -> _. tauto.
  - destruct Hkv as [Hq|[]]. injection Hq as _ <-. exists l. auto.
Qed.

Theorem cnt_view R g : forall t, wf t ->
  cnt g (cdigs (view R t)) + cnt g (oitems R t) <= cnt g (alldigs t).
Proof.
  induction t as [j | items IH | mems IH] using atree_ind'; intros Hw.
  - inversion Hw; subst. destruct j; cbn in *; try tauto; lia.
  - inversion Hw as [| ? Hall Hiok |]; subst.
    rewrite view_arr, oitems_arr, alldigs_arr. cbn [cdigs]. rewrite flat_map_map'.
    pose proof (cnt_flat_map_le3 g (fun it => (item_dl (vitem R it) ++ cdigs (vitem R it))%list) (oitem_of R) (fun _ => []) adigs_item items) as Hle.
    rewrite flat_map_nil_const, cnt_nil in Hle.
    { rewrite Nat.add_0_r in Hle. apply Hle. clear Hle.
      intros [k s] Hin. rewrite Forall_forall in IH, Hall. specialize (IH _ Hin (Hall _ Hin)). cbn [snd] in IH.
      rewrite Nat.add_0_r. rewrite cnt_app.
      assert (Hnp : item_dl (view R s) = []).
      { unfold item_dl. rewrite item_digest_of_placeholder_of; [reflexivity|]. apply (placeholder_of_view H enc). apply (Hall _ Hin). }
      destruct k as [|salt|g0]; cbn [ATree.view_item oitem_of T2c.adigs_item].
      * rewrite Hnp, cnt_nil. lia.
      * destruct (R (dig_item salt s)); cbv iota.
        -- rewrite Hnp, cnt_nil, !cnt_cons. lia.
        -- unfold item_dl. cbn [item_digest placeholder obj_get String.eqb Ascii.eqb Bool.eqb List.length Nat.eqb cdigs flat_map app].
           rewrite !cnt_cons, !cnt_nil. lia.
      * unfold item_dl. cbn [item_digest placeholder obj_get String.eqb Ascii.eqb Bool.eqb List.length Nat.eqb cdigs flat_map app].
        rewrite !cnt_cons, !cnt_nil. lia. }
  - inversion Hw as [| | ? Hs Hall Hok]; subst.
    rewrite view_obj, oitems_obj, alldigs_obj. cbn [cdigs]. rewrite cnt_app, flat_map_flat_map.
    pose proof (cnt_flat_map_le3 g (fun m => flat_map (fun kv : string * json => let '(_, v) := kv in cdigs v) (vmem R m)) (omem_of R) sd_part adigs_mem mems) as Hle.
    assert (Hsd : cnt g (match obj_get "_sd" (flat_map (vmem R) mems) with Some (JArr xs) => strs_of xs | _ => [] end) <= cnt g (flat_map sd_part mems)).
    { pose proof (sd_get_view R mems Hw) as Hg. destruct (obj_get "_sd" (flat_map (vmem R) mems)) as [sd|]; [|rewrite cnt_nil; lia].
      destruct Hg as (y & l & Hy & Hk & ->). rewrite strs_of_strs.
      replace l with (sd_part y) by (unfold sd_part; rewrite Hk; reflexivity). apply cnt_flat_map_in. assumption. }
    assert (Hpoint : forall x, In x mems ->
      cnt g (flat_map (fun kv : string * json => let '(_, v) := kv in cdigs v) (vmem R x)) + cnt g (omem_of R x) + cnt g (sd_part x) <= cnt g (adigs_mem x)).
    { intros [name [k s]] Hin. rewrite Forall_forall in IH, Hall. specialize (IH _ Hin (Hall _ Hin)). cbn [snd] in IH.
      destruct k as [|salt|l]; cbn [ATree.view_mem omem_of sd_part T2c.adigs_mem fst snd flat_map].
      - rewrite app_nil_r, cnt_nil. lia.
      - destruct (R (dig_mem salt name s)); cbn [flat_map]; rewrite ?app_nil_r, ?cnt_nil; lia.
      - rewrite cdigs_strs. cbn [app]. rewrite !cnt_nil. lia. }
    specialize (Hle Hpoint). lia.
Qed.

(* a placed array-element disclosure is an opened reachable element in every later state *)
Lemma Exposed_oitems R1 R' g v : forall t,
  Exposed R1 g None v t -> (forall x, R1 x = true -> R' x = true) -> R' g = true -> In g (oitems R' t).
Proof.
  intros t Hex Hmono Hg. induction Hex as [items salt s Hin -> _ _ _ | items ik s Hin Hop _ IH | mems name salt s Hin _ _ Hk _ | mems name mk s Hin Hop _ IH].
  - rewrite oitems_arr. apply in_flat_map. exists (IHid salt, s). split; [assumption|]. cbn. rewrite Hg. left. reflexivity.
  - rewrite oitems_arr. apply in_flat_map. exists (ik, s). split; [assumption|].
    destruct ik as [|salt|g0]; cbn in Hop |- *; [assumption| |discriminate].
    injection Hop as Hop. rewrite (Hmono _ Hop). right. assumption.
  - discriminate.
  - rewrite oitems_obj. apply in_flat_map. exists (name, (mk, s)). split; [assumption|].
    destruct mk as [|salt|l]; cbn in Hop |- *; [assumption| |discriminate].
    injection Hop as Hop. rewrite (Hmono _ Hop). assumption.
Qed.
End N.
