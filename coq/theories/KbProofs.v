(* Key binding: what Holder::build attaches (C09) *)
From Coq Require Import List String Ascii Bool Arith Lia.
Import ListNotations.
Require Import SDJ.Json SDJ.Wire SDJ.Model2 SDJ.Out SDJ.Restore2 SDJ.Split SDJ.SplitM SDJ.Verify.
Local Open Scope string_scope.

(* Holder::build with key binding returns prefix ++ kb where kb signs {alg, typ: kb+jwt} and
   {aud, iat, nonce, sd_hash = hash of exactly the prefix under the token's _sd_alg} *)
Theorem build_bound_shape O E h a cseg c claims alg aud jalg kb :
  jwt_parts_m (h_jwt h) = Val (a, cseg, c) -> o_claims O cseg = Ok claims -> kb_bound claims = true ->
  declared_halg claims = Some alg -> h_kb h = Some (aud, jalg) ->
  e_sign E (kb_header jalg) (kb_claims aud (e_nonce E) (e_iat E) (o_hash O alg (presentation_prefix (h_jwt h) (selected h)))) = Val kb ->
  holder_build O E h = Val (presentation_prefix (h_jwt h) (selected h) ++ kb).
Proof.
  intros Hj Hc Hb Ha Hk Hs. unfold holder_build. rewrite Hj. cbn [obind]. rewrite Hc. cbn [of_res obind].
  rewrite Hb, Hk, Ha. cbn [andb]. rewrite Hs. reflexivity.
Qed.

(* without cnf the presentation is just the prefix *)
Theorem build_unbound_shape O E h a cseg c claims :
  jwt_parts_m (h_jwt h) = Val (a, cseg, c) -> o_claims O cseg = Ok claims -> kb_bound claims = false ->
  holder_build O E h = Val (presentation_prefix (h_jwt h) (selected h)).
Proof.
  intros Hj Hc Hb. unfold holder_build. rewrite Hj. cbn [obind]. rewrite Hc. cbn [of_res obind]. rewrite Hb. reflexivity.
Qed.

(* building again selects the same disclosures: the holder state is not changed by build *)
Theorem build_repeatable O E1 E2 h : 
  forall p1 p2, holder_build O E1 h = Val p1 -> holder_build O E2 h = Val p2 ->
  exists k1 k2, p1 = presentation_prefix (h_jwt h) (selected h) ++ k1 /\ p2 = presentation_prefix (h_jwt h) (selected h) ++ k2.
Proof.
  intros p1 p2. unfold holder_build.
  destruct (jwt_parts_m (h_jwt h)) as [[[a cseg] c]| |]; cbn [obind]; try discriminate.
  destruct (o_claims O cseg) as [claims|]; cbn [of_res obind]; try discriminate.
  destruct (kb_bound claims) eqn:Eb.
  - destruct (h_kb h) as [[aud jalg]|]; cbn [andb]; try discriminate.
    destruct (declared_halg _) as [alg|]; try discriminate.
    destruct (e_sign E1 _ _) as [k1| |]; cbn [obind]; try discriminate. intros H1; injection H1 as <-.
    destruct (e_sign E2 _ _) as [k2| |]; cbn [obind]; try discriminate. intros H2; injection H2 as <-.
    eauto.
  - cbn [andb]. intros H1 H2. injection H1 as <-. injection H2 as <-. exists "", "".
    assert (forall s : string, s ++ "" = s) as Hnil by (induction s; cbn; congruence).
    rewrite Hnil. split; reflexivity.
Qed.
