(* YAML tag collection (C15). *)
From Coq Require Import List String Ascii Bool Arith Lia.
Import ListNotations.
Require Import SDJ.Json SDJ.Wire SDJ.Model2 SDJ.Yaml.
Local Open Scope string_scope.

Section yaml_ind.
  Variable P : yaml -> Prop.
  Hypothesis Hnull : P YNull.
  Hypothesis Hbool : forall b, P (YBool b).
  Hypothesis Hnum : forall l, P (YNum l).
  Hypothesis Hstr : forall s, P (YStr s).
  Hypothesis Hseq : forall xs, Forall P xs -> P (YSeq xs).
  Hypothesis Hmap : forall kvs, Forall (fun kv => P (fst kv) /\ P (snd kv)) kvs -> P (YMap kvs).
  Hypothesis Htag : forall t v, P v -> P (YTag t v).
  Fixpoint yaml_ind' (y : yaml) : P y :=
    match y with
    | YNull => Hnull | YBool b => Hbool b | YNum l => Hnum l | YStr s => Hstr s
    | YSeq xs => Hseq xs ((fix go (l : list yaml) : Forall P l :=
                   match l with [] => Forall_nil _ | x :: r => Forall_cons _ (yaml_ind' x) (go r) end) xs)
    | YMap kvs => Hmap kvs ((fix go (l : list (yaml * yaml)) : Forall (fun kv => P (fst kv) /\ P (snd kv)) l :=
                   match l with [] => Forall_nil _ | (k, v) :: r => Forall_cons (k, v) (conj (yaml_ind' k) (yaml_ind' v)) (go r) end) kvs)
    | YTag t v => Htag t v (yaml_ind' v)
    end.
End yaml_ind.

(* no tag anywhere *)
Fixpoint tagfree (y : yaml) : bool :=
  match y with
  | YSeq xs => forallb tagfree xs
  | YMap kvs => forallb (fun kv => let '(k, v) := kv in tagfree k && tagfree v) kvs
  | YTag _ _ => false
  | _ => true end.

(* no untagged node is reported, and the tree is left as it is *)
Theorem collect_tagfree : forall y path, tagfree y = true -> collect path y = Ok (y, []).
Proof.
  induction y as [| b | l | s | xs IH | kvs IH | t v IH] using yaml_ind'; intros path Ht; try reflexivity.
  - cbn [collect]. cbn [tagfree] in Ht.
    assert (Hgo : forall i, (fix go (i : nat) (l : list yaml) : res (list yaml * list string) :=
                 match l with
                 | [] => Ok ([], [])
                 | x :: rest =>
                     do (x', ps) <- collect (path ++ [show_nat i]) x;
                     do x'' <- match x' with
                               | YTag t inner => if String.eqb t sd_tag
                                                 then match inner with YStr s => Ok (YStr s) | _ => Err end
                                                 else Ok x'
                               | _ => Ok x' end;
                     do (rest', ps') <- go (S i) rest;
                     Ok (x'' :: rest', (ps ++ ps')%list)
                 end) i xs = Ok (xs, [])).
    { induction IH as [|x r Hx _ IHr]; intros i; [reflexivity|].
      cbn [forallb] in Ht. apply andb_true_iff in Ht as [Htx Htr].
      rewrite (Hx _ Htx). cbn [bind]. destruct x; try discriminate; cbn [bind]; rewrite (IHr Htr (S i)); reflexivity. }
    rewrite Hgo. reflexivity.
  - cbn [collect]. cbn [tagfree] in Ht.
    assert (Hgo : (fix go (l : list (yaml * yaml)) : res (list (yaml * yaml) * list string) :=
                 match l with
                 | [] => Ok ([], [])
                 | (k, v) :: rest =>
                     match k with
                     | YTag t kv =>
                         if String.eqb t sd_tag then
                           match kv with
                           | YStr ks =>
                               do (v', ps) <- collect (path ++ [ks]) v;
                               do (rest', ps') <- go rest;
                               Ok ((YStr ks, v') :: rest', (ps ++ [render_segs (path ++ [ks])] ++ ps')%list)
                           | _ => Err end
                         else do (rest', ps') <- go rest; Ok ((k, v) :: rest', ps')
                     | YStr ks =>
                         do (v', ps) <- collect (path ++ [ks]) v;
                         do (rest', ps') <- go rest;
                         Ok ((k, v') :: rest', (ps ++ ps')%list)
                     | _ => do (rest', ps') <- go rest; Ok ((k, v) :: rest', ps')
                     end
                 end) kvs = Ok (kvs, [])).
    { induction IH as [|[k v] r [Hk Hv] _ IHr]; [reflexivity|].
      cbn [forallb] in Ht. apply andb_true_iff in Ht as [Htx Htr]. apply andb_true_iff in Htx as [Htk Htv].
      cbn [fst snd] in Hk, Hv.
      destruct k; try discriminate; try (rewrite (IHr Htr); reflexivity).
      rewrite (Hv _ Htv). cbn [bind]. rewrite (IHr Htr). reflexivity. }
    rewrite Hgo. reflexivity.
  - discriminate.
Qed.
