(* YAML tag collection (C15). *)
From Coq Require Import List String Ascii Bool Arith Lia.
Import ListNotations.
Require Import SDJ.Json SDJ.Wire SDJ.Model2 SDJ.Yaml.
Local Open Scope string_scope.

Section yaml_ind.
  Variable P : yaml -> Prop.
  Hypothesis Hnull : P YNull.
  Hypothesis Hbool : forall b, P (YBool b).
  Hypothesis Hnum : forall l, P (YNum l).
  Hypothesis Hstr : forall s, P (YStr s).
  Hypothesis Hseq : forall xs, Forall P xs -> P (YSeq xs).
  Hypothesis Hmap : forall kvs, Forall (fun kv => P (fst kv) /\ P (snd kv)) kvs -> P (YMap kvs).
  Hypothesis Htag : forall t v, P v -> P (YTag t v).
  Fixpoint yaml_ind' (y : yaml) : P y :=
    match y with
    | YNull => Hnull | YBool b => Hbool b | YNum l => Hnum l | YStr s => Hstr s
    | YSeq xs => Hseq xs ((fix go (l : list yaml) : Forall P l :=
                   match l with [] => Forall_nil _ | x :: r => Forall_cons _ (yaml_ind' x) (go r) end) xs)
    | YMap kvs => Hmap kvs ((fix go (l : list (yaml * yaml)) : Forall (fun kv => P (fst kv) /\ P (snd kv)) l :=
                   match l with [] => Forall_nil _ | (k, v) :: r => Forall_cons (k, v) (conj (yaml_ind' k) (yaml_ind' v)) (go r) end) kvs)
    | YTag t v => Htag t v (yaml_ind' v)
    end.
End yaml_ind.

(* no tag anywhere *)
Fixpoint tagfree (y : yaml) : bool :=
  match y with
  | YSeq xs => forallb tagfree xs
  | YMap kvs => forallb (fun kv => let '(k, v) := kv in tagfree k && tagfree v) kvs
  | YTag _ _ => false
  | _ => true end.

(* no untagged node is reported, and the tree is left as it is *)
Theorem collect_tagfree : forall y path, tagfree y = true -> collect path y = Ok (y, []).
Proof.
  induction y as [| b | l | s | xs IH | kvs IH | t v IH] using yaml_ind'; intros path Ht; try reflexivity.
  - cbn [collect]. cbn [tagfree] in Ht.
    assert (Hgo : forall i, (fix go (i : nat) (l : list yaml) : res (list yaml * list string) :=
                 match l with
                 | [] => Ok ([], [])
                 | x :: rest =>
                     do (x', ps) <- collect (path ++ [show_nat i]) x;
                     do x'' <- match x' with
                               | YTag t inner => if String.eqb t sd_tag
                                                 then match inner with YStr s => Ok (YStr s) | _ => Err end
                                                 else Ok x'
                               | _ => Ok x' end;
                     do (rest', ps') <- go (S i) rest;
                     Ok (x'' :: rest', (ps ++ ps')%list)
                 end) i xs = Ok (xs, [])).
    { induction IH as [|x r Hx _ IHr]; intros i; [reflexivity|].
      cbn [forallb] in Ht. apply andb_true_iff in Ht as [Htx Htr].
      rewrite (Hx _ Htx). cbn [bind]. destruct x; try discriminate; cbn [bind]; rewrite (IHr Htr (S i)); reflexivity. }
    rewrite Hgo. reflexivity.
  - cbn [collect]. cbn [tagfree] in Ht.
    assert (Hgo : (fix go (l : list (yaml * yaml)) : res (list (yaml * yaml) * list string) :=
                 match l with
                 | [] => Ok ([], [])
                 | (k, v) :: rest =>
                     match k with
                     | YTag t kv =>
                         if String.eqb t sd_tag then
                           match kv with
                           | YStr ks =>
                               do (v', ps) <- collect (path ++ [esc_tok ks]) v;
                               do (rest', ps') <- go rest;
                               Ok ((YStr ks, v') :: rest', (ps ++ [render_segs (path ++ [esc_tok ks])] ++ ps')%list)
                           | _ => Err end
                         else
                           match key_name k with
                           | Some n =>
                               do (v', ps) <- collect (path ++ [esc_tok n]) v;
                               do (rest', ps') <- go rest;
                               Ok ((k, v') :: rest', (ps ++ ps')%list)
                           | None => do (rest', ps') <- go rest; Ok ((k, v) :: rest', ps') end
                     | YStr ks =>
                         do (v', ps) <- collect (path ++ [esc_tok ks]) v;
                         do (rest', ps') <- go rest;
                         Ok ((k, v') :: rest', (ps ++ ps')%list)
                     | _ =>
                         match key_name k with
                         | Some n =>
                             do (v', ps) <- collect (path ++ [esc_tok n]) v;
                             do (rest', ps') <- go rest;
                             Ok ((k, v') :: rest', (ps ++ ps')%list)
                         | None => do (rest', ps') <- go rest; Ok ((k, v) :: rest', ps') end
                     end
                 end) kvs = Ok (kvs, [])).
    { induction IH as [|[k v] r [Hk Hv] _ IHr]; [reflexivity|].
      cbn [forallb] in Ht. apply andb_true_iff in Ht as [Htx Htr]. apply andb_true_iff in Htx as [Htk Htv].
      cbn [fst snd] in Hk, Hv.
      destruct k as [| b | l | ks | xs | kvs' | t kv]; try discriminate; cbn [key_name];
        try (rewrite (IHr Htr); reflexivity);
        try (rewrite (Hv _ Htv); cbn [bind]; rewrite (IHr Htr); reflexivity).
      destruct b; rewrite (Hv _ Htv); cbn [bind]; rewrite (IHr Htr); reflexivity. }
    rewrite Hgo. reflexivity.
  - discriminate.
Qed.

(* ---------- the main theorem: a document built from claims j and a set of tagged nodes ---------- *)
Section Tagged.
Variable marked : list string -> bool.     (* which nodes carry the !sd tag, by path segments *)

(* the value tree of the YAML document: tags on mapping keys anywhere, on sequence items that are strings *)
Fixpoint ytree (path : list string) (j : json) : yaml :=
  match j with
  | JNull => YNull | JBool b => YBool b | JNum l => YNum l | JStr s => YStr s
  | JArr xs => YSeq ((fix go (i : nat) (l : list json) : list yaml :=
        match l with
        | [] => []
        | x :: r =>
            (match x with
             | JStr s => if marked (path ++ [show_nat i]) then YTag sd_tag (YStr s) else YStr s
             | _ => ytree (path ++ [show_nat i]) x end) :: go (S i) r
        end) 0 xs)
  | JObj kvs => YMap ((fix go (l : list (string * json)) : list (yaml * yaml) :=
        match l with
        | [] => []
        | (k, v) :: r => ((if marked (path ++ [esc_tok k]) then YTag sd_tag (YStr k) else YStr k), ytree (path ++ [esc_tok k]) v) :: go r
        end) kvs)
  end.

(* the same document without any tag *)
Fixpoint yplain (j : json) : yaml :=
  match j with
  | JNull => YNull | JBool b => YBool b | JNum l => YNum l | JStr s => YStr s
  | JArr xs => YSeq (map yplain xs)
  | JObj kvs => YMap (map (fun kv => let '(k, v) := kv in (YStr k, yplain v)) kvs)
  end.

(* the JSON pointers of the tagged nodes, nested ones before the node that encloses them *)
Fixpoint epaths (path : list string) (j : json) : list string :=
  match j with
  | JArr xs => (fix go (i : nat) (l : list json) : list string :=
        match l with
        | [] => []
        | x :: r =>
            ((match x with
              | JStr _ => if marked (path ++ [show_nat i]) then [render_segs (path ++ [show_nat i])] else []
              | _ => epaths (path ++ [show_nat i]) x end) ++ go (S i) r)%list
        end) 0 xs
  | JObj kvs => (fix go (l : list (string * json)) : list string :=
        match l with
        | [] => []
        | (k, v) :: r =>
            ((epaths (path ++ [esc_tok k]) v ++ (if marked (path ++ [esc_tok k]) then [render_segs (path ++ [esc_tok k])] else [])) ++ go r)%list
        end) kvs
  | _ => [] end.

Theorem collect_ytree : forall j path, collect path (ytree path j) = Ok (yplain j, epaths path j).
Proof.
  induction j as [| b | l | s | xs IH | kvs IH] using json_ind'; intros path; try reflexivity.
  - (* sequences *)
    cbn [ytree collect yplain epaths].
    set (goy := fix go (i : nat) (l : list json) : list yaml :=
            match l with
            | [] => []
            | x :: r => (match x with
                         | JStr s => if marked (path ++ [show_nat i]) then YTag sd_tag (YStr s) else YStr s
                         | _ => ytree (path ++ [show_nat i]) x end) :: go (S i) r
            end).
    set (goe := fix go (i : nat) (l : list json) : list string :=
               match l with
               | [] => []
               | x :: r => ((match x with
                             | JStr _ => if marked (path ++ [show_nat i]) then [render_segs (path ++ [show_nat i])] else []
                             | _ => epaths (path ++ [show_nat i]) x end) ++ go (S i) r)%list
               end).
    set (loop := fix go (i : nat) (l : list yaml) : res (list yaml * list string) :=
         match l with
         | [] => Ok ([], [])
         | x :: rest =>
             do (x', ps) <- collect (path ++ [show_nat i]) x;
             do x'' <- match x' with
                       | YTag t inner => if String.eqb t sd_tag then match inner with YStr s => Ok (YStr s) | _ => Err end else Ok x'
                       | _ => Ok x' end;
             do (rest', ps') <- go (S i) rest;
             Ok (x'' :: rest', (ps ++ ps')%list)
         end).
    assert (Hgo : forall i, loop i (goy i xs) = Ok (map yplain xs, goe i xs)).
    { induction IH as [|x r Hx _ IHr]; intros i; [reflexivity|].
      change (goy i (x :: r)) with ((match x with
                         | JStr s => if marked (path ++ [show_nat i]) then YTag sd_tag (YStr s) else YStr s
                         | _ => ytree (path ++ [show_nat i]) x end) :: goy (S i) r).
      change (goe i (x :: r)) with ((match x with
                             | JStr _ => if marked (path ++ [show_nat i]) then [render_segs (path ++ [show_nat i])] else []
                             | _ => epaths (path ++ [show_nat i]) x end) ++ goe (S i) r)%list.
      match goal with |- loop i (?y :: ?ys) = _ =>
        change (loop i (y :: ys)) with
          (do (x', ps) <- collect (path ++ [show_nat i]) y;
           do x'' <- match x' with
                     | YTag t inner => if String.eqb t sd_tag then match inner with YStr s => Ok (YStr s) | _ => Err end else Ok x'
                     | _ => Ok x' end;
           do (rest', ps') <- loop (S i) ys;
           Ok (x'' :: rest', (ps ++ ps')%list)) end.
      rewrite (IHr (S i)). cbn [map].
      destruct x as [| b | l | s | ys | kvs0].
      + reflexivity.
      + reflexivity.
      + reflexivity.
      + destruct (marked (path ++ [show_nat i])); reflexivity.
      + rewrite (Hx (path ++ [show_nat i])%list). reflexivity.
      + rewrite (Hx (path ++ [show_nat i])%list). reflexivity. }
    rewrite Hgo. reflexivity.
  - (* mappings *)
    cbn [ytree collect yplain epaths].
    set (goy := fix go (l : list (string * json)) : list (yaml * yaml) :=
            match l with
            | [] => []
            | (k, v) :: r => ((if marked (path ++ [esc_tok k]) then YTag sd_tag (YStr k) else YStr k), ytree (path ++ [esc_tok k]) v) :: go r
            end).
    set (goe := fix go (l : list (string * json)) : list string :=
               match l with
               | [] => []
               | (k, v) :: r => ((epaths (path ++ [esc_tok k]) v ++ (if marked (path ++ [esc_tok k]) then [render_segs (path ++ [esc_tok k])] else [])) ++ go r)%list
               end).
    set (loop := fix go (l : list (yaml * yaml)) : res (list (yaml * yaml) * list string) :=
         match l with
         | [] => Ok ([], [])
         | (k, v) :: rest =>
             match k with
             | YTag t kv =>
                 if String.eqb t sd_tag then
                   match kv with
                   | YStr ks =>
                       do (v', ps) <- collect (path ++ [esc_tok ks]) v;
                       do (rest', ps') <- go rest;
                       Ok ((YStr ks, v') :: rest', (ps ++ [render_segs (path ++ [esc_tok ks])] ++ ps')%list)
                   | _ => Err end
                 else
                   match key_name k with
                   | Some n =>
                       do (v', ps) <- collect (path ++ [esc_tok n]) v;
                       do (rest', ps') <- go rest;
                       Ok ((k, v') :: rest', (ps ++ ps')%list)
                   | None => do (rest', ps') <- go rest; Ok ((k, v) :: rest', ps') end
             | YStr ks =>
                 do (v', ps) <- collect (path ++ [esc_tok ks]) v;
                 do (rest', ps') <- go rest;
                 Ok ((k, v') :: rest', (ps ++ ps')%list)
             | _ =>
                 match key_name k with
                 | Some n =>
                     do (v', ps) <- collect (path ++ [esc_tok n]) v;
                     do (rest', ps') <- go rest;
                     Ok ((k, v') :: rest', (ps ++ ps')%list)
                 | None => do (rest', ps') <- go rest; Ok ((k, v) :: rest', ps') end
             end
         end).
    assert (Hgo : loop (goy kvs) = Ok (map (fun kv : string * json => let '(k, v) := kv in (YStr k, yplain v)) kvs, goe kvs)).
    { induction IH as [|[k v] r Hv _ IHr]; [reflexivity|]. cbn [snd] in Hv.
      change (goy ((k, v) :: r)) with (((if marked (path ++ [esc_tok k]) then YTag sd_tag (YStr k) else YStr k), ytree (path ++ [esc_tok k]) v) :: goy r).
      change (goe ((k, v) :: r)) with ((epaths (path ++ [esc_tok k]) v ++ (if marked (path ++ [esc_tok k]) then [render_segs (path ++ [esc_tok k])] else [])) ++ goe r)%list.
      cbn [map].
      destruct (marked (path ++ [esc_tok k])).
      - change (loop ((YTag sd_tag (YStr k), ytree (path ++ [esc_tok k]) v) :: goy r)) with
          (if String.eqb sd_tag sd_tag then
             do (v', ps) <- collect (path ++ [esc_tok k]) (ytree (path ++ [esc_tok k]) v);
             do (rest', ps') <- loop (goy r);
             Ok ((YStr k, v') :: rest', (ps ++ [render_segs (path ++ [esc_tok k])] ++ ps')%list)
           else do (rest', ps') <- loop (goy r); Ok ((YTag sd_tag (YStr k), ytree (path ++ [esc_tok k]) v) :: rest', ps')).
        rewrite String.eqb_refl, (Hv (path ++ [esc_tok k])%list), IHr. cbn [bind]. rewrite <- !app_assoc. reflexivity.
      - change (loop ((YStr k, ytree (path ++ [esc_tok k]) v) :: goy r)) with
          (do (v', ps) <- collect (path ++ [esc_tok k]) (ytree (path ++ [esc_tok k]) v);
           do (rest', ps') <- loop (goy r);
           Ok ((YStr k, v') :: rest', (ps ++ ps')%list)).
        rewrite (Hv (path ++ [esc_tok k])%list), IHr. cbn [bind]. rewrite app_nil_r. reflexivity. }
    rewrite Hgo. reflexivity.
Qed.
End Tagged.

(* converting the untagged tree gives back the claims (objects with strictly sorted keys) *)
Require Import SDJ.T2b SDJ.T1e.
From Coq Require Import Sorting.Sorted.

Lemma obj_insert_last k v (kvs : list (string * json)) :
  Forall (fun kv => slt (fst kv) k) kvs -> obj_insert k v kvs = (kvs ++ [(k, v)])%list.
Proof.
  induction kvs as [|[k' v'] r IH]; intros HF; [reflexivity|]. inversion HF as [|? ? Hlt Hr]; subst. cbn [fst] in Hlt.
  cbn [obj_insert]. rewrite (slt_gt _ _ Hlt). rewrite IH by assumption. reflexivity.
Qed.

Lemma fold_insert_sorted : forall (l acc : list (string * json)),
  StronglySorted slt (map fst (acc ++ l)) ->
  fold_left (fun a kv => obj_insert (fst kv) (snd kv) a) l acc = (acc ++ l)%list.
Proof.
  induction l as [|[k v] r IH]; intros acc Hs; [rewrite app_nil_r; reflexivity|].
  cbn [fold_left fst snd]. rewrite obj_insert_last.
  - rewrite IH.
    + rewrite <- app_assoc. reflexivity.
    + rewrite <- app_assoc. exact Hs.
  - rewrite map_app in Hs. cbn [map fst] in Hs. apply ssorted_split in Hs as [Hlt _].
    apply Forall_forall. intros kv Hkv. rewrite Forall_forall in Hlt. apply (Hlt (fst kv)). apply (in_map fst). exact Hkv.
Qed.

Theorem to_json_yplain : forall j, jwf j -> to_json (yplain j) = Ok j.
Proof.
  induction j as [| b | l | s | xs IH | kvs IH] using json_ind'; intros Hw; try reflexivity.
  - inversion Hw as [| | | | ? Hall |]; subst. cbn [yplain to_json].
    assert (Hgo : (fix go (l : list yaml) : res (list json) :=
                     match l with [] => Ok [] | x :: r => do j <- to_json x; do r' <- go r; Ok (j :: r') end) (map yplain xs) = Ok xs).
    { clear Hw. induction IH as [|x r Hx _ IHr]; [reflexivity|]. inversion Hall as [|? ? Hjx Hjr]; subst. cbn [map]. rewrite (Hx Hjx). cbn [bind].
      rewrite (IHr Hjr). reflexivity. }
    rewrite Hgo. reflexivity.
  - inversion Hw as [| | | | | ? Hs Hall]; subst. cbn [yplain to_json].
    assert (Hst : singleton_tagged_key (map (fun kv : string * json => let '(k, v) := kv in (YStr k, yplain v)) kvs) = false).
    { destruct kvs as [|[k v] [|[k2 v2] r]]; reflexivity. }
    rewrite Hst.
    assert (Hgo : (fix go (l : list (yaml * yaml)) : res (list (string * json)) :=
                     match l with
                     | [] => Ok []
                     | (YStr k, v) :: r => do j <- to_json v; do r' <- go r; Ok ((k, j) :: r')
                     | (k, v) :: r => match key_name k with
                                      | Some n => do j <- to_json v; do r' <- go r; Ok ((n, j) :: r')
                                      | None => Err end
                     end) (map (fun kv : string * json => let '(k, v) := kv in (YStr k, yplain v)) kvs) = Ok kvs).
    { clear Hs Hw Hst. induction IH as [|[k v] r Hv _ IHr]; [reflexivity|]. inversion Hall as [|? ? H1 H2]; subst. cbn [snd fst] in *.
      cbn [map]. rewrite Hv by tauto. cbn [bind]. rewrite (IHr H2). reflexivity. }
    rewrite Hgo. cbn [bind]. rewrite (fold_insert_sorted kvs []); [reflexivity|exact Hs].
Qed.

(* parse_yaml on the tree of a document built from well-formed claims and any set of tags: the claims come
   back, and the paths are exactly the tagged nodes, nested ones first *)
(* a document built from well-formed claims has no two keys that coincide once the tags are removed: the keys of
   every object are strictly sorted, hence distinct *)
Lemma has_dup_sorted l : StronglySorted slt l -> has_dup l = false.
Proof.
  induction l as [|x r IH]; intros Hs; [reflexivity|]. inversion Hs as [|? ? Hr Hx]; subst.
  cbn [has_dup]. rewrite (IH Hr), orb_false_r.
  apply not_true_is_false. intros E. apply existsb_exists in E as [y [Hy Ey]]. apply String.eqb_eq in Ey. subst y.
  rewrite Forall_forall in Hx. exact (slt_irrefl _ (Hx _ Hy)).
Qed.

Lemma clash_ytree marked : forall j path, jwf j -> clash (ytree marked path j) = false.
Proof.
  induction j as [| b | l | s | xs IH | kvs IH] using json_ind'; intros path Hw; try reflexivity.
  - inversion Hw as [| | | | ? Hall |]; subst. cbn [ytree clash]. clear Hw.
    generalize 0 as i. induction IH as [|x r Hx _ IHr]; intros i; [reflexivity|].
    inversion Hall as [|? ? Hjx Hjr]; subst. cbn [existsb]. rewrite (IHr Hjr (S i)), orb_false_r.
    destruct x as [| b | l | s | ys | kvs].
    + reflexivity.
    + reflexivity.
    + reflexivity.
    + destruct (marked (path ++ [show_nat i])%list); reflexivity.
    + apply (Hx (path ++ [show_nat i])%list Hjx).
    + apply (Hx (path ++ [show_nat i])%list Hjx).
  - inversion Hw as [| | | | | ? Hs Hall]; subst. cbn [ytree clash].
    set (goy := fix go (l : list (string * json)) : list (yaml * yaml) :=
            match l with
            | [] => []
            | (k, v) :: r => ((if marked (path ++ [esc_tok k])%list then YTag sd_tag (YStr k) else YStr k), ytree marked (path ++ [esc_tok k])%list v) :: go r
            end).
    assert (Hnames : flat_map (fun kv : yaml * yaml => let '(k, _) := kv in match member_name k with Some s => [s] | None => [] end) (goy kvs) = map fst kvs).
    { clear. induction kvs as [|[k v] r IHr]; [reflexivity|]. cbn [goy flat_map map fst]. fold goy. rewrite IHr.
      destruct (marked (path ++ [esc_tok k])%list); unfold member_name; cbn [stripped_name]; [rewrite String.eqb_refl|]; reflexivity. }
    rewrite Hnames, (has_dup_sorted _ Hs). cbn [orb].
    clear Hnames Hs Hw. induction IH as [|[k v] r Hv _ IHr]; [reflexivity|].
    inversion Hall as [|? ? H1 H2]; subst. cbn [snd fst] in *. cbn [goy existsb]. fold goy.
    rewrite (IHr H2), orb_false_r. apply Hv. tauto.
Qed.

Theorem parse_yaml_tagged marked j : jwf j ->
  parse_yaml_tree (ytree marked [] j) = Ok (j, epaths marked [] j).
Proof.
  intros Hw. unfold parse_yaml_tree. rewrite (clash_ytree marked j [] Hw).
  rewrite collect_ytree. cbn [bind]. rewrite to_json_yplain by assumption. reflexivity.
Qed.

(* repairs F25 / F26 at the level of the model: a tag below a scalar key that is not a string is reported under the
   member name the conversion gives that key, and a key that collides with another one once its tag is removed is an error *)
Example tag_below_number_key :
  parse_yaml_tree (YMap [(YStr "sub", YStr "x"); (YNum "1", YMap [(YTag sd_tag (YStr "a"), YStr "b"); (YStr "c", YStr "d")])])
  = Ok (JObj [("1", JObj [("a", JStr "b"); ("c", JStr "d")]); ("sub", JStr "x")], ["/1/a"]).
Proof. reflexivity. Qed.
Example tagged_key_collides :
  parse_yaml_tree (YMap [(YTag sd_tag (YStr "a"), YMap [(YTag sd_tag (YStr "b"), YNum "1")]); (YStr "a", YNum "2")]) = Err.
Proof. reflexivity. Qed.
