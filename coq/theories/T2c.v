From Coq Require Import List String Ascii Bool Arith Lia Sorting.Sorted.
Import ListNotations.
Require Import SDJ.Json SDJ.Model2 SDJ.ATree SDJ.T2a SDJ.T2b.
Local Open Scope string_scope.

Section C.
Variable H : string -> string.
Variable enc : list json -> string.
Notation blind := (blind H enc).
Notation view := (view H enc).
Notation dig_item := (dig_item H enc).
Notation dig_mem := (dig_mem H enc).
Notation hdigs := (hdigs H enc).
Notation view_item := (view_item H enc).
Notation view_mem := (view_mem H enc).

Definition adigs_item (alldigs : atree -> list string) (it : ikind * atree) : list string :=
  let '(k, s) := it in
  match k with IPlain => alldigs s | IHid salt => dig_item salt s :: alldigs s | IDecoy g => [g] end.
Definition adigs_mem (alldigs : atree -> list string) (m : string * (mkind * atree)) : list string :=
  let '(name, (k, s)) := m in
  match k with MPlain => alldigs s | MHid salt => alldigs s | MSd l => l end.

Fixpoint alldigs (t : atree) : list string :=
  match t with
  | ALeaf _ => []
  | AArr items => flat_map (fun it => let '(k, s) := it in
       match k with IPlain => alldigs s | IHid salt => dig_item salt s :: alldigs s | IDecoy g => [g] end) items
  | AObj mems => flat_map (fun m => let '(name, (k, s)) := m in
       match k with MPlain => alldigs s | MHid salt => alldigs s | MSd l => l end) mems
  end.
Lemma alldigs_arr items : alldigs (AArr items) = flat_map (adigs_item alldigs) items.
Proof. reflexivity. Qed.
Lemma alldigs_obj mems : alldigs (AObj mems) = flat_map (adigs_mem alldigs) mems.
Proof. reflexivity. Qed.

Definition scalar (j : json) : Prop := match j with JArr _ | JObj _ => False | _ => True end.
Definition sd_of (mems : list (string * (mkind * atree))) : list string :=
  flat_map (fun m => match fst (snd m) with MSd l => l | _ => [] end) mems.

Definition mem_ok (mems : list (string * (mkind * atree))) (m : string * (mkind * atree)) : Prop :=
  let '(name, (k, s)) := m in
  name <> "..." /\
  match k with
  | MSd _ => name = "_sd" /\ s = ALeaf JNull
  | MPlain => name <> "_sd"
  | MHid salt => name <> "_sd" /\ In (dig_mem salt name s) (sd_of mems) end.

Definition item_ok (it : ikind * atree) : Prop :=
  match fst it with IDecoy _ => snd it = ALeaf JNull | _ => True end.

Inductive wf : atree -> Prop :=
| wf_leaf j : scalar j -> wf (ALeaf j)
| wf_arr items : Forall (fun it => wf (snd it)) items -> Forall item_ok items -> wf (AArr items)
| wf_obj mems :
    StronglySorted slt (map fst mems) ->
    Forall (fun m => wf (snd (snd m))) mems ->
    Forall (mem_ok mems) mems ->
    wf (AObj mems).

(* height bound of any view *)
Fixpoint aheight (t : atree) : nat :=
  match t with
  | ALeaf _ => 1
  | AArr items => S (fold_right (fun it m => Nat.max (let '(k, s) := it in
        match k with IPlain => aheight s | _ => Nat.max 2 (aheight s) end) m) 0 items)
  | AObj mems => S (fold_right (fun mm m => Nat.max (let '(name, (k, s)) := mm in
        match k with MSd _ => 2 | _ => aheight s end) m) 0 mems)
  end.

(* A1/A2: views depend on R only through the hidden digests of the tree *)
Lemma view_ext R R' : forall t, (forall g, In g (hdigs t) -> R g = R' g) -> view R t = view R' t.
Proof.
  induction t as [j | items IH | mems IH] using atree_ind'; intros Hx; [reflexivity| |].
  - cbn. f_equal. apply map_ext_in. intros [k s] Hin.
    rewrite Forall_forall in IH. specialize (IH _ Hin). cbn in IH.
    assert (Hsub : forall g, In g (hdigs s) -> R g = R' g).
    { intros g Hg. apply Hx. cbn. apply in_flat_map. exists (k, s). split; [assumption|].
      destruct k; cbn; auto. }
    destruct k as [|salt|g]; [auto| |reflexivity].
    rewrite <- (Hx (dig_item salt s)).
    + destruct (R (dig_item salt s)); auto.
    + cbn. apply in_flat_map. exists (IHid salt, s). split; [assumption|]. left. reflexivity.
  - cbn. rewrite Forall_forall in IH.
    assert (Hall : forall m, In m mems -> view_mem (view R) R m = view_mem (view R') R' m).
    { intros [name [k s]] Hin. specialize (IH _ Hin). cbn in IH.
      assert (Hsub : forall g, In g (hdigs s) -> R g = R' g).
      { intros g Hg. apply Hx. cbn. apply in_flat_map. exists (name, (k, s)). split; [assumption|].
        destruct k; cbn; auto. }
      destruct k as [|salt|l]; cbn; [rewrite IH by assumption; reflexivity| |reflexivity].
      rewrite <- (Hx (dig_mem salt name s)).
      + destruct (R (dig_mem salt name s)); [rewrite IH by assumption|]; reflexivity.
      + cbn. apply in_flat_map. exists (name, (MHid salt, s)). split; [assumption|]. left. reflexivity. }
    f_equal. clear -Hall. induction mems as [|m r IHr]; [reflexivity|].
    change (view_mem (view R) R m ++ flat_map (view_mem (view R) R) r = view_mem (view R') R' m ++ flat_map (view_mem (view R') R') r)%list.
    rewrite Hall by (left; reflexivity).
    f_equal. apply IHr. intros; apply Hall; right; assumption.
Qed.

Lemma view_R0_blind : forall t, view R0 t = blind t.
Proof.
  induction t as [j | items IH | mems IH] using atree_ind'; [reflexivity| |].
  - cbn. f_equal. apply map_ext_in. intros [k s] Hin. rewrite Forall_forall in IH. specialize (IH _ Hin).
    destruct k; cbn in *; auto.
  - cbn. f_equal. rewrite Forall_forall in IH.
    induction mems as [|[name [k s]] r IHr]; [reflexivity|].
    cbn [flat_map]. rewrite IHr by (intros; apply IH; right; assumption).
    specialize (IH _ (or_introl eq_refl)). cbn in IH. destruct k; cbn; rewrite ?IH; reflexivity.
Qed.

Lemma view_blind R t : (forall g, In g (hdigs t) -> R g = false) -> view R t = blind t.
Proof. intros Hx. rewrite <- view_R0_blind. apply view_ext. intros g Hg. rewrite Hx by assumption. reflexivity. Qed.


Lemma forallb_map {A B} (f : A -> B) p l : forallb p (map f l) = forallb (fun x => p (f x)) l.
Proof. induction l; cbn; congruence. Qed.
Lemma existsb_map {A B} (f : A -> B) p l : existsb p (map f l) = existsb (fun x => p (f x)) l.
Proof. induction l; cbn; congruence. Qed.

(* A4: views are bookkeeping-well-formed *)
Lemma scalar_sdwf j : scalar j -> sdwf j = true.
Proof. destruct j; cbn; tauto. Qed.

Lemma sdwf_placeholder g : sdwf (placeholder g) = true.
Proof. reflexivity. Qed.

Lemma keys_view_mems R (mems : list (string * (mkind * atree))) k :
  In k (map fst (flat_map (view_mem (view R) R) mems)) -> In k (map fst mems).
Proof.
  induction mems as [|[name [mk s]] r IH]; cbn [flat_map map]; [intros []|].
  rewrite map_app, in_app_iff. intros [Hk|Hk]; [|right; auto].
  left. destruct mk as [|salt|l]; cbn in Hk.
  - destruct Hk as [<-|[]]. reflexivity.
  - destruct (R (dig_mem salt name s)); cbn in Hk; [destruct Hk as [<-|[]]; reflexivity|destruct Hk].
  - destruct Hk as [<-|[]]. reflexivity.
Qed.

Lemma sdwf_view R : forall t, wf t -> sdwf (view R t) = true.
Proof.
  induction t as [j | items IH | mems IH] using atree_ind'; intros Hwf.
  - inversion Hwf; subst. apply scalar_sdwf. assumption.
  - inversion Hwf as [| ? Hall Hiok |]; subst. cbn. rewrite forallb_map.
    apply forallb_forall. intros [k s] Hin.
    rewrite Forall_forall in IH, Hall. specialize (IH _ Hin). specialize (Hall _ Hin). cbn in IH, Hall.
    destruct k as [|salt|g]; [auto| |reflexivity].
    destruct (R (dig_item salt s)); [auto|reflexivity].
  - inversion Hwf as [| | ? Hs Hall Hok]; subst.
    rewrite view_obj, sdwf_obj. apply andb_true_iff. split.
    + rewrite obj_get_none; [reflexivity|]. intros Hk. apply keys_view_mems in Hk.
      apply in_map_iff in Hk as [[name [mk s]] [Hn Hin]]. cbn in Hn. subst name.
      rewrite Forall_forall in Hok. specialize (Hok _ Hin). cbn in Hok. tauto.
    + apply forallb_forall. intros [k v] Hin. apply in_flat_map in Hin as [[name [mk s]] [Hm Hin]].
      rewrite Forall_forall in IH, Hall, Hok.
      specialize (IH _ Hm). specialize (Hall _ Hm). specialize (Hok _ Hm). cbn in IH, Hall, Hok.
      destruct Hok as [_ Hok].
      destruct mk as [|salt|l]; cbn in Hin.
      * destruct Hin as [Hq|[]]. injection Hq as <- <-. cbn.
        destruct (String.eqb_spec name "_sd"); [contradiction|]. auto.
      * destruct (R (dig_mem salt name s)); cbn in Hin; [|destruct Hin].
        destruct Hin as [Hq|[]]. injection Hq as <- <-. cbn.
        destruct (String.eqb_spec name "_sd"); [tauto|]. auto.
      * destruct Hin as [Hq|[]]. injection Hq as <- <-. destruct Hok as [-> _]. cbn.
        rewrite forallb_map. apply forallb_forall. reflexivity.
Qed.

(* A3: every digest visible in a view is one of the tree's digests *)
Lemma occurs_strs g l : occurs g (JArr (map JStr l)) = false.
Proof. cbn. induction l; cbn; auto. Qed.
Lemma existsb_strs g l : existsb (fun x => json_eqb_str x g) (map JStr l) = true -> In g l.
Proof. induction l as [|a r IH]; cbn; [discriminate|]. destruct (String.eqb_spec a g); auto. Qed.

Lemma occurs_view R g : forall t, wf t -> occurs g (view R t) = true -> In g (alldigs t).
Proof.
  induction t as [j | items IH | mems IH] using atree_ind'; intros Hwf Ho.
  - inversion Hwf; subst. destruct j; cbn in *; try discriminate; tauto.
  - inversion Hwf as [| ? Hall Hiok |]; subst. cbn in Ho. rewrite existsb_map in Ho.
    apply existsb_exists in Ho as [[k s] [Hin Ho]].
    rewrite Forall_forall in IH, Hall. specialize (IH _ Hin). specialize (Hall _ Hin). cbn in IH, Hall.
    rewrite alldigs_arr. apply in_flat_map. exists (k, s). split; [assumption|].
    destruct k as [|salt|g']; cbn.
    + auto.
    + destruct (R (dig_item salt s)); [right; auto|].
      cbn in Ho. rewrite orb_false_r in Ho. rewrite orb_false_r in Ho. apply String.eqb_eq in Ho. left. assumption.
    + cbn in Ho. rewrite !orb_false_r in Ho. apply String.eqb_eq in Ho. left. assumption.
  - inversion Hwf as [| | ? Hs Hall Hok]; subst.
    rewrite view_obj, occurs_obj in Ho. apply existsb_exists in Ho as [[k v] [Hin Ho]].
    apply in_flat_map in Hin as [[name [mk s]] [Hm Hin]].
    rewrite Forall_forall in IH, Hall, Hok.
    specialize (IH _ Hm). specialize (Hall _ Hm). specialize (Hok _ Hm). cbn in IH, Hall, Hok.
    destruct Hok as [Hdots Hok].
    rewrite alldigs_obj. apply in_flat_map. exists (name, (mk, s)). split; [assumption|].
    assert (Hplain : forall v', (k, v) = (name, v') -> name <> "_sd" -> occurs g v' = true).
    { intros v' Hq Hn. injection Hq as -> ->. cbn in Ho.
      destruct (String.eqb_spec name "_sd"); [contradiction|].
      destruct (String.eqb_spec name "..."); [contradiction|]. exact Ho. }
    destruct mk as [|salt|l]; cbn in Hin |- *.
    + destruct Hin as [Hq|[]]. apply IH; [assumption|]. apply (Hplain _ (eq_sym Hq) Hok).
    + destruct (R (dig_mem salt name s)); cbn in Hin; [|destruct Hin].
      destruct Hin as [Hq|[]]. apply IH; [assumption|]. apply (Hplain _ (eq_sym Hq) (proj1 Hok)).
    + destruct Hin as [Hq|[]]. injection Hq as <- <-. destruct Hok as [-> _]. unfold occ_mem in Ho.
      rewrite String.eqb_refl, occurs_strs, orb_false_r in Ho. apply existsb_strs. exact Ho.
Qed.


(* A5: height of any view is bounded by aheight *)
Definition hmax {A} (f : A -> nat) (l : list A) : nat := fold_right (fun x m => Nat.max (f x) m) 0 l.
Lemma hmax_le {A} (f g : A -> nat) l : (forall x, In x l -> f x <= g x) -> hmax f l <= hmax g l.
Proof. induction l as [|x r IH]; cbn; intros Hx; [lia|]. specialize (Hx x (or_introl eq_refl)) as H1.
  assert (hmax f r <= hmax g r) by (apply IH; intros; apply Hx; right; assumption). unfold hmax in *. lia. Qed.
Lemma hmax_map {A B} (f : B -> nat) (h : A -> B) l : hmax f (map h l) = hmax (fun x => f (h x)) l.
Proof. induction l as [|x r IH]; cbn; [reflexivity|]. unfold hmax in IH. rewrite IH. reflexivity. Qed.
Lemma hmax_app {A} (f : A -> nat) l1 l2 : hmax f (l1 ++ l2) = Nat.max (hmax f l1) (hmax f l2).
Proof. induction l1 as [|x r IH]; cbn; [reflexivity|]. unfold hmax in *. rewrite IH. lia. Qed.
Lemma hmax_flat_map {A B} (f : B -> nat) (F : A -> list B) (g : A -> nat) l :
  (forall x, In x l -> hmax f (F x) <= g x) -> hmax f (flat_map F l) <= hmax g l.
Proof. induction l as [|x r IH]; cbn [flat_map]; intros Hx; [cbn; lia|].
  rewrite hmax_app. specialize (Hx x (or_introl eq_refl)) as H1.
  assert (hmax f (flat_map F r) <= hmax g r) by (apply IH; intros; apply Hx; right; assumption).
  cbn. unfold hmax in *. lia. Qed.

Lemma height_arr xs : height (JArr xs) = S (hmax height xs).
Proof. reflexivity. Qed.
Lemma height_obj kvs : height (JObj kvs) = S (hmax (fun kv : string * json => let '(_, v) := kv in height v) kvs).
Proof. reflexivity. Qed.
Lemma aheight_arr items : aheight (AArr items) = S (hmax (fun it : ikind * atree => let '(k, s) := it in
        match k with IPlain => aheight s | _ => Nat.max 2 (aheight s) end) items).
Proof. reflexivity. Qed.
Lemma aheight_obj mems : aheight (AObj mems) = S (hmax (fun mm : string * (mkind * atree) => let '(name, (k, s)) := mm in
        match k with MSd _ => 2 | _ => aheight s end) mems).
Proof. reflexivity. Qed.

Lemma height_strs l : height (JArr (map JStr l)) <= 2.
Proof. rewrite height_arr, hmax_map.
  assert (hmax (fun x : string => height (JStr x)) l <= 1); [|lia].
  induction l as [|a r IH]; [cbn; lia|]. change (Nat.max 1 (hmax (fun x : string => height (JStr x)) r) <= 1). lia. Qed.

Lemma height_placeholder g : height (placeholder g) = 2.
Proof. reflexivity. Qed.

Lemma height_view R : forall t, wf t -> height (view R t) <= aheight t.
Proof.
  induction t as [j | items IH | mems IH] using atree_ind'; intros Hwf.
  - inversion Hwf; subst. destruct j; cbn in *; try lia; tauto.
  - inversion Hwf as [| ? Hall Hiok |]; subst. rewrite view_arr, height_arr, aheight_arr, hmax_map.
    apply le_n_S. apply hmax_le. intros [k s] Hin.
    rewrite Forall_forall in IH, Hall. specialize (IH _ Hin (Hall _ Hin)). cbn in IH.
    destruct k as [|salt|g]; unfold ATree.view_item; cbv beta iota.
    + assumption.
    + destruct (R (dig_item salt s)); [lia|rewrite height_placeholder; lia].
    + rewrite height_placeholder; lia.
  - inversion Hwf as [| | ? Hs Hall Hok]; subst. rewrite view_obj, height_obj, aheight_obj.
    apply le_n_S. apply hmax_flat_map. intros [name [k s]] Hin.
    rewrite Forall_forall in IH, Hall. specialize (IH _ Hin (Hall _ Hin)). cbn in IH.
    destruct k as [|salt|l]; unfold ATree.view_mem; cbv beta iota.
    + cbn. lia.
    + destruct (R (dig_mem salt name s)); cbn; lia.
    + pose proof (height_strs l). unfold hmax. cbn [fold_right]. lia.
Qed.

End C.
