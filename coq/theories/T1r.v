(* C14, "valid => Ok": every marking whose paths resolve in the claims, listed so that no path comes after
   a path that addresses the same node or one of its ancestors, is accepted by the issuer's fold. *)
From Coq Require Import List String Ascii Bool Arith Lia Sorting.Sorted Permutation.
Import ListNotations.
Require Import SDJ.Json SDJ.Model2 SDJ.ATree SDJ.T2a SDJ.T2b SDJ.T2c SDJ.T2d SDJ.T2e SDJ.Issuer1 SDJ.T1a SDJ.T1b SDJ.T1c SDJ.T1d SDJ.T1e SDJ.T1f SDJ.T1g SDJ.T1h SDJ.T1i SDJ.T1j SDJ.T1m.
Local Open Scope string_scope.

(* the node a path addresses: member names and element positions from the root *)
Inductive step := SKey (k : string) | SIdx (i : nat).
Definition addr := list step.

Definition prefix (b a : addr) : Prop := exists c, a = (b ++ c)%list.

(* no address comes after itself or after one of its ancestors: descendants before ancestors, no repeats *)
Fixpoint ordered (l : list addr) : Prop :=
  match l with [] => True | a :: r => Forall (fun a' => ~ prefix a a') r /\ ordered r end.

Section R.
Variable H : string -> string.
Variable enc : list json -> string.
Variable parse_index : string -> option nat.
Variable parse_usize : string -> option nat.
Variable pos : string -> nat.
Notation wf := (wf H enc).
Notation mark := (mark H enc parse_index parse_usize pos).
Notation mark_fold := (T1j.mark_fold H enc parse_index parse_usize pos).
Notation add_sd := (T1a.add_sd pos).

Definition findm (tok : string) (mems : amems) := find (fun m : string * (mkind * atree) => String.eqb (fst m) tok) mems.

(* resolution of a path in the current annotated tree: every node on the way, and the addressed node, must
   still be in the clear *)
Fixpoint resolve (toks : list string) (key : string) (t : atree) : option addr :=
  match toks with
  | [] =>
      match t with
      | AArr items => match parse_usize key with
                      | Some i => match nth_error items i with Some (IPlain, _) => Some [SIdx i] | _ => None end
                      | None => None end
      | AObj mems => match findm key mems with Some (_, (MPlain, _)) => Some [SKey key] | _ => None end
      | ALeaf _ => None
      end
  | tok :: rest =>
      match t with
      | AObj mems => match findm tok mems with
                     | Some (_, (MPlain, s)) => option_map (cons (SKey tok)) (resolve rest key s)
                     | _ => None end
      | AArr items => match parse_index tok with
                      | Some i => match nth_error items i with
                                  | Some (IPlain, s) => option_map (cons (SIdx i)) (resolve rest key s)
                                  | _ => None end
                      | None => None end
      | ALeaf _ => None
      end
  end.

(* the same on plain JSON claims (what "the path addresses an existing member or element" means) *)
Fixpoint jresolve (toks : list string) (key : string) (j : json) : option addr :=
  match toks with
  | [] =>
      match j with
      | JArr xs => match parse_usize key with
                   | Some i => match nth_error xs i with Some _ => Some [SIdx i] | None => None end
                   | None => None end
      | JObj kvs => match obj_get key kvs with Some _ => Some [SKey key] | None => None end
      | _ => None
      end
  | tok :: rest =>
      match j with
      | JObj kvs => match obj_get tok kvs with
                    | Some v => option_map (cons (SKey tok)) (jresolve rest key v)
                    | None => None end
      | JArr xs => match parse_index tok with
                   | Some i => match nth_error xs i with
                               | Some v => option_map (cons (SIdx i)) (jresolve rest key v)
                               | None => None end
                   | None => None end
      | _ => None
      end
  end.

Lemma findm_embed tok kvs :
  findm tok (map (fun kv : string * json => let '(k, v) := kv in (k, (MPlain, embed v))) kvs) =
  match obj_get tok kvs with Some v => Some (tok, (MPlain, embed v)) | None => None end.
Proof.
  unfold findm. induction kvs as [|[k v] r IH]; [reflexivity|]. cbn [map find fst obj_get].
  rewrite String.eqb_sym. destruct (String.eqb_spec tok k) as [->|Hne]; [reflexivity|]. exact IH.
Qed.

Lemma resolve_embed : forall toks key j, resolve toks key (embed j) = jresolve toks key j.
Proof.
  induction toks as [|tok rest IH]; intros key j.
  - destruct j as [| | | |xs|kvs]; try reflexivity.
    + cbn [embed resolve jresolve]. destruct (parse_usize key) as [i|]; [|reflexivity].
      rewrite nth_error_map'. destruct (nth_error xs i); reflexivity.
    + cbn [embed resolve jresolve]. rewrite findm_embed. destruct (obj_get key kvs); reflexivity.
  - destruct j as [| | | |xs|kvs]; try reflexivity.
    + cbn [embed resolve jresolve]. destruct (parse_index tok) as [i|]; [|reflexivity].
      rewrite nth_error_map'. destruct (nth_error xs i); [|reflexivity]. rewrite IH. reflexivity.
    + cbn [embed resolve jresolve]. rewrite findm_embed. destruct (obj_get tok kvs); [|reflexivity]. rewrite IH. reflexivity.
Qed.

(* ---- lookups after an update ---- *)
Lemma findm_upd_same tok f mems mems' : upd_mem tok f mems = Some mems' ->
  exists x x', findm tok mems = Some (tok, x) /\ f x = Some x' /\ findm tok mems' = Some (tok, x').
Proof.
  unfold findm. revert mems'. induction mems as [|[n x] r IH]; cbn [upd_mem find fst]; intros mems' Hu; [discriminate|].
  destruct (String.eqb_spec n tok) as [->|Hne].
  - destruct (f x) as [x'|] eqn:Ef; cbn in Hu; [|discriminate]. injection Hu as <-.
    exists x, x'. cbn [find fst]. rewrite String.eqb_refl. auto.
  - destruct (upd_mem tok f r) as [r'|] eqn:Er; cbn in Hu; [|discriminate]. injection Hu as <-.
    destruct (IH _ eq_refl) as (x0 & x' & H1 & H2 & H3). exists x0, x'. cbn [find fst].
    destruct (String.eqb_spec n tok); [contradiction|]. auto.
Qed.

Lemma findm_upd_other tok tok' f mems mems' : tok' <> tok -> upd_mem tok f mems = Some mems' ->
  findm tok' mems' = findm tok' mems.
Proof.
  unfold findm. intros Hne. revert mems'. induction mems as [|[n x] r IH]; cbn [upd_mem]; intros mems' Hu; [discriminate|].
  destruct (String.eqb_spec n tok) as [->|Hn].
  - destruct (f x) as [x'|]; cbn in Hu; [|discriminate]. injection Hu as <-. cbn [find fst].
    destruct (String.eqb_spec tok tok'); [congruence|reflexivity].
  - destruct (upd_mem tok f r) as [r'|] eqn:Er; cbn in Hu; [|discriminate]. injection Hu as <-. cbn [find fst].
    destruct (String.eqb n tok'); [reflexivity|]. apply IH. reflexivity.
Qed.

Lemma upd_mem_total tok f mems x : findm tok mems = Some (tok, x) -> (exists x', f x = Some x') -> exists mems', upd_mem tok f mems = Some mems'.
Proof.
  unfold findm. intros Hf [x' Hx]. induction mems as [|[n y] r IH]; cbn [find fst] in Hf; [discriminate|]. cbn [upd_mem].
  destruct (String.eqb_spec n tok) as [->|Hn].
  - injection Hf as ->. rewrite Hx. cbn. eauto.
  - destruct (IH Hf) as [r' ->]. cbn. eauto.
Qed.

Lemma findm_name tok mems n x : findm tok mems = Some (n, x) -> n = tok.
Proof.
  unfold findm. intros Hf. apply find_some in Hf as [_ Hq]. cbn in Hq. apply String.eqb_eq in Hq. exact Hq.
Qed.

Lemma findm_add_sd g tok : tok <> "_sd" -> forall mems, findm tok (add_sd g mems) = findm tok mems.
Proof.
  unfold findm. intros Hne. induction mems as [|[n [k s]] r IH]; cbn [add_sd].
  - cbn [find fst]. destruct (String.eqb_spec "_sd" tok); [congruence|reflexivity].
  - destruct (String.compare "_sd" n) eqn:Ec.
    + apply String.compare_eq_iff in Ec. subst n. cbn [find fst]. destruct (String.eqb_spec "_sd" tok); [congruence|reflexivity].
    + cbn [find fst]. destruct (String.eqb_spec "_sd" tok); [congruence|reflexivity].
    + cbn [find fst]. destruct (String.eqb n tok); [reflexivity|]. exact IH.
Qed.

Lemma findm_plain_not_sd tok mems n s : Forall sd_names_ok mems -> findm tok mems = Some (n, (MPlain, s)) -> tok <> "_sd".
Proof.
  intros Hn Hf. pose proof (findm_name _ _ _ _ Hf) as ->. apply find_some in Hf as [Hin _].
  rewrite Forall_forall in Hn. specialize (Hn _ Hin). unfold sd_names_ok in Hn. cbn in Hn. exact Hn.
Qed.

Lemma nth_error_list_set_same {A} (l : list A) i x y : nth_error l i = Some y -> nth_error (list_set i x l) i = Some x.
Proof. revert i. induction l as [|z r IH]; intros [|i] Hn; cbn in *; try discriminate; [reflexivity|]. apply IH. assumption. Qed.
Lemma nth_error_list_set_other {A} (l : list A) i j x : i <> j -> nth_error (list_set i x l) j = nth_error l j.
Proof. revert i j. induction l as [|z r IH]; intros [|i] [|j] Hne; cbn; try reflexivity; [congruence|]. apply IH. congruence. Qed.

(* ---- a resolvable path can be marked ---- *)
Lemma mark_total salt : forall toks key t a, resolve toks key t = Some a -> exists t', mark toks key salt t = Some t'.
Proof.
  induction toks as [|tok rest IH]; intros key t a Hr.
  - destruct t as [j|items|mems]; cbn [resolve] in Hr; [discriminate| |]; cbn [T1a.mark].
    + destruct (parse_usize key) as [i|]; [|discriminate]. unfold upd_item.
      destruct (nth_error items i) as [[[| |] s]|]; try discriminate. cbn. eauto.
    + destruct (findm key mems) as [[n [[| |] s]]|] eqn:Ef; try discriminate.
      pose proof (findm_name _ _ _ _ Ef) as ->.
      destruct (upd_mem_total key (fun x => match x with (MPlain, s) => Some (MHid salt, s) | _ => None end) mems _ Ef) as [mems' ->]; [eauto|].
      unfold findm in Ef. rewrite Ef. eauto.
  - destruct t as [j|items|mems]; cbn [resolve] in Hr; [discriminate| |]; cbn [T1a.mark].
    + destruct (parse_index tok) as [i|]; [|discriminate]. unfold upd_item.
      destruct (nth_error items i) as [[[| |] s]|]; try discriminate.
      destruct (resolve rest key s) as [a'|] eqn:Er; [|discriminate]. destruct (IH _ _ _ Er) as [s' ->]. cbn. eauto.
    + destruct (findm tok mems) as [[n [[| |] s]]|] eqn:Ef; try discriminate.
      pose proof (findm_name _ _ _ _ Ef) as ->.
      destruct (resolve rest key s) as [a'|] eqn:Er; [|discriminate]. destruct (IH _ _ _ Er) as [s' Hs'].
      destruct (upd_mem_total tok (fun x => match x with (MPlain, s) => omap (fun s' => (MPlain, s')) (mark rest key salt s) | _ => None end) mems _ Ef) as [mems' ->].
      * rewrite Hs'. cbn. eauto.
      * cbn. eauto.
Qed.

Lemma not_prefix_cons x b a : ~ prefix (x :: b) (x :: a) -> ~ prefix b a.
Proof. intros Hn [c ->]. apply Hn. exists c. reflexivity. Qed.

(* ---- marking one node leaves every path resolvable that does not lead to or through that node ---- *)
Lemma mark_keeps salt : forall qtoks qkey t t' b, wf t ->
  resolve qtoks qkey t = Some b -> mark qtoks qkey salt t = Some t' ->
  forall ptoks pkey a, resolve ptoks pkey t = Some a -> ~ prefix b a -> resolve ptoks pkey t' = Some a.
Proof.
  induction qtoks as [|qtok qrest IH]; intros qkey t t' b Hw Hq Hm ptoks pkey a Hp Hnp.
  - destruct t as [j|items|mems]; cbn [resolve] in Hq; [discriminate| |]; cbn [T1a.mark] in Hm.
    + (* an array element is hidden *)
      destruct (parse_usize qkey) as [i|]; [|discriminate]. unfold upd_item in Hm.
      destruct (nth_error items i) as [[[| |] s]|] eqn:En; try discriminate. cbn in Hm. injection Hm as <-. injection Hq as <-.
      destruct ptoks as [|ptok prest]; cbn [resolve] in Hp |- *.
      * destruct (parse_usize pkey) as [i'|]; [|discriminate].
        destruct (Nat.eq_dec i i') as [<-|Hne].
        -- rewrite En in Hp. injection Hp as <-. exfalso. apply Hnp. exists []. reflexivity.
        -- rewrite nth_error_list_set_other by assumption. exact Hp.
      * destruct (parse_index ptok) as [i'|]; [|discriminate].
        destruct (Nat.eq_dec i i') as [<-|Hne].
        -- rewrite En in Hp. destruct (resolve prest pkey s) as [a'|]; [|discriminate]. injection Hp as <-.
           exfalso. apply Hnp. exists a'. reflexivity.
        -- rewrite nth_error_list_set_other by assumption. exact Hp.
    + (* an object member is hidden *)
      destruct (upd_mem qkey _ mems) as [mems'|] eqn:Eu; [|discriminate].
      destruct (find _ mems) as [[n0 [mk0 s0]]|]; [|discriminate]. injection Hm as <-.
      destruct (findm qkey mems) as [[n [[| |] s]]|] eqn:Ef; try discriminate. injection Hq as <-.
      pose proof (names_ok_of_wf H enc mems Hw) as Hn.
      destruct ptoks as [|ptok prest]; cbn [resolve] in Hp |- *.
      * destruct (findm pkey mems) as [[n' [[| |] s']]|] eqn:Ef'; try discriminate. injection Hp as <-.
        assert (Hne : pkey <> qkey) by (intros ->; apply Hnp; exists []; reflexivity).
        rewrite findm_add_sd by (eapply findm_plain_not_sd; eauto).
        rewrite (findm_upd_other qkey pkey _ mems mems' Hne Eu), Ef'. reflexivity.
      * destruct (findm ptok mems) as [[n' [[| |] s']]|] eqn:Ef'; try discriminate.
        destruct (resolve prest pkey s') as [a'|] eqn:Er; [|discriminate]. injection Hp as <-.
        assert (Hne : ptok <> qkey) by (intros ->; apply Hnp; exists a'; reflexivity).
        rewrite findm_add_sd by (eapply findm_plain_not_sd; eauto).
        rewrite (findm_upd_other qkey ptok _ mems mems' Hne Eu), Ef', Er. reflexivity.
  - destruct t as [j|items|mems]; cbn [resolve] in Hq; [discriminate| |]; cbn [T1a.mark] in Hm.
    + destruct (parse_index qtok) as [i|]; [|discriminate]. unfold upd_item in Hm.
      destruct (nth_error items i) as [[[| |] s]|] eqn:En; try discriminate.
      destruct (mark qrest qkey salt s) as [s1|] eqn:Ems; cbn in Hm; [|discriminate]. injection Hm as <-.
      destruct (resolve qrest qkey s) as [b'|] eqn:Erq; [|discriminate]. injection Hq as <-.
      assert (Hws : wf s).
      { inversion Hw as [| ? Hall Hiok |]; subst. rewrite Forall_forall in Hall. apply nth_error_In in En. exact (Hall _ En). }
      destruct ptoks as [|ptok prest]; cbn [resolve] in Hp |- *.
      * destruct (parse_usize pkey) as [i'|]; [|discriminate].
        destruct (Nat.eq_dec i i') as [<-|Hne].
        -- rewrite (nth_error_list_set_same _ _ _ _ En). rewrite En in Hp. exact Hp.
        -- rewrite nth_error_list_set_other by assumption. exact Hp.
      * destruct (parse_index ptok) as [i'|]; [|discriminate].
        destruct (Nat.eq_dec i i') as [<-|Hne].
        -- rewrite (nth_error_list_set_same _ _ _ _ En). rewrite En in Hp.
           destruct (resolve prest pkey s) as [a'|] eqn:Er; [|discriminate]. injection Hp as <-.
           rewrite (IH _ _ _ _ Hws Erq Ems _ _ _ Er (not_prefix_cons _ _ _ Hnp)). reflexivity.
        -- rewrite nth_error_list_set_other by assumption. exact Hp.
    + destruct (upd_mem qtok _ mems) as [mems'|] eqn:Eu; cbn in Hm; [|discriminate]. injection Hm as <-.
      destruct (findm qtok mems) as [[n [[| |] s]]|] eqn:Ef; try discriminate.
      destruct (resolve qrest qkey s) as [b'|] eqn:Erq; [|discriminate]. injection Hq as <-.
      pose proof (findm_name _ _ _ _ Ef) as ->.
      destruct (findm_upd_same _ _ _ _ Eu) as (x & x' & Hf1 & Hfx & Hf2).
      rewrite Ef in Hf1. injection Hf1 as <-.
      destruct (mark qrest qkey salt s) as [s1|] eqn:Ems; cbn in Hfx; [|discriminate]. injection Hfx as <-.
      assert (Hws : wf s).
      { inversion Hw as [| | ? Hs Hall Hok]; subst. rewrite Forall_forall in Hall. apply find_some in Ef as [Hin _]. exact (Hall _ Hin). }
      destruct ptoks as [|ptok prest]; cbn [resolve] in Hp |- *.
      * destruct (String.eqb_spec pkey qtok) as [->|Hne].
        -- rewrite Hf2. rewrite Ef in Hp. exact Hp.
        -- rewrite (findm_upd_other qtok pkey _ mems mems' Hne Eu). exact Hp.
      * destruct (String.eqb_spec ptok qtok) as [->|Hne].
        -- rewrite Hf2. rewrite Ef in Hp.
           destruct (resolve prest pkey s) as [a'|] eqn:Er; [|discriminate]. injection Hp as <-.
           rewrite (IH _ _ _ _ Hws Erq Ems _ _ _ Er (not_prefix_cons _ _ _ Hnp)). reflexivity.
        -- rewrite (findm_upd_other qtok ptok _ mems mems' Hne Eu). exact Hp.
Qed.

(* ---- the fold ---- *)
Theorem mark_fold_total : forall (paths : list (list string * string)) (addrs : list addr) salts t,
  wf t -> Forall2 (fun p a => resolve (fst p) (snd p) t = Some a) paths addrs -> ordered addrs ->
  List.length paths <= List.length salts ->
  exists t', mark_fold t paths salts = Some t'.
Proof.
  induction paths as [|[toks key] ps IH]; intros addrs salts t Hw HF Hord Hlen.
  - exists t. reflexivity.
  - inversion HF as [|? a ? ar Hr HF']; subst. cbn [fst snd] in Hr.
    destruct salts as [|salt ss]; [cbn in Hlen; lia|]. cbn [T1j.mark_fold].
    destruct (mark_total salt toks key t a Hr) as [t1 Hm]. rewrite Hm.
    destruct Hord as [Hnp Hord'].
    apply (IH ar ss t1).
    + exact (mark_wf H enc parse_index parse_usize pos key salt toks t t1 Hw Hm).
    + clear -HF' Hnp Hw Hr Hm. induction HF' as [|[toks' key'] a' ps' ar' Hr' HF' IH']; constructor.
      * cbn [fst snd] in *. inversion Hnp as [|? ? Hn1 Hn2]; subst.
        exact (mark_keeps salt toks key t t1 a Hw Hr Hm toks' key' a' Hr' Hn1).
      * apply IH'. inversion Hnp; assumption.
    + assumption.
    + cbn in Hlen. lia.
Qed.

(* stated on the claims as the issuer receives them *)
Corollary valid_marking_accepted (C : json) (paths : list (list string * string)) (addrs : list addr) salts :
  jwf C -> Forall2 (fun p a => jresolve (fst p) (snd p) C = Some a) paths addrs -> ordered addrs ->
  List.length paths <= List.length salts ->
  exists t', mark_fold (embed C) paths salts = Some t'.
Proof.
  intros HC HF Hord Hlen. apply (mark_fold_total paths addrs salts (embed C)); auto.
  - apply wf_embed. assumption.
  - clear -HF. induction HF as [|p a ps ar Hq HF IH]; constructor; [rewrite resolve_embed; exact Hq|exact IH].
Qed.
End R.
