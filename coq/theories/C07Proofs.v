(* C07: a built disclosure decodes back to its name and value; its digest is the hash of its string. *)
From Coq Require Import List String Ascii Bool Arith.
Import ListNotations.
Require Import SDJ.Json SDJ.Wire SDJ.Model2 SDJ.Out SDJ.Split SDJ.Restore2 SDJ.Issuer1 SDJ.Issuer2.
Local Open Scope string_scope.

Theorem built_disclosure_decodes E (dec : string -> dec_result) salt key v :
  (forall ps, dec (ie_enc E ps) = DJson (JArr ps)) ->
  (match key with Some k => reserved k = false | None => True end) ->
  from_base64 (ie_hash E) dec (d_str (mk_disc E salt key v)) = Ok (mk_disc E salt key v).
Proof.
  intros Hde Hk. unfold from_base64, mk_disc, Issuer1.mk_disc. cbn [d_str]. rewrite Hde. destruct key as [k|]; cbn.
  - rewrite Hk. reflexivity.
  - reflexivity.
Qed.

Theorem built_disclosure_digest E salt key v :
  d_digest (mk_disc E salt key v) = ie_hash E (d_str (mk_disc E salt key v)).
Proof. reflexivity. Qed.

(* the issuer's token is <JWT>~<d1>~...~<dn>~ : splitting it gives the JWT, the disclosures, no KB-JWT *)
Lemma fold_serialise jwt ds : fold_left (fun acc d => acc ++ "~" ++ d_str d) ds jwt = join "~" (jwt :: map d_str ds).
Proof.
  revert jwt. induction ds as [|d r IH]; intros jwt; [reflexivity|]. cbn [fold_left map]. rewrite IH.
  destruct r as [|d2 r2]; cbn; rewrite ?append_assoc_; reflexivity.
Qed.

Theorem token_framing (E : issue_env) jwt ds :
  Forall (fun x => contains tilde x = false) (jwt :: map d_str ds) ->
  sd_jwt_parts (serialise_token jwt ds) = (jwt, map d_str ds, None).
Proof.
  intros HF. unfold serialise_token. rewrite fold_serialise.
  change (join "~" (jwt :: map d_str ds) ++ "~") with (serialise jwt (map d_str ds) "").
  rewrite sd_jwt_parts_serialise by (assumption || reflexivity). reflexivity.
Qed.
