From Coq Require Import List String Ascii Bool Arith Lia.
Import ListNotations.
Require Import SDJ.Json SDJ.Model2.
Local Open Scope string_scope.

(* ---------- predicates on json ---------- *)
Fixpoint height (j : json) : nat :=
  match j with
  | JArr xs => S (fold_right (fun x m => Nat.max (height x) m) 0 xs)
  | JObj kvs => S (fold_right (fun kv m => Nat.max (let '(_, v) := kv in height v) m) 0 kvs)
  | _ => 1 end.

Definition occ_mem (occurs : json -> bool) (g : string) (kv : string * json) : bool :=
  let '(k, v) := kv in
  orb (if String.eqb k "_sd" then match v with JArr ds => existsb (fun x => json_eqb_str x g) ds | _ => false end
       else if String.eqb k "..." then json_eqb_str v g else false) (occurs v).

Fixpoint occurs (g : string) (j : json) : bool :=
  match j with
  | JArr xs => existsb (occurs g) xs
  | JObj kvs => existsb (fun kv => let '(k, v) := kv in
       orb (if String.eqb k "_sd" then match v with JArr ds => existsb (fun x => json_eqb_str x g) ds | _ => false end
            else if String.eqb k "..." then json_eqb_str v g else false) (occurs g v)) kvs
  | _ => false end.
Lemma occurs_obj g kvs : occurs g (JObj kvs) = existsb (occ_mem (occurs g) g) kvs.
Proof. reflexivity. Qed.

Definition wf_mem (sdwf : json -> bool) (kv : string * json) : bool :=
  let '(k, v) := kv in andb (if String.eqb k "_sd" then match v with JArr _ => true | _ => false end else true) (sdwf v).
Fixpoint sdwf (j : json) : bool :=
  match j with
  | JArr xs => forallb sdwf xs
  | JObj kvs => andb (match obj_get "..." kvs with Some _ => Nat.eqb (List.length kvs) 1 | None => true end)
               (forallb (fun kv => let '(k, v) := kv in
                   andb (if String.eqb k "_sd" then match v with JArr _ => true | _ => false end else true) (sdwf v)) kvs)
  | _ => true end.
Lemma sdwf_obj kvs : sdwf (JObj kvs) =
  andb (match obj_get "..." kvs with Some _ => Nat.eqb (List.length kvs) 1 | None => true end) (forallb (wf_mem sdwf) kvs).
Proof. reflexivity. Qed.

Lemma height_in_arr x xs : In x xs -> height x <= fold_right (fun x m => Nat.max (height x) m) 0 xs.
Proof. induction xs as [|y r IH]; [intros []|]. intros [->|Hx]; cbn; [lia|]. specialize (IH Hx). lia. Qed.
Lemma height_in_obj k v kvs : In (k, v) kvs ->
  height v <= fold_right (fun (kv : string * json) m => Nat.max (let '(_, v) := kv in height v) m) 0 kvs.
Proof. induction kvs as [|[k' v'] r IH]; [intros []|]. intros [H|H]; cbn.
  - injection H as -> ->. lia.
  - specialize (IH H). lia. Qed.

Lemma obj_get_in k kvs v : obj_get k kvs = Some v -> In (k, v) kvs.
Proof.
  induction kvs as [|[k' v'] r IH]; cbn; [discriminate|].
  destruct (String.eqb_spec k k'); intros Hq.
  - injection Hq as <-. subst. left; reflexivity.
  - right; auto.
Qed.

(* ---------- walk lemmas ---------- *)
Lemma walk_id {A D} (f : A -> res (A * list (dpath_ D) * bool)) (l : list A) :
  (forall x, In x l -> f x = Ok (x, [], false)) -> walk f l = Ok (l, [], false).
Proof.
  induction l as [|x r IH]; intros Hf; cbn; [reflexivity|].
  rewrite Hf by (left; reflexivity). cbn.
  rewrite IH by (intros; apply Hf; right; assumption). reflexivity.
Qed.

Lemma walki_id {A D} (f : nat -> A -> res (A * list (dpath_ D) * bool)) (l : list A) : forall i,
  (forall j x, In x l -> f j x = Ok (x, [], false)) -> walki f i l = Ok (l, [], false).
Proof.
  induction l as [|x r IH]; intros i Hf; cbn; [reflexivity|].
  rewrite Hf by (left; reflexivity). cbn.
  rewrite IH by (intros; apply Hf; right; assumption). reflexivity.
Qed.

Lemma walk_app {A D} (f : A -> res (A * list (dpath_ D) * bool)) (l1 l2 : list A) :
  walk f (l1 ++ l2) =
  do (a, pa, ba) <- walk f l1; do (b, pb, bb) <- walk f l2; Ok ((a ++ b)%list, (pa ++ pb)%list, orb ba bb).
Proof.
  induction l1 as [|x r IH]; cbn.
  - destruct (walk f l2) as [[[b pb] bb]|]; reflexivity.
  - destruct (f x) as [[[x' ps] bx]|]; cbn; [|reflexivity].
    rewrite IH. destruct (walk f r) as [[[a pa] ba]|]; cbn; [|reflexivity].
    destruct (walk f l2) as [[[b pb] bb]|]; cbn; [|reflexivity].
    rewrite app_assoc, orb_assoc. reflexivity.
Qed.

Section R.
Variable show_nat : nat -> string.
Notation restore1 := (restore1 show_nat).

(* element-level statements, for any recursive call that behaves as the identity on this element *)
Lemma arr_body_no_occ rec d path i x :
  sdwf x = true -> occurs (d_digest d) x = false ->
  (forall p, rec p x = Ok (x, [], false)) ->
  arr_body show_nat rec d path i x = Ok (x, [], false).
Proof.
  intros Hw Ho Hrec. unfold arr_body, placeholder_of.
  destruct x as [| | | | ys | kvs]; cbn [bind]; try (rewrite Hrec; reflexivity).
  rewrite sdwf_obj in Hw. apply andb_true_iff in Hw as [Hw1 Hw2].
  destruct (obj_get "..." kvs) as [v|] eqn:Eg.
  + rewrite Hw1. cbn [bind].
    assert (json_eqb_str v (d_digest d) = false) as ->.
    { rewrite occurs_obj in Ho. destruct (json_eqb_str v (d_digest d)) eqn:E; [|reflexivity].
      exfalso. apply obj_get_in in Eg.
      assert (existsb (occ_mem (occurs (d_digest d)) (d_digest d)) kvs = true); [|congruence].
      apply existsb_exists. exists ("...", v). split; [assumption|]. cbn. rewrite E. reflexivity. }
    cbn [bind]. rewrite Hrec. reflexivity.
  + cbn [bind]. rewrite Hrec. reflexivity.
Qed.

Lemma sd_step_no_occ d path kvs :
  sdwf (JObj kvs) = true -> occurs (d_digest d) (JObj kvs) = false -> sd_step d path kvs = Ok (kvs, [], false).
Proof.
  intros Hwf Hocc. rewrite sdwf_obj in Hwf. apply andb_true_iff in Hwf as [Hw1 Hw2]. rewrite occurs_obj in Hocc.
  unfold sd_step. destruct (obj_get "_sd" kvs) as [sd|] eqn:Esd; [|reflexivity].
  apply obj_get_in in Esd.
  rewrite forallb_forall in Hw2. specialize (Hw2 _ Esd). cbn in Hw2.
  destruct sd; try discriminate. cbn.
  match goal with |- (if ?c then _ else _) = _ => destruct c eqn:Ec end; [|reflexivity].
  exfalso. assert (existsb (occ_mem (occurs (d_digest d)) (d_digest d)) kvs = true); [|congruence].
  apply existsb_exists. eexists; split; [exact Esd|]. cbn.
  apply orb_true_iff. left. exact Ec.
Qed.

(* (i) a disclosure whose digest is not visible leaves a bookkeeping-well-formed tree alone *)
Lemma restore1_no_occ d : forall n path j,
  sdwf j = true -> occurs (d_digest d) j = false -> height j <= n ->
  restore1 n d path j = Ok (j, [], false).
Proof.
  induction n as [|n IH]; intros path j Hwf Hocc Hd.
  { destruct j; cbn in Hd; lia. }
  destruct j as [| b | l | s | xs | kvs]; try reflexivity.
  - cbn [Model2.restore1].
    rewrite walki_id; [reflexivity|].
    intros i x Hx.
    assert (Hw : sdwf x = true) by (cbn in Hwf; rewrite forallb_forall in Hwf; auto).
    assert (Ho : occurs (d_digest d) x = false).
    { destruct (occurs (d_digest d) x) eqn:E; [|reflexivity]. cbn in Hocc.
      assert (existsb (occurs (d_digest d)) xs = true) by (apply existsb_exists; eauto). congruence. }
    assert (Hdx : height x <= n) by (cbn in Hd; pose proof (height_in_arr _ _ Hx); lia).
    apply arr_body_no_occ; auto.
  - cbn [Model2.restore1]. rewrite sd_step_no_occ by assumption. cbn [bind].
    rewrite sdwf_obj in Hwf. apply andb_true_iff in Hwf as [Hw1 Hw2]. rewrite occurs_obj in Hocc.
    rewrite walk_id; [reflexivity|].
    intros [k v] Hin. unfold obj_body. rewrite IH; [reflexivity| | | ].
    + rewrite forallb_forall in Hw2. specialize (Hw2 _ Hin). cbn in Hw2. apply andb_true_iff in Hw2. tauto.
    + destruct (occurs (d_digest d) v) eqn:E; [|reflexivity].
      assert (existsb (occ_mem (occurs (d_digest d)) (d_digest d)) kvs = true); [|congruence].
      apply existsb_exists. eexists; split; [exact Hin|]. cbn. rewrite E. apply orb_true_r.
    + cbn in Hd. pose proof (height_in_obj _ _ _ Hin). lia.
Qed.
End R.
