(* A fresh "_sd" member that holds only decoys: the root of a payload none of whose top-level claims is
   disclosable, after Issuer::encode added decoys. *)
From Coq Require Import List String Ascii Bool Arith Lia Sorting.Sorted Permutation.
Import ListNotations.
Require Import SDJ.Json SDJ.Model2 SDJ.ATree SDJ.T2a SDJ.T2b SDJ.T2c SDJ.T2d SDJ.T2e SDJ.T2h SDJ.T2k
  SDJ.Issuer1 SDJ.T1a SDJ.T1b SDJ.T1c SDJ.T1e SDJ.T1h SDJ.T1m.
Local Open Scope string_scope.

Section SdFresh.
Variable H : string -> string.
Variable enc : list json -> string.
Notation blind := (blind H enc).
Notation wf := (wf H enc).
Notation hdigs := (hdigs H enc).
Notation alldigs := (alldigs H enc).
Notation bmem := (bmem H enc).
Notation proj := (proj H enc).

Lemma no_sd_find (mems : amems) : Forall sd_names_ok mems -> ~ In "_sd" (map fst mems) ->
  find (fun m : string * (mkind * atree) => match fst (snd m) with MSd _ => true | _ => false end) mems = None.
Proof.
  induction mems as [|[n [k s]] r IH]; intros Hn Hni; [reflexivity|].
  inversion Hn as [|? ? Hn1 Hn2]; subst. unfold sd_names_ok in Hn1. cbn in Hn1.
  destruct k as [|salt|l]; cbn [find fst snd].
  - apply IH; [assumption|]. intros Hin. apply Hni. right. assumption.
  - apply IH; [assumption|]. intros Hin. apply Hni. right. assumption.
  - exfalso. apply Hni. left. assumption.
Qed.

Lemma sd_member_of_key (mems : amems) : Forall sd_names_ok mems -> In "_sd" (map fst mems) ->
  exists l s, In ("_sd", (MSd l, s)) mems.
Proof.
  intros Hn Hin. apply in_map_iff in Hin as [[n [k s]] [Hq Hin]]. cbn in Hq. subst n.
  rewrite Forall_forall in Hn. specialize (Hn _ Hin). unfold sd_names_ok in Hn. cbn in Hn.
  destruct k as [|salt|l]; try (exfalso; apply Hn; reflexivity). eauto.
Qed.

Lemma bmems_ains_sd l' : forall mems : amems,
  StronglySorted slt (map fst mems) -> ~ In "_sd" (map fst mems) ->
  flat_map bmem (ains "_sd" (MSd l', ALeaf JNull) mems) = obj_insert "_sd" (JArr (map JStr l')) (flat_map bmem mems).
Proof.
  induction mems as [|[n [mk s0]] r IH]; intros Hs Hni; [reflexivity|].
  cbn [map fst] in Hs. apply StronglySorted_inv in Hs as [Hs Hf].
  assert (Hne : "_sd" <> n) by (intros <-; apply Hni; left; reflexivity).
  cbn [ains]. destruct (compare_neq_cases "_sd" n Hne) as [Ec|Ec]; rewrite Ec.
  - cbn [flat_map T1b.bmem app]. symmetry. apply obj_insert_first.
    apply Forall_forall. intros kv Hkv.
    assert (Hk : In (fst kv) (map fst ((n, (mk, s0)) :: r))) by (apply (keys_bmems H enc); apply in_map; exact Hkv).
    cbn in Hk. destruct Hk as [<-|Hk]; [exact Ec|]. rewrite Forall_forall in Hf. eapply slt_trans; [exact Ec|auto].
  - cbn [flat_map]. rewrite IH; [|assumption|intros Hin; apply Hni; right; assumption].
    destruct mk as [|salt|l]; cbn [T1b.bmem app]; try reflexivity; cbn [obj_insert]; rewrite Ec; reflexivity.
Qed.

Lemma sd_of_ains_sd l' (mems : amems) : ~ In "_sd" (map fst mems) ->
  forall x, In x (sd_of (ains "_sd" (MSd l', ALeaf JNull) mems)) <-> In x l' \/ In x (sd_of mems).
Proof.
  intros Hni x. induction mems as [|[n [mk s0]] r IH]; [unfold sd_of; cbn; rewrite app_nil_r; tauto|].
  assert (Hne : "_sd" <> n) by (intros <-; apply Hni; left; reflexivity).
  cbn [ains]. destruct (compare_neq_cases "_sd" n Hne) as [Ec|Ec]; rewrite Ec.
  - unfold sd_of. cbn [flat_map fst snd]. rewrite !in_app_iff. tauto.
  - unfold sd_of in *. cbn [flat_map]. rewrite !in_app_iff, IH; [tauto|]. intros Hin. apply Hni. right. assumption.
Qed.

Lemma wf_ains_sd l' (mems : amems) :
  wf (AObj mems) -> ~ In "_sd" (map fst mems) -> wf (AObj (ains "_sd" (MSd l', ALeaf JNull) mems)).
Proof.
  intros Hw Hni. inversion Hw as [| | ? Hs Hall Hok]; subst. constructor.
  - apply ains_sorted. assumption.
  - apply Forall_forall. intros m Hm. apply ains_members in Hm as [->|Hm]; [constructor; exact I|]. rewrite Forall_forall in Hall. auto.
  - apply Forall_forall. intros m Hm. apply ains_members in Hm as [->|Hm].
    + cbn. repeat split; discriminate || reflexivity.
    + rewrite Forall_forall in Hok. specialize (Hok _ Hm). destruct m as [name [mk s0]]. cbn in Hok |- *.
      destruct mk as [|salt|l]; try assumption. destruct Hok as (Ha & Hb & Hc). repeat split; auto.
      apply (sd_of_ains_sd l' mems Hni). right. assumption.
Qed.

Lemma alldigs_ains_sd l' (mems : amems) : ~ In "_sd" (map fst mems) ->
  Permutation (alldigs (AObj (ains "_sd" (MSd l', ALeaf JNull) mems))) (l' ++ alldigs (AObj mems)).
Proof.
  intros Hni. rewrite !alldigs_obj. induction mems as [|[n [mk s0]] r IH].
  - cbn. reflexivity.
  - assert (Hne : "_sd" <> n) by (intros <-; apply Hni; left; reflexivity).
    cbn [ains]. destruct (compare_neq_cases "_sd" n Hne) as [Ec|Ec]; rewrite Ec.
    + cbn [flat_map T2c.adigs_mem]. reflexivity.
    + cbn [flat_map]. etransitivity; [apply Permutation_app_head; apply IH; intros Hin; apply Hni; right; assumption|].
      rewrite !app_assoc. apply Permutation_app_tail. apply Permutation_app_comm.
Qed.

Lemma hdigs_ains_sd l' (mems : amems) : ~ In "_sd" (map fst mems) ->
  hdigs (AObj (ains "_sd" (MSd l', ALeaf JNull) mems)) = hdigs (AObj mems).
Proof.
  intros Hni. rewrite !(hdigs_obj H enc). induction mems as [|[n [mk s0]] r IH].
  - reflexivity.
  - assert (Hne : "_sd" <> n) by (intros <-; apply Hni; left; reflexivity).
    cbn [ains]. destruct (compare_neq_cases "_sd" n Hne) as [Ec|Ec]; rewrite Ec.
    + cbn [flat_map T2e.hdigs_mem app]. reflexivity.
    + cbn [flat_map]. f_equal. apply IH. intros Hin. apply Hni. right. assumption.
Qed.

Lemma pmems_ains_sd R l' (mems : amems) : ~ In "_sd" (map fst mems) ->
  flat_map (pmem H enc R) (ains "_sd" (MSd l', ALeaf JNull) mems) = flat_map (pmem H enc R) mems.
Proof.
  intros Hni. induction mems as [|[n [mk s0]] r IH]; [reflexivity|].
  assert (Hne : "_sd" <> n) by (intros <-; apply Hni; left; reflexivity).
  cbn [ains]. destruct (compare_neq_cases "_sd" n Hne) as [Ec|Ec]; rewrite Ec.
  - reflexivity.
  - cbn [flat_map]. f_equal. apply IH. intros Hin. apply Hni. right. assumption.
Qed.

Lemma aheight_ains_sd l' (mems : amems) :
  aheight (AObj (ains "_sd" (MSd l', ALeaf JNull) mems)) <= Nat.max (aheight (AObj mems)) 3.
Proof.
  cbn [aheight]. induction mems as [|[n [mk s0]] r IH]; cbn [ains fold_right]; [lia|].
  destruct (String.compare "_sd" n); cbn [fold_right]; destruct mk; lia.
Qed.
End SdFresh.
