(* C02 end to end on the models (unbound tokens): Holder::presentation on a received SD-JWT, any sequence of
   redact() calls, Holder::build, then Verifier::verify on the built presentation - the verifier accepts and
   returns the issuer's header and the projection of the token's tree determined by the selected (not
   withheld) disclosures. *)
From Coq Require Import List String Ascii Bool Arith Lia Sorting.Sorted Permutation.
Import ListNotations.
Require Import SDJ.Json SDJ.Wire SDJ.Model2 SDJ.Out SDJ.Restore2 SDJ.Split SDJ.SplitM SDJ.SplitMProofs SDJ.ATree
  SDJ.T2a SDJ.T2b SDJ.T2c SDJ.T2e SDJ.T2h SDJ.T2l SDJ.T2m SDJ.T2o SDJ.Verify SDJ.HolderProofs SDJ.C05Proofs SDJ.C03Proofs.
Local Open Scope string_scope.

Lemma decode_all_strs H dec : forall L ds, decode_all H dec L = Ok ds -> map d_str ds = L.
Proof.
  induction L as [|s r IH]; cbn; intros ds Hd; [injection Hd as <-; reflexivity|].
  destruct (from_base64 H dec s) as [d|] eqn:Ef; cbn in Hd; [|discriminate].
  destruct (decode_all H dec r) as [ds'|] eqn:Er; cbn in Hd; [|discriminate]. injection Hd as <-.
  cbn. rewrite (IH ds' eq_refl). f_equal.
  unfold from_base64 in Ef. destruct (dec s) as [|j]; [discriminate|]. destruct j as [| | | |xs|]; try discriminate.
  destruct xs as [|a [|b [|c [|]]]]; try discriminate.
  - injection Ef as <-. reflexivity.
  - destruct b; try discriminate. destruct (reserved s0); [discriminate|]. injection Ef as <-. reflexivity.
Qed.

Lemma decode_all_each H dec : forall L ds, decode_all H dec L = Ok ds -> forall s, In s L -> exists d, from_base64 H dec s = Ok d.
Proof.
  induction L as [|s r IH]; cbn; intros ds Hd s' Hs; [destruct Hs|].
  destruct (from_base64 H dec s) as [d|] eqn:Ef; cbn in Hd; [|discriminate].
  destruct (decode_all H dec r) as [ds'|] eqn:Er; cbn in Hd; [|discriminate].
  destruct Hs as [<-|Hs]; [eauto|]. eapply IH; eauto.
Qed.

Lemma decode_all_sub H dec : forall L', (forall s, In s L' -> exists d, from_base64 H dec s = Ok d) -> exists ds', decode_all H dec L' = Ok ds'.
Proof.
  induction L' as [|s r IH]; intros Hall; [exists []; reflexivity|].
  destruct (Hall s (or_introl eq_refl)) as [d Hd]. destruct (IH (fun s' Hs' => Hall s' (or_intror Hs'))) as [ds' Hds].
  exists (d :: ds'). cbn. rewrite Hd. cbn. rewrite Hds. reflexivity.
Qed.

Lemma NoDup_map_filter {A B} (f : A -> B) (p : A -> bool) l : NoDup (map f l) -> NoDup (map f (filter p l)).
Proof.
  induction l as [|x r IH]; cbn; intros Hnd; [constructor|]. inversion Hnd as [|? ? Hni Hr]; subst.
  destruct (p x); cbn; [|auto]. constructor; [|auto].
  intros Hin. apply Hni. apply in_map_iff in Hin as [y [Hq Hy]]. apply filter_In in Hy as [Hy _]. apply in_map_iff. eauto.
Qed.

Lemma prefix_is_serialise jwt ds : presentation_prefix jwt ds = serialise jwt ds "".
Proof.
  unfold presentation_prefix, serialise.
  assert (Hf : forall acc, fold_left (fun acc d => acc ++ "~" ++ d) ds acc = join "~" (acc :: ds)).
  { induction ds as [|d r IH]; intros acc; [reflexivity|]. cbn [fold_left]. rewrite IH.
    destruct r as [|d2 r2]; cbn; rewrite ?append_assoc_; reflexivity. }
  rewrite Hf. destruct (join "~" (jwt :: ds)); reflexivity || (cbn; f_equal).
Qed.

Section C02.
Variable O : oracles.
Variable H : string -> string.
Variable enc : list json -> string.
Hypothesis hash_inj : forall x y, H x = H y -> x = y.
Hypothesis dec_enc : forall ps, o_dec O (enc ps) = DJson (JArr ps).
Notation blind := (blind H enc).
Notation hdigs := (hdigs H enc).
Notation alldigs := (alldigs H enc).
Notation proj := (proj H enc).

Variable t : atree.
Hypothesis Hwf : wf H enc t.
Hypothesis Hnd : NoDup (alldigs t).
Hypothesis Hndh : NoDup (hdigs t).
Hypothesis Hheight : aheight t <= 129.

Definition redact_all (h : holder) (rs : list string) : holder := fold_left holder_redact rs h.

Lemma redact_all_fields rs : forall h, h_jwt (redact_all h rs) = h_jwt h /\ h_paths (redact_all h rs) = h_paths h /\
  h_kb (redact_all h rs) = h_kb h /\ h_redacted (redact_all h rs) = (h_redacted h ++ rs)%list.
Proof.
  induction rs as [|r rs IH]; intros h; cbn [redact_all fold_left].
  - rewrite app_nil_r. auto.
  - destruct (IH (holder_redact h r)) as (H1 & H2 & H3 & H4). unfold redact_all in *. rewrite H1, H2, H3, H4.
    cbn [holder_redact h_jwt h_paths h_kb h_redacted]. rewrite <- app_assoc. auto.
Qed.

(* what presentation() yields, and what every later selection looks like *)
Definition sel_of (ps : list dpath) (rs : list string) : list string :=
  map (fun p : dpath => d_str (snd p)) (filter (fun p => negb (withheld ps rs (fst p))) ps).

Lemma presentation_facts token jwt L ds s1 cseg s3 alg :
  sd_jwt_parts token = (jwt, L, None) -> jwt_parts_m jwt = Val (s1, cseg, s3) ->
  o_claims O cseg = Ok (blind t) ->
  declared_halg (blind t) = Some alg -> o_hash O alg = H ->
  NoDup L -> (forall s, In s L -> In (H s) (alldigs t) -> In (H s) (hdigs t)) -> decode_all H (o_dec O) L = Ok ds ->
  exists ps, holder_presentation O token = Val {| h_jwt := jwt; h_redacted := []; h_paths := ps; h_kb := None |} /\
    forall rs, (forall s, In s (sel_of ps rs) -> In s L) /\ NoDup (sel_of ps rs) /\ exists ds', decode_all H (o_dec O) (sel_of ps rs) = Ok ds'.
Proof.
  intros Hp Hjp Hcl Ha Ho HndL Hdecoy Hd.
  destruct (restore_full_ok_paths H enc (o_dec O) show_nat hash_inj dec_enc t Hwf Hnd Hndh Hheight L ds HndL Hdecoy Hd)
    as (ps & Hps & Hpl & Hndp & _).
  exists ps. split.
  { unfold holder_presentation. rewrite sd_jwt_parts_m_total, Hp. cbn [obind]. rewrite Hjp. cbn [obind]. rewrite Hcl. cbn [of_res obind].
    rewrite Ha, Ho, Hps. reflexivity. }
  intros rs.
  assert (Hstrs : map d_str ds = L) by (eapply decode_all_strs; eauto).
  assert (Hsub : forall s, In s (sel_of ps rs) -> In s L).
  { intros s Hs. unfold sel_of in Hs. apply in_map_iff in Hs as [pd [<- Hpd]]. apply filter_In in Hpd as [Hpd _].
    rewrite Forall_forall in Hpl. destruct (Hpl _ Hpd) as [Hin _]. rewrite <- Hstrs. apply in_map. assumption. }
  split; [exact Hsub|]. split.
  - unfold sel_of.
    assert (Hnds : NoDup (map (fun p : dpath => d_str (snd p)) ps)).
    { assert (Hq : map pdig ps = map H (map (fun p : dpath => d_str (snd p)) ps)).
      { rewrite map_map. apply map_ext_in. intros pd Hpd. unfold pdig. rewrite Forall_forall in Hpl. destruct (Hpl _ Hpd) as [Hin _].
        clear -Hd Hin. revert ds Hd Hin. induction L as [|s r IH]; cbn; intros ds Hd Hin; [injection Hd as <-; destruct Hin|].
        destruct (from_base64 H (o_dec O) s) as [d|] eqn:Ef; cbn in Hd; [|discriminate].
        destruct (decode_all H (o_dec O) r) as [ds'|] eqn:Er; cbn in Hd; [|discriminate]. injection Hd as <-.
        destruct Hin as [<-|Hin]; [|eapply IH; eauto].
        unfold from_base64 in Ef. destruct (o_dec O s) as [|j]; [discriminate|]. destruct j as [| | | |xs|]; try discriminate.
        destruct xs as [|a0 [|b [|c [|]]]]; try discriminate.
        - injection Ef as <-. reflexivity.
        - destruct b; try discriminate. destruct (reserved s0); [discriminate|]. injection Ef as <-. reflexivity. }
      rewrite Hq in Hndp. eapply NoDup_map_inv. exact Hndp. }
    apply NoDup_map_filter. assumption.
  - apply decode_all_sub. intros s Hs. eapply decode_all_each; eauto.
Qed.

Lemma selected_redact_all jwt ps kb rs :
  selected (redact_all {| h_jwt := jwt; h_redacted := []; h_paths := ps; h_kb := kb |} rs) = sel_of ps rs.
Proof.
  destruct (redact_all_fields rs {| h_jwt := jwt; h_redacted := []; h_paths := ps; h_kb := kb |}) as (_ & F2 & _ & F4).
  unfold selected. rewrite F2, F4. reflexivity.
Qed.

Theorem present_redact_build_verify token jwt L ds s1 cseg s3 hdr0 alg (rs : list string) (E : build_env) kbpol :
  sd_jwt_parts token = (jwt, L, None) -> jwt_parts_m jwt = Val (s1, cseg, s3) ->
  o_claims O cseg = Ok (blind t) -> o_jwt O jwt = Val (hdr0, blind t) ->
  declared_halg (blind t) = Some alg -> o_hash O alg = H ->
  kb_bound (blind t) = false ->
  NoDup L -> (forall s, In s L -> In (H s) (alldigs t) -> In (H s) (hdigs t)) -> decode_all H (o_dec O) L = Ok ds ->
  Forall (fun x => contains tilde x = false) (jwt :: L) ->
  exists h0, holder_presentation O token = Val h0 /\
    let h := redact_all h0 rs in
    h_redacted h = rs /\
    holder_build O E h = Val (presentation_prefix jwt (selected h)) /\
    (forall s, In s (selected h) -> In s L) /\
    verifier_verify O (presentation_prefix jwt (selected h)) kbpol = Val (hdr0, drop_alg (proj (ownS H (selected h)) t)).
Proof.
  intros Hp Hjp Hcl Hj Ha Ho Hcnf HndL Hdecoy Hd Htil.
  destruct (presentation_facts token jwt L ds s1 cseg s3 alg Hp Hjp Hcl Ha Ho HndL Hdecoy Hd) as (ps & Hpres & Hsel).
  eexists. split; [exact Hpres|]. cbn zeta.
  destruct (redact_all_fields rs {| h_jwt := jwt; h_redacted := []; h_paths := ps; h_kb := None |}) as (F1 & F2 & F3 & F4).
  cbn [h_jwt h_paths h_kb h_redacted app] in F1, F2, F3, F4.
  rewrite (selected_redact_all jwt ps None rs). destruct (Hsel rs) as (Hsub & Hndsel & ds' & Hds').
  split; [exact F4|]. split.
  { unfold holder_build. rewrite F1, Hjp. cbn [obind]. rewrite Hcl. cbn [of_res obind]. rewrite Hcnf. cbn [andb].
    rewrite (selected_redact_all jwt ps None rs). reflexivity. }
  split; [exact Hsub|].
  assert (Htil' : Forall (fun x => contains tilde x = false) (jwt :: sel_of ps rs)).
  { pose proof (Forall_inv Htil) as Hj0. pose proof (Forall_inv_tail Htil) as HL. constructor; [assumption|]. apply Forall_forall. intros s Hs.
    rewrite Forall_forall in HL. auto. }
  assert (Hparts : sd_jwt_parts (presentation_prefix jwt (sel_of ps rs)) = (jwt, sel_of ps rs, None)).
  { rewrite prefix_is_serialise, sd_jwt_parts_serialise by (assumption || reflexivity). reflexivity. }
  apply (verifier_verify_complete O H enc hash_inj dec_enc t Hwf Hnd Hndh Hheight _ kbpol jwt (sel_of ps rs) ds' hdr0 alg); auto.
  unfold kb_bound in Hcnf. apply negb_false_iff in Hcnf. destruct (jget "cnf" (blind t)); try discriminate. reflexivity.
Qed.

(* the key-bound variant: key_binding(aud, alg) before build(); the KB-JWT the holder signs is assumed to verify
   under the bound key and the verifier's key-binding policy (oracles e_sign / o_kb) *)
Lemma serialise_kb jwt sel kb : (presentation_prefix jwt sel ++ kb)%string = serialise jwt sel kb.
Proof.
  rewrite prefix_is_serialise. unfold serialise. rewrite !append_assoc_. reflexivity.
Qed.

Theorem present_redact_bind_build_verify token jwt L ds s1 cseg s3 hdr0 alg (rs : list string) (E : build_env) aud jalg kb n e :
  sd_jwt_parts token = (jwt, L, None) -> jwt_parts_m jwt = Val (s1, cseg, s3) ->
  o_claims O cseg = Ok (blind t) -> o_jwt O jwt = Val (hdr0, blind t) ->
  declared_halg (blind t) = Some alg -> o_hash O alg = H ->
  kb_bound (blind t) = true -> is_null (jget "cnf" (blind t)) = false ->
  jget "kty" (jget "cnf" (blind t)) = JStr "RSA" -> jget "e" (jget "cnf" (blind t)) = JStr e -> jget "n" (jget "cnf" (blind t)) = JStr n ->
  NoDup L -> (forall s, In s L -> In (H s) (alldigs t) -> In (H s) (hdigs t)) -> decode_all H (o_dec O) L = Ok ds ->
  Forall (fun x => contains tilde x = false) (jwt :: L) ->
  forall ps, holder_presentation O token = Val {| h_jwt := jwt; h_redacted := []; h_paths := ps; h_kb := None |} ->
  let h := holder_key_binding (redact_all {| h_jwt := jwt; h_redacted := []; h_paths := ps; h_kb := None |} rs) aud jalg in
  let prefix := presentation_prefix jwt (selected h) in
  e_sign E (kb_header jalg) (kb_claims aud (e_nonce E) (e_iat E) (H prefix)) = Val kb ->
  kb <> "" -> contains tilde kb = false ->
  o_kb O kb n e = Val (kb_header jalg, kb_claims aud (e_nonce E) (e_iat E) (H prefix)) ->
  holder_build O E h = Val (prefix ++ kb)%string /\
  verifier_verify O (prefix ++ kb)%string true = Val (hdr0, drop_alg (proj (ownS H (selected h)) t)).
Proof.
  intros Hp Hjp Hcl Hj Ha Ho Hcnf Hnn Hkty He Hn HndL Hdecoy Hd Htil ps Hpres h prefix Hsign Hkbne Hkbt Hokb.
  destruct (presentation_facts token jwt L ds s1 cseg s3 alg Hp Hjp Hcl Ha Ho HndL Hdecoy Hd) as (ps' & Hpres' & Hsel).
  rewrite Hpres in Hpres'. injection Hpres' as <-.
  destruct (redact_all_fields rs {| h_jwt := jwt; h_redacted := []; h_paths := ps; h_kb := None |}) as (F1 & F2 & F3 & F4).
  cbn [h_jwt h_paths h_kb h_redacted app] in F1, F2, F3, F4.
  assert (Hselq : selected h = sel_of ps rs).
  { unfold h, selected, holder_key_binding. cbn [h_paths h_redacted]. rewrite F2, F4. reflexivity. }
  destruct (Hsel rs) as (Hsub & Hndsel & ds' & Hds').
  assert (Hbuild : holder_build O E h = Val (prefix ++ kb)%string).
  { assert (Hjwt : h_jwt h = jwt) by (unfold h; cbn [holder_key_binding h_jwt]; exact F1).
    assert (Hkb : h_kb h = Some (aud, jalg)) by reflexivity.
    unfold holder_build. rewrite Hjwt, Hjp. cbn [obind]. rewrite Hcl. cbn [of_res obind]. rewrite Hcnf, Hkb. cbn [andb].
    rewrite Ha, Ho. change (presentation_prefix jwt (selected h)) with prefix.
    rewrite Hsign. reflexivity. }
  split; [exact Hbuild|].
  assert (Htil' : Forall (fun x => contains tilde x = false) (jwt :: sel_of ps rs)).
  { pose proof (Forall_inv Htil) as Hj0. pose proof (Forall_inv_tail Htil) as HL. constructor; [assumption|]. apply Forall_forall. intros s Hs.
    rewrite Forall_forall in HL. auto. }
  unfold prefix. rewrite Hselq, serialise_kb.
  assert (Hparts : sd_jwt_parts (serialise jwt (sel_of ps rs) kb) = (jwt, sel_of ps rs, Some kb)).
  { rewrite sd_jwt_parts_serialise by assumption. destruct (String.eqb_spec kb ""); [contradiction|reflexivity]. }
  assert (Hdrop : drop_kb (serialise jwt (sel_of ps rs) kb) = presentation_prefix jwt (sel_of ps rs)).
  { rewrite drop_kb_serialise by assumption. symmetry. apply prefix_is_serialise. }
  unfold verifier_verify.
  assert (Hraw : verifier_verify_raw O (serialise jwt (sel_of ps rs) kb) true = Val (hdr0, blind t, sel_of ps rs)).
  { apply verifier_verify_raw_iff. exists jwt, (Some kb), alg. repeat split; try assumption.
    right. split; [unfold kb_required; rewrite Hnn; reflexivity|].
    exists kb, (kb_header jalg), (kb_claims aud (e_nonce E) (e_iat E) (H (presentation_prefix jwt (sel_of ps rs)))), (H (presentation_prefix jwt (sel_of ps rs))).
    split; [reflexivity|]. split; [reflexivity|]. split.
    - apply verify_kb_iff. exists n, e. repeat split; try assumption.
      + unfold prefix in Hokb. rewrite Hselq in Hokb. exact Hokb.
    - split; [reflexivity|]. rewrite Hdrop, Ho. reflexivity. }
  rewrite Hraw. cbn [obind]. unfold restore_and_strip. rewrite Ha, Ho.
  destruct (restore_full_ok H enc (o_dec O) show_nat hash_inj dec_enc t Hwf Hnd Hndh Hheight (sel_of ps rs) ds' Hndsel) as [ps2 Hok]; [|assumption|].
  { intros s Hs. apply Hdecoy. apply Hsub. assumption. }
  rewrite Hok. cbn [of_res obind fst snd]. rewrite (remove_digests_view H enc t Hwf). reflexivity.
Qed.
End C02.
