From Coq Require Import List String Ascii Bool Arith Lia.
Import ListNotations.
Require Import SDJ.Json SDJ.Model2 SDJ.Out SDJ.Split SDJ.SplitM.
Local Open Scope string_scope.

Lemma firstn_removelast {A} (l : list A) : firstn (List.length l - 1) l = removelast l.
Proof.
  induction l as [|x r IH]; [reflexivity|]. destruct r as [|y r']; [reflexivity|].
  cbn [List.length removelast]. replace (S (S (List.length r')) - 1) with (S (List.length (y :: r') - 1)) by (cbn; lia).
  cbn [firstn]. f_equal. exact IH.
Qed.

Lemma nth_error_last {A} (l : list A) d : l <> [] -> nth_error l (List.length l - 1) = Some (last l d).
Proof.
  induction l as [|x r IH]; [congruence|]. intros _. destruct r as [|y r']; [reflexivity|].
  replace (List.length (x :: y :: r') - 1) with (S (List.length (y :: r') - 1)) by (cbn; lia).
  cbn [nth_error]. rewrite IH by discriminate. reflexivity.
Qed.

Lemma usub_S1 n : usub (S n) 1 = Val n.
Proof. unfold usub. cbn [Nat.leb]. f_equal. lia. Qed.

Lemma slice_tail {A} (x : A) (rest : list A) : rest <> [] ->
  slice (x :: rest) 1 (List.length rest) = Val (removelast rest).
Proof.
  intros Hne. unfold slice. cbn [List.length skipn].
  assert (Hl : 1 <= List.length rest) by (destruct rest; [congruence|cbn; lia]).
  replace (Nat.leb 1 (List.length rest)) with true by (symmetry; apply Nat.leb_le; lia).
  replace (Nat.leb (List.length rest) (S (List.length rest))) with true by (symmetry; apply Nat.leb_le; lia).
  cbn [andb]. rewrite firstn_removelast. reflexivity.
Qed.

Lemma slice_init {A} (l : list A) : l <> [] -> slice l 0 (List.length l - 1) = Val (removelast l).
Proof.
  intros Hne. unfold slice. cbn [Nat.leb skipn andb].
  replace (Nat.leb (List.length l - 1) (List.length l)) with true by (symmetry; apply Nat.leb_le; lia).
  rewrite Nat.sub_0_r, firstn_removelast. reflexivity.
Qed.

Lemma index_last {A} (x : A) rest d : rest <> [] -> index (x :: rest) (List.length rest) = Val (last rest d).
Proof.
  intros Hne. unfold index. destruct (List.length rest) as [|m] eqn:El; [destruct rest; [congruence|discriminate]|].
  cbn [nth_error]. replace m with (List.length rest - 1) by lia. rewrite (nth_error_last rest d) by assumption. reflexivity.
Qed.

Lemma parts_tail_spec s jwt rest : rest <> [] ->
  parts_tail s (jwt :: rest) =
  Val (jwt, removelast rest, if String.eqb (last rest "") "" then None else Some (last rest "")).
Proof.
  intros Hne. unfold parts_tail. cbn [List.length]. rewrite usub_S1.
  change (index (jwt :: rest) 0) with (Val (A:=string) jwt). cbn [obind].
  rewrite slice_tail by assumption. cbn [obind]. rewrite (index_last jwt rest "") by assumption.
  reflexivity.
Qed.

(* C10 (splitter): the repaired splitter is total and equals the panic-free specification *)
Theorem sd_jwt_parts_m_total s : sd_jwt_parts_m s = Val (sd_jwt_parts s).
Proof.
  unfold sd_jwt_parts_m, sd_jwt_parts. pose proof (split_on_nonempty tilde s) as Hne.
  destruct (split_on tilde s) as [|jwt rest]; [congruence|]. destruct rest as [|d rest']; [reflexivity|].
  cbn [List.length Nat.ltb Nat.leb]. rewrite parts_tail_spec by discriminate. reflexivity.
Qed.

Theorem drop_kb_m_total s : drop_kb_m s = Val (drop_kb s).
Proof.
  unfold drop_kb_m, drop_kb. pose proof (split_on_nonempty tilde s) as Hne.
  destruct (split_on tilde s) as [|a rest] eqn:E; [congruence|]. destruct rest as [|b rest']; [reflexivity|].
  cbn [List.length Nat.ltb Nat.leb]. rewrite usub_S1. cbn [obind].
  change (S (List.length rest')) with (List.length (a :: b :: rest') - 1).
  rewrite slice_init by discriminate. reflexivity.
Qed.

Theorem jwt_parts_m_no_panic s : jwt_parts_m s <> Panic.
Proof.
  unfold jwt_parts_m. destruct (split_on dot s) as [|a [|b [|c [|d r]]]]; cbn; discriminate.
Qed.

(* the finding behind repair F5: without the guard the splitter panics on any '~'-free input *)
Theorem sd_jwt_parts_pinned_refuted : exists s, sd_jwt_parts_pinned s = Panic.
Proof. exists "a.a.a". vm_compute. reflexivity. Qed.

Theorem sd_jwt_parts_pinned_panics s : contains tilde s = false -> sd_jwt_parts_pinned s = Panic.
Proof.
  intros Hc. unfold sd_jwt_parts_pinned. rewrite split_no_sep by assumption. reflexivity.
Qed.
