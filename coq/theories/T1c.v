From Coq Require Import List String Ascii Bool Arith Lia Sorting.Sorted.
Import ListNotations.
Require Import SDJ.Json SDJ.Model2 SDJ.ATree SDJ.T2a SDJ.T2b SDJ.T2c SDJ.T2d SDJ.Issuer1 SDJ.T1a SDJ.T1b.
Local Open Scope string_scope.

Section T1.
Variable H : string -> string.
Variable enc : list json -> string.
Variable parse_index : string -> option nat.
Variable parse_usize : string -> option nat.
Variable pos : string -> nat.
Notation add_sd := (T1a.add_sd pos).
Notation blind := (blind H enc).
Notation dig_item := (dig_item H enc).
Notation dig_mem := (dig_mem H enc).
Notation wf := (wf H enc).
Notation bitem := (bitem H enc).
Notation bmem := (bmem H enc).
Notation mark := (mark H enc parse_index parse_usize pos).
Notation mk_disc := (mk_disc H enc).
Notation disclose_here := (disclose_here H enc parse_usize pos).
Notation build_disclosure := (build_disclosure H enc parse_index parse_usize pos).

Definition sd_names_ok (m : string * (mkind * atree)) : Prop :=
  match fst (snd m) with MSd _ => fst m = "_sd" | _ => fst m <> "_sd" end.

Lemma slt_compare_lt a b : slt a b -> String.compare a b = Lt.
Proof. exact (fun h => h). Qed.

Lemma bmems_add_sd g : forall mems,
  StronglySorted slt (map fst mems) -> Forall sd_names_ok mems ->
  match obj_get "_sd" (flat_map bmem mems) with
  | Some (JArr ds) => obj_insert "_sd" (JArr (insert_at (pos g) (JStr g) ds)) (flat_map bmem mems) = flat_map bmem (add_sd g mems)
  | Some _ => False
  | None => obj_insert "_sd" (JArr [JStr g]) (flat_map bmem mems) = flat_map bmem (add_sd g mems)
  end.
Proof.
  induction mems as [|[n [k s]] r IH]; intros Hs Hn; [reflexivity|].
  cbn [map fst] in Hs. apply StronglySorted_inv in Hs as [Hs Hf].
  inversion Hn as [|? ? Hn1 Hn2]; subst. unfold sd_names_ok in Hn1. cbn in Hn1.
  specialize (IH Hs Hn2).
  cbn [add_sd]. destruct (String.compare "_sd" n) eqn:Ec.
  - (* the existing _sd member *)
    apply String.compare_eq_iff in Ec. subst n.
    destruct k as [| |l]; try (exfalso; apply Hn1; reflexivity).
    cbn. rewrite insert_at_map. reflexivity.
  - (* every key is larger: no _sd member *)
    assert (Hnone : obj_get "_sd" (flat_map bmem ((n, (k, s)) :: r)) = None).
    { apply obj_get_none. intros Hin. apply (keys_bmems H enc) in Hin. cbn in Hin. destruct Hin as [Hq|Hin].
      - rewrite Hq in Ec. exact (slt_irrefl _ Ec).
      - rewrite Forall_forall in Hf. specialize (Hf _ Hin). exact (slt_irrefl _ (slt_trans _ _ _ Ec Hf)). }
    rewrite Hnone.
    change (flat_map bmem (("_sd", (MSd [g], ALeaf JNull)) :: (n, (k, s)) :: r))
      with (("_sd", JArr [JStr g]) :: flat_map bmem ((n, (k, s)) :: r)).
    destruct (flat_map bmem ((n, (k, s)) :: r)) as [|[k1 v1] rest] eqn:Efl; [reflexivity|].
    cbn [obj_insert]. assert (slt "_sd" k1) as ->; [|reflexivity].
    assert (Hk1 : In k1 (map fst ((n, (k, s)) :: r))) by (apply (keys_bmems H enc); rewrite Efl; left; reflexivity).
    cbn in Hk1. destruct Hk1 as [<-|Hk1]; [exact Ec|].
    rewrite Forall_forall in Hf. exact (slt_trans _ _ _ Ec (Hf _ Hk1)).
  - (* keep walking *)
    assert (Hne : n <> "_sd") by (intros ->; cbn in Ec; discriminate).
    cbn [flat_map]. destruct k as [|salt|l].
    + cbn [T1b.bmem app]. cbn [obj_get]. destruct (String.eqb_spec "_sd" n); [congruence|].
      destruct (obj_get "_sd" (flat_map bmem r)) as [[| | | |ds|]|]; try contradiction; cbn [obj_insert]; rewrite Ec, IH; reflexivity.
    + cbn [T1b.bmem app]. exact IH.
    + exfalso. apply Hne. exact Hn1.
Qed.
End T1.
