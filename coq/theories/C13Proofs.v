(* C13 structure: who consumes which random draw in Issuer::encode. *)
From Coq Require Import List String Ascii Bool Arith ZArith Lia.
Import ListNotations.
Require Import SDJ.Json SDJ.Wire SDJ.Model2 SDJ.Out SDJ.Split SDJ.Restore2 SDJ.Issuer1 SDJ.Issuer2.
Local Open Scope string_scope.

Section S.
Variable E : issue_env.

Definition made_with (d : disc) (salt : json) : Prop := d = mk_disc E salt (d_key d) (d_val d).

Lemma disclose_here_made key salt j j' d : disclose_here E key salt j = Ok (j', d) -> made_with d salt.
Proof.
  unfold disclose_here, made_with, mk_disc. destruct j; cbn; try discriminate.
  - destruct (parse_usize key); [|discriminate]. destruct (nth_error xs n); [|discriminate].
    destruct (has_dots _); [discriminate|]. intros H. injection H as _ <-. reflexivity.
  - destruct (obj_get key kvs); [|discriminate]. destruct (_ || _); [discriminate|].
    destruct (obj_get "_sd" (obj_remove key kvs)) as [[]|]; try discriminate; intros H; injection H as _ <-; reflexivity.
Qed.

Lemma update_at_made {A} (P : A -> Prop) (f : json -> res (json * A)) :
  (forall j j' a, f j = Ok (j', a) -> P a) -> forall toks j j' a, update_at toks f j = Ok (j', a) -> P a.
Proof.
  intros Hf. unfold update_at. induction toks as [|tok rest IH]; intros j j' a Hu; cbn in Hu; [eauto|].
  destruct j; try discriminate.
  - destruct (parse_index tok); [|discriminate]. destruct (nth_error xs n) as [v|]; [|discriminate].
    destruct (Issuer1.update_at parse_index rest f v) as [[v' a']|] eqn:Eu; cbn in Hu; [|discriminate]. injection Hu as _ <-. eauto.
  - destruct (obj_get tok kvs) as [v|]; [|discriminate].
    destruct (Issuer1.update_at parse_index rest f v) as [[v' a']|] eqn:Eu; cbn in Hu; [|discriminate]. injection Hu as _ <-. eauto.
Qed.

Lemma build_disclosure_made c p salt c' d : build_disclosure E c p salt = Ok (c', d) -> made_with d salt.
Proof.
  unfold build_disclosure. destruct (parse_path p) as [[toks key]|]; [|discriminate].
  apply (update_at_made (fun d => made_with d salt)). intros; eapply disclose_here_made; eauto.
Qed.

(* the i-th disclosure is built from the i-th salt draw and from no other *)
Theorem issue_fold_salts : forall paths salts c c' ds,
  issue_fold E c paths salts = Ok (c', ds) -> Forall2 made_with ds (firstn (List.length paths) salts).
Proof.
  induction paths as [|p ps IH]; intros salts c c' ds Hf; cbn in Hf.
  - injection Hf as _ <-. constructor.
  - destruct salts as [|s ss]; [discriminate|].
    destruct (build_disclosure E c p s) as [[c1 d]|] eqn:Eb; cbn in Hf; [|discriminate].
    destruct (issue_fold E c1 ps ss) as [[c2 ds2]|] eqn:Ef; cbn in Hf; [|discriminate]. injection Hf as _ <-.
    cbn. constructor; [eapply build_disclosure_made; eauto|eapply IH; eauto].
Qed.

Lemma issue_fold_length : forall paths salts c c' ds,
  issue_fold E c paths salts = Ok (c', ds) -> List.length ds = List.length paths.
Proof.
  induction paths as [|p ps IH]; intros salts c c' ds Hf; cbn in Hf.
  - injection Hf as _ <-. reflexivity.
  - destruct salts as [|s ss]; [discriminate|].
    destruct (build_disclosure E c p s) as [[c1 d]|]; cbn in Hf; [|discriminate].
    destruct (issue_fold E c1 ps ss) as [[c2 ds2]|] eqn:Ef; cbn in Hf; [|discriminate]. injection Hf as _ <-.
    cbn. f_equal. eapply IH; eauto.
Qed.

(* with distinct salt draws, an injective encoding and an injective hash, all disclosure strings and all
   digests of one issuance are pairwise distinct - also for identical claims *)
Hypothesis enc_inj : forall a b, ie_enc E a = ie_enc E b -> a = b.
Hypothesis hash_inj : forall a b, ie_hash E a = ie_hash E b -> a = b.

Lemma made_with_salt d salt : made_with d salt ->
  exists rest, d_str d = ie_enc E (salt :: rest) /\ d_digest d = ie_hash E (d_str d).
Proof. intros ->. unfold mk_disc, Issuer1.mk_disc. cbn. destruct (d_key d); eexists; split; reflexivity. Qed.

Theorem digests_distinct : forall ds salts, Forall2 made_with ds salts -> NoDup salts -> NoDup (map d_digest ds).
Proof.
  induction 1 as [|d s ds ss Hm HF IH]; intros Hnd; cbn; [constructor|].
  inversion Hnd as [|? ? Hni Hnd']; subst. constructor; [|auto].
  intros Hin. apply in_map_iff in Hin as [d' [Hq Hd']].
  destruct (made_with_salt _ _ Hm) as (r1 & Hs1 & Hg1).
  assert (Hex : exists s', In s' ss /\ made_with d' s').
  { clear -HF Hd'. induction HF as [|x y l l' Hxy _ IHF]; [destruct Hd'|]. destruct Hd' as [<-|Hd']; [exists y; split; [left; reflexivity|assumption]|].
    destruct (IHF Hd') as (s' & Hin & Hm). exists s'. split; [right; assumption|assumption]. }
  destruct Hex as (s' & Hs' & Hm'). destruct (made_with_salt _ _ Hm') as (r2 & Hs2 & Hg2).
  rewrite Hg1, Hg2 in Hq. apply hash_inj in Hq. rewrite Hs1, Hs2 in Hq. apply enc_inj in Hq. injection Hq as -> _.
  contradiction.
Qed.
End S.

(* a new digest enters its _sd list at the position the random draw says: the order of a digest list is a
   function of the draws, not of the order of the claims *)
Theorem sd_insertion_position E key salt kvs v ds :
  obj_get key kvs = Some v -> (String.eqb key "_sd" || String.eqb key "...") = false ->
  obj_get "_sd" (obj_remove key kvs) = Some (JArr ds) ->
  exists d, disclose_here E key salt (JObj kvs) =
            Ok (JObj (obj_insert "_sd" (JArr (insert_at (ie_pos E (d_digest d)) (JStr (d_digest d)) ds)) (obj_remove key kvs)), d)
            /\ d = mk_disc E salt (Some key) v.
Proof. intros H1 H2 H3. exists (mk_disc E salt (Some key) v). unfold disclose_here, mk_disc. cbn. rewrite H1, H2, H3. split; reflexivity. Qed.

(* decoys: exactly the drawn decoy digests are appended to the top-level list, which is then permuted by
   the shuffle draw *)
Theorem decoys_appended kvs ds decoys :
  obj_get "_sd" kvs = Some (JArr ds) -> add_decoys kvs decoys = Ok (obj_insert "_sd" (JArr (ds ++ map JStr decoys)) kvs).
Proof. intros H. unfold add_decoys. rewrite H. reflexivity. Qed.

Theorem decoys_create_list kvs decoys :
  obj_get "_sd" kvs = None -> add_decoys kvs decoys = Ok (obj_insert "_sd" (JArr (map JStr decoys)) kvs).
Proof. intros H. unfold add_decoys. rewrite H. reflexivity. Qed.

Theorem top_list_shuffled E kvs ds : obj_get "_sd" kvs = Some (JArr ds) ->
  shuffle_top E kvs = obj_insert "_sd" (JArr (ie_perm E ds)) kvs.
Proof. intros H. unfold shuffle_top. rewrite H. reflexivity. Qed.
