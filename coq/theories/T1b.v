From Coq Require Import List String Ascii Bool Arith Lia Sorting.Sorted.
Import ListNotations.
Require Import SDJ.Json SDJ.Model2 SDJ.ATree SDJ.T2a SDJ.T2b SDJ.T2c SDJ.T2d SDJ.Issuer1 SDJ.T1a.
Local Open Scope string_scope.

(* ---------- generic list/assoc lemmas ---------- *)
Lemma list_set_map {A B} (f : A -> B) i x l : list_set i (f x) (map f l) = map f (list_set i x l).
Proof. revert i. induction l as [|y r IH]; intros [|i]; cbn; try reflexivity. rewrite IH. reflexivity. Qed.

Lemma nth_error_map' {A B} (f : A -> B) l i : nth_error (map f l) i = match nth_error l i with Some x => Some (f x) | None => None end.
Proof. revert i. induction l as [|y r IH]; intros [|i]; cbn; auto. Qed.

Lemma obj_insert_replace (pre post : list (string * json)) k old v :
  Forall (fun kv => slt (fst kv) k) pre ->
  obj_insert k v (pre ++ (k, old) :: post) = (pre ++ (k, v) :: post)%list.
Proof.
  intros Hpre. induction Hpre as [|[k' v'] r Hk _ IH]; cbn.
  - assert (String.compare k k = Eq) as ->; [|reflexivity].
    destruct (String.compare k k) eqn:E; [reflexivity| |]; exfalso.
    + exact (slt_irrefl _ E).
    + rewrite String.compare_antisym in E. destruct (String.compare k k) eqn:E2; cbn in E; try discriminate. exact (slt_irrefl _ E2).
  - cbn in Hk. rewrite (slt_gt _ _ Hk). rewrite IH. reflexivity.
Qed.

Lemma obj_remove_mid (pre post : list (string * json)) k old :
  ~ In k (map fst pre) -> obj_remove k (pre ++ (k, old) :: post) = (pre ++ post)%list.
Proof.
  induction pre as [|[k' v'] r IH]; cbn; intros Hn.
  - rewrite String.eqb_refl. reflexivity.
  - destruct (String.eqb_spec k k'); [exfalso; apply Hn; left; congruence|]. rewrite IH; [reflexivity|tauto].
Qed.

Lemma obj_get_mid (pre post : list (string * json)) k v :
  ~ In k (map fst pre) -> obj_get k (pre ++ (k, v) :: post) = Some v.
Proof.
  induction pre as [|[k' v'] r IH]; cbn; intros Hn.
  - rewrite String.eqb_refl. reflexivity.
  - destruct (String.eqb_spec k k'); [exfalso; apply Hn; left; congruence|]. apply IH. tauto.
Qed.

Section T1.
Variable H : string -> string.
Variable enc : list json -> string.
Variable parse_index : string -> option nat.
Variable parse_usize : string -> option nat.
Variable pos : string -> nat.
Notation blind := (blind H enc).
Notation dig_item := (dig_item H enc).
Notation dig_mem := (dig_mem H enc).
Notation wf := (wf H enc).

Definition bitem (it : ikind * atree) : json :=
  let '(k, s) := it in
  match k with IPlain => blind s | IHid salt => placeholder (dig_item salt s) | IDecoy g => placeholder g end.
Definition bmem (m : string * (mkind * atree)) : list (string * json) :=
  let '(name, (k, s)) := m in
  match k with MPlain => [(name, blind s)] | MHid _ => [] | MSd l => [(name, JArr (map JStr l))] end.
Lemma blind_arr items : blind (AArr items) = JArr (map bitem items).
Proof. reflexivity. Qed.
Lemma blind_obj mems : blind (AObj mems) = JObj (flat_map bmem mems).
Proof. reflexivity. Qed.

Lemma upd_mem_inv tok f mems mems' : upd_mem tok f mems = Some mems' ->
  exists pre x post x', mems = (pre ++ (tok, x) :: post)%list /\ mems' = (pre ++ (tok, x') :: post)%list /\
                        f x = Some x' /\ ~ In tok (map fst pre).
Proof.
  revert mems'. induction mems as [|[n x] r IH]; cbn; intros mems' Hu; [discriminate|].
  destruct (String.eqb_spec n tok) as [->|Hne].
  - destruct (f x) as [x'|] eqn:Ef; cbn in Hu; [|discriminate]. injection Hu as <-.
    exists [], x, r, x'. cbn. auto.
  - destruct (upd_mem tok f r) as [r'|] eqn:Er; cbn in Hu; [|discriminate]. injection Hu as <-.
    destruct (IH _ eq_refl) as (pre & x0 & post & x' & -> & -> & Hf & Hni).
    exists ((n, x) :: pre), x0, post, x'. cbn. repeat split; auto. intros [Hq|Hin]; [congruence|contradiction].
Qed.

Lemma keys_bmems (mems : list (string * (mkind * atree))) k :
  In k (map fst (flat_map bmem mems)) -> In k (map fst mems).
Proof.
  induction mems as [|[name [mk s]] r IH]; cbn [flat_map map]; [intros []|].
  rewrite map_app, in_app_iff. intros [Hk|Hk]; [|right; auto].
  left. destruct mk as [|salt|l]; cbn in Hk; try (destruct Hk as [<-|[]]; reflexivity). destruct Hk.
Qed.

Lemma sorted_mid_keys (pre post : list (string * (mkind * atree))) tok x :
  StronglySorted slt (map fst (pre ++ (tok, x) :: post)) ->
  Forall (fun kv : string * json => slt (fst kv) tok) (flat_map bmem pre) /\
  Forall (fun kv : string * json => slt tok (fst kv)) (flat_map bmem post).
Proof.
  rewrite map_app. cbn [map fst]. intros Hs. apply ssorted_split in Hs as [Hlt Hgt].
  rewrite Forall_forall in Hlt, Hgt. split; apply Forall_forall; intros kv Hkv.
  - apply Hlt. apply keys_bmems. apply in_map. assumption.
  - apply Hgt. apply keys_bmems. apply in_map. assumption.
Qed.
End T1.
