From Coq Require Import List String Ascii Bool Arith Lia Sorting.Sorted.
Import ListNotations.
Require Import SDJ.Json SDJ.Model2 SDJ.ATree SDJ.T2a SDJ.T2b SDJ.T2c SDJ.T2d.
Local Open Scope string_scope.

Section E.
Variable H : string -> string.
Variable enc : list json -> string.
Variable show_nat : nat -> string.
Notation blind := (blind H enc).
Notation view := (view H enc).
Notation dig_item := (dig_item H enc).
Notation dig_mem := (dig_mem H enc).
Notation hdigs := (hdigs H enc).
Notation alldigs := (alldigs H enc).
Notation view_item := (view_item H enc).
Notation view_mem := (view_mem H enc).
Notation wf := (wf H enc).
Notation restore1 := (restore1 show_nat).

Definition hdigs_item (it : ikind * atree) : list string :=
  let '(k, s) := it in match k with IHid salt => dig_item salt s :: hdigs s | _ => hdigs s end.
Definition hdigs_mem (m : string * (mkind * atree)) : list string :=
  let '(name, (k, s)) := m in match k with MHid salt => dig_mem salt name s :: hdigs s | _ => hdigs s end.
Lemma hdigs_arr items : hdigs (AArr items) = flat_map hdigs_item items.
Proof. reflexivity. Qed.
Lemma hdigs_obj mems : hdigs (AObj mems) = flat_map hdigs_mem mems.
Proof. reflexivity. Qed.

Definition closed_sub (closedR : atree -> Prop) (R : Rset) (opened : option bool) (s : atree) : Prop :=
  match opened with
  | None => True
  | Some true => closedR s
  | Some false => forall g, In g (hdigs s) -> R g = false end.
Definition iopened (R : Rset) (it : ikind * atree) : option bool :=
  let '(k, s) := it in match k with IPlain => Some true | IHid salt => Some (R (dig_item salt s)) | IDecoy _ => None end.
Definition mopened (R : Rset) (m : string * (mkind * atree)) : option bool :=
  let '(name, (k, s)) := m in match k with MPlain => Some true | MHid salt => Some (R (dig_mem salt name s)) | MSd _ => None end.

Fixpoint closedR (R : Rset) (t : atree) : Prop :=
  match t with
  | ALeaf _ => True
  | AArr items => fold_right (fun it acc => (let '(k, s) := it in
       match (match k with IPlain => Some true | IHid salt => Some (R (dig_item salt s)) | IDecoy _ => None end) with
       | None => True | Some true => closedR R s | Some false => forall g, In g (hdigs s) -> R g = false end) /\ acc) True items
  | AObj mems => fold_right (fun m acc => (let '(name, (k, s)) := m in
       match (match k with MPlain => Some true | MHid salt => Some (R (dig_mem salt name s)) | MSd _ => None end) with
       | None => True | Some true => closedR R s | Some false => forall g, In g (hdigs s) -> R g = false end) /\ acc) True mems
  end.

Lemma closedR_arr R items : closedR R (AArr items) <-> Forall (fun it => closed_sub (closedR R) R (iopened R it) (snd it)) items.
Proof.
  cbn. induction items as [|[k s] r IH]; cbn; [split; constructor|].
  rewrite IH. split.
  - intros [H1 H2]. constructor; [|assumption]. destruct k; cbn; assumption.
  - intros HF. inversion HF as [|? ? H1 H2]; subst. split; [|assumption]. destruct k; cbn in *; assumption.
Qed.
Lemma closedR_obj R mems : closedR R (AObj mems) <-> Forall (fun m => closed_sub (closedR R) R (mopened R m) (snd (snd m))) mems.
Proof.
  cbn. induction mems as [|[name [k s]] r IH]; cbn; [split; constructor|].
  rewrite IH. split.
  - intros [H1 H2]. constructor; [|assumption]. destruct k; cbn; assumption.
  - intros HF. inversion HF as [|? ? H1 H2]; subst. split; [|assumption]. destruct k; cbn in *; assumption.
Qed.

Inductive Exposed (R : Rset) (g : string) (k : option string) (v : json) : atree -> Prop :=
| ex_item_here items salt s :
    In (IHid salt, s) items -> g = dig_item salt s -> R g = false -> k = None -> v = blind s ->
    Exposed R g k v (AArr items)
| ex_item_in items ik s :
    In (ik, s) items -> iopened R (ik, s) = Some true -> Exposed R g k v s -> Exposed R g k v (AArr items)
| ex_mem_here mems name salt s :
    In (name, (MHid salt, s)) mems -> g = dig_mem salt name s -> R g = false -> k = Some name -> v = blind s ->
    Exposed R g k v (AObj mems)
| ex_mem_in mems name mk s :
    In (name, (mk, s)) mems -> mopened R (name, (mk, s)) = Some true -> Exposed R g k v s -> Exposed R g k v (AObj mems).

(* where the hidden node with digest g sits, as the path string the restore procedure reports for it *)
Inductive NodePath (g : string) : atree -> string -> Prop :=
| np_item_here items pre post salt s :
    items = (pre ++ (IHid salt, s) :: post)%list -> g = dig_item salt s ->
    NodePath g (AArr items) ("/" ++ esc_tok (show_nat (List.length pre)))
| np_item_in items pre post ik s suffix :
    items = (pre ++ (ik, s) :: post)%list -> NodePath g s suffix ->
    NodePath g (AArr items) ("/" ++ esc_tok (show_nat (List.length pre)) ++ suffix)
| np_mem_here mems name salt s :
    In (name, (MHid salt, s)) mems -> g = dig_mem salt name s -> NodePath g (AObj mems) ("/" ++ esc_tok name)
| np_mem_in mems name mk s suffix :
    In (name, (mk, s)) mems -> NodePath g s suffix -> NodePath g (AObj mems) ("/" ++ esc_tok name ++ suffix).

Lemma Exposed_arr_inv R g k v items : Exposed R g k v (AArr items) ->
  (exists salt s, In (IHid salt, s) items /\ g = dig_item salt s /\ R g = false /\ k = None /\ v = blind s) \/
  (exists ik s, In (ik, s) items /\ iopened R (ik, s) = Some true /\ Exposed R g k v s).
Proof. intros Hex. inversion Hex; subst; [left|right]; eauto 10. Qed.
Lemma Exposed_obj_inv R g k v mems : Exposed R g k v (AObj mems) ->
  (exists name salt s, In (name, (MHid salt, s)) mems /\ g = dig_mem salt name s /\ R g = false /\ k = Some name /\ v = blind s) \/
  (exists name mk s, In (name, (mk, s)) mems /\ mopened R (name, (mk, s)) = Some true /\ Exposed R g k v s).
Proof. intros Hex. inversion Hex; subst; [left|right]; eauto 12. Qed.

(* A7 *)
Lemma Exposed_hdigs R g k v t : Exposed R g k v t -> In g (hdigs t).
Proof.
  induction 1 as [items salt s Hin -> _ _ _ | items ik s Hin _ _ IH | mems name salt s Hin -> _ _ _ | mems name mk s Hin _ _ IH].
  - rewrite hdigs_arr. apply in_flat_map. eexists; split; [exact Hin|]. left. reflexivity.
  - rewrite hdigs_arr. apply in_flat_map. eexists; split; [exact Hin|]. destruct ik; cbn; auto.
  - rewrite hdigs_obj. apply in_flat_map. eexists; split; [exact Hin|]. left. reflexivity.
  - rewrite hdigs_obj. apply in_flat_map. eexists; split; [exact Hin|]. destruct mk; cbn; auto.
Qed.

(* A6 *)
Lemma sd_of_alldigs mems g : In g (sd_of mems) -> In g (alldigs (AObj mems)).
Proof.
  unfold sd_of. rewrite alldigs_obj. intros Hin. apply in_flat_map in Hin as [[name [mk s]] [Hm Hg]].
  apply in_flat_map. exists (name, (mk, s)). split; [assumption|]. destruct mk; cbn in *; tauto.
Qed.

Lemma hdigs_alldigs : forall t, wf t -> incl (hdigs t) (alldigs t).
Proof.
  induction t as [j | items IH | mems IH] using atree_ind'; intros Hwf g Hg; [destruct Hg| |].
  - inversion Hwf as [| ? Hall Hiok |]; subst. rewrite hdigs_arr in Hg. apply in_flat_map in Hg as [[k s] [Hin Hg]].
    rewrite Forall_forall in IH, Hall. specialize (IH _ Hin (Hall _ Hin)). cbn in IH.
    rewrite alldigs_arr. apply in_flat_map. exists (k, s). split; [assumption|].
    destruct k; cbn in *; [auto| |].
    + destruct Hg as [<-|Hg]; [left; reflexivity|right; auto].
    + rewrite Forall_forall in Hiok. specialize (Hiok _ Hin). cbn in Hiok. subst s. destruct Hg.
  - inversion Hwf as [| | ? Hs Hall Hok]; subst. rewrite hdigs_obj in Hg. apply in_flat_map in Hg as [[name [k s]] [Hin Hg]].
    rewrite Forall_forall in IH, Hall, Hok. specialize (IH _ Hin (Hall _ Hin)). specialize (Hok _ Hin). cbn in IH, Hok.
    destruct k as [|salt|l]; cbn in Hg.
    + rewrite alldigs_obj. apply in_flat_map. exists (name, (MPlain, s)). split; [assumption|]. cbn. auto.
    + destruct Hg as [<-|Hg].
      * apply sd_of_alldigs. tauto.
      * rewrite alldigs_obj. apply in_flat_map. exists (name, (MHid salt, s)). split; [assumption|]. cbn. auto.
    + destruct Hok as [_ [_ ->]]. destruct Hg.
Qed.
End E.
