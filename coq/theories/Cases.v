(* Case glue: one function from (kind, input, observed) - all in wire format - to a verdict line.
   The Rust harness produces the three fields; the extracted OCaml driver and the in-Coq cross-check
   both call run_line, so no case-specific code lives outside Coq.
   Verdicts:  "ok 1" / "ok 0"  (model = implementation, property oracle holds; flag = non-trivial case)
              "mismatch ..."   (implementation differs from the model but the property oracle holds)
              "propfail ..."   (the property's own oracle fails on the implementation's outcome)
              "badcase ..."    (harness or model defect: unparsable case, or the oracle fails on the model) *)
From Coq Require Import List String Ascii Bool Arith NArith.
Import ListNotations.
Require Import SDJ.Json SDJ.Wire SDJ.Model2 SDJ.Out SDJ.Restore2 SDJ.Split SDJ.SplitM SDJ.Spec SDJ.Verify SDJ.CaseLib SDJ.Issuer2 SDJ.CaseIssue.
Local Open Scope string_scope.

(* generic decision: oracle on the implementation first, then model = implementation, then oracle on the model *)
Definition decide (P : json -> option string) (impl model : json) (nontrivial : bool) (what : string) : verdict :=
  match P impl with
  | Some why => VPropFail (what ++ ": " ++ why ++ " [model: " ++ obs_class model ++ "]")
  | None =>
      if json_eqb impl model then
        match P model with None => VOk nontrivial | Some why => VBad ("oracle fails on the model: " ++ why) end
      else VMismatch (what ++ ": impl " ++ obs_class impl ++ ", model " ++ obs_class model)
  end.

(* first non-ok verdict wins, propfail before mismatch before badcase *)
Definition rank (v : verdict) : nat :=
  match v with VPropFail _ => 0 | VMismatch _ => 1 | VBad _ => 2 | VOk _ => 3 end.
Definition worst (a b : verdict) : verdict :=
  match a, b with
  | VOk x, VOk y => VOk (x || y)
  | _, _ => if Nat.leb (rank a) (rank b) then a else b end.

(* ---- C10 / kind "split": sd_jwt_parts on an arbitrary string ---- *)
Definition parts_json (p : string * list string * option string) : json :=
  let '(jwt, ds, kb) := p in JArr [JStr jwt; JArr (map JStr ds); jopt kb].

Definition no_panic (o : json) : option string := if obs_is "panic" o then Some "panics" else None.

Definition case_split (input obs : json) : verdict :=
  match jget "s" input with
  | JStr s =>
      decide no_panic (jget "parts" obs) (obs_of_out parts_json (sd_jwt_parts_m s)) (contains tilde s) "sd_jwt_parts"
  | _ => VBad "split: s"
  end.

(* ---- kind "verify": a presentation string through Holder::verify, Verifier::verify, Holder::presentation ---- *)
Definition sorted_paths (ps : list dpath) : json := JArr (sort_json (map path_json (paths_json ps))).

Definition model_hverify (O : oracles) (token : string) : json :=
  obs_of_out (fun r : json * json * list dpath => let '(h, c, ps) := r in JArr [h; c; sorted_paths ps]) (holder_verify O token).
Definition model_vverify (O : oracles) (token : string) (kbpol : bool) : json :=
  obs_of_out (fun r : json * json => let '(h, c) := r in JArr [h; c]) (verifier_verify O token kbpol).
Definition no_env : build_env := {| e_nonce := ""; e_iat := JNull; e_sign := fun _ _ => Fail |}.
(* Holder::presentation(token).and_then(|h| h.build()) without key binding *)
Definition model_presentation (O : oracles) (token : string) : json :=
  obs_of_out JStr (dO h <- holder_presentation O token; holder_build O no_env h).

(* the expectation carried by a case: claims in the clear, marked paths, which disclosures are presented *)
Definition expected_claims (e : json) : json :=
  let marks := map tpath_of_json (jlist (jget "marks" e)) in
  let present := map jbool (jlist (jget "present" e)) in
  let hidden := flat_map (fun mp : tpath * bool => if snd mp then [] else [fst mp]) (combine marks present) in
  prune (jget "claims" e) hidden.

(* C03, adversarial lists: the claims are the original ones with some marked nodes absent - at least
   those whose disclosure is not presented *)
Definition sound_claims (e : json) (v : json) : bool :=
  let marks := map tpath_of_json (jlist (jget "marks" e)) in
  let present := map jbool (jlist (jget "present" e)) in
  let mp := combine marks present in
  let must := flat_map (fun q : tpath * bool => if snd q then [] else [fst q]) mp in
  let may := flat_map (fun q : tpath * bool => if snd q then [fst q] else []) mp in
  sub_project (jget "claims" e) v must may.

Definition expected_paths (e : json) : json :=
  let marks := map tpath_of_json (jlist (jget "marks" e)) in
  let present := map jbool (jlist (jget "present" e)) in
  let mp := combine marks present in
  let revealed (m : tpath) : bool :=
    forallb (fun q : tpath * bool => negb (is_prefix (fst q) m) || snd q) mp in
  let triples := jlist (jget "paths" e) in
  JArr (sort_json (flat_map (fun mt : tpath * json => if revealed (fst mt) then [snd mt] else []) (combine marks triples))).

(* disclosure strings of the marks that are presented and reachable, sorted *)
Definition expected_strings (e : json) : json :=
  let marks := map tpath_of_json (jlist (jget "marks" e)) in
  let present := map jbool (jlist (jget "present" e)) in
  let mp := combine marks present in
  let revealed (m : tpath) : bool :=
    forallb (fun q : tpath * bool => negb (is_prefix (fst q) m) || snd q) mp in
  JArr (sort_json (flat_map (fun mt : tpath * json => if revealed (fst mt) then [snd mt] else []) (combine marks (jlist (jget "strings" e))))).

(* oracle for the string built by the holder: its disclosures are exactly the presented reachable ones *)
Definition presentation_oracle (e : json) (mode : string) (o : json) : option string :=
  if obs_is "panic" o then Some "panics"
  else if String.eqb mode "none" then None
  else if obs_is "err" o then (if String.eqb mode "accept" then Some "rejected, must be accepted" else None)
  else if String.eqb mode "reject" then Some "accepted, must be rejected"
  else if negb (String.eqb mode "accept") then None
  else match obs_val o with
       | JStr s => let '(_, ds, kb) := sd_jwt_parts s in
                   if json_eqb (JArr (sort_json (map JStr ds))) (expected_strings e) then None
                   else Some "the holder's presentation does not carry exactly the reachable presented disclosures"
       | _ => Some "unreadable outcome" end.

Definition mode_of (e : json) (which : string) : string :=
  match jget which e with JStr m => m | _ => jstr_or_empty (jget "mode" e) end.

(* [pick] selects the claims (and optionally the paths) out of an Ok observation *)
Definition expect_oracle (e : json) (mode : string) (claims_at paths_at : option nat) (o : json) : option string :=
  if obs_is "panic" o then Some "panics"
  else if String.eqb mode "none" then None
  else if obs_is "err" o then
    (if String.eqb mode "accept" then Some "rejected, must be accepted" else None)
  else if negb (obs_is "ok" o) then Some "unreadable outcome"
  else if String.eqb mode "reject" then Some "accepted, must be rejected"
  else
    let v := jlist (obs_val o) in
    let claims_ok := match claims_at with
                     | Some i => if String.eqb mode "accept" then json_eqb (nth i v JNull) (expected_claims e)
                                 else sound_claims e (nth i v JNull)
                     | None => true end in
    (* the path list is part of the expectation only where the property speaks about it: duplicate-free
       lists that must be accepted (C01, C02, C08); for adversarial lists only the claims are judged *)
    let paths_ok := match paths_at with
                    | Some i => negb (String.eqb mode "accept") || json_eqb (nth i v JNull) (expected_paths e)
                    | None => true end in
    if negb claims_ok then Some "claims differ from the original claims minus the withheld ones"
    else if negb paths_ok then Some "disclosure paths differ from the marked paths that were presented"
    else None.

Definition case_verify (input obs : json) : verdict :=
  let O := oracles_of input in
  let token := jstr_or_empty (jget "token" input) in
  let kbpol := jbool (jget "kbpol" input) in
  let e := jget "expect" input in
  let nt := jbool (jget "nontrivial" input) in
  let vh := decide (expect_oracle e (mode_of e "mode_h") (Some 1) (Some 2)) (jget "hverify" obs) (model_hverify O token) nt "Holder::verify" in
  let vv := decide (expect_oracle e (mode_of e "mode_v") (Some 1) None) (jget "vverify" obs) (model_vverify O token kbpol) nt "Verifier::verify" in
  let vp := decide (presentation_oracle e (mode_of e "mode_p")) (jget "presentation" obs) (model_presentation O token) nt "Holder::presentation+build" in
  worst vh (worst vv vp).

Definition run_case (kind : string) (input obs : json) : verdict :=
  if String.eqb kind "split" then case_split input obs
  else if String.eqb kind "verify" then case_verify input obs
  else if String.eqb kind "issue" then case_issue input obs
  else VBad ("unknown kind " ++ kind).

Definition run_line (kind input obs : string) : string :=
  match parse_wire input, parse_wire obs with
  | Some i, Some o => show_verdict (run_case kind i o)
  | None, _ => "badcase input does not parse"
  | _, None => "badcase observation does not parse"
  end.
