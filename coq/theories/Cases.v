(* Case glue: one function from (kind, input, observed) - all in wire format - to a verdict line.
   The Rust harness produces the three fields; the extracted OCaml driver and the in-Coq cross-check
   both call run_line, so no case-specific code lives outside Coq.
   Verdicts:  "ok 1" / "ok 0"  (model = implementation, property oracle holds; flag = non-trivial case)
              "mismatch ..."   (implementation differs from the model but the property oracle holds)
              "propfail ..."   (the property's own oracle fails on the implementation's outcome)
              "badcase ..."    (harness bug: unparsable case) *)
From Coq Require Import List String Ascii Bool Arith NArith.
Import ListNotations.
Require Import SDJ.Json SDJ.Wire SDJ.Model2 SDJ.Out SDJ.Split SDJ.SplitM.
Local Open Scope string_scope.

Inductive verdict := VOk (nontrivial : bool) | VMismatch (d : string) | VPropFail (d : string) | VBad (d : string).

Definition show_verdict (v : verdict) : string :=
  match v with
  | VOk true => "ok 1" | VOk false => "ok 0"
  | VMismatch d => "mismatch " ++ d
  | VPropFail d => "propfail " ++ d
  | VBad d => "badcase " ++ d
  end.

(* observed outcomes: {"o":"ok","v":..} | {"o":"err"} | {"o":"panic"} *)
Definition obs_of_out {A} (f : A -> json) (x : out A) : json :=
  match x with
  | Val a => JObj [("o", JStr "ok"); ("v", f a)]
  | Fail => JObj [("o", JStr "err")]
  | Panic => JObj [("o", JStr "panic")]
  end.
Definition obs_is (c : string) (o : json) : bool :=
  match jget "o" o with JStr s => String.eqb s c | _ => false end.
Definition obs_class (o : json) : string := match jget "o" o with JStr s => s | _ => "?" end.

Definition jopt (o : option string) : json := match o with Some s => JStr s | None => JNull end.
Definition parts_json (p : string * list string * option string) : json :=
  let '(jwt, ds, kb) := p in JArr [JStr jwt; JArr (map JStr ds); jopt kb].

(* ---- C10 / kind "split": sd_jwt_parts on an arbitrary string ---- *)
Definition case_split (input obs : json) : verdict :=
  match jget "s" input with
  | JStr s =>
      let m := obs_of_out parts_json (sd_jwt_parts_m s) in
      let o := jget "parts" obs in
      if obs_is "panic" o then VPropFail ("sd_jwt_parts panics; model: " ++ obs_class m)
      else if json_eqb m o then VOk (contains tilde s) else VMismatch "sd_jwt_parts"
  | _ => VBad "split: s"
  end.

Definition run_case (kind : string) (input obs : json) : verdict :=
  if String.eqb kind "split" then case_split input obs
  else VBad ("unknown kind " ++ kind).

Definition run_line (kind input obs : string) : string :=
  match parse_wire input, parse_wire obs with
  | Some i, Some o => show_verdict (run_case kind i o)
  | None, _ => "badcase input does not parse"
  | _, None => "badcase observation does not parse"
  end.
