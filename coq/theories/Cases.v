(* Case glue: one function from (kind, input, observed) - all in wire format - to a verdict line.
   The Rust harness produces the three fields; the extracted OCaml driver and the in-Coq cross-check
   both call run_line, so no case-specific code lives outside Coq.
   Verdicts:  "ok 1" / "ok 0"  (model = implementation, property oracle holds; flag = non-trivial case)
              "mismatch ..."   (implementation differs from the model but the property oracle holds)
              "propfail ..."   (the property's own oracle fails on the implementation's outcome)
              "badcase ..."    (harness or model defect: unparsable case, or the oracle fails on the model) *)
From Coq Require Import List String Ascii Bool Arith NArith.
Import ListNotations.
Require Import SDJ.Json SDJ.Wire SDJ.Model2 SDJ.Out SDJ.Restore2 SDJ.Split SDJ.SplitM SDJ.Spec SDJ.RefVerify SDJ.Verify SDJ.CaseLib SDJ.Issuer2 SDJ.CaseIssue SDJ.CasePresent SDJ.CaseJwt SDJ.CaseHistory SDJ.CaseYaml SDJ.CaseConform SDJ.CaseUnit.
Local Open Scope string_scope.

(* ---- C10 / kind "split": sd_jwt_parts on an arbitrary string ---- *)
Definition parts_json (p : string * list string * option string) : json :=
  let '(jwt, ds, kb) := p in JArr [JStr jwt; JArr (map JStr ds); jopt kb].

Definition no_panic (o : json) : option string := if obs_is "panic" o then Some "panics" else None.

Definition case_split (input obs : json) : verdict :=
  match jget "s" input with
  | JStr s =>
      decide no_panic (jget "parts" obs) (obs_of_out parts_json (sd_jwt_parts_m s)) (contains tilde s) "sd_jwt_parts"
  | _ => VBad "split: s"
  end.

(* ---- kind "verify": a presentation string through Holder::verify, Verifier::verify, Holder::presentation ---- *)
Definition sorted_paths (ps : list dpath) : json := JArr (sort_json (map path_json (paths_json ps))).

Definition model_hverify (O : oracles) (token : string) : json :=
  obs_of_out (fun r : json * json * list dpath => let '(h, c, ps) := r in JArr [h; c; sorted_paths ps]) (holder_verify O token).
Definition model_vverify (O : oracles) (token : string) (kbpol : bool) : json :=
  obs_of_out (fun r : json * json => let '(h, c) := r in JArr [h; c]) (verifier_verify O token kbpol).
Definition no_env : build_env := {| e_nonce := ""; e_iat := JNull; e_sign := fun _ _ => Fail |}.
(* Holder::presentation(token).and_then(|h| h.build()) without key binding *)
Definition model_presentation (O : oracles) (token : string) : json :=
  obs_of_out JStr (dO h <- holder_presentation O token; holder_build O no_env h).

Definition case_verify (input obs : json) : verdict :=
  let O := oracles_of input in
  let token := jstr_or_empty (jget "token" input) in
  let kbpol := jbool (jget "kbpol" input) in
  let e := jget "expect" input in
  let nt := jbool (jget "nontrivial" input) in
  let vh := decide (expect_oracle e (mode_of e "mode_h") (Some 1) (Some 2)) (jget "hverify" obs) (model_hverify O token) nt "Holder::verify" in
  let vv := decide (expect_oracle e (mode_of e "mode_v") (Some 1) None) (jget "vverify" obs) (model_vverify O token kbpol) nt "Verifier::verify" in
  let vp := decide (presentation_oracle e (mode_of e "mode_p")) (jget "presentation" obs) (model_presentation O token) nt "Holder::presentation+build" in
  (* C08: three-way agreement with the independent reference verifier on reference-issued tokens *)
  let vr := if jbool (jget "ref_check" input) then
              match jlist (jget "jwt" input) with
              | JArr [_; _; payload] :: _ =>
                  let '(_, ds, _) := sd_jwt_parts token in
                  match match ref_alg_name payload with Some a => parse_halg a | None => None end with
                  | Some alg =>
                      let dec s := match o_dec O s with DJson j => Some j | DErr => None end in
                      match ref_verify (o_hash O alg) dec payload ds with
                      | Some c => if json_eqb c (expected_claims e) then VOk false
                                  else VBad "the reference verifier disagrees with the expected claims"
                      | None => VBad "the reference verifier rejects a conformant token" end
                  | None => VBad "ref_check without _sd_alg" end
              | _ => VBad "ref_check without jwt table" end
            else VOk false in
  worst vh (worst vv (worst vp vr)).

(* ---- C10 / kind "misc": entry points without a model; nothing may panic ---- *)
Definition case_misc (input obs : json) : verdict :=
  match obs with
  | JObj kvs => match filter (fun kv : string * json => match snd kv with JStr s => String.eqb s "panic" | _ => false end) kvs with
                | [] => VOk true
                | (k, _) :: _ => VPropFail ("entry point panics on untrusted input: " ++ k) end
  | _ => VBad "misc" end.

(* ---- C10 / kind "deep": compounded nesting, implementation run in a child process ---- *)
Definition case_deep (input obs : json) : verdict :=
  let O := oracles_of input in
  let token := jstr_or_empty (jget "token" input) in
  let m := match holder_verify O token with Val _ => "ok" | Fail => "err" | Panic => "panic" end in
  let o := obs_class (jget "hverify" obs) in
  if String.eqb o "timeout" then VPropFail ("Holder::verify does not return within the time limit: the work grows exponentially with the number of disclosures [model: " ++ m ++ "]")
  else if String.eqb o "abort" then VPropFail ("Holder::verify aborts the process (stack exhaustion) on deeply nested disclosures [model: " ++ m ++ "]")
  else if String.eqb o "panic" then VPropFail "Holder::verify panics on deeply nested disclosures"
  else if String.eqb o m then VOk true else VMismatch ("Holder::verify on nested disclosures: impl " ++ o ++ ", model " ++ m).

Definition run_case (kind : string) (input obs : json) : verdict :=
  if String.eqb kind "split" then case_split input obs
  else if String.eqb kind "verify" then case_verify input obs
  else if String.eqb kind "misc" then case_misc input obs
  else if String.eqb kind "deep" then case_deep input obs
  else if String.eqb kind "issue" then case_issue input obs
  else if String.eqb kind "present" then case_present input obs
  else if String.eqb kind "bstep" then case_bstep input obs
  else if String.eqb kind "decode" then case_decode input obs
  else if String.eqb kind "history" then case_history input obs
  else if String.eqb kind "yaml" then case_yaml input obs
  else if String.eqb kind "conform" then case_conform input obs
  else if String.eqb kind "discbuild" then case_discbuild input obs
  else if String.eqb kind "unit" then case_unit input obs
  else VBad ("unknown kind " ++ kind).

Definition run_line (kind input obs : string) : string :=
  match parse_wire input, parse_wire obs with
  | Some i, Some o => show_verdict (run_case kind i o)
  | None, _ => "badcase input does not parse"
  | _, None => "badcase observation does not parse"
  end.
