From Coq Require Import List String Ascii Bool Arith Lia Sorting.Sorted.
Import ListNotations.
Require Import SDJ.Json SDJ.Model2 SDJ.ATree SDJ.T2a SDJ.T2b SDJ.T2c SDJ.T2d SDJ.Issuer1 SDJ.T1a SDJ.T1b SDJ.T1c.
Local Open Scope string_scope.

Section T1.
Variable H : string -> string.
Variable enc : list json -> string.
Variable parse_index : string -> option nat.
Variable parse_usize : string -> option nat.
Variable pos : string -> nat.
Notation add_sd := (T1a.add_sd pos).
Notation blind := (blind H enc).
Notation dig_item := (dig_item H enc).
Notation dig_mem := (dig_mem H enc).
Notation wf := (wf H enc).
Notation bitem := (bitem H enc).
Notation bmem := (bmem H enc).
Notation mark := (mark H enc parse_index parse_usize pos).
Notation mk_disc := (mk_disc H enc).
Notation disclose_here := (disclose_here H enc parse_usize pos).
Notation build_disclosure := (build_disclosure H enc parse_index parse_usize pos).
Notation update_at := (update_at parse_index).
Notation target := (target parse_index parse_usize).

Lemma find_mid (pre post : list (string * (mkind * atree))) tok x :
  ~ In tok (map fst pre) -> find (fun m => String.eqb (fst m) tok) (pre ++ (tok, x) :: post) = Some (tok, x).
Proof.
  induction pre as [|[n y] r IH]; cbn; intros Hn.
  - rewrite String.eqb_refl. reflexivity.
  - destruct (String.eqb_spec n tok); [exfalso; apply Hn; left; assumption|]. apply IH. tauto.
Qed.

Lemma wf_obj_names mems : wf (AObj mems) -> Forall sd_names_ok mems.
Proof.
  intros Hw. inversion Hw as [| | ? Hs Hall Hok]; subst. rewrite Forall_forall in Hok |- *.
  intros [n [k s]] Hm. specialize (Hok _ Hm). unfold sd_names_ok. cbn in *. destruct k; tauto.
Qed.

(* a well-formed tree blinds to a value without a "..." member: only placeholders have one *)
Lemma has_dots_blind s : wf s -> has_dots (blind s) = false.
Proof.
  intros Hw. destruct s as [j | items | mems].
  - inversion Hw as [j' Hs| |]; subst. destruct j; try reflexivity; contradiction.
  - reflexivity.
  - rewrite blind_obj. cbn [has_dots]. destruct (obj_get "..." (flat_map bmem mems)) as [v|] eqn:E; [|reflexivity]. exfalso.
    apply obj_get_in in E. apply (in_map fst) in E. cbn [fst] in E. apply keys_bmems in E.
    apply in_map_iff in E as [[n [k s]] [Hn Hin]]. cbn [fst] in Hn. subst n.
    inversion Hw as [| | ? _ _ Hok]; subst. rewrite Forall_forall in Hok. specialize (Hok _ Hin). cbn in Hok. tauto.
Qed.

(* the last step: hiding a member / an element of the node itself *)
Lemma disclose_here_mark t t' key salt :
  wf t -> mark [] key salt t = Some t' ->
  exists k s, target [] key t = Some (k, s) /\ disclose_here key salt (blind t) = Ok (blind t', mk_disc salt k (blind s)).
Proof.
  intros Hw Hm. destruct t as [j | items | mems]; cbn [T1a.mark] in Hm; [discriminate| |].
  - (* array element *)
    destruct (parse_usize key) as [i|] eqn:Ep; [|discriminate].
    unfold upd_item in Hm. destruct (nth_error items i) as [[k s]|] eqn:En; [|discriminate].
    destruct k as [| |]; cbn in Hm; try discriminate. injection Hm as <-.
    exists None, s. split; [cbn [T1a.target]; rewrite Ep, En; reflexivity|].
    rewrite !blind_arr. cbn [Issuer1.disclose_here]. rewrite Ep, nth_error_map', En.
    assert (Hws : wf s).
    { inversion Hw as [|? Hall _|]; subst. rewrite Forall_forall in Hall. apply nth_error_In in En. exact (Hall _ En). }
    replace (has_dots (bitem (IPlain, s))) with false by (symmetry; exact (has_dots_blind s Hws)).
    f_equal. f_equal. f_equal.
    change (placeholder_json (d_digest (mk_disc salt None (bitem (IPlain, s))))) with (bitem (IHid salt, s)).
    apply list_set_map.
  - (* object member *)
    destruct (upd_mem key _ mems) as [mems'|] eqn:Eu; [|discriminate].
    apply upd_mem_inv in Eu as (pre & x & post & x' & Hsplit & -> & Hf & Hni).
    destruct x as [[| |] s]; try discriminate. injection Hf as <-.
    rewrite Hsplit, find_mid in Hm by assumption. injection Hm as <-.
    exists (Some key), s. split; [cbn [T1a.target]; rewrite Hsplit, find_mid by assumption; reflexivity|].
    inversion Hw as [| | ? Hs Hall Hok]; subst mems0.
    assert (Hkey : key <> "_sd" /\ key <> "...").
    { rewrite Forall_forall in Hok. specialize (Hok (key, (MPlain, s))). rewrite Hsplit in Hok.
      specialize (Hok ltac:(apply in_or_app; right; left; reflexivity)). cbn in Hok. tauto. }
    rewrite Hsplit in Hs. destruct (sorted_mid_keys H enc _ _ _ _ Hs) as [Hlt Hgt].
    assert (Hnik : ~ In key (map fst (flat_map bmem pre))).
    { intros Hin. apply in_map_iff in Hin as [kv [Hq Hkv]]. rewrite Forall_forall in Hlt. specialize (Hlt _ Hkv).
      rewrite Hq in Hlt. exact (slt_irrefl _ Hlt). }
    rewrite blind_obj, Hsplit, flat_map_app. cbn [flat_map T1b.bmem app].
    cbn [Issuer1.disclose_here]. rewrite obj_get_mid by assumption.
    destruct (String.eqb_spec key "_sd"); [tauto|]. destruct (String.eqb_spec key "..."); [tauto|]. cbn [orb].
    rewrite obj_remove_mid by assumption.
    (* the members after hiding *)
    set (mems' := (pre ++ (key, (MHid salt, s)) :: post)%list).
    assert (Hbm : flat_map bmem mems' = (flat_map bmem pre ++ flat_map bmem post)%list).
    { unfold mems'. rewrite flat_map_app. reflexivity. }
    rewrite <- Hbm.
    assert (Hs' : StronglySorted slt (map fst mems')).
    { unfold mems'. rewrite map_app in Hs |- *. exact Hs. }
    assert (Hn' : Forall sd_names_ok mems').
    { pose proof (wf_obj_names _ Hw) as Hn. rewrite Hsplit in Hn. unfold mems'.
      apply Forall_app in Hn as [Hn1 Hn2]. apply Forall_app. split; [assumption|].
      inversion Hn2; subst. constructor; [|assumption]. unfold sd_names_ok. cbn. tauto. }
    pose proof (bmems_add_sd H enc pos (dig_mem salt key s) mems' Hs' Hn') as Hadd.
    rewrite blind_obj.
    destruct (obj_get "_sd" (flat_map bmem mems')) as [[| | | |ds|]|]; try contradiction; rewrite <- Hadd; reflexivity.
Qed.

Theorem build_disclosure_mark key salt : forall toks t t',
  wf t -> mark toks key salt t = Some t' ->
  exists k s, target toks key t = Some (k, s) /\ build_disclosure (blind t) toks key salt = Ok (blind t', mk_disc salt k (blind s)).
Proof.
  unfold Issuer1.build_disclosure.
  induction toks as [|tok rest IH]; intros t t' Hw Hm.
  - cbn [Issuer1.update_at]. eapply disclose_here_mark; eauto.
  - destruct t as [j | items | mems]; cbn [T1a.mark] in Hm; [discriminate| |].
    + destruct (parse_index tok) as [i|] eqn:Ep; [|discriminate].
      unfold upd_item in Hm. destruct (nth_error items i) as [[k s]|] eqn:En; [|discriminate].
      destruct k as [| |]; cbn in Hm; try discriminate.
      destruct (mark rest key salt s) as [s'|] eqn:Ems; cbn in Hm; [|discriminate]. injection Hm as <-.
      assert (Hws : wf s).
      { inversion Hw as [| ? Hall Hiok |]; subst. rewrite Forall_forall in Hall. apply nth_error_In in En. exact (Hall _ En). }
      destruct (IH _ _ Hws Ems) as (k0 & s0 & Ht & Hd).
      exists k0, s0. split; [cbn [T1a.target]; rewrite Ep, En; exact Ht|].
      rewrite !blind_arr. cbn [Issuer1.update_at]. rewrite Ep, nth_error_map', En.
      change (bitem (IPlain, s)) with (blind s). rewrite Hd. cbn [bind].
      change (blind s') with (bitem (IPlain, s')). rewrite list_set_map. reflexivity.
    + destruct (upd_mem tok _ mems) as [mems'|] eqn:Eu; cbn in Hm; [|discriminate]. injection Hm as <-.
      apply upd_mem_inv in Eu as (pre & x & post & x' & Hsplit & -> & Hf & Hni).
      destruct x as [[| |] s]; try discriminate.
      destruct (mark rest key salt s) as [s'|] eqn:Ems; cbn in Hf; [|discriminate]. injection Hf as <-.
      inversion Hw as [| | ? Hs Hall Hok]; subst mems0.
      assert (Hws : wf s).
      { rewrite Forall_forall in Hall. apply (Hall (tok, (MPlain, s))). rewrite Hsplit. apply in_or_app. right. left. reflexivity. }
      destruct (IH _ _ Hws Ems) as (k0 & s0 & Ht & Hd).
      rewrite Hsplit in Hs. destruct (sorted_mid_keys H enc _ _ _ _ Hs) as [Hlt Hgt].
      assert (Hnik : ~ In tok (map fst (flat_map bmem pre))).
      { intros Hin. apply in_map_iff in Hin as [kv [Hq Hkv]]. rewrite Forall_forall in Hlt. specialize (Hlt _ Hkv).
        rewrite Hq in Hlt. exact (slt_irrefl _ Hlt). }
      exists k0, s0. split; [cbn [T1a.target]; rewrite Hsplit, find_mid by assumption; exact Ht|].
      rewrite !blind_obj, Hsplit, !flat_map_app. cbn [flat_map T1b.bmem app].
      cbn [Issuer1.update_at]. rewrite obj_get_mid by assumption. rewrite Hd. cbn [bind].
      rewrite obj_insert_replace by assumption. reflexivity.
Qed.
Print Assumptions build_disclosure_mark.
End T1.
