(* C15: the paths parse_yaml reports are a valid marking - the JSON pointers of the tagged nodes, each an
   existing node of the claims, descendants before ancestors, no repeats - so issuing with them succeeds. *)
From Coq Require Import List String Ascii Bool Arith NArith Lia Sorting.Sorted.
Import ListNotations.
Require Import SDJ.Json SDJ.Wire SDJ.Model2 SDJ.Yaml SDJ.T1e SDJ.T1r SDJ.T1s SDJ.C15Proofs SDJ.Issuer2 SDJ.T2b.
Require Import SDJ.DecStr SDJ.PathStr.
Local Open Scope string_scope.

Notation render := (T1s.render Wire.show_nat).

Definition segs (a : addr) : list string := map etok a.

Lemma render_segs_segs a : render_segs (segs a) = render a.
Proof. induction a as [|t r IH]; [reflexivity|]. rewrite render_cons. cbn [segs map render_segs]. fold (segs r). rewrite IH. reflexivity. Qed.

Lemma segs_snoc_key (pa : addr) k : segs (pa ++ [SKey k])%list = (segs pa ++ [esc_tok k])%list.
Proof. unfold segs. rewrite map_app. reflexivity. Qed.
Lemma segs_snoc_idx (pa : addr) i : segs (pa ++ [SIdx i])%list = (segs pa ++ [Wire.show_nat i])%list.
Proof. unfold segs. rewrite map_app. cbn [map etok tokstr]. unfold etok. cbn [tokstr]. rewrite (esc_tok_digits _ (show_nat_digits i)). reflexivity. Qed.

Section Y.
Variable marked : list string -> bool.

Definition arr_addrs (rec : addr -> json -> list addr) (pa : addr) : nat -> list json -> list addr :=
  fix go (i : nat) (l : list json) : list addr :=
    match l with
    | [] => []
    | x :: r => ((match x with
                  | JStr _ => if marked (segs (pa ++ [SIdx i])%list) then [(pa ++ [SIdx i])%list] else []
                  | _ => rec (pa ++ [SIdx i])%list x end) ++ go (S i) r)%list
    end.

Definition obj_addrs (rec : addr -> json -> list addr) (pa : addr) : list (string * json) -> list addr :=
  fix go (l : list (string * json)) : list addr :=
    match l with
    | [] => []
    | (k, v) :: r => ((rec (pa ++ [SKey k])%list v ++ (if marked (segs (pa ++ [SKey k])%list) then [(pa ++ [SKey k])%list] else [])) ++ go r)%list
    end.

(* the addresses of the tagged nodes, in the order parse_yaml reports them *)
Fixpoint eaddrs (pa : addr) (j : json) : list addr :=
  match j with
  | JArr xs => arr_addrs eaddrs pa 0 xs
  | JObj kvs => obj_addrs eaddrs pa kvs
  | _ => []
  end.

(* ---- the reported strings are the renderings of these addresses ---- *)
Theorem epaths_eaddrs : forall j pa, epaths marked (segs pa) j = map render (eaddrs pa j).
Proof.
  induction j as [| b | l | s | xs IH | kvs IH] using json_ind'; intros pa; try reflexivity.
  - cbn [epaths eaddrs]. generalize 0 as i. induction IH as [|x r Hx _ IHr]; intros i; [reflexivity|].
    cbn [arr_addrs]. rewrite map_app. rewrite <- IHr. f_equal.
    rewrite <- segs_snoc_idx. destruct x; try (rewrite Hx; reflexivity).
    destruct (marked (segs (pa ++ [SIdx i])%list)); [|reflexivity]. cbn [map]. rewrite render_segs_segs. reflexivity.
  - cbn [epaths eaddrs]. induction IH as [|[k v] r Hv _ IHr]; [reflexivity|].
    cbn [obj_addrs]. rewrite !map_app. rewrite <- IHr. cbn [snd] in Hv. rewrite <- segs_snoc_key. rewrite Hv. f_equal. f_equal.
    destruct (marked (segs (pa ++ [SKey k])%list)); [|reflexivity]. cbn [map]. rewrite render_segs_segs. reflexivity.
Qed.

(* ---- every reported address is a node of the claims, strictly below the node the walk started from ---- *)
Definition below (pa : addr) (j : json) (a : addr) : Prop := exists suf, suf <> [] /\ a = (pa ++ suf)%list /\ jat suf j.

Lemma app_snoc_assoc {A} (l : list A) x r : ((l ++ [x]) ++ r = l ++ x :: r)%list.
Proof. rewrite <- app_assoc. reflexivity. Qed.

Lemma obj_addrs_members (pa : addr) (kvs : list (string * json)) :
  Forall (fun kv : string * json => forall pa', Forall (below pa' (snd kv)) (eaddrs pa' (snd kv))) kvs ->
  Forall (fun a => exists k v suf, In (k, v) kvs /\ a = (pa ++ SKey k :: suf)%list /\ jat suf v) (obj_addrs eaddrs pa kvs).
Proof.
  induction 1 as [|[k v] r Hv _ IHr]; [constructor|]. cbn [obj_addrs]. cbn [snd] in Hv.
  apply Forall_app. split; [apply Forall_app; split|].
  - eapply Forall_impl; [|exact (Hv (pa ++ [SKey k])%list)]. intros a (suf & Hne & -> & Hat). exists k, v, suf.
    split; [left; reflexivity|]. split; [apply app_snoc_assoc|exact Hat].
  - destruct (marked _); constructor; [|constructor]. exists k, v, []. split; [left; reflexivity|]. split; [reflexivity|exact I].
  - eapply Forall_impl; [|exact IHr]. intros a (k' & v' & suf & Hin & Ha & Hat). exists k', v', suf. split; [right; exact Hin|]. split; assumption.
Qed.

Theorem eaddrs_below : forall j, jwf j -> forall pa, Forall (below pa j) (eaddrs pa j).
Proof.
  induction j as [| b | l | s | xs IH | kvs IH] using json_ind'; intros Hw pa; try constructor.
  - (* arrays: the element at position i of xs = pre ++ l (i = length pre) *)
    inversion Hw as [| | | |? Hall|]; subst. cbn [eaddrs].
    assert (Hgen : forall pre l, xs = (pre ++ l)%list -> Forall (below pa (JArr xs)) (arr_addrs eaddrs pa (List.length pre) l)).
    { intros pre l. revert pre. induction l as [|x r IHr]; intros pre Hq; [constructor|]. cbn [arr_addrs].
      apply Forall_app. split.
      - assert (Hnth : nth_error xs (List.length pre) = Some x) by (rewrite Hq, nth_error_app2, Nat.sub_diag by lia; reflexivity).
        assert (Hinx : In x xs) by (rewrite Hq; apply in_or_app; right; left; reflexivity).
        assert (Hx : Forall (below (pa ++ [SIdx (List.length pre)])%list x) (eaddrs (pa ++ [SIdx (List.length pre)])%list x)).
        { rewrite Forall_forall in IH, Hall. apply IH; [exact Hinx|apply Hall; exact Hinx]. }
        assert (Hlift : forall a, below (pa ++ [SIdx (List.length pre)])%list x a -> below pa (JArr xs) a).
        { intros a (suf & Hne & -> & Hat). exists (SIdx (List.length pre) :: suf). split; [discriminate|]. split; [apply app_snoc_assoc|].
          cbn [jat]. rewrite Hnth. exact Hat. }
        assert (Hself : below pa (JArr xs) (pa ++ [SIdx (List.length pre)])%list).
        { exists [SIdx (List.length pre)]. split; [discriminate|]. split; [reflexivity|]. cbn [jat]. rewrite Hnth. exact I. }
        destruct x; try (eapply Forall_impl; [exact Hlift|exact Hx]).
        destruct (marked _); constructor; [exact Hself|constructor].
      - replace (S (List.length pre)) with (List.length (pre ++ [x])%list) by (rewrite app_length; cbn; lia).
        apply IHr. rewrite <- app_assoc. exact Hq. }
    exact (Hgen [] xs eq_refl).
  - inversion Hw as [| | | | |? Hs Hk]; subst. cbn [eaddrs].
    assert (Hnd : NoDup (map fst kvs)) by (apply ssorted_nodup; exact Hs).
    assert (IH' : Forall (fun kv : string * json => forall pa', Forall (below pa' (snd kv)) (eaddrs pa' (snd kv))) kvs).
    { rewrite Forall_forall in IH, Hk |- *. intros kv Hin pa'. apply IH; [exact Hin|]. destruct (Hk _ Hin) as (_ & _ & Hj). exact Hj. }
    eapply Forall_impl; [|exact (obj_addrs_members pa kvs IH')].
    intros a (k & v & suf & Hin & -> & Hat). exists (SKey k :: suf). split; [discriminate|]. split; [reflexivity|].
    cbn [jat]. rewrite (obj_get_unique k v kvs Hnd Hin). exact Hat.
Qed.

(* ---- descendants before ancestors, no repeats ---- *)
Lemma ordered_app l1 l2 : ordered l1 -> ordered l2 -> (forall a a', In a l1 -> In a' l2 -> ~ prefix a a') -> ordered (l1 ++ l2)%list.
Proof.
  induction l1 as [|a r IH]; intros H1 H2 Hx; [exact H2|]. cbn [app ordered] in *. destruct H1 as [Ha Hr]. split.
  - apply Forall_app. split; [exact Ha|]. apply Forall_forall. intros a' Hin. apply Hx; [left; reflexivity|exact Hin].
  - apply IH; [exact Hr|exact H2|]. intros b b' Hb Hb'. apply Hx; [right; exact Hb|exact Hb'].
Qed.

Lemma not_prefix_steps (pa : addr) s1 s2 u u' : s1 <> s2 -> ~ prefix (pa ++ s1 :: u)%list (pa ++ s2 :: u')%list.
Proof.
  intros Hne [c Hc]. rewrite <- app_assoc in Hc. apply app_inv_head in Hc. cbn [app] in Hc. injection Hc as Hq _. congruence.
Qed.

Lemma not_prefix_longer (p suf : addr) : suf <> [] -> ~ prefix (p ++ suf)%list p.
Proof.
  intros Hne [c Hc]. apply (f_equal (@List.length _)) in Hc. rewrite !app_length in Hc. destruct suf; [congruence|]. cbn in Hc. lia.
Qed.

Lemma arr_first : forall l (pa : addr) i, Forall jwf l ->
  Forall (fun a => exists i' u, i <= i' /\ a = (pa ++ SIdx i' :: u)%list) (arr_addrs eaddrs pa i l).
Proof.
  induction l as [|x r IHr]; intros pa i Hw; [constructor|]. inversion Hw as [|? ? Hx Hr]; subst. cbn [arr_addrs].
  apply Forall_app. split.
  - assert (Hb : Forall (below (pa ++ [SIdx i])%list x) (eaddrs (pa ++ [SIdx i])%list x)) by (apply eaddrs_below; exact Hx).
    assert (Hgen : Forall (fun a => exists i' u, i <= i' /\ a = (pa ++ SIdx i' :: u)%list) (eaddrs (pa ++ [SIdx i])%list x)).
    { eapply Forall_impl; [|exact Hb]. intros a (suf & _ & -> & _). exists i, suf. split; [lia|apply app_snoc_assoc]. }
    destruct x; try exact Hgen. destruct (marked _); constructor; [|constructor]. exists i, []. split; [lia|reflexivity].
  - eapply Forall_impl; [|exact (IHr pa (S i) Hr)]. intros a (i' & u & Hle & ->). exists i', u. split; [lia|reflexivity].
Qed.

Lemma obj_first (pa : addr) (kvs : list (string * json)) : Forall (fun kv : string * json => jwf (snd kv)) kvs ->
  Forall (fun a => exists k u, In k (map fst kvs) /\ a = (pa ++ SKey k :: u)%list) (obj_addrs eaddrs pa kvs).
Proof.
  intros Hw. eapply Forall_impl; [|apply obj_addrs_members].
  - intros a (k & v & suf & Hin & -> & _). exists k, suf. split; [apply (in_map fst) in Hin; exact Hin|reflexivity].
  - eapply Forall_impl; [|exact Hw]. intros kv Hj pa'. apply eaddrs_below. exact Hj.
Qed.

Theorem eaddrs_ordered : forall j, jwf j -> forall pa, ordered (eaddrs pa j).
Proof.
  induction j as [| b | l | s | xs IH | kvs IH] using json_ind'; intros Hw pa; try exact I.
  - inversion Hw as [| | | |? Hall|]; subst. cbn [eaddrs]. clear Hw. generalize 0 as i.
    induction IH as [|x r Hx _ IHr]; intros i; [exact I|]. inversion Hall as [|? ? Hjx Hjr]; subst. cbn [arr_addrs].
    apply ordered_app.
    + destruct x; try (apply Hx; exact Hjx); try exact I. destruct (marked _); cbn; auto.
    + apply IHr. exact Hjr.
    + intros a a' Ha Ha'.
      assert (Hfa : exists u, a = (pa ++ SIdx i :: u)%list).
      { assert (Hb : Forall (below (pa ++ [SIdx i])%list x) (eaddrs (pa ++ [SIdx i])%list x)) by (apply eaddrs_below; exact Hjx).
        destruct x; try (rewrite Forall_forall in Hb; destruct (Hb _ Ha) as (suf & _ & -> & _); exists suf; apply app_snoc_assoc); try destruct Ha.
        destruct (marked _); [|destruct Ha]. destruct Ha as [<-|[]]. exists []. reflexivity. }
      destruct Hfa as [u ->].
      pose proof (arr_first r pa (S i) Hjr) as Hf. rewrite Forall_forall in Hf. destruct (Hf _ Ha') as (i' & u' & Hle & ->).
      apply not_prefix_steps. intros Hq. injection Hq as Hq. lia.
  - inversion Hw as [| | | | |? Hs Hk]; subst. cbn [eaddrs].
    assert (Hnd : NoDup (map fst kvs)) by (apply ssorted_nodup; exact Hs). clear Hs Hw.
    induction IH as [|[k v] r Hv _ IHr]; [exact I|]. inversion Hk as [|? ? (_ & _ & Hjv) Hkr]; subst. cbn [fst snd] in *.
    inversion Hnd as [|? ? Hnk Hndr]; subst. cbn [obj_addrs].
    assert (Hjr : Forall (fun kv : string * json => jwf (snd kv)) r).
    { eapply Forall_impl; [|exact Hkr]. intros kv (_ & _ & Hj). exact Hj. }
    assert (Hb : Forall (below (pa ++ [SKey k])%list v) (eaddrs (pa ++ [SKey k])%list v)) by (apply eaddrs_below; exact Hjv).
    apply ordered_app; [apply ordered_app| |].
    + apply Hv. exact Hjv.
    + destruct (marked _); cbn; auto.
    + intros a a' Ha Ha'. destruct (marked _); [|destruct Ha']. destruct Ha' as [<-|[]].
      rewrite Forall_forall in Hb. destruct (Hb _ Ha) as (suf & Hne & -> & _). apply not_prefix_longer. exact Hne.
    + apply IHr; assumption.
    + intros a a' Ha Ha'.
      assert (Hfa : exists u, a = (pa ++ SKey k :: u)%list).
      { apply in_app_or in Ha as [Ha|Ha].
        - rewrite Forall_forall in Hb. destruct (Hb _ Ha) as (suf & _ & -> & _). exists suf. apply app_snoc_assoc.
        - destruct (marked _); [|destruct Ha]. destruct Ha as [<-|[]]. exists []. reflexivity. }
      destruct Hfa as [u ->].
      pose proof (obj_first pa r Hjr) as Hf. rewrite Forall_forall in Hf. destruct (Hf _ Ha') as (k' & u' & Hin & ->).
      apply not_prefix_steps. intros Hq. injection Hq as ->. contradiction.
Qed.
End Y.
