(* C09: a KB-JWT is accepted only together with exactly the issuer JWT and the disclosure list it was built
   for. *)
From Coq Require Import List String Ascii Bool Arith Lia.
Import ListNotations.
Require Import SDJ.Json SDJ.Wire SDJ.Model2 SDJ.Out SDJ.Restore2 SDJ.Split SDJ.SplitM SDJ.SplitMProofs SDJ.Verify SDJ.C05Proofs SDJ.C02Proofs.
Local Open Scope string_scope.

Lemma serialise_inj jwt ds jwt' ds' :
  Forall (fun x => contains tilde x = false) (jwt :: ds) -> Forall (fun x => contains tilde x = false) (jwt' :: ds') ->
  serialise jwt ds "" = serialise jwt' ds' "" -> jwt = jwt' /\ ds = ds'.
Proof.
  intros H1 H2 Hq. pose proof (parts_of_serialise jwt ds "" H1 eq_refl) as P1. pose proof (parts_of_serialise jwt' ds' "" H2 eq_refl) as P2.
  rewrite Hq in P1. rewrite P1 in P2. injection P2 as -> Hd. split; [reflexivity|]. apply app_inv_tail in Hd. assumption.
Qed.

Section C09.
Variable O : oracles.

(* the verifier accepted token' carrying the KB-JWT kb; kb's sd_hash was computed (by anyone) over the
   presentation prefix serialise jwt ds "" under the token's algorithm; the hash is injective:
   then token' consists of exactly that issuer JWT and that disclosure list *)
Theorem kb_commits token' kbpol hdr claims jwt' ds' kb jwt ds alg0 :
  (forall x y, o_hash O alg0 x = o_hash O alg0 y -> x = y) ->
  verifier_verify_raw O token' kbpol = Val (hdr, claims, ds') ->
  sd_jwt_parts token' = (jwt', ds', Some kb) ->
  token' = serialise jwt' ds' kb ->
  Forall (fun x => contains tilde x = false) (jwt' :: ds') -> contains tilde kb = false ->
  Forall (fun x => contains tilde x = false) (jwt :: ds) ->
  (forall h' kc, verify_kb O kb (jget "cnf" claims) = Val (h', kc) -> jget "sd_hash" kc = JStr (o_hash O alg0 (serialise jwt ds ""))) ->
  (forall alg, declared_halg claims = Some alg -> alg = alg0) ->
  jwt' = jwt /\ ds' = ds.
Proof.
  intros Hinj Hv Hp Htok Ht' Hkb Ht Hsd Halg.
  destruct (accepted_commits O token' kbpol hdr claims ds' jwt' kb Hv Hp) as (h' & kc & alg & Hvk & Hh & Hs).
  rewrite (Hsd h' kc Hvk) in Hs. rewrite (Halg alg Hh) in Hs. injection Hs as Hs. apply Hinj in Hs.
  rewrite Htok, drop_kb_serialise in Hs by assumption.
  destruct (serialise_inj jwt ds jwt' ds' Ht Ht' Hs) as [-> ->]. auto.
Qed.
End C09.
