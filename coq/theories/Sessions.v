(* Sessions on one Holder object and on one Issuer object (C02 C06 C09 C14): the objects are state machines, the
   operations may be interleaved in any order and repeated, and what a build() / encode() returns depends on the
   state in a way that can be said in one line:
   - the k-th presentation built on a Holder is the presentation for ALL redactions made before it (whether before or
     after earlier builds) and for the key-binding parameters supplied LAST; building changes nothing;
   - every encode() on an Issuer is the issuance for the configuration in force at that moment; encoding changes nothing,
     so a repeated encode() with fresh random choices is again an issuance of the same claims and paths. *)
From Coq Require Import List String Ascii Bool Arith ZArith.
Import ListNotations.
Require Import SDJ.Json SDJ.Wire SDJ.Model2 SDJ.Out SDJ.Restore2 SDJ.Split SDJ.SplitM SDJ.Verify SDJ.Issuer2.
Local Open Scope string_scope.

(* ---------------- Holder ---------------- *)
Inductive hop := HRedact (path : string) | HKeyBinding (aud : string) (alg : json) | HBuild (E : build_env).

Definition hstep (O : oracles) (h : holder) (o : hop) : holder * option (out string) :=
  match o with
  | HRedact p => (holder_redact h p, None)
  | HKeyBinding aud alg => (holder_key_binding h aud alg, None)
  | HBuild E => (h, Some (holder_build O E h))
  end.

Fixpoint hrun (O : oracles) (h : holder) (ops : list hop) : holder * list (out string) :=
  match ops with
  | [] => (h, [])
  | o :: r => let '(h1, out1) := hstep O h o in
              let '(h2, outs) := hrun O h1 r in
              (h2, match out1 with Some x => x :: outs | None => outs end)
  end.

Definition redactions (ops : list hop) : list string :=
  flat_map (fun o => match o with HRedact p => [p] | _ => [] end) ops.
Definition last_kb (start : option (string * json)) (ops : list hop) : option (string * json) :=
  fold_left (fun acc o => match o with HKeyBinding aud alg => Some (aud, alg) | _ => acc end) ops start.

(* the state after any sequence of operations: redactions accumulated in order, the last key-binding parameters *)
Lemma hrun_state O : forall ops h,
  fst (hrun O h ops) = {| h_jwt := h_jwt h; h_redacted := (h_redacted h ++ redactions ops)%list;
                          h_paths := h_paths h; h_kb := last_kb (h_kb h) ops |}.
Proof.
  induction ops as [|o r IH]; intros h.
  - cbn. rewrite app_nil_r. destruct h; reflexivity.
  - cbn [hrun]. destruct (hstep O h o) as [h1 out1] eqn:E1. specialize (IH h1).
    destruct (hrun O h1 r) as [h2 outs]. cbn [fst] in *. rewrite IH.
    destruct o; cbn in E1; injection E1 as <- _; cbn [holder_redact holder_key_binding h_jwt h_redacted h_paths h_kb redactions flat_map last_kb fold_left].
    + rewrite <- app_assoc. reflexivity.
    + reflexivity.
    + reflexivity.
Qed.

(* every build of a session: the presentation of the holder state reached by the operations before it *)
Theorem session_builds O : forall pre E post h,
  exists outs_pre outs_post,
    snd (hrun O h (pre ++ HBuild E :: post)) = (outs_pre ++ holder_build O E (fst (hrun O h pre)) :: outs_post)%list /\
    outs_pre = snd (hrun O h pre).
Proof.
  induction pre as [|o r IH]; intros E post h.
  - cbn [app hrun hstep]. destruct (hrun O h post) as [h2 outs] eqn:E2. exists [], outs. cbn. split; reflexivity.
  - cbn [app hrun]. destruct (hstep O h o) as [h1 out1] eqn:E1.
    destruct (IH E post h1) as [op [oq [H1 H2]]].
    destruct (hrun O h1 (r ++ HBuild E :: post)) as [h2 outs] eqn:E2.
    destruct (hrun O h1 r) as [h3 outs3] eqn:E3. cbn [snd fst] in *. subst op.
    destruct out1 as [x|].
    + exists (x :: outs3), oq. rewrite H1. split; reflexivity.
    + exists outs3, oq. rewrite H1. split; reflexivity.
Qed.

(* ... which selects exactly the disclosures not withheld by ANY redaction made so far, earlier builds or not *)
Corollary session_build_selection O pre h :
  selected (fst (hrun O h pre)) =
  map (fun p => d_str (snd p))
      (filter (fun p => negb (withheld (h_paths h) (h_redacted h ++ redactions pre) (fst p))) (h_paths h)).
Proof. rewrite hrun_state. reflexivity. Qed.

(* builds do not count: removing them from a session changes neither the final state nor the later presentations *)
Definition not_build (o : hop) : bool := match o with HBuild _ => false | _ => true end.
Theorem builds_are_pure O ops h : fst (hrun O h ops) = fst (hrun O h (filter not_build ops)).
Proof.
  rewrite !hrun_state. f_equal.
  - f_equal. induction ops as [|o r IH]; [reflexivity|]. unfold redactions in *. destruct o; cbn [filter not_build flat_map app]; rewrite ?IH; reflexivity.
  - generalize (h_kb h). induction ops as [|o r IH]; intros k; [reflexivity|]. destruct o; cbn [filter not_build last_kb fold_left]; apply IH.
Qed.

(* ---------------- Issuer ---------------- *)
Record issuer := {
  i_claims : json; i_paths : list string; i_header : json; i_cnf : option json; i_decoys : option Z;
}.
Inductive iop :=
| IDisclosable (p : string) | IDecoy (n : Z) | IHeader (h : json) | IRequireKeyBinding (k : json)
| IExpires (exp : json)          (* expires_in_seconds(n): claims["exp"] = now + n, the value computed by the caller of the model *)
| IEncode (E : issue_env).

Definition set_exp_claim (claims exp : json) : json :=
  match claims with JObj kvs => JObj (obj_insert "exp" exp kvs) | c => c end.

Definition istep (s : issuer) (o : iop) : issuer * option (out (string * json * list disc)) :=
  match o with
  | IDisclosable p => ({| i_claims := i_claims s; i_paths := (i_paths s ++ [p])%list; i_header := i_header s; i_cnf := i_cnf s; i_decoys := i_decoys s |}, None)
  | IDecoy n => ({| i_claims := i_claims s; i_paths := i_paths s; i_header := i_header s; i_cnf := i_cnf s; i_decoys := Some n |}, None)
  | IHeader h => ({| i_claims := i_claims s; i_paths := i_paths s; i_header := h; i_cnf := i_cnf s; i_decoys := i_decoys s |}, None)
  | IRequireKeyBinding k => ({| i_claims := i_claims s; i_paths := i_paths s; i_header := i_header s; i_cnf := Some k; i_decoys := i_decoys s |}, None)
  | IExpires e => ({| i_claims := set_exp_claim (i_claims s) e; i_paths := i_paths s; i_header := i_header s; i_cnf := i_cnf s; i_decoys := i_decoys s |}, None)
  | IEncode E => (s, Some (issue E (i_claims s) (i_paths s) (i_decoys s) (i_cnf s) (i_header s)))
  end.

Fixpoint irun (s : issuer) (ops : list iop) : issuer * list (out (string * json * list disc)) :=
  match ops with
  | [] => (s, [])
  | o :: r => let '(s1, out1) := istep s o in
              let '(s2, outs) := irun s1 r in
              (s2, match out1 with Some x => x :: outs | None => outs end)
  end.

Definition not_encode (o : iop) : bool := match o with IEncode _ => false | _ => true end.

(* encoding does not change the issuer object: the configuration after a session is that of its builder calls *)
Theorem encode_is_pure : forall ops s, fst (irun s ops) = fst (irun s (filter not_encode ops)).
Proof.
  induction ops as [|o r IH]; intros s; [reflexivity|].
  destruct o; cbn [filter not_encode irun istep];
    try (match goal with |- context [irun ?s1 r] => specialize (IH s1) end;
         destruct (irun _ r) as [s2 outs]; destruct (irun _ (filter not_encode r)) as [s3 outs3]; cbn [fst] in *; exact IH).
Qed.

(* every encode of a session is the issuance for the configuration in force at that moment *)
Theorem session_encodes : forall pre E post s,
  exists outs_pre outs_post,
    snd (irun s (pre ++ IEncode E :: post)) =
      (outs_pre ++ (let c := fst (irun s pre) in issue E (i_claims c) (i_paths c) (i_decoys c) (i_cnf c) (i_header c)) :: outs_post)%list.
Proof.
  induction pre as [|o r IH]; intros E post s.
  - cbn [app irun istep]. destruct (irun s post) as [s2 outs]. exists [], outs. reflexivity.
  - cbn [app irun]. destruct (istep s o) as [s1 out1] eqn:E1.
    destruct (IH E post s1) as [op [oq H1]].
    destruct (irun s1 (r ++ IEncode E :: post)) as [s2 outs] eqn:E2.
    destruct (irun s1 r) as [s3 outs3] eqn:E3. cbn [snd fst] in *.
    destruct out1 as [x|]; [exists (x :: op), oq|exists op, oq]; rewrite H1; reflexivity.
Qed.

(* in particular: two encodes with nothing but encodes between them issue the same claims, paths, decoy setting, key
   and header - each with its own random choices (E1, E2) *)
Corollary repeated_encode_same_configuration s E1 E2 :
  snd (irun s [IEncode E1; IEncode E2]) =
  [issue E1 (i_claims s) (i_paths s) (i_decoys s) (i_cnf s) (i_header s);
   issue E2 (i_claims s) (i_paths s) (i_decoys s) (i_cnf s) (i_header s)].
Proof. reflexivity. Qed.
