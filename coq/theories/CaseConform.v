(* Case glue for kind "conform" (C07): a library-issued token judged by the independent reference
   verifier, and kind "discbuild": Disclosure::new(..).salt_len(..).algorithm(..).build(). *)
From Coq Require Import List String Ascii Bool Arith NArith.
Import ListNotations.
Require Import SDJ.Json SDJ.Wire SDJ.Model2 SDJ.Out SDJ.Restore2 SDJ.Split SDJ.SplitM SDJ.Spec SDJ.RefVerify SDJ.Verify SDJ.CaseLib SDJ.Base64 SDJ.JsonText.
Local Open Scope string_scope.

Definition dec_opt_of_table (tbl : list json) (s : string) : option json :=
  match lookup2 s tbl with Some [JArr [v]] => Some v | _ => None end.

(* how often does the digest string g occur as an _sd entry or as the value of a "..." member? *)
Fixpoint count_embedded (fuel : nat) (g : string) (j : json) : nat :=
  match fuel with
  | O => 0
  | S fuel =>
    match j with
    | JObj kvs =>
        fold_left (fun n kv =>
                     let '(k, v) := kv in
                     if String.eqb k "_sd" then
                       n + List.length (filter (fun x => match x with JStr s => String.eqb s g | _ => false end) (jlist v))
                     else if String.eqb k "..." then
                       n + (match v with JStr s => if String.eqb s g then 1 else 0 | _ => 0 end)
                     else n + count_embedded fuel g v) kvs 0
    | JArr xs => fold_left (fun n x => n + count_embedded fuel g x) xs 0
    | _ => 0
    end
  end.

(* a reserved name used as a member name anywhere other than as bookkeeping *)
Fixpoint reserved_member (fuel : nat) (j : json) : bool :=
  match fuel with
  | O => false
  | S fuel =>
    match j with
    | JObj kvs => existsb (fun kv : string * json => let '(k, v) := kv in
                             (String.eqb k "_sd" && negb (match v with JArr xs => forallb (fun x => match x with JStr _ => true | _ => false end) xs | _ => false end))
                             || (negb (String.eqb k "_sd") && reserved_member fuel v)) kvs
    | JArr xs => existsb (reserved_member fuel) xs
    | _ => false end
  end.

Definition select {A} (mask : list bool) (l : list A) : list A :=
  flat_map (fun mb : bool * A => if fst mb then [snd mb] else []) (combine mask l).

Definition conform_oracle (input rb : json) (token : string) : option string :=
  let ds := jstrs (jget "disclosures" rb) in
  let payload := jget "payload" rb in
  let H := hash_of_table (jlist (jget "H" rb)) SHA256 in
  let dec := dec_opt_of_table (jlist (jget "dec" rb)) in
  let '(jwt, parts, kb) := sd_jwt_parts token in
  (* (a) framing <JWT>~<d1>~...~<dn>~ *)
  if negb (json_eqb (JArr (map JStr parts)) (JArr (map JStr ds))) || (match kb with Some _ => true | None => false end)
     || negb (String.eqb (String.concat "" [token]) (fold_left (fun acc d => acc ++ "~" ++ d) ds jwt ++ "~"))
  then Some "framing is not <JWT>~<disclosure>~...~"
  else
  (* (b) every disclosure is base64url of a JSON array [salt, name, value] or [salt, value] with a string salt *)
  if negb (forallb (fun s => match dec s with
                             | Some (JArr [JStr _; JStr _; _]) | Some (JArr [JStr _; _]) => true
                             | _ => false end) ds)
  then Some "a disclosure is not the base64url encoding of [salt, name, value] or [salt, value]"
  else
  (* (d) declared algorithm *)
  if negb (match ref_alg_name payload with Some a => String.eqb a "sha-256" | None => false end) then Some "_sd_alg does not declare the digest algorithm used"
  else
  (* (c) every digest embedded exactly once in payload plus disclosure values *)
  let values := flat_map (fun s => match dec s with Some (JArr xs) => [last xs JNull] | _ => [] end) ds in
  let occurrences g := fold_left (fun n v => n + count_embedded 200 g v) (payload :: values) 0 in
  if negb (forallb (fun s => Nat.eqb (occurrences (H s)) 1) ds) then Some "a disclosure's digest is not embedded exactly once"
  else if reserved_member 200 payload then Some "a reserved name is used as a claim name"
  else
  (* (e) the independent verifier reconstructs the expected claims for every requested sub-list *)
  let marks := map tpath_of_json (jlist (jget "marks" input)) in
  let claims := jget "expect_claims" input in
  let bad := filter (fun mask_j =>
                       let mask := map jbool (jlist mask_j) in
                       let hidden := flat_map (fun mp : tpath * bool => if snd mp then [] else [fst mp]) (combine marks mask) in
                       negb (match ref_verify H dec payload (select mask ds) with
                             | Some c => json_eqb c (prune claims hidden)
                             | None => false end)) (jlist (jget "subsets" input)) in
  match bad with
  | [] => None
  | _ :: _ => Some "the independent verifier does not reconstruct the expected claims from a sub-list of the disclosures" end.

Definition case_conform_one (input obs : json) : verdict :=
  let eo := jget "encode" obs in
  if obs_is "panic" eo then VPropFail "Issuer::encode panics"
  else if jbool (jget "reserved_input" input) then
    (* claims that use a reserved name: every output would be malformed, so the only conformant outcome is an error *)
    (if obs_is "err" eo then VOk true
     else VPropFail "Issuer::encode issues an SD-JWT for claims that use a reserved name (_sd, ..., top-level _sd_alg) as a claim name")
  else if jbool (jget "non_object_claims" input) then
    (* claims that are not a JSON object: the payload of a JWT is an object, so the only conformant outcome is an error (repair F29) *)
    (if obs_is "err" eo then VOk true
     else VPropFail "Issuer::encode issues an SD-JWT for claims that are not a JSON object: its payload is not a JWT claims set")
  else if jbool (jget "own_cnf" input) && obs_is "err" eo then VOk true   (* refusing the conflicting request is conformant *)
  else if negb (obs_is "ok" eo) then VPropFail "Issuer::encode rejects a valid marking"
  else match conform_oracle input (jget "readback" obs) (jstr_or_empty (obs_val eo)) with
       | Some w => VPropFail ("issued SD-JWT is not conformant: " ++ w)
       | None => VOk (jbool (jget "nontrivial" input)) end.

(* every SD-JWT the same issuer object produces is judged (repeated encode, retry after a failed attempt) *)
Definition case_conform (input obs : json) : verdict :=
  fold_left (fun acc call => worst acc (case_conform_one input call)) (jlist (jget "more" obs)) (case_conform_one input obs).

(* ---- Disclosure::build ---- *)
Definition discbuild_oracle (input o : json) : option string :=
  if obs_is "panic" o then Some "Disclosure::build panics"
  else if negb (obs_is "ok" o) then (if jbool (jget "reserved" input) then None else Some "Disclosure::build fails")
  else if jbool (jget "reserved" input) then Some "a reserved name was accepted as claim name"
  else
    let v := obs_val o in
    let s := jstr_or_empty (jget "disclosure" v) in
    (* digest = b64url(H(disclosure string)) - independent hash supplied by the harness *)
    if negb (json_eqb (jget "digest" v) (jget "indep_digest" v)) then Some "digest is not the base64url hash of the encoded disclosure string under the chosen algorithm"
    else
      let expected := match jget "key" input with
                      | JStr k => JArr [jget "salt" v; JStr k; jget "value" input]
                      | _ => JArr [jget "salt" v; jget "value" input] end in
      if negb (json_eqb (jget "indep_decoded" v) expected) then Some "the disclosure string is not the unpadded base64url encoding of [salt, name, value] / [salt, value]"
      else if negb (json_eqb (jget "salt_bytes" v) (jget "salt_len" input)) then Some "the salt does not have the requested length"
      else if negb (json_eqb (jget "from_base64" v) (JArr [jget "key" input; jget "value" input; jget "digest" v])) then
        Some "from_base64 of the built disclosure does not give back name, value and digest"
      else None.

(* the base64url model of the development (Base64.v, about which decode_encode and encode_separator_free are proved)
   against what the library emits: the disclosure string is the model's encoding of the text it decodes to, the
   model decodes it back, and the digest is the model's encoding of the raw hash bytes *)
Definition base64_model_agrees (o : json) : bool :=
  if obs_is "ok" o then
    let v := obs_val o in
    match jget "text" v, jget "disclosure" v, jget "digest" v, jget "digest_hex" v with
    | JStr text, JStr d, JStr g, JStr hx =>
        (* the JSON text model (JsonText.v): the text is what the model prints for the decoded array, and the model
           parses it back to that array *)
        String.eqb (JsonText.print (jget "indep_decoded" v)) text
        && (match JsonText.parse text with Some j => json_eqb j (jget "indep_decoded" v) | None => false end)
        && String.eqb (Base64.encode text) d
        && (match Base64.decode d with Some t => String.eqb t text | None => false end)
        && (match unhex hx with Some raw => String.eqb (Base64.encode raw) g | None => false end)
    | _, _, _, _ => false end
  else true.

Definition case_discbuild (input obs : json) : verdict :=
  match discbuild_oracle input (jget "build" obs) with
  | Some w => VPropFail ("Disclosure::build: " ++ w)
  | None => if base64_model_agrees (jget "build" obs) then VOk true
            else VMismatch "Disclosure::build: the text models (JsonText.v, Base64.v) do not reproduce the disclosure text, the disclosure string or the digest" end.
