(* base64url without padding (RFC 4648 section 5), as the library uses it for disclosures, digests and JWT
   segments (base64 crate, URL_SAFE_NO_PAD): an executable model, its round trip, and the fact that no output
   character is '~' or '.' - the two separators the SD-JWT framing and the JWS compact form rely on. *)
From Coq Require Import List String Ascii Bool Arith NArith Lia ZArith ZifyBool ZifyN.
Import ListNotations.
Local Open Scope string_scope.
Local Open Scope N_scope.
Ltac Zify.zify_post_hook ::= Z.div_mod_to_equations.

Definition alphabet : string := "ABCDEFGHIJKLMNOPQRSTUVWXYZabcdefghijklmnopqrstuvwxyz0123456789-_".

Fixpoint nth_char (n : nat) (s : string) : ascii :=
  match s, n with
  | EmptyString, _ => "A"%char
  | String c _, O => c
  | String _ r, S n => nth_char n r end.

Fixpoint index_of (c : ascii) (s : string) (i : N) : option N :=
  match s with
  | EmptyString => None
  | String d r => if Ascii.eqb c d then Some i else index_of c r (i + 1) end.

Definition sextet_char (n : N) : ascii := nth_char (N.to_nat n) alphabet.
Definition char_sextet (c : ascii) : option N := index_of c alphabet 0.

Definition byte (c : ascii) : N := N_of_ascii c.
Definition chr (n : N) : ascii := ascii_of_N n.

(* three bytes -> four characters; a remainder of one byte -> two, of two bytes -> three characters *)
Fixpoint encode (s : string) : string :=
  match s with
  | EmptyString => EmptyString
  | String a EmptyString =>
      String (sextet_char (byte a / 4)) (String (sextet_char ((byte a mod 4) * 16)) EmptyString)
  | String a (String b EmptyString) =>
      String (sextet_char (byte a / 4)) (String (sextet_char ((byte a mod 4) * 16 + byte b / 16))
        (String (sextet_char ((byte b mod 16) * 4)) EmptyString))
  | String a (String b (String c r)) =>
      String (sextet_char (byte a / 4)) (String (sextet_char ((byte a mod 4) * 16 + byte b / 16))
        (String (sextet_char ((byte b mod 16) * 4 + byte c / 64)) (String (sextet_char (byte c mod 64)) (encode r))))
  end.

(* strict decoding: alphabet only, no padding, canonical trailing bits, length mod 4 <> 1 *)
Fixpoint decode (s : string) : option string :=
  match s with
  | EmptyString => Some EmptyString
  | String c1 EmptyString => None
  | String c1 (String c2 EmptyString) =>
      match char_sextet c1, char_sextet c2 with
      | Some s1, Some s2 => if s2 mod 16 =? 0 then Some (String (chr (s1 * 4 + s2 / 16)) EmptyString) else None
      | _, _ => None end
  | String c1 (String c2 (String c3 EmptyString)) =>
      match char_sextet c1, char_sextet c2, char_sextet c3 with
      | Some s1, Some s2, Some s3 =>
          if s3 mod 4 =? 0 then Some (String (chr (s1 * 4 + s2 / 16)) (String (chr ((s2 mod 16) * 16 + s3 / 4)) EmptyString)) else None
      | _, _, _ => None end
  | String c1 (String c2 (String c3 (String c4 r))) =>
      match char_sextet c1, char_sextet c2, char_sextet c3, char_sextet c4, decode r with
      | Some s1, Some s2, Some s3, Some s4, Some t =>
          Some (String (chr (s1 * 4 + s2 / 16)) (String (chr ((s2 mod 16) * 16 + s3 / 4)) (String (chr ((s3 mod 4) * 64 + s4)) t)))
      | _, _, _, _, _ => None end
  end.

(* ---- the 64-entry table, checked by computation and lifted to all n < 64 ---- *)
Lemma table_roundtrip_b :
  forallb (fun k => match char_sextet (sextet_char (N.of_nat k)) with Some m => m =? N.of_nat k | None => false end) (seq 0 64) = true.
Proof. vm_compute. reflexivity. Qed.

Lemma sextet_roundtrip n : n < 64 -> char_sextet (sextet_char n) = Some n.
Proof.
  intros Hn. pose proof table_roundtrip_b as T. rewrite forallb_forall in T.
  specialize (T (N.to_nat n)). rewrite N2Nat.id in T.
  assert (Hin : In (N.to_nat n) (seq 0 64)) by (apply in_seq; lia).
  specialize (T Hin). destruct (char_sextet (sextet_char n)) as [m|]; [|discriminate].
  apply N.eqb_eq in T. subst. reflexivity.
Qed.

Definition separator_free (c : ascii) : bool := negb (Ascii.eqb c "~"%char) && negb (Ascii.eqb c "."%char).

Lemma table_sepfree_b : forallb (fun k => separator_free (sextet_char (N.of_nat k))) (seq 0 64) = true.
Proof. vm_compute. reflexivity. Qed.

Lemma sextet_sepfree n : n < 64 -> separator_free (sextet_char n) = true.
Proof.
  intros Hn. pose proof table_sepfree_b as T. rewrite forallb_forall in T.
  specialize (T (N.to_nat n)). rewrite N2Nat.id in T. apply T. apply in_seq. lia.
Qed.

Lemma byte_lt c : byte c < 256.
Proof. unfold byte. apply N_ascii_bounded. Qed.

Lemma chr_byte c : chr (byte c) = c.
Proof. apply ascii_N_embedding. Qed.

(* ---- induction three characters at a time ---- *)
Lemma string_ind3 (P : string -> Prop) :
  P EmptyString -> (forall a, P (String a EmptyString)) -> (forall a b, P (String a (String b EmptyString))) ->
  (forall a b c r, P r -> P (String a (String b (String c r)))) -> forall s, P s.
Proof.
  intros H0 H1 H2 H3.
  assert (H : forall s, P s /\ (forall a, P (String a s)) /\ (forall a b, P (String a (String b s)))).
  { induction s as [|c r [IH0 [IH1 IH2]]].
    - split; [exact H0|]. split; [exact H1|exact H2].
    - split; [apply IH1|]. split; [intros a; apply IH2|]. intros a b. apply H3. exact IH0. }
  intros s. apply H.
Qed.

Theorem decode_encode : forall s, decode (encode s) = Some s.
Proof.
  induction s as [| a | a b | a b c r IH] using string_ind3.
  - reflexivity.
  - pose proof (byte_lt a) as Ha. cbn [encode decode].
    rewrite !sextet_roundtrip by lia.
    assert (E : ((byte a mod 4) * 16) mod 16 =? 0 = true) by lia. rewrite E.
    assert (E2 : byte a / 4 * 4 + (byte a mod 4) * 16 / 16 = byte a) by lia. rewrite E2, chr_byte. reflexivity.
  - pose proof (byte_lt a) as Ha. pose proof (byte_lt b) as Hb. cbn [encode decode].
    rewrite !sextet_roundtrip by lia.
    assert (E : ((byte b mod 16) * 4) mod 4 =? 0 = true) by lia. rewrite E.
    assert (E1 : byte a / 4 * 4 + ((byte a mod 4) * 16 + byte b / 16) / 16 = byte a) by lia.
    assert (E2 : (((byte a mod 4) * 16 + byte b / 16) mod 16) * 16 + (byte b mod 16) * 4 / 4 = byte b) by lia.
    rewrite E1, E2, !chr_byte. reflexivity.
  - pose proof (byte_lt a) as Ha. pose proof (byte_lt b) as Hb. pose proof (byte_lt c) as Hc.
    cbn [encode decode]. rewrite !sextet_roundtrip by lia. rewrite IH.
    assert (E1 : byte a / 4 * 4 + ((byte a mod 4) * 16 + byte b / 16) / 16 = byte a) by lia.
    assert (E2 : (((byte a mod 4) * 16 + byte b / 16) mod 16) * 16 + ((byte b mod 16) * 4 + byte c / 64) / 4 = byte b) by lia.
    assert (E3 : (((byte b mod 16) * 4 + byte c / 64) mod 4) * 64 + byte c mod 64 = byte c) by lia.
    rewrite E1, E2, E3, !chr_byte. reflexivity.
Qed.

Corollary encode_injective s t : encode s = encode t -> s = t.
Proof. intros E. apply (f_equal decode) in E. rewrite !decode_encode in E. injection E as E. exact E. Qed.

Fixpoint all_chars (p : ascii -> bool) (s : string) : bool :=
  match s with EmptyString => true | String c r => p c && all_chars p r end.

Theorem encode_separator_free : forall s, all_chars separator_free (encode s) = true.
Proof.
  induction s as [| a | a b | a b c r IH] using string_ind3.
  - reflexivity.
  - pose proof (byte_lt a). cbn [encode all_chars]. rewrite !sextet_sepfree by lia. reflexivity.
  - pose proof (byte_lt a). pose proof (byte_lt b). cbn [encode all_chars]. rewrite !sextet_sepfree by lia. reflexivity.
  - pose proof (byte_lt a). pose proof (byte_lt b). pose proof (byte_lt c). cbn [encode all_chars].
    rewrite !sextet_sepfree by lia. rewrite IH. reflexivity.
Qed.

(* the test vectors of RFC 4648 section 10 (padding removed) *)
Example rfc4648_vectors :
  encode "" = "" /\ encode "f" = "Zg" /\ encode "fo" = "Zm8" /\ encode "foo" = "Zm9v" /\
  encode "foob" = "Zm9vYg" /\ encode "fooba" = "Zm9vYmE" /\ encode "foobar" = "Zm9vYmFy".
Proof. vm_compute. repeat split. Qed.
Example not_canonical_rejected : decode "Zh" = None /\ decode "Z" = None /\ decode "Zg==" = None /\ decode "Z~" = None.
Proof. vm_compute. repeat split. Qed.
