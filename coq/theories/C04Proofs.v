(* C04 / C16: decode accepts exactly the conditions of the policy, key and signature oracle; header copy. *)
From Coq Require Import List String Ascii Bool Arith NArith Lia.
Import ListNotations.
Require Import SDJ.Json SDJ.Wire SDJ.Model2 SDJ.Out SDJ.Restore2 SDJ.Split SDJ.SplitM SDJ.SplitMProofs SDJ.Verify SDJ.Jwt SDJ.C11Proofs.
Local Open Scope string_scope.

Theorem decode_model_iff W token v hdr payload :
  decode_model W token v = Val (hdr, payload) <->
  jw_parse W token = Some (hdr, payload) /\
  exists a claims, jalg_of_name (jstr_or_empty_ (jget "alg" hdr)) = Some a /\ jalg_eqb a (v_alg v) = true /\
    family_ok (jw_family W) a = true /\ jw_sig_ok W token a = true /\ payload = JObj claims /\
    validate claims (build_validation v) (jw_now W) = Val tt.
Proof.
  split; [apply decode_model_accepts|].
  intros (Hp & a & claims & Ha & Hq & Hf & Hs & -> & Hv).
  unfold decode_model, jwt_decode. rewrite Hp, Ha. cbn [build_validation jo_algs existsb]. rewrite Hq. cbn [orb negb].
  rewrite Hf, Hs. cbn [negb]. rewrite Hv. reflexivity.
Qed.

Lemma jalg_eqb_eq a b : jalg_eqb a b = true -> a = b.
Proof. unfold jalg_eqb. destruct a, b; cbn; intros H; try reflexivity; discriminate. Qed.

(* under an ideal signature (only the exact issued token verifies, and only under the algorithm it was
   signed with), whatever is accepted is that token, the configured algorithm is the signing algorithm,
   and the key is of the right family *)
Theorem decode_only_exact W tok0 A :
  (forall t a, jw_sig_ok W t a = true -> t = tok0 /\ a = A) ->
  forall token v r, decode_model W token v = Val r -> token = tok0 /\ v_alg v = A /\ family_ok (jw_family W) A = true.
Proof.
  intros Hideal token v [h p] Hd. apply decode_model_accepts in Hd as (_ & a & claims & _ & Hq & Hf & Hs & _).
  destruct (Hideal _ _ Hs) as [-> ->]. apply jalg_eqb_eq in Hq. subst. repeat split; assumption.
Qed.

(* holder and verifier decode the first '~'-segment before anything else: if it does not decode, they fail *)
Theorem holder_decodes_first O token : (forall jwt ds kb, sd_jwt_parts token = (jwt, ds, kb) -> o_jwt O jwt = Fail) ->
  holder_verify O token = Fail.
Proof.
  intros Hf. unfold holder_verify, holder_verify_raw. rewrite sd_jwt_parts_m_total. cbn [obind].
  destruct (sd_jwt_parts token) as [[jwt ds] kb] eqn:Ep. destruct kb; [reflexivity|].
  rewrite (Hf _ _ _ eq_refl). reflexivity.
Qed.
Theorem verifier_decodes_first O token kbpol : (forall jwt ds kb, sd_jwt_parts token = (jwt, ds, kb) -> o_jwt O jwt = Fail) ->
  verifier_verify O token kbpol = Fail.
Proof.
  intros Hf. unfold verifier_verify, verifier_verify_raw. rewrite sd_jwt_parts_m_total. cbn [obind].
  destruct (sd_jwt_parts token) as [[jwt ds] kb] eqn:Ep. rewrite (Hf _ _ _ eq_refl). reflexivity.
Qed.

(* key family table *)
Theorem family_table k a : family_ok k a = true <->
  (k = KSecret /\ In a [HS256; HS384; HS512]) \/ (k = KRsa /\ In a [RS256; RS384; RS512; PS256; PS384; PS512]) \/
  (k = KEc /\ In a [ES256; ES256K; ES384; ES512]).
Proof.
  split.
  - destruct k, a; cbn; intros H; try discriminate; tauto.
  - intros [[-> H]|[[-> H]|[-> H]]]; cbn in H; repeat (destruct H as [<-|H]; [reflexivity|]); contradiction.
Qed.

(* ---- C16 ---- *)
Definition opt_str_json (o : option string) : json := match o with Some s => JStr s | None => JNull end.
Definition opt_list_json (o : option (list string)) : json := match o with Some l => JArr (map JStr l) | None => JNull end.

Lemma obj_get_app_miss k (a b : list (string * json)) : obj_get k a = None -> obj_get k (a ++ b) = obj_get k b.
Proof. induction a as [|[k' v] r IH]; cbn; [reflexivity|]. destruct (String.eqb k k'); [discriminate|exact IH]. Qed.

(* every field of the issuer's header arrives under the member of the same meaning, absent fields are
   absent, and there is no other member *)
Theorem header_roundtrip h :
  let j := jheader_json (build_header h) in
  jget "alg" j = JStr (jalg_name (h_alg h)) /\ jget "typ" j = opt_str_json (h_typ h) /\ jget "cty" j = opt_str_json (h_cty h) /\
  jget "jku" j = opt_str_json (h_jku h) /\ jget "kid" j = opt_str_json (h_kid h) /\ jget "x5u" j = opt_str_json (h_x5u h) /\
  jget "x5c" j = opt_list_json (h_x5c h) /\ jget "x5t" j = opt_str_json (h_x5t h) /\
  jget "x5t_s256" j = opt_str_json (h_x5t_s256 h) /\ jget "crit" j = opt_list_json (h_crit h) /\
  (forall k, ~ In k ["alg"; "typ"; "cty"; "jku"; "kid"; "x5u"; "x5c"; "x5t"; "x5t_s256"; "crit"] -> jget k j = JNull).
Proof.
  destruct h as [typ alg cty jku kid x5u x5c x5t x5ts crit]. cbv zeta. unfold build_header, jheader_json. cbn [build_header jheader_json jh_alg jh_jku jh_kid jh_x5u jh_x5c jh_x5t jh_x5t_s256 jh_typ jh_cty jh_crit
    h_typ h_alg h_cty h_jku h_kid h_x5u h_x5c h_x5t h_x5t_s256 h_crit].
  do 10 (split; [destruct typ, cty, jku, kid, x5u, x5c, x5t, x5ts, crit; reflexivity|]).
  intros k Hk. unfold jget. 
  assert (Hne : forall n, In n ["alg"; "typ"; "cty"; "jku"; "kid"; "x5u"; "x5c"; "x5t"; "x5t_s256"; "crit"] -> String.eqb k n = false).
  { intros n Hn. apply String.eqb_neq. intros ->. contradiction. }
  destruct typ, cty, jku, kid, x5u, x5c, x5t, x5ts, crit; cbn [mem_str mem_list app obj_get];
    repeat (rewrite Hne by (cbn; tauto)); reflexivity.
Qed.
