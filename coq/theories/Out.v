(* Outcomes of modelled Rust code: a value, an error return, or a panic.
   Partial Rust operations (indexing, slicing, unwrap, usize subtraction, Vec::remove, gen_range on an
   empty range) are written with the checked primitives below, which yield Panic exactly where Rust
   panics (dev profile). *)
From Coq Require Import List Arith Bool.
Import ListNotations.
Require Import SDJ.Json SDJ.Model2.

Inductive out (A : Type) := Val (a : A) | Fail | Panic.
Arguments Val {A} a. Arguments Fail {A}. Arguments Panic {A}.

Definition obind {A B} (x : out A) (f : A -> out B) : out B :=
  match x with Val a => f a | Fail => Fail | Panic => Panic end.
Notation "'dO' x <- e ; f" := (obind e (fun x => f)) (at level 200, x pattern, e at level 100, f at level 200).

Definition of_res {A} (r : res A) : out A := match r with Ok a => Val a | Err => Fail end.
Definition of_opt {A} (r : option A) : out A := match r with Some a => Val a | None => Fail end.

Definition is_panic {A} (x : out A) : bool := match x with Panic => true | _ => false end.

(* v[i] *)
Definition index {A} (l : list A) (i : nat) : out A :=
  match nth_error l i with Some x => Val x | None => Panic end.
(* &v[lo..hi] *)
Definition slice {A} (l : list A) (lo hi : nat) : out (list A) :=
  if Nat.leb lo hi && Nat.leb hi (List.length l) then Val (firstn (hi - lo) (skipn lo l)) else Panic.
(* usize a - b with overflow checks *)
Definition usub (a b : nat) : out nat := if Nat.leb b a then Val (a - b) else Panic.
(* Option::unwrap *)
Definition unwrap {A} (o : option A) : out A := match o with Some a => Val a | None => Panic end.
