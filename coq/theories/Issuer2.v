(* Model of issuer.rs (as repaired): path parsing, build_disclosure as a functional update along the
   JSON pointer, decoys, top-level shuffle, _sd_alg, cnf, serialisation. Randomness, hashing,
   disclosure encoding and signing are oracles of the environment record. *)
From Coq Require Import List String Ascii Bool Arith ZArith.
Import ListNotations.
Require Import SDJ.Json SDJ.Wire SDJ.Model2 SDJ.Out SDJ.Split SDJ.Issuer1.
Local Open Scope string_scope.

(* obj_remove, list_set, insert_at and the generic build_disclosure core (disclose_here, update_at) come
   from Issuer1.v, where the issuer theorems of the T1 files are proved for arbitrary oracles. *)

(* ---------- number grammars ---------- *)
Definition all_digits (s : string) : bool :=
  (fix go (s : string) : bool := match s with EmptyString => true | String c r => (match digit c with Some _ => true | None => false end) && go r end) s.

(* 2^64 - 1 *)
Definition usize_max : N := 18446744073709551615%N.

(* Rust usize::from_str: optional '+', at least one digit, no overflow *)
Definition parse_usize (s : string) : option nat :=
  let body := match s with String "+"%char r => r | _ => s end in
  match body with
  | EmptyString => None
  | _ => if all_digits body then
           match N_of_dec body with
           | Some n => if (n <=? usize_max)%N then Some (N.to_nat n) else None
           | None => None end
         else None
  end.

(* serde_json Value::pointer array token: no '+', no leading zero unless the token is "0" *)
Definition parse_index (s : string) : option nat :=
  match s with
  | String "+"%char _ => None
  | String "0"%char (String _ _) => None
  | _ => parse_usize s
  end.

(* JSON pointer unescape: "~1" -> "/", then "~0" -> "~"  (str::replace twice, as serde_json does) *)
Fixpoint replace2 (a b : ascii) (by_ : ascii) (s : string) : string :=
  match s with
  | EmptyString => EmptyString
  | String c r =>
      match r with
      | String d r' => if Ascii.eqb c a && Ascii.eqb d b then String by_ (replace2 a b by_ r')
                       else String c (replace2 a b by_ r)
      | EmptyString => String c EmptyString
      end
  end.
Definition unescape (tok : string) : string :=
  replace2 "~"%char "0"%char "~"%char (replace2 "~"%char "1"%char "/"%char tok).

Definition slash : ascii := "/"%char.

(* parent_elem_from_path + the pointer grammar: Some (parent tokens, key) *)
Definition split_path (path : string) : option (list string * string) :=
  match rev (split_on slash path) with
  | [] | [_] => None                            (* no '/' at all *)
  | key :: rparent =>
      match rev rparent with
      | [] => None
      | first :: toks =>
          (* the parent pointer is "" (root) or must start with '/': the text before the first '/' is empty *)
          if String.eqb first "" then Some (map unescape toks, unescape key) else None
      end
  end.

Record issue_env := {
  ie_hash : string -> string;               (* base64_hash(SHA-256, _) *)
  ie_enc : list json -> string;             (* base64url(serde_json::to_vec(parts)) *)
  ie_salts : list json;                     (* generate_salt, one per disclosable path, in order *)
  ie_pos : string -> nat;                   (* position at which a new digest is inserted into its _sd array *)
  ie_decoys : list string;                  (* gen_range(1..=max) many Decoy digests *)
  ie_perm : list json -> list json;         (* shuffle of the top-level _sd array *)
  ie_sign : json -> json -> out string;     (* encode(header, claims, key) *)
}.

Section I.
Variable E : issue_env.

Definition mk_disc := Issuer1.mk_disc (ie_hash E) (ie_enc E).
Definition placeholder_json := Issuer1.placeholder_json.

(* last step of build_disclosure, on the parent node *)
Definition disclose_here := Issuer1.disclose_here (ie_hash E) (ie_enc E) parse_usize (ie_pos E).

(* Value::pointer_mut followed by the in-place edit, as a functional update *)
Definition update_at {A} := @Issuer1.update_at parse_index A.

(* a reference token _sd or ... (repair F20): such a path can only lead into digest bookkeeping *)
Definition reserved_token (path : string) : bool :=
  existsb (fun t => String.eqb t "_sd" || String.eqb t "...") (split_on slash path).

(* what build_disclosure makes of the path string: None = InvalidPathPointer before the claims are looked at *)
Definition parse_path (path : string) : option (list string * string) :=
  if reserved_token path then None else split_path path.

Definition build_disclosure (claims : json) (path : string) (salt : json) : res (json * disc) :=
  match parse_path path with
  | Some (toks, key) => update_at toks (disclose_here key salt) claims
  | None => Err
  end.

Fixpoint issue_fold (claims : json) (paths : list string) (salts : list json) : res (json * list disc) :=
  match paths with
  | [] => Ok (claims, [])
  | p :: ps =>
      match salts with
      | salt :: ss =>
          do (c1, d) <- build_disclosure claims p salt;
          do (c2, ds) <- issue_fold c1 ps ss;
          Ok (c2, d :: ds)
      | [] => Err
      end
  end.

(* build_decoys on the top-level object *)
Definition add_decoys (kvs : list (string * json)) (decoys : list string) : res (list (string * json)) :=
  match obj_get "_sd" kvs with
  | Some (JArr ds) => Ok (obj_insert "_sd" (JArr (ds ++ map JStr decoys)) kvs)
  | Some _ => Err
  | None => Ok (obj_insert "_sd" (JArr (map JStr decoys)) kvs)
  end.

Definition shuffle_top (kvs : list (string * json)) : list (string * json) :=
  match obj_get "_sd" kvs with
  | Some (JArr ds) => obj_insert "_sd" (JArr (ie_perm E ds)) kvs
  | _ => kvs
  end.

Definition serialise_token (jwt : string) (ds : list disc) : string :=
  fold_left (fun acc d => acc ++ "~" ++ d_str d) ds jwt ++ "~".

(* reject_reserved_names (repair F19): _sd and ... as member names at any depth, _sd_alg at the top level *)
Fixpoint has_reserved (top : bool) (j : json) : bool :=
  match j with
  | JObj kvs => existsb (fun kv : string * json => let '(k, v) := kv in
                           String.eqb k "_sd" || String.eqb k "..." || (top && String.eqb k "_sd_alg") || has_reserved false v) kvs
  | JArr xs => existsb (has_reserved false) xs
  | _ => false
  end.

(* Value::get(key).is_some() *)
Definition jhas_ (k : string) (j : json) : bool :=
  match j with JObj kvs => match obj_get k kvs with Some _ => true | None => false end | _ => false end.

(* Issuer::encode. max_decoys = the argument of .decoy(), if called; cnf = the holder JWK, if required *)
Definition is_object (j : json) : bool := match j with JObj _ => true | _ => false end.

Definition issue_obj (claims : json) (paths : list string) (max_decoys : option Z) (cnf : option json) (header : json)
  : out (string * json * list disc) :=
  if has_reserved true claims then Fail else
  (* repair F21: with key binding the issuer sets cnf itself; a cnf claim of the caller is refused *)
  if (match cnf with Some _ => jhas_ "cnf" claims | None => false end) then Fail else
  dO cd <- of_res (issue_fold claims paths (ie_salts E));
  let '(c1, ds) := cd in
  match c1 with
  | JObj kvs =>
      dO kvs1 <- (match max_decoys with
                  | Some m => if (0 <? m)%Z then of_res (add_decoys kvs (ie_decoys E)) else Val kvs
                  | None => Val kvs end);
      let kvs2 := shuffle_top kvs1 in
      let kvs3 := match ds with [] => kvs2 | _ => obj_insert "_sd_alg" (JStr "sha-256") kvs2 end in
      let kvs4 := match cnf with Some k => obj_insert "cnf" k kvs3 | None => kvs3 end in
      dO jwt <- ie_sign E header (JObj kvs4);
      Val (serialise_token jwt ds, JObj kvs4, ds)
  | _ => Fail   (* not reached: issue refuses claims that are not an object, and the fold keeps an object an object *)
  end.

(* repair F29: claims that are not a JSON object cannot be the payload of a JWT; Issuer::encode refuses them before
   anything else (before the repair: a token with a non-object payload, or a panic in Value::index_mut) *)
Definition issue (claims : json) (paths : list string) (max_decoys : option Z) (cnf : option json) (header : json)
  : out (string * json * list disc) :=
  if is_object claims then issue_obj claims paths max_decoys cnf header else Fail.
End I.
