(* C01 at the level of the entry points of the model: Issuer::encode followed by Holder::verify. *)
From Coq Require Import List String Ascii Bool Arith ZArith Lia Sorting.Sorted Permutation.
Import ListNotations.
Require Import SDJ.Json SDJ.Wire SDJ.Model2 SDJ.Out SDJ.Restore2 SDJ.ATree SDJ.T2a SDJ.T2b SDJ.T2c SDJ.T2d SDJ.T2e SDJ.T2h SDJ.T2k SDJ.T2m SDJ.T2n SDJ.T2o SDJ.T2p SDJ.C12Proofs
  SDJ.Issuer1 SDJ.T1a SDJ.T1b SDJ.T1c SDJ.T1d SDJ.T1e SDJ.T1f SDJ.T1g SDJ.T1h SDJ.T1i SDJ.T1j SDJ.Split SDJ.SplitM SDJ.SplitMProofs SDJ.Issuer2 SDJ.T1k SDJ.T1m SDJ.T1n SDJ.T1q SDJ.T1r SDJ.T1s
  SDJ.Verify SDJ.C07Proofs.
Local Open Scope string_scope.

(* claims without reserved names pass the issuer's reject_reserved_names check (repair F19) *)
Lemma has_reserved_members top kvs :
  Forall (fun kv : string * json => jwf (snd kv) -> has_reserved false (snd kv) = false) kvs ->
  Forall (fun kv : string * json => fst kv <> "_sd" /\ fst kv <> "..." /\ jwf (snd kv)) kvs ->
  (top = true -> ~ In "_sd_alg" (map fst kvs)) ->
  has_reserved top (JObj kvs) = false.
Proof.
  intros IH Hk Hn. cbn [has_reserved]. induction kvs as [|[k v] r IHr]; [reflexivity|].
  cbn [existsb]. inversion Hk as [|? ? (H1 & H2 & H3) Hr]; subst. inversion IH as [|? ? Hv IHt]; subst. cbn [fst snd map] in *.
  destruct (String.eqb_spec k "_sd"); [contradiction|]. destruct (String.eqb_spec k "..."); [contradiction|].
  rewrite (Hv H3). cbn [orb].
  assert (Ht : top && String.eqb k "_sd_alg" = false).
  { destruct top; [|reflexivity]. cbn [andb]. destruct (String.eqb_spec k "_sd_alg") as [->|]; [|reflexivity].
    exfalso. apply (Hn eq_refl). left. reflexivity. }
  rewrite Ht. cbn [orb]. apply IHr; [assumption|assumption|]. intros Et Hin. apply (Hn Et). right. assumption.
Qed.

Lemma has_reserved_jwf : forall j, jwf j -> has_reserved false j = false.
Proof.
  induction j as [| | | | xs IH | kvs IH] using json_ind'; intros Hw; try reflexivity.
  - inversion Hw as [| | | |xs' Hxs|]; subst. cbn [has_reserved].
    induction IH as [|x r Hx _ IHr]; [reflexivity|]. cbn [existsb]. inversion Hxs; subst.
    rewrite Hx by assumption. cbn [orb]. apply IHr; [constructor|]; assumption.
  - inversion Hw as [| | | | |kvs' _ Hk]; subst. apply has_reserved_members; [assumption|assumption|discriminate].
Qed.

Lemma has_reserved_top kvs : jwf (JObj kvs) -> ~ In "_sd_alg" (map fst kvs) -> has_reserved true (JObj kvs) = false.
Proof.
  intros Hw Hn. inversion Hw as [| | | | |kvs' _ Hk]; subst. apply has_reserved_members; [|assumption|intros _; assumption].
  apply Forall_forall. intros kv _. apply has_reserved_jwf.
Qed.

Section P.
Variable E : issue_env.
Variable O : oracles.
Notation H := (ie_hash E).
Notation enc := (ie_enc E).

Hypothesis hash_inj : forall x y, H x = H y -> x = y.
Hypothesis dec_enc : forall ps, o_dec O (enc ps) = DJson (JArr ps).
Hypothesis hash_is : o_hash O SHA256 = H.                                   (* the verifier hashes with the issuer's function *)
Hypothesis jwt_round : forall h p j, ie_sign E h p = Val j -> o_jwt O j = Val (h, p).   (* decoding a signed JWT gives back header and payload *)
Hypothesis sign_total : forall h p, exists j, ie_sign E h p = Val j /\ contains tilde j = false.
Hypothesis enc_no_tilde : forall ps, contains tilde (enc ps) = false.
Hypothesis perm_ok : forall xs, Permutation (ie_perm E xs) xs.

Definition decoys_used (max_decoys : option Z) : list string :=
  match max_decoys with Some m => if (0 <? m)%Z then ie_decoys E else [] | None => [] end.

(* the decoy step of encode on the top-level object *)
Definition decoy_stage (kvs : list (string * json)) (max_decoys : option Z) : out (list (string * json)) :=
  match max_decoys with
  | Some m => if (0 <? m)%Z then of_res (add_decoys kvs (ie_decoys E)) else Val kvs
  | None => Val kvs end.

(* decoys and the shuffle of the top-level digest list, on the annotated tree *)
Lemma root_stage (mems' : amems) (max_decoys : option Z) :
  wf H enc (AObj mems') -> NoDup (alldigs H enc (AObj mems')) ->
  NoDup (decoys_used max_decoys) ->
  (forall g, In g (decoys_used max_decoys) -> ~ In g (alldigs H enc (AObj mems'))) ->
  exists m1 kvs1,
    decoy_stage (flat_map (bmem H enc) mems') max_decoys = Val kvs1 /\
    shuffle_top E kvs1 = flat_map (bmem H enc) m1 /\
    (forall k, In k (map fst m1) -> k = "_sd" \/ In k (map fst mems')) /\
    wf H enc (AObj m1) /\ hdigs H enc (AObj m1) = hdigs H enc (AObj mems') /\
    NoDup (alldigs H enc (AObj m1)) /\
    aheight (AObj m1) <= Nat.max (aheight (AObj mems')) 3 /\
    flat_map (pmem H enc Rall) m1 = flat_map (pmem H enc Rall) mems' /\
    (forall g p, NodePath H enc Wire.show_nat g (AObj mems') p -> NodePath H enc Wire.show_nat g (AObj m1) p).
Proof.
  intros Hw' Hnda' HndD Hdfresh.
  pose proof (names_ok_of_wf H enc mems' Hw') as Hnames.
  inversion Hw' as [| | mm Hsorted Hall Hok]; subst mm.
  set (D := decoys_used max_decoys) in *.
  destruct (in_dec string_dec "_sd" (map fst mems')) as [Hsd|Hnsd].
  - (* a top-level claim is disclosable: the root list is extended and shuffled *)
    destruct (sd_member_of_key mems' Hnames Hsd) as (l0 & s0 & Hsdin).
    assert (Hsdex : exists l s, In ("_sd", (MSd l, s)) mems') by eauto.
    assert (Hget : obj_get "_sd" (flat_map (bmem H enc) mems') = Some (JArr (map JStr l0))).
    { rewrite (obj_get_sd_blind H enc mems' Hsorted Hnames).
      assert (Hfind : find (fun m : string * (mkind * atree) => match fst (snd m) with MSd _ => true | _ => false end) mems' = Some ("_sd", (MSd l0, s0))).
      { clear -Hsdin Hsorted Hnames. induction mems' as [|[n [k s]] r IH]; [destruct Hsdin|].
        cbn [map fst] in Hsorted. apply StronglySorted_inv in Hsorted as [Hs Hf]. inversion Hnames as [|? ? Hn1 Hn2]; subst.
        destruct k as [|salt|l1]; cbn [find fst snd].
        - destruct Hsdin as [Hq|Hin]; [discriminate|]. apply IH; assumption.
        - destruct Hsdin as [Hq|Hin]; [discriminate|]. apply IH; assumption.
        - destruct Hsdin as [Hq|Hin]; [congruence|]. exfalso. unfold sd_names_ok in Hn1. cbn in Hn1. subst n.
          rewrite Forall_forall in Hf. assert (Hlt : slt "_sd" "_sd") by (apply Hf; apply in_map_iff; exists ("_sd", (MSd l0, s0)); auto).
          exact (slt_irrefl _ Hlt). }
      rewrite Hfind. reflexivity. }
    set (l' := strs_of (ie_perm E (map JStr (l0 ++ D)))).
    destruct (perm_strs (ie_perm E (map JStr (l0 ++ D))) (l0 ++ D) (perm_ok _)) as [Hl'eq Hl'perm]. fold l' in Hl'eq, Hl'perm.
    set (m1 := set_sd l' mems').
    assert (Hb1 : flat_map (bmem H enc) m1 = obj_insert "_sd" (JArr (ie_perm E (map JStr (l0 ++ D)))) (flat_map (bmem H enc) mems')).
    { unfold m1. rewrite (bmems_set_sd H enc l' mems' Hsorted Hnames Hsdex). rewrite <- Hl'eq. reflexivity. }
    assert (Hstage : exists kvs1, decoy_stage (flat_map (bmem H enc) mems') max_decoys = Val kvs1 /\ shuffle_top E kvs1 = flat_map (bmem H enc) m1).
    { assert (Hdec : decoy_stage (flat_map (bmem H enc) mems') max_decoys =
                   Val (match D with [] => flat_map (bmem H enc) mems' | _ => obj_insert "_sd" (JArr (map JStr l0 ++ map JStr D)) (flat_map (bmem H enc) mems') end)
                   \/ D = [] /\ exists m, max_decoys = Some m /\ (0 <? m)%Z = true).
      { unfold decoy_stage, D, decoys_used. destruct max_decoys as [m|]; [|left; reflexivity]. destruct (0 <? m)%Z eqn:Em; [|left; reflexivity].
        destruct (ie_decoys E) as [|d0 dr] eqn:Ed; [right; eauto|]. left. unfold add_decoys. rewrite Hget. reflexivity. }
      destruct Hdec as [Hdec|(HD & m & -> & Em)].
      - eexists. split; [exact Hdec|]. rewrite Hb1. destruct D as [|d0 dr] eqn:ED.
        + unfold shuffle_top. rewrite Hget. rewrite app_nil_r. reflexivity.
        + unfold shuffle_top. rewrite obj_get_insert_same, obj_insert_twice, map_app. reflexivity.
      - unfold decoy_stage. rewrite Em. unfold add_decoys. rewrite Hget. cbn [of_res]. eexists. split; [reflexivity|].
        assert (Hde : ie_decoys E = []) by (unfold D, decoys_used in HD; rewrite Em in HD; exact HD).
        rewrite Hde. cbn [map]. rewrite app_nil_r. unfold shuffle_top. rewrite obj_get_insert_same, obj_insert_twice.
        rewrite Hb1, HD, app_nil_r. reflexivity. }
    destruct Hstage as (kvs1 & Hst1 & Hst2).
    exists m1, kvs1. split; [exact Hst1|]. split; [exact Hst2|].
    split; [intros k Hk; right; unfold m1 in Hk; rewrite set_sd_keys in Hk; exact Hk|].
    split.
    { apply wf_set_sd; [assumption|assumption|]. intros x Hx.
      assert (Hxl : In x l0).
      { unfold sd_of in Hx. apply in_flat_map in Hx as [[n [mk s]] [Hin Hx]]. cbn in Hx. destruct mk as [| |l1]; try destruct Hx.
        assert (Hq : (n, (MSd l1, s)) = ("_sd", (MSd l0, s0))).
        { rewrite Forall_forall in Hnames. pose proof (Hnames _ Hin) as Hn. unfold sd_names_ok in Hn. cbn in Hn. subst n.
          destruct (in_split _ _ Hin) as (pre & post & Hsplit).
          assert (Hin2 : In ("_sd", (MSd l0, s0)) (pre ++ ("_sd", (MSd l1, s)) :: post)) by (rewrite <- Hsplit; assumption).
          apply in_app_or in Hin2 as [Hin2|[Hin2|Hin2]]; [exfalso| first [assumption | symmetry; assumption] |exfalso];
            rewrite Hsplit, map_app in Hsorted; cbn [map fst] in Hsorted; apply ssorted_split in Hsorted as [Hlt Hgt].
          - rewrite Forall_forall in Hlt. apply (slt_irrefl "_sd"). apply Hlt. apply in_map_iff. exists ("_sd", (MSd l0, s0)). auto.
          - rewrite Forall_forall in Hgt. apply (slt_irrefl "_sd"). apply Hgt. apply in_map_iff. exists ("_sd", (MSd l0, s0)). auto. }
        injection Hq as _ -> _. assumption. }
      eapply Permutation_in; [symmetry; exact Hl'perm|]. apply in_or_app. left. assumption. }
    split; [apply hdigs_set_sd|].
    split.
    { destruct (alldigs_set_sd H enc l' mems' l0 s0 Hsdin Hnames Hsorted) as (rest & Hp1 & Hp2). fold m1 in Hp2.
      eapply Permutation_NoDup; [symmetry; exact Hp2|].
      eapply Permutation_NoDup; [apply Permutation_app_tail; symmetry; exact Hl'perm|].
      rewrite <- app_assoc. assert (Hnd0 : NoDup (l0 ++ rest)) by (eapply Permutation_NoDup; [exact Hp1|assumption]).
      eapply Permutation_NoDup; [apply Permutation_app_head; apply Permutation_app_comm|]. rewrite app_assoc.
      apply NoDup_app_intro; [assumption|assumption|]. intros g Hg HgD. apply (Hdfresh g HgD). eapply Permutation_in; [symmetry; exact Hp1|assumption]. }
    split; [unfold m1; rewrite aheight_set_sd; lia|].
    split; [pose proof (proj_set_sd H enc Rall l' mems') as Hps1; rewrite !proj_obj in Hps1; fold m1 in Hps1; congruence|].
    intros g p Hn. eapply NodePath_members; [exact Hw'| |exact Hn]. intros m Hm Hk. apply set_sd_in; assumption.
  - (* no top-level claim is disclosable *)
    assert (Hget : obj_get "_sd" (flat_map (bmem H enc) mems') = None).
    { rewrite (obj_get_sd_blind H enc mems' Hsorted Hnames), (no_sd_find mems' Hnames Hnsd). reflexivity. }
    assert (Hcases : (exists m, max_decoys = Some m /\ (0 <? m)%Z = true) \/ (decoy_stage (flat_map (bmem H enc) mems') max_decoys = Val (flat_map (bmem H enc) mems'))).
    { unfold decoy_stage. destruct max_decoys as [m|]; [|right; reflexivity]. destruct (0 <? m)%Z eqn:Em; [left; eauto|right; reflexivity]. }
    destruct Hcases as [(m & -> & Em)|Hst].
    + (* decoys were requested: a root "_sd" list holding only decoys *)
      assert (HD : D = ie_decoys E) by (unfold D, decoys_used; rewrite Em; reflexivity).
      set (l' := strs_of (ie_perm E (map JStr D))).
      destruct (perm_strs (ie_perm E (map JStr D)) D (perm_ok _)) as [Hl'eq Hl'perm]. fold l' in Hl'eq, Hl'perm.
      exists (ains "_sd" (MSd l', ALeaf JNull) mems'), (obj_insert "_sd" (JArr (map JStr D)) (flat_map (bmem H enc) mems')).
      split; [unfold decoy_stage; rewrite Em; unfold add_decoys; rewrite Hget, HD; reflexivity|].
      split; [unfold shuffle_top; rewrite obj_get_insert_same, obj_insert_twice, (bmems_ains_sd H enc l' mems' Hsorted Hnsd), <- Hl'eq; reflexivity|].
      split; [intros k Hk; apply ains_keys in Hk as [->|[Hk _]]; auto|].
      split; [apply wf_ains_sd; assumption|].
      split; [apply hdigs_ains_sd; assumption|].
      split.
      { eapply Permutation_NoDup; [symmetry; apply (alldigs_ains_sd H enc l' mems' Hnsd)|].
        eapply Permutation_NoDup; [apply Permutation_app_tail; symmetry; exact Hl'perm|].
        apply NoDup_app_intro; [assumption|assumption|]. intros g HgD Hg. exact (Hdfresh g HgD Hg). }
      split; [apply aheight_ains_sd|]. split; [apply pmems_ains_sd; assumption|].
      intros g p Hn. eapply NodePath_members; [exact Hw'| |exact Hn]. intros m0 Hm0 _. apply ains_in; assumption.
    + exists mems', (flat_map (bmem H enc) mems'). split; [exact Hst|].
      split; [unfold shuffle_top; rewrite Hget; reflexivity|].
      split; [auto|]. split; [assumption|]. split; [reflexivity|]. split; [assumption|]. split; [lia|]. split; [reflexivity|auto].
Qed.

Lemma encode_holder_core
    (ckvs : list (string * json)) (paths : list string) tks (t' : atree)
    (max_decoys : option Z) (cnf : option json) (header : json) :
  jwf (JObj ckvs) -> ~ In "_sd_alg" (map fst ckvs) -> ~ In "cnf" (map fst ckvs) ->
  NoDup (ie_salts E) -> paths <> [] -> split_paths paths = Some tks ->
  T1j.mark_fold H enc Issuer2.parse_index Issuer2.parse_usize (ie_pos E) (embed (JObj ckvs)) tks (ie_salts E) = Some t' ->
  NoDup (decoys_used max_decoys) ->
  (forall g, In g (decoys_used max_decoys) -> ~ In g (alldigs H enc t')) ->   (* fresh decoy draws *)
  (match cnf with Some c => jwf c /\ S (aheight (embed c)) <= 129 | None => True end) ->
  aheight t' <= 129 ->
  exists token payload ds ps t'',
    issue E (JObj ckvs) paths max_decoys cnf header = Val (token, payload, ds) /\
    holder_verify O token = Val (header, match cnf with Some c => JObj (obj_insert "cnf" c ckvs) | None => JObj ckvs end, ps) /\
    T1j.issue_fold H enc Issuer2.parse_index Issuer2.parse_usize (ie_pos E) (JObj ckvs) tks (ie_salts E) = Ok (blind H enc t', ds) /\
    NoDup (hdigs H enc t'') /\ Permutation (map snd ps) ds /\
    Forall (fun pd : dpath => NodePath H enc Wire.show_nat (d_digest (snd pd)) t'' (fst pd)) ps /\
    (forall g p, NodePath H enc Wire.show_nat g t' p -> NodePath H enc Wire.show_nat g t'' p).
Proof.
  intros HC Hnalg Hncnf Hnds Hpne Hsp Hm HndD Hdfresh Hcnf Hh.
  set (C := JObj ckvs) in *.
  destruct (issue_fold_spec H enc Issuer2.parse_index Issuer2.parse_usize (ie_pos E) tks (ie_salts E) (embed C) t' (wf_embed H enc C HC) Hm)
    as (ds & Hf & Hw' & Hq1 & Hq2 & Hnodes & Hpres & Hproj & Hmade).
  rewrite (blind_embed H enc) in Hf. rewrite (hdigs_embed H enc), app_nil_r in Hq1. rewrite (alldigs_embed H enc), app_nil_r in Hq2.
  rewrite (proj_embed H enc) in Hproj.
  (* the tree of the fold is an object *)
  assert (Hobj : exists mems', t' = AObj mems').
  { destruct t' as [j|items|mems']; [| |eauto]; exfalso.
    - inversion Hw' as [j0 Hsc| |]; subst. cbn in Hproj. subst j. exact Hsc.
    - cbn in Hproj. discriminate. }
  destruct Hobj as [mems' ->]. set (t' := AObj mems') in *.
  assert (Hdsne : ds <> []).
  { destruct tks as [|[toks key] r].
    - destruct paths as [|p ps]; [congruence|]. rewrite split_paths_cons in Hsp.
      destruct (parse_path p); [|discriminate]. destruct (split_paths ps); discriminate.
    - cbn [T1j.issue_fold] in Hf. destruct (ie_salts E) as [|salt ss]; [discriminate|].
      destruct (Issuer1.build_disclosure _ _ _ _ _ C toks key salt) as [[c1 d]|]; [|discriminate]. cbn [bind] in Hf.
      destruct (T1j.issue_fold _ _ _ _ _ c1 r ss) as [[c2 ds']|]; [|discriminate]. cbn [bind] in Hf. injection Hf as _ <-. discriminate. }
  pose proof Hf as Hf0.
  rewrite <- (issue_fold_issuer2 E paths tks C (ie_salts E) Hsp) in Hf.
  assert (Hpm : flat_map (pmem H enc Rall) mems' = ckvs).
  { unfold t', C in Hproj. rewrite proj_obj in Hproj. congruence. }
  pose proof (names_ok_of_wf H enc mems' Hw') as Hnames.
  (* disclosure facts *)
  assert (HndL : NoDup (map d_str ds)).
  { eapply (made_with_nodup H enc (o_dec O) dec_enc); [exact Hmade|]. apply NoDup_firstn'. assumption. }
  assert (Hdig : forall d, In d ds -> d_digest d = H (d_str d)).
  { clear -Hmade. induction Hmade as [|d0 salt ds0 ss Hmw HF IH]; intros d Hd; [destruct Hd|]. destruct Hd as [<-|Hd]; [|auto].
    unfold T1j.made_with in Hmw. rewrite Hmw. reflexivity. }
  assert (Hmd : map d_digest ds = map H (map d_str ds)).
  { rewrite map_map. apply map_ext_in. intros d Hd. apply Hdig. assumption. }
  assert (Hndd : NoDup (map d_digest ds)).
  { rewrite Hmd. clear -HndL hash_inj. induction HndL as [|s r Hni _ IH]; cbn; constructor; [|assumption].
    intros Hin. apply in_map_iff in Hin as [s' [Hq Hs']]. apply hash_inj in Hq. subst. contradiction. }
  assert (Hndh' : NoDup (hdigs H enc t')) by (eapply Permutation_NoDup; [symmetry; exact Hq1|assumption]).
  assert (Hnda' : NoDup (alldigs H enc t')) by (eapply Permutation_NoDup; [symmetry; exact Hq2|assumption]).
  (* decoys and shuffle *)
  destruct (root_stage mems' max_decoys Hw' Hnda' HndD Hdfresh) as (m1 & kvs1 & Hst1 & Hst2 & Hkeys1 & Hw1 & Hhd1 & Hnda1 & Hht1 & Hp1 & Hnp1).
  set (m2 := ains "_sd_alg" (MPlain, ALeaf (JStr "sha-256")) m1).
  set (m3 := match cnf with Some c => ains "cnf" (MPlain, embed c) m2 | None => m2 end).
  set (t'' := AObj m3).
  assert (Hkeys' : forall k, In k (map fst mems') -> k = "_sd" \/ In k (map fst ckvs)).
  { intros k Hk. destruct (in_dec string_dec k (map fst ckvs)) as [|Hn]; [auto|]. left.
    apply in_map_iff in Hk as [[n [mk s]] [Hq Hin]]. cbn in Hq. subst n.
    rewrite Forall_forall in Hnames. specialize (Hnames _ Hin). unfold sd_names_ok in Hnames. cbn in Hnames.
    destruct mk as [|salt|l1]; [| |assumption]; exfalso; apply Hn.
    - assert (Hp : In k (map fst (flat_map (pmem H enc Rall) mems'))).
      { apply in_map_iff. exists (k, proj H enc Rall s). split; [reflexivity|]. apply in_flat_map. exists (k, (MPlain, s)). split; [assumption|]. left. reflexivity. }
      rewrite Hpm in Hp. exact Hp.
    - assert (Hp : In k (map fst (flat_map (pmem H enc Rall) mems'))).
      { apply in_map_iff. exists (k, proj H enc Rall s). split; [reflexivity|]. apply in_flat_map. exists (k, (MHid salt, s)). split; [assumption|]. cbn. left. reflexivity. }
      rewrite Hpm in Hp. exact Hp. }
  assert (Hn1alg : ~ In "_sd_alg" (map fst m1)).
  { intros Hin. destruct (Hkeys1 _ Hin) as [Hq|Hin']; [discriminate|]. destruct (Hkeys' _ Hin') as [Hq|Hq]; [discriminate|contradiction]. }
  assert (Hs1 : StronglySorted slt (map fst m1)) by (inversion Hw1; assumption).
  assert (Hs2 : StronglySorted slt (map fst m2)) by (apply ains_sorted; assumption).
  assert (Hn2cnf : ~ In "cnf" (map fst m2)).
  { intros Hin. apply ains_keys in Hin as [Hq|[Hin _]]; [discriminate|].
    destruct (Hkeys1 _ Hin) as [Hq|Hin']; [discriminate|]. destruct (Hkeys' _ Hin') as [Hq|Hq]; [discriminate|contradiction]. }
  assert (Hw2 : wf H enc (AObj m2)).
  { apply wf_ains; [assumption|constructor; exact I|assumption|discriminate|discriminate]. }
  assert (Hw3 : wf H enc t'').
  { unfold t'', m3. destruct cnf as [c|]; [|assumption]. destruct Hcnf as [Hjc _].
    apply wf_ains; [assumption|apply wf_embed; assumption|assumption|discriminate|discriminate]. }
  (* its blinded form is the payload that encode signs *)
  assert (Hb2 : flat_map (bmem H enc) m2 = obj_insert "_sd_alg" (JStr "sha-256") (flat_map (bmem H enc) m1)).
  { unfold m2. rewrite (bmems_ains H enc "_sd_alg" (ALeaf (JStr "sha-256")) m1 Hs1 Hn1alg). reflexivity. }
  assert (Hb3 : flat_map (bmem H enc) m3 = match cnf with Some c => obj_insert "cnf" c (flat_map (bmem H enc) m2) | None => flat_map (bmem H enc) m2 end).
  { unfold m3. destruct cnf as [c|]; [|reflexivity]. rewrite (bmems_ains H enc "cnf" (embed c) m2 Hs2 Hn2cnf), (blind_embed H enc). reflexivity. }
  (* run encode *)
  destruct (sign_total header (JObj (flat_map (bmem H enc) m3))) as (jwt & Hsign & Hjt).
  assert (Hissue : issue E C paths max_decoys cnf header = Val (serialise_token jwt ds, JObj (flat_map (bmem H enc) m3), ds)).
  { unfold issue. change (is_object C) with true. cbv iota. unfold issue_obj. unfold C at 1. rewrite (has_reserved_top ckvs HC Hnalg). fold C.
    assert (Hnc : (match cnf with Some _ => jhas_ "cnf" C | None => false end) = false).
    { destruct cnf; [|reflexivity]. unfold C, jhas_. rewrite (T2b.obj_get_none "cnf" ckvs Hncnf). reflexivity. }
    rewrite Hnc. rewrite Hf. cbn [of_res obind]. change (blind H enc t') with (JObj (flat_map (bmem H enc) mems')). cbv iota.
    change (match max_decoys with
            | Some m => if (0 <? m)%Z then of_res (add_decoys (flat_map (bmem H enc) mems') (ie_decoys E)) else Val (flat_map (bmem H enc) mems')
            | None => Val (flat_map (bmem H enc) mems') end) with (decoy_stage (flat_map (bmem H enc) mems') max_decoys).
    rewrite Hst1. cbn [obind]. rewrite Hst2.
    destruct ds as [|d1 dr]; [congruence|].
    rewrite <- Hb2.
    replace (match cnf with Some k => obj_insert "cnf" k (flat_map (bmem H enc) m2) | None => flat_map (bmem H enc) m2 end) with (flat_map (bmem H enc) m3) by exact Hb3.
    rewrite Hsign. reflexivity. }
  (* the token splits back into its parts *)
  assert (Htilde : Forall (fun x => contains tilde x = false) (jwt :: map d_str ds)).
  { constructor; [assumption|]. apply Forall_forall. intros x Hx. apply in_map_iff in Hx as [d [<- Hd]].
    assert (Hmw : exists salt, T1j.made_with H enc d salt).
    { clear -Hmade Hd. induction Hmade as [|d0 salt ds0 ss Hmw HF IH]; [destruct Hd|]. destruct Hd as [<-|Hd]; eauto. }
    destruct Hmw as [salt Hmw]. unfold T1j.made_with in Hmw. rewrite Hmw. cbn [d_str Issuer1.mk_disc]. apply enc_no_tilde. }
  pose proof (token_framing E jwt ds Htilde) as Hparts.
  (* restoring on the final tree *)
  assert (Hh1 : Permutation (hdigs H enc t'') (hdigs H enc t')).
  { unfold t'', m3, t'. rewrite <- Hhd1.
    etransitivity; [|apply (hdigs_ains H enc "_sd_alg" (JStr "sha-256") m1 Hn1alg)]. fold m2.
    destruct cnf as [c|]; [|reflexivity]. apply (hdigs_ains H enc "cnf" c m2 Hn2cnf). }
  assert (Hndh'' : NoDup (hdigs H enc t'')) by (eapply Permutation_NoDup; [symmetry; exact Hh1|assumption]).
  assert (Hnda'' : NoDup (alldigs H enc t'')).
  { assert (Ha2 : Permutation (alldigs H enc t'') (alldigs H enc (AObj m1))).
    { unfold t'', m3.
      etransitivity; [|apply (alldigs_ains H enc "_sd_alg" (JStr "sha-256") m1 Hn1alg)]. fold m2.
      destruct cnf as [c|]; [|reflexivity]. apply (alldigs_ains H enc "cnf" c m2 Hn2cnf). }
    eapply Permutation_NoDup; [symmetry; exact Ha2|assumption]. }
  assert (Hh'' : aheight t'' <= 129).
  { unfold t'', m3. assert (H2' : aheight (AObj m2) <= 129).
    { unfold m2. etransitivity; [apply aheight_ains|].
      assert (Hz : aheight (ALeaf (JStr "sha-256")) = 1) by reflexivity. unfold t' in Hh. lia. }
    destruct cnf as [c|]; [|assumption]. destruct Hcnf as [_ Hhc]. etransitivity; [apply aheight_ains|]. lia. }
  assert (Hdecode : decode_all H (o_dec O) (map d_str ds) = Ok ds).
  { assert (Hall' : forall d, In d ds -> from_base64 H (o_dec O) (d_str d) = Ok d).
    { intros d Hd.
      assert (Hmw : exists salt, T1j.made_with H enc d salt).
      { clear -Hmade Hd. induction Hmade as [|d0 salt ds0 ss Hmw HF IH]; [destruct Hd|]. destruct Hd as [<-|Hd]; eauto. }
      destruct Hmw as [salt Hmw]. rewrite Forall_forall in Hnodes. specialize (Hnodes d Hd).
      unfold T1j.made_with in Hmw. rewrite Hmw. unfold from_base64. cbn [d_str Issuer1.mk_disc]. rewrite dec_enc.
      destruct (d_key d) as [name|] eqn:Ek.
      - cbn. rewrite (IsNode_name_ok H enc _ _ _ _ Hw' Hnodes). reflexivity.
      - reflexivity. }
    clear -Hall'. induction ds as [|d r IH]; [reflexivity|]. cbn. rewrite Hall' by (left; reflexivity). cbn.
    rewrite IH by (intros; apply Hall'; right; assumption). reflexivity. }
  assert (Hdecoy : forall s, In s (map d_str ds) -> In (H s) (alldigs H enc t'') -> In (H s) (hdigs H enc t'')).
  { intros s Hs _. apply in_map_iff in Hs as [d [<- Hd]]. rewrite <- (Hdig d Hd).
    eapply Permutation_in; [symmetry; exact Hh1|]. eapply Permutation_in; [symmetry; exact Hq1|]. apply in_map. assumption. }
  assert (Hallh : forall g, In g (hdigs H enc t'') -> In g (map d_digest ds)).
  { intros g Hg. eapply Permutation_in; [exact Hq1|]. eapply Permutation_in; [exact Hh1|assumption]. }
  assert (Hownh : forall d, In d ds -> In (d_digest d) (hdigs H enc t'')).
  { intros d Hd. eapply Permutation_in; [symmetry; exact Hh1|]. eapply Permutation_in; [symmetry; exact Hq1|]. apply in_map. assumption. }
  destruct (restore_full_all_paths H enc (o_dec O) Wire.show_nat hash_inj dec_enc t'' Hw3 Hnda'' Hndh'' Hh'' (map d_str ds) ds HndL Hdecoy Hdecode Hallh Hownh)
    as (ps & Hps & Hperm & Hnps).
  (* Holder::verify *)
  exists (serialise_token jwt ds), (JObj (flat_map (bmem H enc) m3)), ds, ps, t''. split; [exact Hissue|].
  assert (Hkeep : forall g p, NodePath H enc Wire.show_nat g t' p -> NodePath H enc Wire.show_nat g t'' p).
  { intros g p Hn. apply Hnp1 in Hn.
    assert (Hn2 : NodePath H enc Wire.show_nat g (AObj m2) p).
    { eapply NodePath_members; [exact Hw1| |exact Hn]. intros m0 Hm0 _. apply ains_in; assumption. }
    unfold t'', m3. destruct cnf as [c|]; [|exact Hn2].
    eapply NodePath_members; [exact Hw2| |exact Hn2]. intros m0 Hm0 _. apply ains_in; assumption. }
  cut (holder_verify O (serialise_token jwt ds) = Val (header, match cnf with Some c => JObj (obj_insert "cnf" c ckvs) | None => JObj ckvs end, ps)).
  { intros Hv. split; [exact Hv|]. split; [unfold t', C in Hf0; exact Hf0|]. split; [assumption|]. split; [assumption|]. split; assumption. }
  assert (Halg : jget "_sd_alg" (JObj (flat_map (bmem H enc) m3)) = JStr "sha-256").
  { unfold jget. rewrite Hb3. destruct cnf as [c|].
    - rewrite obj_get_insert_other by discriminate. rewrite Hb2, obj_get_insert_same. reflexivity.
    - rewrite Hb2, obj_get_insert_same. reflexivity. }
  unfold holder_verify, holder_verify_raw. rewrite sd_jwt_parts_m_total, Hparts. cbn [obind].
  apply declared_halg_str in Halg. cbn [parse_halg String.eqb Ascii.eqb Bool.eqb] in Halg.
  rewrite (jwt_round _ _ _ Hsign). cbn [obind]. rewrite Halg. cbn [obind].
  unfold restore_and_strip. rewrite Halg. rewrite hash_is.
  change (JObj (flat_map (bmem H enc) m3)) with (blind H enc t''). rewrite Hps. cbn [of_res obind fst snd].
  f_equal. f_equal. f_equal.
  (* the claims: everything is opened, bookkeeping and _sd_alg are removed *)
  assert (Hview : view H enc (ownS H (map d_str ds)) t'' = view H enc Rall t'').
  { apply view_ext. intros g Hg. unfold Rall, ownS. apply existsb_exists.
    assert (Hgd : In g (map d_digest ds)).
    { eapply Permutation_in; [exact Hq1|]. eapply Permutation_in; [exact Hh1|assumption]. }
    apply in_map_iff in Hgd as [d [Hq Hd]]. exists (d_str d). split; [apply in_map; assumption|].
    rewrite <- Hq, (Hdig d Hd). apply String.eqb_refl. }
  rewrite Hview. change (view H enc Rall t'') with (JObj (flat_map (ATree.view_mem H enc (view H enc Rall) Rall) m3)).
  unfold remove_digests. rewrite (strip_filter_top (fun k => negb (String.eqb k "_sd_alg"))).
  change (JObj (flat_map (ATree.view_mem H enc (view H enc Rall) Rall) m3)) with (view H enc Rall t'').
  rewrite (strip_view H enc Rall t'' Hw3). unfold t''. rewrite proj_obj.
  assert (Hp3 : flat_map (pmem H enc Rall) m3 =
                match cnf with Some c => obj_insert "cnf" c (obj_insert "_sd_alg" (JStr "sha-256") ckvs) | None => obj_insert "_sd_alg" (JStr "sha-256") ckvs end).
  { assert (Hp1' : flat_map (pmem H enc Rall) m1 = ckvs) by congruence.
    assert (Hp2 : flat_map (pmem H enc Rall) m2 = obj_insert "_sd_alg" (JStr "sha-256") ckvs).
    { unfold m2. rewrite (pmems_ains H enc Rall "_sd_alg" (ALeaf (JStr "sha-256")) m1 Hs1 Hn1alg), Hp1'. reflexivity. }
    unfold m3. destruct cnf as [c|]; [|exact Hp2].
    rewrite (pmems_ains H enc Rall "cnf" (embed c) m2 Hs2 Hn2cnf), Hp2, (proj_embed H enc). reflexivity. }
  rewrite Hp3.
  assert (Hcs : StronglySorted slt (map fst ckvs)) by (inversion HC; assumption).
  destruct cnf as [c|].
  - rewrite (obj_insert_comm "cnf" c "_sd_alg" (JStr "sha-256")) by (discriminate || assumption).
    rewrite filter_insert_same; [reflexivity|]. intros Hin. apply obj_insert_keys in Hin as [Hq|Hin]; [discriminate|contradiction].
  - rewrite filter_insert_same by assumption. reflexivity.
Qed.

Theorem encode_then_holder_verify
    (ckvs : list (string * json)) (paths : list string) tks (t' : atree)
    (max_decoys : option Z) (cnf : option json) (header : json) :
  jwf (JObj ckvs) -> ~ In "_sd_alg" (map fst ckvs) -> ~ In "cnf" (map fst ckvs) ->
  NoDup (ie_salts E) -> paths <> [] -> split_paths paths = Some tks ->
  T1j.mark_fold H enc Issuer2.parse_index Issuer2.parse_usize (ie_pos E) (embed (JObj ckvs)) tks (ie_salts E) = Some t' ->
  NoDup (decoys_used max_decoys) ->
  (forall g, In g (decoys_used max_decoys) -> ~ In g (alldigs H enc t')) ->   (* fresh decoy draws *)
  (match cnf with Some c => jwf c /\ S (aheight (embed c)) <= 129 | None => True end) ->
  aheight t' <= 129 ->
  exists token payload ds ps,
    issue E (JObj ckvs) paths max_decoys cnf header = Val (token, payload, ds) /\
    holder_verify O token = Val (header, match cnf with Some c => JObj (obj_insert "cnf" c ckvs) | None => JObj ckvs end, ps).
Proof.
  intros HC Hnalg Hncnf Hnds Hpne Hsp Hm HndD Hdfresh Hcnf Hh.
  destruct (encode_holder_core ckvs paths tks t' max_decoys cnf header HC Hnalg Hncnf Hnds Hpne Hsp Hm HndD Hdfresh Hcnf Hh)
    as (token & payload & ds & ps & t'' & H1 & H2 & _). exists token, payload, ds, ps. split; assumption.
Qed.

(* the path component: the holder is told one path per disclosure, and the i-th disclosure of the issuer is
   reported at the rendered address of the i-th path the issuer was given *)
Theorem encode_then_holder_verify_paths
    (ckvs : list (string * json)) (paths : list string) tks (addrs : list addr) (t' : atree)
    (max_decoys : option Z) (cnf : option json) (header : json) :
  jwf (JObj ckvs) -> ~ In "_sd_alg" (map fst ckvs) -> ~ In "cnf" (map fst ckvs) ->
  NoDup (ie_salts E) -> paths <> [] -> split_paths paths = Some tks ->
  Forall2 (fun p a => jresolve Issuer2.parse_index Issuer2.parse_usize (fst p) (snd p) (JObj ckvs) = Some a) tks addrs ->
  ordered addrs ->
  T1j.mark_fold H enc Issuer2.parse_index Issuer2.parse_usize (ie_pos E) (embed (JObj ckvs)) tks (ie_salts E) = Some t' ->
  NoDup (decoys_used max_decoys) ->
  (forall g, In g (decoys_used max_decoys) -> ~ In g (alldigs H enc t')) ->
  (match cnf with Some c => jwf c /\ S (aheight (embed c)) <= 129 | None => True end) ->
  aheight t' <= 129 ->
  exists token payload ds ps,
    issue E (JObj ckvs) paths max_decoys cnf header = Val (token, payload, ds) /\
    holder_verify O token = Val (header, match cnf with Some c => JObj (obj_insert "cnf" c ckvs) | None => JObj ckvs end, ps) /\
    Permutation (map snd ps) ds /\
    Forall2 (fun d a => In (render Wire.show_nat a, d) ps) ds addrs.
Proof.
  intros HC Hnalg Hncnf Hnds Hpne Hsp HF Hord Hm HndD Hdfresh Hcnf Hh.
  destruct (encode_holder_core ckvs paths tks t' max_decoys cnf header HC Hnalg Hncnf Hnds Hpne Hsp Hm HndD Hdfresh Hcnf Hh)
    as (token & payload & ds & ps & t'' & H1 & H2 & Hf & Hndh & Hperm & Hnps & Hkeep).
  exists token, payload, ds, ps. split; [assumption|]. split; [assumption|]. split; [assumption|].
  assert (HFr : Forall2 (fun p a => resolve Issuer2.parse_index Issuer2.parse_usize (fst p) (snd p) (embed (JObj ckvs)) = Some a) tks addrs).
  { clear -HF. induction HF as [|p a ps0 ar Hq HF IH]; constructor; [rewrite resolve_embed; exact Hq|exact IH]. }
  destruct (issue_fold_paths H enc Wire.show_nat Issuer2.parse_index Issuer2.parse_usize (ie_pos E) tks addrs (ie_salts E) (embed (JObj ckvs)) t'
              (wf_embed H enc _ HC) HFr Hord Hm) as (ds' & Hf' & Hnp').
  rewrite (blind_embed H enc) in Hf'. rewrite Hf in Hf'. injection Hf' as <-.
  assert (Hkey : forall d a, In d ds -> NodePath H enc Wire.show_nat (d_digest d) t' (render Wire.show_nat a) -> In (render Wire.show_nat a, d) ps).
  { intros d a Hd Hn.
    assert (Hd' : In d (map snd ps)) by (eapply Permutation_in; [symmetry; exact Hperm|exact Hd]).
    apply in_map_iff in Hd' as [[p d'] [Hq Hpd]]. cbn in Hq. subst d'.
    rewrite Forall_forall in Hnps. pose proof (Hnps _ Hpd) as Hn2. cbn [fst snd] in Hn2.
    rewrite (NodePath_fun H enc Wire.show_nat hash_inj _ t'' _ _ Hndh (Hkeep _ _ Hn) Hn2). exact Hpd. }
  assert (Hgen : forall dl al, Forall2 (fun d a => NodePath H enc Wire.show_nat (d_digest d) t' (render Wire.show_nat a)) dl al -> incl dl ds ->
                 Forall2 (fun d a => In (render Wire.show_nat a, d) ps) dl al).
  { induction 1 as [|d a dr ar Hn HF2 IH]; intros Hincl; constructor.
    - apply Hkey; [apply Hincl; left; reflexivity|assumption].
    - apply IH. intros x Hx. apply Hincl. right. assumption. }
  apply Hgen; [assumption|apply incl_refl].
Qed.
End P.

(* C14 "valid => Ok", composed with the round trip: every marking whose paths resolve in the claims and are
   listed descendants-before-ancestors without repeats is accepted; and then encode / Holder::verify behave
   as in encode_then_holder_verify. *)
Require Import SDJ.T1r.
Section V.
Variable E : issue_env.
Variable O : oracles.
Notation H := (ie_hash E).
Notation enc := (ie_enc E).
Hypothesis hash_inj : forall x y, H x = H y -> x = y.
Hypothesis dec_enc : forall ps, o_dec O (enc ps) = DJson (JArr ps).
Hypothesis hash_is : o_hash O SHA256 = H.
Hypothesis jwt_round : forall h p j, ie_sign E h p = Val j -> o_jwt O j = Val (h, p).
Hypothesis sign_total : forall h p, exists j, ie_sign E h p = Val j /\ contains tilde j = false.
Hypothesis enc_no_tilde : forall ps, contains tilde (enc ps) = false.
Hypothesis perm_ok : forall xs, Permutation (ie_perm E xs) xs.

Theorem valid_marking_issues
    (ckvs : list (string * json)) (paths : list string) tks (addrs : list addr)
    (max_decoys : option Z) (cnf : option json) (header : json) :
  jwf (JObj ckvs) -> ~ In "_sd_alg" (map fst ckvs) -> ~ In "cnf" (map fst ckvs) ->
  NoDup (ie_salts E) -> paths <> [] -> split_paths paths = Some tks ->
  Forall2 (fun p a => jresolve Issuer2.parse_index Issuer2.parse_usize (fst p) (snd p) (JObj ckvs) = Some a) tks addrs ->
  ordered addrs -> List.length tks <= List.length (ie_salts E) ->
  exists t',
    T1j.mark_fold H enc Issuer2.parse_index Issuer2.parse_usize (ie_pos E) (embed (JObj ckvs)) tks (ie_salts E) = Some t' /\
    (NoDup (decoys_used E max_decoys) ->
     (forall g, In g (decoys_used E max_decoys) -> ~ In g (alldigs H enc t')) ->
     (match cnf with Some c => jwf c /\ S (aheight (embed c)) <= 129 | None => True end) ->
     aheight t' <= 129 ->
     exists token payload ds ps,
       issue E (JObj ckvs) paths max_decoys cnf header = Val (token, payload, ds) /\
       holder_verify O token = Val (header, match cnf with Some c => JObj (obj_insert "cnf" c ckvs) | None => JObj ckvs end, ps)).
Proof.
  intros HC Hnalg Hncnf Hnds Hpne Hsp HF Hord Hlen.
  destruct (valid_marking_accepted H enc Issuer2.parse_index Issuer2.parse_usize (ie_pos E) (JObj ckvs) tks addrs (ie_salts E) HC HF Hord Hlen) as [t' Hm].
  exists t'. split; [exact Hm|]. intros HndD Hfresh Hcnf Hh.
  exact (encode_then_holder_verify E O hash_inj dec_enc hash_is jwt_round sign_total enc_no_tilde perm_ok
           ckvs paths tks t' max_decoys cnf header HC Hnalg Hncnf Hnds Hpne Hsp Hm HndD Hfresh Hcnf Hh).
Qed.
End V.
