From Coq Require Import List String Ascii Bool Arith Lia.
Import ListNotations.
Open Scope string_scope.

Inductive json :=
| JNull | JBool (b : bool) | JNum (lit : string) | JStr (s : string)
| JArr (xs : list json) | JObj (kvs : list (string * json)).

Section json_ind.
  Variable P : json -> Prop.
  Hypothesis Hnull : P JNull.
  Hypothesis Hbool : forall b, P (JBool b).
  Hypothesis Hnum : forall l, P (JNum l).
  Hypothesis Hstr : forall s, P (JStr s).
  Hypothesis Harr : forall xs, Forall P xs -> P (JArr xs).
  Hypothesis Hobj : forall kvs, Forall (fun kv => P (snd kv)) kvs -> P (JObj kvs).
  Fixpoint json_ind' (j : json) : P j :=
    match j with
    | JNull => Hnull | JBool b => Hbool b | JNum l => Hnum l | JStr s => Hstr s
    | JArr xs => Harr xs ((fix go (l : list json) : Forall P l :=
                   match l with [] => Forall_nil _ | x :: r => Forall_cons _ (json_ind' x) (go r) end) xs)
    | JObj kvs => Hobj kvs ((fix go (l : list (string * json)) : Forall (fun kv => P (snd kv)) l :=
                   match l with [] => Forall_nil _ | (k, v) :: r => Forall_cons (k, v) (json_ind' v) (go r) end) kvs)
    end.
End json_ind.

Fixpoint obj_get (k : string) (kvs : list (string * json)) : option json :=
  match kvs with [] => None | (k', v) :: r => if String.eqb k k' then Some v else obj_get k r end.

(* boolean equality (used by the case glue to compare implementation and model results) *)
Fixpoint json_eqb (a b : json) : bool :=
  match a, b with
  | JNull, JNull => true
  | JBool x, JBool y => Bool.eqb x y
  | JNum x, JNum y => String.eqb x y
  | JStr x, JStr y => String.eqb x y
  | JArr xs, JArr ys =>
      (fix go (l1 l2 : list json) : bool :=
         match l1, l2 with
         | [], [] => true
         | x :: r1, y :: r2 => json_eqb x y && go r1 r2
         | _, _ => false end) xs ys
  | JObj xs, JObj ys =>
      (fix go (l1 l2 : list (string * json)) : bool :=
         match l1, l2 with
         | [], [] => true
         | (k1, x) :: r1, (k2, y) :: r2 => String.eqb k1 k2 && json_eqb x y && go r1 r2
         | _, _ => false end) xs ys
  | _, _ => false
  end.

Lemma json_eqb_eq : forall a b, json_eqb a b = true -> a = b.
Proof.
  induction a as [| x | x | x | xs IH | kvs IH] using json_ind'; destruct b as [| y | y | y | ys | ys]; cbn; try discriminate; intros Hq.
  - reflexivity.
  - apply Bool.eqb_prop in Hq. congruence.
  - apply String.eqb_eq in Hq. congruence.
  - apply String.eqb_eq in Hq. congruence.
  - f_equal. revert ys Hq. induction IH as [|x r Hx _ IHr]; intros [|y ys] Hq; try discriminate; [reflexivity|].
    apply andb_true_iff in Hq as [H1 H2]. f_equal; [apply Hx; assumption|apply IHr; assumption].
  - f_equal. revert ys Hq. induction IH as [|[k1 x] r Hx _ IHr]; intros [|[k2 y] ys] Hq; try discriminate; [reflexivity|].
    apply andb_true_iff in Hq as [H1 H3]. apply andb_true_iff in H1 as [H1 H2].
    apply String.eqb_eq in H1. cbn in Hx. f_equal; [f_equal; [assumption|apply Hx; assumption]|apply IHr; assumption].
Qed.

(* JSON pointer escaping of a reference token (RFC 6901): '~' -> "~0", '/' -> "~1".
   The code does it with two str::replace calls in that order (esc_seq); one pass gives the same string. *)
Fixpoint esc_tok (s : string) : string :=
  match s with
  | EmptyString => EmptyString
  | String c r => if Ascii.eqb c "~"%char then String "~"%char (String "0"%char (esc_tok r))
                  else if Ascii.eqb c "/"%char then String "~"%char (String "1"%char (esc_tok r))
                  else String c (esc_tok r)
  end.

Fixpoint repl_char (a x y : ascii) (s : string) : string :=
  match s with
  | EmptyString => EmptyString
  | String c r => if Ascii.eqb c a then String x (String y (repl_char a x y r)) else String c (repl_char a x y r)
  end.
Definition esc_seq (s : string) : string := repl_char "/"%char "~"%char "1"%char (repl_char "~"%char "~"%char "0"%char s).

Lemma esc_tok_seq s : esc_tok s = esc_seq s.
Proof.
  unfold esc_seq. induction s as [|c r IH]; [reflexivity|]. cbn [esc_tok repl_char].
  destruct (Ascii.eqb c "~"%char) eqn:E1.
  - cbn [repl_char]. cbn [Ascii.eqb Bool.eqb andb]. rewrite IH. reflexivity.
  - cbn [repl_char]. destruct (Ascii.eqb c "/"%char); rewrite IH; reflexivity.
Qed.
