(* JSON text round trip: parse (print v) = Some v for every value whose number literals are made of number characters and
   whose objects have strictly sorted keys (what serde_json Values are); with Base64.v: the whole disclosure encoding. *)
From Coq Require Import List String Ascii Bool Arith NArith Lia.
Import ListNotations.
Require Import SDJ.Json SDJ.Model2 SDJ.JsonText.
Local Open Scope string_scope.

Lemma hex_table : forallb (fun k => match hexval (hexdigit (N.of_nat k)) with Some m => (m =? N.of_nat k)%N | None => false end) (seq 0 16) = true.
Proof. vm_compute. reflexivity. Qed.
Lemma hex_roundtrip n : (n < 16)%N -> hexval (hexdigit n) = Some n.
Proof.
  intros Hn. pose proof hex_table as T. rewrite forallb_forall in T. specialize (T (N.to_nat n)). rewrite N2Nat.id in T.
  assert (Hin : In (N.to_nat n) (seq 0 16)) by (apply in_seq; lia). specialize (T Hin).
  destruct (hexval (hexdigit n)) as [m|]; [|discriminate]. apply N.eqb_eq in T. subst. reflexivity.
Qed.

Lemma ascii_of_N_of c : ascii_of_N (N_of_ascii c) = c.
Proof. apply ascii_N_embedding. Qed.

Lemma eqb_N_ascii c n : (N_of_ascii c =? n)%N = true -> c = ascii_of_N n.
Proof. intros E. apply N.eqb_eq in E. rewrite <- E. symmetry. apply ascii_of_N_of. Qed.

Lemma app_assoc_s (a b c : string) : ((a ++ b) ++ c) = (a ++ (b ++ c)).
Proof. induction a as [|x a IH]; [reflexivity|]. cbn. rewrite IH. reflexivity. Qed.

(* the control characters that have no short escape are below 32 and none of 8 9 10 12 13 *)
Theorem parse_str_esc : forall s rest, parse_str (esc_str s ++ String quote rest) = Some (s, rest).
Proof.
  induction s as [|c r IH]; intros rest.
  - cbn. reflexivity.
  - cbn [esc_str]. rewrite app_assoc_s. unfold esc_char.
    destruct (Ascii.eqb c quote) eqn:Eq.
    { apply Ascii.eqb_eq in Eq. subst c. cbn. rewrite IH. reflexivity. }
    destruct (Ascii.eqb c bslash) eqn:Eb.
    { apply Ascii.eqb_eq in Eb. subst c. cbn. rewrite IH. reflexivity. }
    destruct (N_of_ascii c =? 8)%N eqn:E8.
    { apply eqb_N_ascii in E8. subst c. cbn. rewrite IH. reflexivity. }
    destruct (N_of_ascii c =? 12)%N eqn:E12.
    { apply eqb_N_ascii in E12. subst c. cbn. rewrite IH. reflexivity. }
    destruct (N_of_ascii c =? 10)%N eqn:E10.
    { apply eqb_N_ascii in E10. subst c. cbn. rewrite IH. reflexivity. }
    destruct (N_of_ascii c =? 13)%N eqn:E13.
    { apply eqb_N_ascii in E13. subst c. cbn. rewrite IH. reflexivity. }
    destruct (N_of_ascii c =? 9)%N eqn:E9.
    { apply eqb_N_ascii in E9. subst c. cbn. rewrite IH. reflexivity. }
    destruct (N_of_ascii c <? 32)%N eqn:E32.
    { apply N.ltb_lt in E32.
      cbn [append parse_str]. change (Ascii.eqb bslash quote) with false. change (Ascii.eqb bslash bslash) with true. cbv iota.
      change (Ascii.eqb "u" quote) with false. change (Ascii.eqb "u" bslash) with false.
      change (Ascii.eqb "u" "/") with false. change (Ascii.eqb "u" "b") with false. change (Ascii.eqb "u" "f") with false.
      change (Ascii.eqb "u" "n") with false. change (Ascii.eqb "u" "r") with false. change (Ascii.eqb "u" "t") with false.
      change (Ascii.eqb "u" "u") with true. cbv iota.
      change (hexval "0") with (Some 0%N).
      rewrite !hex_roundtrip by (try (apply N.mod_lt; lia); apply N.div_lt_upper_bound; lia).
      rewrite IH.
      assert (Ecode : (((0 * 16 + 0) * 16 + N_of_ascii c / 16) * 16 + N_of_ascii c mod 16)%N = N_of_ascii c).
      { rewrite (N.div_mod (N_of_ascii c) 16) at 3 by lia. lia. }
      rewrite Ecode. unfold utf8. assert (E128 : (N_of_ascii c <? 128)%N = true) by (apply N.ltb_lt; lia). rewrite E128.
      rewrite ascii_of_N_of. reflexivity. }
    cbn [append parse_str]. rewrite Eq, Eb, E32. rewrite IH. reflexivity.
Qed.

(* ---------------- numbers ---------------- *)
Fixpoint all_num (s : string) : bool := match s with EmptyString => true | String c r => is_num_char c && all_num r end.
Definition follow_ok (rest : string) : Prop := match rest with EmptyString => True | String c _ => is_num_char c = false end.

Lemma span_num_lit : forall lit rest, all_num lit = true -> follow_ok rest -> span_num (lit ++ rest) = (lit, rest).
Proof.
  induction lit as [|c r IH]; intros rest Ha Hf.
  - cbn. destruct rest as [|d rest']; [reflexivity|]. cbn in Hf. cbn [span_num]. rewrite Hf. reflexivity.
  - cbn [all_num] in Ha. apply andb_true_iff in Ha as [Hc Hr]. cbn [append span_num]. rewrite Hc, (IH rest Hr Hf). reflexivity.
Qed.

Lemma len_app (a b : string) : String.length (a ++ b) = String.length a + String.length b.
Proof. induction a as [|x a IH]; [reflexivity|]. cbn. rewrite IH. reflexivity. Qed.

(* ---------------- values the printer and the parser agree on ---------------- *)
Require Import SDJ.T2b.
From Coq Require Import Sorting.Sorted.

Inductive twf : json -> Prop :=
| twf_null : twf JNull
| twf_bool b : twf (JBool b)
| twf_num l : l <> EmptyString -> all_num l = true -> twf (JNum l)
| twf_str s : twf (JStr s)
| twf_arr xs : Forall twf xs -> twf (JArr xs)
| twf_obj kvs : StronglySorted slt (map fst kvs) -> Forall (fun kv => twf (snd kv)) kvs -> twf (JObj kvs).

Definition starts_value (c : ascii) : Prop :=
  Ascii.eqb c "]" = false /\ Ascii.eqb c "}" = false.

(* the first character of a printed value is never ']' or '}' *)
Lemma print_head v : twf v -> exists c r, print v = String c r /\ Ascii.eqb c "]" = false /\ Ascii.eqb c "}" = false.
Proof.
  intros Hw. destruct v as [| [|] | l | s | xs | kvs]; cbn [print print_str]; try (eexists; eexists; split; [reflexivity|split; reflexivity]).
  inversion Hw as [| | ? Hne Hall | | |]; subst. destruct l as [|c r]; [congruence|].
  exists c, r. split; [reflexivity|]. cbn [all_num] in Hall. apply andb_true_iff in Hall as [Hc _].
  split; destruct (Ascii.eqb c _) eqn:E; try reflexivity; apply Ascii.eqb_eq in E; subst c; discriminate Hc.
Qed.

Definition go_arr := fix go (l : list json) : string :=
  match l with
  | [] => "]"
  | [x] => print x ++ "]"
  | x :: r => print x ++ "," ++ go r end.
Definition go_obj := fix go (l : list (string * json)) : string :=
  match l with
  | [] => "}"
  | [(k, v)] => print_str k ++ ":" ++ print v ++ "}"
  | (k, v) :: r => print_str k ++ ":" ++ print v ++ "," ++ go r end.

Lemma print_arr xs : print (JArr xs) = "[" ++ go_arr xs. Proof. reflexivity. Qed.
Lemma print_obj kvs : print (JObj kvs) = "{" ++ go_obj kvs. Proof. reflexivity. Qed.

Definition good (v : json) : Prop :=
  forall rest fuel, follow_ok rest -> 2 * String.length (print v ++ rest) < fuel -> parse_val fuel (print v ++ rest) = Some (v, rest).

Lemma follow_comma r : follow_ok ("," ++ r). Proof. reflexivity. Qed.
Lemma follow_rbr r : follow_ok ("]" ++ r). Proof. reflexivity. Qed.
Lemma follow_rbrace r : follow_ok ("}" ++ r). Proof. reflexivity. Qed.

Ltac lens := rewrite ?len_app in *; cbn [String.length append] in *; rewrite ?len_app in *; cbn [String.length] in *; rewrite ?len_app in *; cbn [String.length] in *; lia.

Lemma elems_good : forall xs, xs <> [] -> Forall good xs -> forall rest fuel,
  2 * String.length (go_arr xs ++ rest) + 1 < fuel -> parse_elems fuel (go_arr xs ++ rest) = Some (xs, rest).
Proof.
  induction xs as [|x r IH]; intros Hne Hg rest fuel Hlen; [congruence|].
  inversion Hg as [|? ? Hx Hr]; subst.
  destruct fuel as [|f]; [lia|]. cbn [parse_elems].
  destruct r as [|y r'].
  - change (go_arr [x]) with (print x ++ "]") in *. rewrite app_assoc_s in *.
    rewrite (Hx ("]" ++ rest) f (follow_rbr rest)) by lens.
    cbn. reflexivity.
  - change (go_arr (x :: y :: r')) with (print x ++ "," ++ go_arr (y :: r')) in *. rewrite !app_assoc_s in *.
    rewrite (Hx ("," ++ go_arr (y :: r') ++ rest) f (follow_comma _)) by lens.
    cbn [append]. change (Ascii.eqb "," ",") with true. cbv iota.
    rewrite (IH ltac:(discriminate) Hr rest f).
    + reflexivity.
    + lens.
Qed.

Lemma members_good : forall kvs, kvs <> [] -> Forall (fun kv => good (snd kv)) kvs -> forall rest fuel,
  2 * String.length (go_obj kvs ++ rest) + 1 < fuel -> parse_members fuel (go_obj kvs ++ rest) = Some (kvs, rest).
Proof.
  induction kvs as [|[k v] r IH]; intros Hne Hg rest fuel Hlen; [congruence|].
  inversion Hg as [|? ? Hv Hr]; subst. cbn [snd] in Hv.
  destruct fuel as [|f]; [lia|]. cbn [parse_members].
  destruct r as [|[k2 v2] r'].
  - change (go_obj [(k, v)]) with (print_str k ++ ":" ++ print v ++ "}") in *.
    unfold print_str in *. cbn [append] in *. rewrite !app_assoc_s in *. cbn [append] in *.
    change (Ascii.eqb quote quote) with true. cbv iota.
    rewrite parse_str_esc. change (Ascii.eqb ":" ":") with true. cbv iota. rewrite ?app_assoc_s.
    rewrite (Hv ("}" ++ rest) f (follow_rbrace rest)).
    + cbn. reflexivity.
    + lens.
  - change (go_obj ((k, v) :: (k2, v2) :: r')) with (print_str k ++ ":" ++ print v ++ "," ++ go_obj ((k2, v2) :: r')) in *.
    unfold print_str in *. cbn [append] in *. rewrite !app_assoc_s in *. cbn [append] in *.
    change (Ascii.eqb quote quote) with true. cbv iota.
    rewrite parse_str_esc. change (Ascii.eqb ":" ":") with true. cbv iota. rewrite ?app_assoc_s. cbn [append].
    rewrite (Hv (String "," (go_obj ((k2, v2) :: r') ++ rest)) f (follow_comma _)).
    + cbn [append]. change (Ascii.eqb "," ",") with true. cbv iota.
      rewrite (IH ltac:(discriminate) Hr rest f); [reflexivity|].
      lens.
    + lens.
Qed.

Require Import SDJ.C15Proofs.   (* fold_insert_sorted *)

Theorem parse_val_print : forall v, twf v -> good v.
Proof.
  induction v as [| b | l | s | xs IH | kvs IH] using json_ind'; intros Hw rest fuel Hf Hlen.
  - destruct fuel as [|f]; [lia|]. cbn. reflexivity.
  - destruct fuel as [|f]; [lia|]. destruct b; cbn; reflexivity.
  - inversion Hw as [| | ? Hne Hall | | |]; subst. destruct fuel as [|f]; [lia|].
    destruct l as [|c r]; [congruence|]. cbn [print append parse_val].
    pose proof Hall as Hall'. cbn [all_num] in Hall'. apply andb_true_iff in Hall' as [Hc Hr].
    assert (Eq : Ascii.eqb c quote = false) by (destruct (Ascii.eqb c quote) eqn:E; [apply Ascii.eqb_eq in E; subst c; discriminate Hc|reflexivity]).
    assert (Eb1 : Ascii.eqb c "[" = false) by (destruct (Ascii.eqb c "[") eqn:E; [apply Ascii.eqb_eq in E; subst c; discriminate Hc|reflexivity]).
    assert (Eb2 : Ascii.eqb c "{" = false) by (destruct (Ascii.eqb c "{") eqn:E; [apply Ascii.eqb_eq in E; subst c; discriminate Hc|reflexivity]).
    rewrite Eq, Eb1, Eb2, Hc.
    change (String c (r ++ rest)) with (String c r ++ rest). rewrite (span_num_lit (String c r) rest Hall Hf). reflexivity.
  - destruct fuel as [|f]; [lia|]. cbn [print print_str append parse_val].
    change (Ascii.eqb quote quote) with true. cbv iota. rewrite app_assoc_s. cbn [append]. rewrite parse_str_esc. reflexivity.
  - inversion Hw as [| | | | ? Hall |]; subst. destruct fuel as [|f]; [lia|].
    rewrite print_arr in *. cbn [append parse_val]. change (Ascii.eqb "[" quote) with false. change (Ascii.eqb "[" "[") with true. cbv iota.
    destruct xs as [|x r].
    + cbn. reflexivity.
    + assert (Hgood : Forall good (x :: r)).
      { rewrite Forall_forall in *. intros y Hy. apply IH; [exact Hy|]. apply Hall. exact Hy. }
      assert (Hx : twf x) by (inversion Hall; assumption).
      destruct (print_head x Hx) as [c [t [Ep [E1 E2]]]].
      assert (Eh : exists t', go_arr (x :: r) ++ rest = String c t').
      { destruct r as [|y r']; [change (go_arr [x]) with (print x ++ "]")|change (go_arr (x :: y :: r')) with (print x ++ "," ++ go_arr (y :: r'))];
          rewrite Ep; cbn [append]; eexists; reflexivity. }
      destruct Eh as [t' Eh]. rewrite Eh. rewrite E1. rewrite <- Eh.
      rewrite (elems_good (x :: r) ltac:(discriminate) Hgood rest f); [reflexivity|].
      cbn [append String.length] in Hlen. lia.
  - inversion Hw as [| | | | | ? Hs Hall]; subst. destruct fuel as [|f]; [lia|].
    rewrite print_obj in *. cbn [append parse_val]. change (Ascii.eqb "{" quote) with false. change (Ascii.eqb "{" "[") with false.
    change (Ascii.eqb "{" "{") with true. cbv iota.
    destruct kvs as [|[k v] r].
    + cbn. reflexivity.
    + assert (Hgood : Forall (fun kv => good (snd kv)) ((k, v) :: r)).
      { rewrite Forall_forall in *. intros y Hy. apply IH; [exact Hy|]. apply Hall. exact Hy. }
      assert (Eh : exists t', go_obj ((k, v) :: r) ++ rest = String quote t').
      { destruct r as [|[k2 v2] r']; [change (go_obj [(k, v)]) with (print_str k ++ ":" ++ print v ++ "}")|change (go_obj ((k, v) :: (k2, v2) :: r')) with (print_str k ++ ":" ++ print v ++ "," ++ go_obj ((k2, v2) :: r'))];
          unfold print_str; cbn [append]; eexists; reflexivity. }
      destruct Eh as [t' Eh]. rewrite Eh. change (Ascii.eqb quote "}") with false. cbv iota. rewrite <- Eh.
      rewrite (members_good ((k, v) :: r) ltac:(discriminate) Hgood rest f).
      * rewrite (fold_insert_sorted ((k, v) :: r) []); [reflexivity|exact Hs].
      * cbn [append String.length] in Hlen. lia.
Qed.

Theorem parse_print : forall v, twf v -> parse (print v) = Some v.
Proof.
  intros v Hw. unfold parse.
  pose proof (parse_val_print v Hw EmptyString (S (2 * String.length (print v))) I) as H.
  assert (E : (print v ++ "") = print v).
  { generalize (print v). induction s as [|c r IH]; [reflexivity|]. cbn. rewrite IH. reflexivity. }
  rewrite E in H. rewrite H by lia. reflexivity.
Qed.
Print Assumptions parse_print.

(* the disclosure encoding, both layers: base64url (Base64.v) of the JSON text of the array *)
Require Import SDJ.Restore2 SDJ.Base64 SDJ.Base64Env.
Definition ser_json (ps : list json) : string := print (JArr ps).

Theorem disclosure_text_roundtrip ps :
  Forall twf ps -> dec64 parse (enc64 ser_json ps) = DJson (JArr ps).
Proof.
  intros Hw. unfold dec64, enc64, ser_json. rewrite decode_encode. rewrite parse_print; [reflexivity|constructor; exact Hw].
Qed.
