(* C11: the policy built by a sequence of builder steps does not depend on the order of the steps.
   (i) for sequences that name every setting at most once: any permutation gives the same policy;
   (ii) with_required_claim may occur any number of times (it adds to a set): on policies whose required-claims
        set is a set (strictly sorted list, the representation of HashSet<String> in the model) any permutation of a
        sequence in which every OTHER setting is named at most once gives the same policy. *)
From Coq Require Import List String Ascii Bool Arith NArith Lia Permutation Sorted OrderedTypeEx.
Import ListNotations.
Require Import SDJ.Json SDJ.Wire SDJ.Model2 SDJ.Out SDJ.Jwt SDJ.C11Proofs.
Local Open Scope string_scope.

Definition run_steps (l : list bstep) (v : validation) : validation := fold_left step l v.

Theorem steps_order_irrelevant l1 l2 :
  Permutation l1 l2 -> NoDup (map named l1) -> forall v, run_steps l1 v = run_steps l2 v.
Proof.
  unfold run_steps. induction 1 as [|x l l' Hp IH|x y l|l l' l'' Hp1 IH1 Hp2 IH2]; intros Hnd v.
  - reflexivity.
  - cbn [map] in Hnd. inversion Hnd as [|? ? Hx Hnd']; subst. cbn [fold_left]. apply IH; assumption.
  - cbn [fold_left]. f_equal. apply step_commute.
    cbn [map] in Hnd. inversion Hnd as [|? ? Hy Hnd']; subst. intros E. apply Hy. left. symmetry. exact E.
  - rewrite IH1 by assumption. apply IH2.
    eapply Permutation_NoDup; [apply Permutation_map; exact Hp1|exact Hnd].
Qed.

(* ---- (ii) with_required_claim commutes with itself on sets ---- *)
Require Import SDJ.T2b.

Definition sset_ok (l : list string) : Prop := StronglySorted slt l.

Lemma sset_insert_all_gt x y l : slt y x -> Forall (slt y) l -> Forall (slt y) (sset_insert x l).
Proof.
  intros Hyx. induction l as [|z r IH]; cbn [sset_insert]; intros Hf.
  - constructor; [exact Hyx|constructor].
  - inversion Hf as [|? ? Hz Hr]; subst.
    destruct (String.compare x z); [exact Hf|constructor; [exact Hyx|exact Hf]|constructor; [exact Hz|apply IH; exact Hr]].
Qed.

Lemma sset_insert_ok x l : sset_ok l -> sset_ok (sset_insert x l).
Proof.
  unfold sset_ok. induction l as [|y r IH]; cbn [sset_insert]; intros Hs.
  - constructor; constructor.
  - inversion Hs as [|? ? Hr Hy]; subst.
    destruct (String.compare x y) eqn:E.
    + exact Hs.
    + constructor; [exact Hs|]. constructor; [exact E|]. eapply Forall_impl; [|exact Hy]. intros a Ha. eapply slt_trans; eauto.
    + constructor; [apply IH; exact Hr|]. apply sset_insert_all_gt; [|exact Hy].
      unfold slt. rewrite String.compare_antisym, E. reflexivity.
Qed.

Lemma compare_refl_eq x : String.compare x x = Eq.
Proof. destruct (String.compare x x) eqn:E; [reflexivity| |]; exfalso; [exact (slt_irrefl x E)|]. pose proof (String.compare_antisym x x) as A. rewrite E in A. cbn in A. discriminate. Qed.

Lemma sset_insert_head_lt x y r : slt x y -> sset_insert x (y :: r) = x :: y :: r.
Proof. intros E. cbn [sset_insert]. unfold slt in E. rewrite E. reflexivity. Qed.

Lemma sset_insert_comm a b l : sset_ok l -> sset_insert a (sset_insert b l) = sset_insert b (sset_insert a l).
Proof.
  unfold sset_ok. induction l as [|y r IH]; intros Hs.
  - cbn [sset_insert]. destruct (String.compare a b) eqn:E.
    + apply String.compare_eq_iff in E. subst. rewrite compare_refl_eq. reflexivity.
    + rewrite String.compare_antisym, E. reflexivity.
    + rewrite String.compare_antisym, E. reflexivity.
  - inversion Hs as [|? ? Hr Hy]; subst.
    cbn [sset_insert].
    destruct (String.compare b y) eqn:Eb; destruct (String.compare a y) eqn:Ea; cbn [sset_insert]; rewrite ?Eb, ?Ea; try reflexivity.
    + (* b = y, a < y *) apply String.compare_eq_iff in Eb. subst.
      rewrite String.compare_antisym, Ea. reflexivity.
    + (* b < y, a = y *) apply String.compare_eq_iff in Ea. subst.
      rewrite (slt_gt _ _ Eb). reflexivity.
    + (* b < y, a < y *)
      destruct (String.compare a b) eqn:E.
      * apply String.compare_eq_iff in E. subst. rewrite compare_refl_eq. reflexivity.
      * rewrite (slt_gt _ _ E). reflexivity.
      * assert (E' : slt b a) by (unfold slt; rewrite String.compare_antisym, E; reflexivity).
        unfold slt in E'. rewrite E'. reflexivity.
    + (* b < y, a > y *)
      assert (Hba : slt b a).
      { eapply slt_trans; [exact Eb|]. unfold slt. rewrite String.compare_antisym, Ea. reflexivity. }
      rewrite (slt_gt _ _ Hba). reflexivity.
    + (* b > y, a < y *)
      assert (Hab : slt a b).
      { eapply slt_trans; [exact Ea|]. unfold slt. rewrite String.compare_antisym, Eb. reflexivity. }
      rewrite (slt_gt _ _ Hab). reflexivity.
    + (* both > y *) rewrite IH by exact Hr. reflexivity.
Qed.

Definition policy_ok (v : validation) : Prop := match v_required v with Some l => sset_ok l | None => True end.

Lemma step_policy_ok v s : policy_ok v -> policy_ok (step v s).
Proof.
  unfold policy_ok. destruct s; cbn; try (intros H; exact H).
  destruct (v_required v) as [l|]; intros H.
  - apply sset_insert_ok. exact H.
  - constructor; constructor.
Qed.

Lemma run_steps_policy_ok l : forall v, policy_ok v -> policy_ok (run_steps l v).
Proof. unfold run_steps. induction l as [|s l IH]; intros v H; [exact H|]. cbn [fold_left]. apply IH. apply step_policy_ok. exact H. Qed.

Lemma step_commute_required v c1 c2 :
  policy_ok v -> step (step v (SWithRequiredClaim c1)) (SWithRequiredClaim c2) = step (step v (SWithRequiredClaim c2)) (SWithRequiredClaim c1).
Proof.
  unfold policy_ok. intros H. cbn. destruct (v_required v) as [l|]; cbn.
  - rewrite (sset_insert_comm c2 c1 l H). reflexivity.
  - destruct (String.compare c2 c1) eqn:E.
    + apply String.compare_eq_iff in E. subst. rewrite compare_refl_eq. reflexivity.
    + rewrite String.compare_antisym, E. reflexivity.
    + rewrite String.compare_antisym, E. reflexivity.
Qed.

(* every setting other than the required-claims set is named at most once *)
Definition others_once (l : list bstep) : Prop :=
  NoDup (map named (filter (fun s => match s with SWithRequiredClaim _ => false | _ => true end) l)).

Lemma others_once_perm l1 l2 : Permutation l1 l2 -> others_once l1 -> others_once l2.
Proof.
  unfold others_once. intros Hp. apply Permutation_NoDup. apply Permutation_map.
  induction Hp as [|x l l' Hp IH|x y l|l l' l'' Hp1 IH1 Hp2 IH2]; cbn [filter].
  - constructor.
  - destruct x; try (constructor; exact IH); exact IH.
  - destruct x, y; try apply perm_swap; try apply Permutation_refl.
  - eapply perm_trans; eauto.
Qed.

Theorem steps_order_irrelevant_sets l1 l2 :
  Permutation l1 l2 -> others_once l1 -> forall v, policy_ok v -> run_steps l1 v = run_steps l2 v.
Proof.
  induction 1 as [|x l l' Hp IH|x y l|l l' l'' Hp1 IH1 Hp2 IH2]; intros Ho v Hv.
  - reflexivity.
  - unfold run_steps. cbn [fold_left]. apply IH; [|apply step_policy_ok; exact Hv].
    unfold others_once in *. cbn [filter] in Ho. destruct x; cbn [map] in Ho; try (inversion Ho; assumption); exact Ho.
  - unfold run_steps. cbn [fold_left]. f_equal.
    assert (D : {named y = named x} + {named y <> named x}) by (decide equality).
    destruct D as [E|N].
    + (* same setting: both must be with_required_claim *)
      unfold others_once in Ho. cbn [filter] in Ho.
      destruct x, y; cbn in E; try discriminate E;
        try (cbn [map named] in Ho; inversion Ho as [|? ? Hx _]; subst; exfalso; apply Hx; left; reflexivity).
      apply step_commute_required. exact Hv.
    + apply step_commute. exact N.
  - rewrite IH1 by assumption. apply IH2; [|exact Hv]. eapply others_once_perm; eauto.
Qed.

(* non-vacuity: a reachable policy satisfies the premise, and a three-step sequence with two required claims *)
Example policy_ok_new a : policy_ok (validation_new a).
Proof. exact I. Qed.
Example order_example :
  run_steps [SWithRequiredClaim "b"; SWithLeeway 5; SWithRequiredClaim "a"] (validation_new HS256)
  = run_steps [SWithRequiredClaim "a"; SWithRequiredClaim "b"; SWithLeeway 5] (validation_new HS256).
Proof. reflexivity. Qed.
