From Coq Require Import List String Ascii Bool Arith Lia Sorting.Sorted Permutation.
Import ListNotations.
Require Import SDJ.Json SDJ.Model2 SDJ.ATree SDJ.T2a SDJ.T2b SDJ.T2c SDJ.T2d SDJ.T2e SDJ.T2h SDJ.T2k SDJ.Issuer1 SDJ.T1a SDJ.T1b SDJ.T1c SDJ.T1d SDJ.T1f SDJ.T1g.
Local Open Scope string_scope.

Section T1h.
Variable H : string -> string.
Variable enc : list json -> string.
Variable parse_index : string -> option nat.
Variable parse_usize : string -> option nat.
Variable pos : string -> nat.
Notation add_sd := (T1a.add_sd pos).
Notation blind := (blind H enc).
Notation dig_item := (dig_item H enc).
Notation dig_mem := (dig_mem H enc).
Notation wf := (wf H enc).
Notation IsNode := (IsNode H enc).
Notation mark := (mark H enc parse_index parse_usize pos).
Notation target := (target parse_index parse_usize).
Notation mk_disc := (mk_disc H enc).
Notation proj := (proj H enc).

Definition Rall : Rset := fun _ => true.

(* members of add_sd g mems that are not the _sd bookkeeping are members of mems and vice versa *)
Lemma add_sd_in g : forall mems m, In m mems -> (match fst (snd m) with MSd _ => False | _ => True end) -> Forall sd_names_ok mems -> In m (add_sd g mems).
Proof.
  induction mems as [|[n [mk s]] r IH]; intros m Hin Hk Hn; [destruct Hin|]. cbn [add_sd].
  inversion Hn as [|? ? Hn1 Hn2]; subst. unfold sd_names_ok in Hn1. cbn in Hn1.
  destruct (String.compare "_sd" n) eqn:Ec.
  - apply String.compare_eq_iff in Ec. subst n. destruct Hin as [<-|Hin]; [|right; assumption].
    cbn in Hk. destruct mk; try (exfalso; apply Hn1; reflexivity). destruct Hk.
  - right. assumption.
  - destruct Hin as [<-|Hin]; [left; reflexivity|right; apply IH; assumption].
Qed.

(* hidden nodes persist under marking, with the same disclosure *)
Theorem mark_IsNode_old g k v key salt : forall toks t t', wf t -> mark toks key salt t = Some t' -> IsNode g k v t -> IsNode g k v t'.
Proof.
  induction toks as [|tok rest IH]; intros t t' Hw Hm Hn.
  - destruct t as [j | items | mems]; cbn [T1a.mark] in Hm; [discriminate| |].
    + destruct (parse_usize key) as [i|]; [|discriminate].
      unfold upd_item in Hm. destruct (nth_error items i) as [[ik s0]|] eqn:En; [|discriminate].
      destruct ik as [| |]; cbn in Hm; try discriminate. injection Hm as <-.
      apply nth_error_split in En as (pre & post & -> & <-). rewrite list_set_mid.
      inversion Hn as [? salt' s' Hin Hg Hk Hv | ? ik s' Hin Hs | |]; subst.
      * eapply in_item_here; eauto. apply in_app_or in Hin as [|[Hq|]]; [apply in_or_app; left; assumption|discriminate|apply in_or_app; right; right; assumption].
      * apply in_app_or in Hin as [Hin|[Hq|Hin]].
        -- eapply in_item_in; [apply in_or_app; left; exact Hin|assumption].
        -- injection Hq as <- <-. eapply in_item_in; [apply in_or_app; right; left; reflexivity|assumption].
        -- eapply in_item_in; [apply in_or_app; right; right; exact Hin|assumption].
    + destruct (upd_mem key _ mems) as [mems'|] eqn:Eu; [|discriminate].
      apply upd_mem_inv in Eu as (pre & x & post & x' & Hsplit & -> & Hf & Hni).
      destruct x as [[| |] s0]; try discriminate. injection Hf as <-.
      rewrite Hsplit, find_mid in Hm by assumption. injection Hm as <-.
      pose proof (wf_obj_names H enc parse_index parse_usize pos _ Hw) as Hn0.
      assert (Hn' : Forall sd_names_ok (pre ++ (key, (MHid salt, s0)) :: post)).
      { rewrite Hsplit in Hn0. apply Forall_app in Hn0 as [Hn1 Hn2]. apply Forall_app. split; [assumption|].
        inversion Hn2; subst. constructor; [|assumption]. unfold sd_names_ok in *. cbn in *. assumption. }
      inversion Hn as [| | ? name salt' s' Hin Hg Hk Hv | ? name mk s' Hin Hs]; subst.
      * eapply in_mem_here; eauto. apply add_sd_in; [|exact I|assumption].
        apply in_app_or in Hin as [|[Hq|]]; [apply in_or_app; left; assumption|discriminate|apply in_or_app; right; right; assumption].
      * destruct mk as [| |l].
        -- apply in_app_or in Hin as [Hin|[Hq|Hin]].
           ++ eapply in_mem_in; [apply add_sd_in; [apply in_or_app; left; exact Hin|exact I|assumption]|assumption].
           ++ injection Hq as <- <-. eapply in_mem_in; [apply add_sd_in; [apply in_or_app; right; left; reflexivity|exact I|assumption]|assumption].
           ++ eapply in_mem_in; [apply add_sd_in; [apply in_or_app; right; right; exact Hin|exact I|assumption]|assumption].
        -- assert (Hin' : In (name, (MHid salt0, s')) (add_sd (dig_mem salt key s0) (pre ++ (key, (MHid salt, s0)) :: post))).
           { apply add_sd_in; [|exact I|assumption].
             apply in_app_or in Hin as [|[Hq|]]; [apply in_or_app; left; assumption|discriminate|apply in_or_app; right; right; assumption]. }
           eapply in_mem_in; [exact Hin'|assumption].
        -- (* the _sd member has a leaf below it: no node there *)
           exfalso. inversion Hw as [| | ? Hs0 Hall Hok]; subst. rewrite Forall_forall in Hok. specialize (Hok _ Hin). cbn in Hok.
           destruct Hok as [_ [_ ->]]. inversion Hs.
  - destruct t as [j | items | mems]; cbn [T1a.mark] in Hm; [discriminate| |].
    + destruct (parse_index tok) as [i|]; [|discriminate].
      unfold upd_item in Hm. destruct (nth_error items i) as [[ik s0]|] eqn:En; [|discriminate].
      destruct ik as [| |]; cbn in Hm; try discriminate.
      destruct (mark rest key salt s0) as [s1|] eqn:Ems; cbn in Hm; [|discriminate]. injection Hm as <-.
      assert (Hws : wf s0).
      { inversion Hw as [| ? Hall Hiok |]; subst. rewrite Forall_forall in Hall. apply nth_error_In in En. exact (Hall _ En). }
      apply nth_error_split in En as (pre & post & -> & <-). rewrite list_set_mid.
      inversion Hn as [? salt' s' Hin Hg Hk Hv | ? ik s' Hin Hs | |]; subst.
      * eapply in_item_here; eauto. apply in_app_or in Hin as [|[Hq|]]; [apply in_or_app; left; assumption|discriminate|apply in_or_app; right; right; assumption].
      * apply in_app_or in Hin as [Hin|[Hq|Hin]].
        -- eapply in_item_in; [apply in_or_app; left; exact Hin|assumption].
        -- injection Hq as <- <-. eapply in_item_in; [apply in_or_app; right; left; reflexivity|]. eapply IH; eauto.
        -- eapply in_item_in; [apply in_or_app; right; right; exact Hin|assumption].
    + destruct (upd_mem tok _ mems) as [mems'|] eqn:Eu; cbn in Hm; [|discriminate]. injection Hm as <-.
      apply upd_mem_inv in Eu as (pre & x & post & x' & Hsplit & -> & Hf & Hni).
      destruct x as [[| |] s0]; try discriminate.
      destruct (mark rest key salt s0) as [s1|] eqn:Ems; cbn in Hf; [|discriminate]. injection Hf as <-.
      assert (Hws : wf s0).
      { inversion Hw as [| | ? Hs Hall Hok]; subst. rewrite Forall_forall in Hall. apply (Hall (tok, (MPlain, s0))). apply in_or_app. right. left. reflexivity. }
      rewrite Hsplit in Hn.
      inversion Hn as [| | ? name salt' s' Hin Hg Hk Hv | ? name mk s' Hin Hs]; subst.
      * eapply in_mem_here; eauto. apply in_app_or in Hin as [|[Hq|]]; [apply in_or_app; left; assumption|discriminate|apply in_or_app; right; right; assumption].
      * apply in_app_or in Hin as [Hin|[Hq|Hin]].
        -- eapply in_mem_in; [apply in_or_app; left; exact Hin|assumption].
        -- injection Hq as <- <- <-. eapply in_mem_in; [apply in_or_app; right; left; reflexivity|]. eapply IH; eauto.
        -- eapply in_mem_in; [apply in_or_app; right; right; exact Hin|assumption].
Qed.
End T1h.
