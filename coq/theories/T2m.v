From Coq Require Import List String Ascii Bool Arith Lia Sorting.Sorted.
Import ListNotations.
Require Import SDJ.Json SDJ.Model2 SDJ.ATree SDJ.T2a SDJ.T2b SDJ.T2c SDJ.T2d SDJ.T2e SDJ.T2f SDJ.T2g SDJ.T2h SDJ.T2i SDJ.T2j SDJ.T2k SDJ.T2l SDJ.Restore2.
Local Open Scope string_scope.


Section M.
Variable H : string -> string.
Variable enc : list json -> string.
Variable dec : string -> dec_result.
Variable show_nat : nat -> string.
Hypothesis hash_inj : forall x y, H x = H y -> x = y.
Hypothesis dec_enc : forall ps, dec (enc ps) = DJson (JArr ps).

Notation blind := (blind H enc).
Notation view := (view H enc).
Notation dig_item := (dig_item H enc).
Notation dig_mem := (dig_mem H enc).
Notation hdigs := (hdigs H enc).
Notation alldigs := (alldigs H enc).
Notation wf := (wf H enc).
Notation IsNode := (IsNode H enc).
Notation passes := (passes show_nat).

Notation from_base64 := (from_base64 H dec).
Notation decode_all := (decode_all H dec).
Notation restore_disclosures := (restore_passes H dec show_nat).

Definition parts_of (salt : json) (k : option string) (v : json) : list json :=
  match k with Some n => [salt; JStr n; v] | None => [salt; v] end.

(* every hidden digest is the hash of the encoding of its node's disclosure *)
Lemma hdigs_node g : forall t, In g (hdigs t) -> exists salt k v, IsNode g k v t /\ g = H (enc (parts_of salt k v)).
Proof.
  induction t as [j | items IH | mems IH] using atree_ind'; intros Hg; [destruct Hg| |].
  - rewrite (hdigs_arr H enc) in Hg. apply in_flat_map in Hg as [[k s] [Hin Hg]].
    rewrite Forall_forall in IH. specialize (IH _ Hin). cbn in IH.
    assert (Hdeep : In g (hdigs s) -> exists salt k v, IsNode g k v (AArr items) /\ g = H (enc (parts_of salt k v))).
    { intros Hs. destruct (IH Hs) as (salt & k0 & v & Hn & Hq). exists salt, k0, v. split; [eapply in_item_in; eauto|assumption]. }
    destruct k as [|salt|g0]; cbn in Hg.
    + auto.
    + destruct Hg as [Hq|Hg]; [|auto].
      exists salt, None, (blind s). split; [eapply in_item_here; eauto|rewrite <- Hq; reflexivity].
    + auto.
  - rewrite (hdigs_obj H enc) in Hg. apply in_flat_map in Hg as [[name [k s]] [Hin Hg]].
    rewrite Forall_forall in IH. specialize (IH _ Hin). cbn in IH.
    assert (Hdeep : In g (hdigs s) -> exists salt k v, IsNode g k v (AObj mems) /\ g = H (enc (parts_of salt k v))).
    { intros Hs. destruct (IH Hs) as (salt & k0 & v & Hn & Hq). exists salt, k0, v. split; [eapply in_mem_in; eauto|assumption]. }
    destruct k as [|salt|l]; cbn in Hg.
    + auto.
    + destruct Hg as [Hq|Hg]; [|auto].
      exists salt, (Some name), (blind s). split; [eapply in_mem_here; eauto|rewrite <- Hq; reflexivity].
    + auto.
Qed.

Lemma IsNode_arr_inv g k v items : IsNode g k v (AArr items) ->
  (exists salt s, In (IHid salt, s) items /\ g = dig_item salt s /\ k = None /\ v = blind s) \/
  (exists ik s, In (ik, s) items /\ IsNode g k v s).
Proof. intros Hn. inversion Hn; subst; [left|right]; eauto 10. Qed.
Lemma IsNode_obj_inv g k v mems : IsNode g k v (AObj mems) ->
  (exists name salt s, In (name, (MHid salt, s)) mems /\ g = dig_mem salt name s /\ k = Some name /\ v = blind s) \/
  (exists name mk s, In (name, (mk, s)) mems /\ IsNode g k v s).
Proof. intros Hn. inversion Hn; subst; [left|right]; eauto 12. Qed.

(* names of hidden members are never reserved in a well-formed tree *)
Lemma IsNode_name_ok g name v : forall t, wf t -> IsNode g (Some name) v t -> reserved name = false.
Proof.
  induction t as [j | items IH | mems IH] using atree_ind'; intros Hw Hn.
  - inversion Hn.
  - inversion Hw as [| ? Hall Hiok |]; subst. rewrite Forall_forall in IH, Hall.
    apply IsNode_arr_inv in Hn as [(salt & s & Hin & _ & Hk & _)|(ik & s & Hin & Hs)]; [discriminate|].
    apply (IH _ Hin (Hall _ Hin) Hs).
  - inversion Hw as [| | ? Hs Hall Hok]; subst. rewrite Forall_forall in IH, Hall, Hok.
    apply IsNode_obj_inv in Hn as [(name' & salt & s & Hin & _ & Hk & _)|(name' & mk & s & Hin & Hsn)].
    + injection Hk as <-. specialize (Hok _ Hin). cbn in Hok. unfold reserved.
      destruct (String.eqb_spec name "_sd"); [tauto|]. destruct (String.eqb_spec name "..."); [tauto|]. reflexivity.
    + apply (IH _ Hin (Hall _ Hin) Hsn).
Qed.

Variable t : atree.
Hypothesis Hwf : wf t.
Hypothesis Hnd : NoDup (alldigs t).
Hypothesis Hndh : NoDup (hdigs t).
Hypothesis Hheight : aheight t <= 129.

(* a presented string that decodes is well classified, provided it does not hash to a decoy *)
Lemma from_base64_ok s d :
  (In (H s) (alldigs t) -> In (H s) (hdigs t)) ->
  from_base64 s = Ok d -> d_digest d = H s /\ ok_disc H enc t d.
Proof.
  intros Hdecoy Hf.
  assert (Hdg : d_digest d = H s).
  { unfold from_base64 in Hf. destruct (dec s) as [|j]; [discriminate|]. destruct j as [| | | |xs|]; try discriminate.
    destruct xs as [|a [|b [|c [|]]]]; try discriminate.
    - injection Hf as <-. reflexivity.
    - destruct b; try discriminate. destruct (reserved s0); [discriminate|]. injection Hf as <-. reflexivity. }
  split; [assumption|]. unfold ok_disc. rewrite Hdg.
  destruct (in_dec string_dec (H s) (alldigs t)) as [Hin|Hnin]; [left|right; assumption].
  destruct (hdigs_node _ _ (Hdecoy Hin)) as (salt & k & v & Hnode & Hq).
  apply hash_inj in Hq. subst s. unfold from_base64 in Hf. rewrite dec_enc in Hf.
  destruct k as [name|]; cbn in Hf.
  - rewrite (IsNode_name_ok _ _ _ _ Hwf Hnode) in Hf. injection Hf as <-. cbn. assumption.
  - injection Hf as <-. cbn. assumption.
Qed.

Definition ownS (L : list string) : Rset := fun g => existsb (fun s => String.eqb (H s) g) L.

Lemma decode_all_spec : forall L ds, decode_all L = Ok ds ->
  (forall s, In s L -> In (H s) (alldigs t) -> In (H s) (hdigs t)) ->
  map d_digest ds = map H L /\ Forall (ok_disc H enc t) ds.
Proof.
  induction L as [|s r IH]; cbn; intros ds Hd Hdecoy.
  - injection Hd as <-. split; [reflexivity|constructor].
  - destruct (from_base64 s) as [d|] eqn:Ef; cbn in Hd; [|discriminate].
    destruct (decode_all r) as [ds'|] eqn:Er; cbn in Hd; [|discriminate]. injection Hd as <-.
    destruct (from_base64_ok s d (Hdecoy s (or_introl eq_refl)) Ef) as [Hq Hok].
    destruct (IH ds' eq_refl (fun s' Hs' => Hdecoy s' (or_intror Hs'))) as [Hm HF].
    split; [cbn; congruence|constructor; assumption].
Qed.

Lemma own_ownS ds L : map d_digest ds = map H L -> forall g, own ds g = ownS L g.
Proof.
  revert L. induction ds as [|d r IH]; intros [|s L'] Hm g; cbn in Hm; try discriminate; [reflexivity|].
  injection Hm as Hq Hm. unfold own, ownS in *. cbn. rewrite Hq. f_equal. apply IH. assumption.
Qed.

(* C03/C08 core: any duplicate-free list of strings, in any order, none hashing to a decoy *)
Theorem restore_disclosures_spec L :
  NoDup L -> (forall s, In s L -> In (H s) (alldigs t) -> In (H s) (hdigs t)) ->
  restore_disclosures (blind t) L = Err \/
  exists ps, restore_disclosures (blind t) L = Ok (view (ownS L) t, ps).
Proof.
  intros HndL Hdecoy. unfold restore_disclosures.
  destruct (decode_all L) as [ds|] eqn:Ed; [|left; reflexivity]. right. cbn [bind].
  destruct (decode_all_spec L ds Ed Hdecoy) as [Hm HF].
  assert (Hndd : NoDup (map d_digest ds)).
  { rewrite Hm. clear -HndL hash_inj. induction HndL as [|s r Hni _ IH]; cbn; constructor; [|assumption].
    intros Hin. apply in_map_iff in Hin as [s' [Hq Hs']]. apply hash_inj in Hq. subst. contradiction. }
  destruct (restore_all H enc show_nat t Hwf Hnd Hndh Hheight ds HF Hndd) as (ps & Hps & _ & _).
  exists ps. rewrite <- (view_R0_blind H enc), Hps. f_equal. f_equal.
  apply view_ext. intros g _. apply own_ownS. assumption.
Qed.

(* when every presented string decodes, the outcome is Ok *)
Theorem restore_disclosures_ok L ds :
  NoDup L -> (forall s, In s L -> In (H s) (alldigs t) -> In (H s) (hdigs t)) ->
  decode_all L = Ok ds ->
  exists ps, restore_disclosures (blind t) L = Ok (view (ownS L) t, ps).
Proof.
  intros HndL Hdecoy Ed. unfold restore_disclosures. rewrite Ed. cbn [bind].
  destruct (decode_all_spec L ds Ed Hdecoy) as [Hm HF].
  assert (Hndd : NoDup (map d_digest ds)).
  { rewrite Hm. clear -HndL hash_inj. induction HndL as [|s r Hni _ IH]; cbn; constructor; [|assumption].
    intros Hin. apply in_map_iff in Hin as [s' [Hq Hs']]. apply hash_inj in Hq. subst. contradiction. }
  destruct (restore_all H enc show_nat t Hwf Hnd Hndh Hheight ds HF Hndd) as (ps & Hps & _ & _).
  exists ps. rewrite <- (view_R0_blind H enc), Hps. f_equal. f_equal.
  apply view_ext. intros g _. apply own_ownS. assumption.
Qed.
End M.
