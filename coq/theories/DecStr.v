(* decimal rendering / parsing round trip for Wire.show_nat *)
From Coq Require Import List String Ascii Bool Arith NArith Lia.
Import ListNotations.
Require Import SDJ.Json SDJ.Wire.
Local Open Scope string_scope.

Lemma digit_digit_char r : (r < 10)%N -> digit (digit_char r) = Some (N.to_nat r).
Proof.
  intros Hr.
  assert (H : In r [0;1;2;3;4;5;6;7;8;9]%N).
  { destruct r as [|p]; [left; reflexivity|]. 
    do 10 (destruct p as [p|p|]; try (cbn; tauto); try lia). }
  cbn in H. repeat (destruct H as [<-|H]; [vm_compute; reflexivity|]). destruct H.
Qed.

(* reading the rendered digits of n in front of s, starting from accumulator a *)
Lemma N_of_dec_acc_render : forall fuel n s, (n < 2 ^ N.of_nat fuel)%N -> (0 < fuel) ->
  exists L, forall a, N_of_dec_acc a (dec_of_pos_fuel fuel n s) = N_of_dec_acc (a * 10 ^ L + n)%N s.
Proof.
  induction fuel as [|fuel IH]; intros n s Hn Hf; [lia|].
  cbn [dec_of_pos_fuel]. 
  pose proof (N.div_mod n 10 ltac:(lia)) as Hdm. pose proof (N.mod_lt n 10 ltac:(lia)) as Hr.
  set (q := (n / 10)%N) in *. set (r := (n mod 10)%N) in *.
  destruct (N.eqb_spec q 0) as [Hq|Hq].
  - exists 1%N. intros a. cbn [N_of_dec_acc]. rewrite (digit_digit_char r Hr). f_equal. rewrite N2Nat.id. lia.
  - assert (Hq2 : (q < 2 ^ N.of_nat fuel)%N).
    { assert (q <= n / 2)%N. { subst q. apply N.div_le_compat_l. lia. }
      assert (n / 2 < 2 ^ N.of_nat fuel)%N.
      { apply N.div_lt_upper_bound; [lia|]. replace (N.of_nat (S fuel)) with (N.succ (N.of_nat fuel)) in Hn by lia.
        rewrite N.pow_succ_r' in Hn. lia. }
      lia. }
    assert (Hf2 : 0 < fuel).
    { destruct fuel; [|lia]. cbn in Hq2. lia. }
    destruct (IH q (String (digit_char r) s) Hq2 Hf2) as [L HL]. exists (L + 1)%N. intros a.
    rewrite HL. cbn [N_of_dec_acc]. rewrite (digit_digit_char r Hr). f_equal. rewrite N2Nat.id.
    rewrite N.pow_add_r. lia.
Qed.

Lemma dec_of_pos_fuel_nonempty fuel n s : 0 < fuel -> dec_of_pos_fuel fuel n s <> EmptyString.
Proof.
  revert n s. induction fuel as [|fuel IH]; intros n s Hf; [lia|]. cbn [dec_of_pos_fuel].
  destruct (n / 10 =? 0)%N; [discriminate|]. destruct fuel; [cbn; discriminate|]. apply IH. lia.
Qed.

Lemma log2_fuel n : (n < 2 ^ N.of_nat (S (N.to_nat (N.log2 n))))%N.
Proof.
  destruct n as [|p]; [cbn; lia|].
  replace (N.of_nat (S (N.to_nat (N.log2 (N.pos p))))) with (N.succ (N.log2 (N.pos p))) by lia.
  apply N.log2_spec. lia.
Qed.

Theorem N_of_dec_show n : N_of_dec (dec_of_N n) = Some n.
Proof.
  unfold dec_of_N.
  destruct (N_of_dec_acc_render (S (N.to_nat (N.log2 n))) n EmptyString (log2_fuel n) ltac:(lia)) as [L HL].
  pose proof (dec_of_pos_fuel_nonempty (S (N.to_nat (N.log2 n))) n EmptyString ltac:(lia)) as Hne.
  specialize (HL 0%N). unfold N_of_dec.
  destruct (dec_of_pos_fuel (S (N.to_nat (N.log2 n))) n EmptyString) as [|c r]; [contradiction|].
  rewrite HL. cbn [N_of_dec_acc]. reflexivity.
Qed.

(* ---------- shape of the rendering: digits only, no leading zero ---------- *)
Require Import SDJ.Issuer2.

Lemma all_digits_app a b : all_digits (a ++ b) = all_digits a && all_digits b.
Proof.
  unfold all_digits. induction a as [|c r IH]; [reflexivity|]. cbn [append]. 
  change ((match digit c with Some _ => true | None => false end) &&
          (fix go (s : string) : bool := match s with EmptyString => true | String c r => (match digit c with Some _ => true | None => false end) && go r end) (r ++ b) =
          (match digit c with Some _ => true | None => false end) &&
          (fix go (s : string) : bool := match s with EmptyString => true | String c r => (match digit c with Some _ => true | None => false end) && go r end) r &&
          (fix go (s : string) : bool := match s with EmptyString => true | String c r => (match digit c with Some _ => true | None => false end) && go r end) b).
  rewrite IH. rewrite andb_assoc. reflexivity.
Qed.

Lemma digit_char_nonzero r : (0 < r < 10)%N -> digit_char r <> "0"%char.
Proof.
  intros Hr.
  assert (H : In r [1;2;3;4;5;6;7;8;9]%N).
  { destruct r as [|p]; [lia|]. do 10 (destruct p as [p|p|]; try (cbn; tauto); try lia). }
  cbn in H. repeat (destruct H as [<-|H]; [vm_compute; discriminate|]). destruct H.
Qed.

Lemma append_assoc_d (a b c : string) : ((a ++ b) ++ c = a ++ (b ++ c))%string.
Proof. induction a; cbn; congruence. Qed.

Lemma render_shape : forall fuel n s, (n < 2 ^ N.of_nat fuel)%N -> 0 < fuel ->
  exists D, dec_of_pos_fuel fuel n s = (D ++ s)%string /\ all_digits D = true /\
            (n <> 0%N -> exists c r, D = String c r /\ c <> "0"%char) /\ (n = 0%N -> D = "0").
Proof.
  induction fuel as [|fuel IH]; intros n s Hn Hf; [lia|].
  cbn [dec_of_pos_fuel].
  pose proof (N.div_mod n 10 ltac:(lia)) as Hdm. pose proof (N.mod_lt n 10 ltac:(lia)) as Hr.
  set (q := (n / 10)%N) in *. set (r := (n mod 10)%N) in *.
  destruct (N.eqb_spec q 0) as [Hq|Hq].
  - exists (String (digit_char r) EmptyString). split; [reflexivity|]. split.
    + unfold all_digits. rewrite (digit_digit_char r Hr). reflexivity.
    + split.
      * intros Hn0. exists (digit_char r), EmptyString. split; [reflexivity|]. apply digit_char_nonzero. lia.
      * intros Hn0. assert (r = 0%N) as -> by lia. reflexivity.
  - assert (Hq2 : (q < 2 ^ N.of_nat fuel)%N).
    { assert (q <= n / 2)%N. { subst q. apply N.div_le_compat_l. lia. }
      assert (n / 2 < 2 ^ N.of_nat fuel)%N.
      { apply N.div_lt_upper_bound; [lia|]. replace (N.of_nat (S fuel)) with (N.succ (N.of_nat fuel)) in Hn by lia.
        rewrite N.pow_succ_r' in Hn. lia. }
      lia. }
    assert (Hf2 : 0 < fuel). { destruct fuel; [|lia]. cbn in Hq2. lia. }
    destruct (IH q (String (digit_char r) s) Hq2 Hf2) as (D' & HD & Had & Hnz & _).
    exists (D' ++ String (digit_char r) EmptyString)%string. split; [rewrite HD, append_assoc_d; reflexivity|]. split.
    + rewrite all_digits_app, Had. unfold all_digits. rewrite (digit_digit_char r Hr). reflexivity.
    + split; [|intros Hn0; exfalso; lia].
      intros _. destruct (Hnz Hq) as (c & r' & -> & Hc). exists c, (r' ++ String (digit_char r) EmptyString)%string. split; [reflexivity|assumption].
Qed.

Lemma dec_of_N_shape n :
  all_digits (dec_of_N n) = true /\ dec_of_N n <> EmptyString /\
  (n <> 0%N -> exists c r, dec_of_N n = String c r /\ c <> "0"%char) /\ (n = 0%N -> dec_of_N n = "0").
Proof.
  unfold dec_of_N. destruct (render_shape (S (N.to_nat (N.log2 n))) n EmptyString (log2_fuel n) ltac:(lia)) as (D & HD & Had & Hnz & Hz).
  assert (Hnil : forall s : string, (s ++ "")%string = s) by (induction s; cbn; congruence).
  rewrite Hnil in HD. rewrite HD. split; [assumption|]. split; [|split; assumption].
  destruct (N.eq_dec n 0) as [->|Hn]; [rewrite (Hz eq_refl); discriminate|]. destruct (Hnz Hn) as (c & r & -> & _). discriminate.
Qed.

Lemma all_digits_first c r : all_digits (String c r) = true -> exists d, digit c = Some d.
Proof. unfold all_digits. destruct (digit c) as [d|]; [eauto|discriminate]. Qed.

Theorem parse_usize_show n : (n <= usize_max)%N -> parse_usize (dec_of_N n) = Some (N.to_nat n).
Proof.
  intros Hn. destruct (dec_of_N_shape n) as (Had & Hne & _ & _). unfold parse_usize.
  destruct (dec_of_N n) as [|c r] eqn:E; [contradiction|].
  assert (Hc : c <> "+"%char).
  { destruct (all_digits_first c r Had) as [d Hd]. intros ->. vm_compute in Hd. discriminate. }
  assert (Hbody : match String c r with String "+"%char r0 => r0 | _ => String c r end = String c r).
  { destruct c as [[] [] [] [] [] [] [] []]; try reflexivity. contradiction Hc; reflexivity. }
  rewrite Hbody. rewrite Had. rewrite <- E, N_of_dec_show. apply N.leb_le in Hn. rewrite Hn. reflexivity.
Qed.

Theorem parse_index_show n : (n <= usize_max)%N -> parse_index (dec_of_N n) = Some (N.to_nat n).
Proof.
  intros Hn. destruct (dec_of_N_shape n) as (Had & Hne & Hnz & Hz). unfold parse_index.
  destruct (N.eq_dec n 0) as [->|Hn0].
  - rewrite (Hz eq_refl). reflexivity.
  - destruct (Hnz Hn0) as (c & r & E & Hc0).
    assert (Hplus : c <> "+"%char).
    { rewrite E in Had. destruct (all_digits_first c r Had) as [d Hd]. intros ->. vm_compute in Hd. discriminate. }
    rewrite <- (parse_usize_show n Hn). rewrite E.
    destruct c as [[] [] [] [] [] [] [] []]; try reflexivity; try (contradiction Hplus; reflexivity).
    destruct r; [reflexivity|]. contradiction Hc0; reflexivity.
Qed.

Lemma esc_tok_digits s : all_digits s = true -> esc_tok s = s.
Proof.
  induction s as [|c r IH]; [reflexivity|]. intros Ha.
  assert (Hr : all_digits r = true).
  { unfold all_digits in *. destruct (digit c); [exact Ha|discriminate]. }
  destruct (all_digits_first c r Ha) as [d Hd]. cbn [esc_tok].
  destruct (Ascii.eqb_spec c "~"%char) as [->|_]; [vm_compute in Hd; discriminate|].
  destruct (Ascii.eqb_spec c "/"%char) as [->|_]; [vm_compute in Hd; discriminate|].
  rewrite (IH Hr). reflexivity.
Qed.
