(* Rejection rules (C12) at the level of the functions that implement them. *)
From Coq Require Import List String Ascii Bool Arith Lia.
Import ListNotations.
Require Import SDJ.Json SDJ.Wire SDJ.Model2 SDJ.Out SDJ.Restore2 SDJ.Split SDJ.SplitM SDJ.Verify.
Local Open Scope string_scope.

Section P.
Variable H : string -> string.
Variable dec : string -> dec_result.
Variable show_nat : nat -> string.

Lemma from_base64_not_array s : (forall xs, dec s <> DJson (JArr xs)) -> from_base64 H dec s = Err.
Proof.
  intros Hn. unfold from_base64. destruct (dec s) as [|j]; [reflexivity|].
  destruct j; try reflexivity. exfalso. eapply Hn. reflexivity.
Qed.

Lemma from_base64_arity s xs : dec s = DJson (JArr xs) -> List.length xs <> 2 -> List.length xs <> 3 ->
  from_base64 H dec s = Err.
Proof.
  intros Hd H2 H3. unfold from_base64. rewrite Hd.
  destruct xs as [|a [|b [|c [|d r]]]]; cbn in *; try reflexivity; lia.
Qed.

Lemma from_base64_name_not_string s salt k v : dec s = DJson (JArr [salt; k; v]) ->
  (forall n, k <> JStr n) -> from_base64 H dec s = Err.
Proof.
  intros Hd Hk. unfold from_base64. rewrite Hd. destruct k; try reflexivity. exfalso. eapply Hk. reflexivity.
Qed.

Lemma from_base64_reserved s salt n v : dec s = DJson (JArr [salt; JStr n; v]) ->
  n = "_sd" \/ n = "..." -> from_base64 H dec s = Err.
Proof.
  intros Hd Hn. unfold from_base64. rewrite Hd. destruct Hn as [-> | ->]; reflexivity.
Qed.

(* one undecodable or malformed member of the list rejects the whole presentation *)
Lemma decode_all_err L s : In s L -> from_base64 H dec s = Err -> decode_all H dec L = Err.
Proof.
  induction L as [|x r IH]; [intros []|]. intros [-> | Hin] He; cbn.
  - rewrite He. reflexivity.
  - destruct (from_base64 H dec x); [|reflexivity]. cbn. rewrite IH by assumption. reflexivity.
Qed.

Lemma restore_disclosures_bad_member claims L s : In s L -> from_base64 H dec s = Err ->
  restore_disclosures H dec show_nat claims L = Err.
Proof.
  intros Hin He. unfold restore_disclosures, restore_passes. rewrite (decode_all_err L s Hin He). reflexivity.
Qed.
End P.

(* the object step of restore_disclosure *)
Lemma sd_step_collision d path kvs sd k x :
  obj_get "_sd" kvs = Some sd -> sd_contains sd (d_digest d) = Ok true ->
  d_key d = Some k -> obj_get k kvs = Some x -> sd_step d path kvs = Err.
Proof. intros H1 H2 H3 H4. unfold sd_step. rewrite H1, H2. cbn. rewrite H3, H4. reflexivity. Qed.

Lemma sd_step_element_in_sd d path kvs sd :
  obj_get "_sd" kvs = Some sd -> sd_contains sd (d_digest d) = Ok true ->
  d_key d = None -> sd_step d path kvs = Err.
Proof. intros H1 H2 H3. unfold sd_step. rewrite H1, H2. cbn. rewrite H3. reflexivity. Qed.

Lemma sd_step_sd_not_array d path kvs sd :
  obj_get "_sd" kvs = Some sd -> (forall xs, sd <> JArr xs) -> sd_step d path kvs = Err.
Proof.
  intros H1 Hn. unfold sd_step. rewrite H1. destruct sd; try reflexivity. exfalso. eapply Hn. reflexivity.
Qed.

Lemma check_digests_sd_not_array n kvs sd seen :
  obj_get "_sd" kvs = Some sd -> (forall xs, sd <> JArr xs) -> check_digests (S n) (JObj kvs) seen = Err.
Proof.
  intros H1 Hn. cbn [check_digests]. rewrite H1.
  destruct sd; try reflexivity. exfalso. eapply Hn. reflexivity.
Qed.

(* unsupported _sd_alg (the claim is present and is not the name of a supported algorithm - in particular when it
   is not a string): both verification entry points reject, whatever else the token contains *)
Lemma declared_halg_unsupported claims :
  jhas "_sd_alg" claims = true -> (forall a, jget "_sd_alg" claims = JStr a -> parse_halg a = None) ->
  declared_halg claims = None.
Proof.
  intros Hhas Ha. unfold declared_halg. rewrite Hhas.
  destruct (jget "_sd_alg" claims) eqn:E; try reflexivity. cbn [jstr_or_empty]. apply Ha. reflexivity.
Qed.

Lemma declared_halg_str claims a : jget "_sd_alg" claims = JStr a -> declared_halg claims = parse_halg a.
Proof.
  unfold declared_halg, jhas, jget. destruct claims as [| | | | |kvs]; try discriminate.
  destruct (obj_get "_sd_alg" kvs); [|discriminate]. intros ->. reflexivity.
Qed.

(* the default: a token without the claim is processed with sha-256 (repair F18) *)
Lemma declared_halg_default claims : jhas "_sd_alg" claims = false -> declared_halg claims = Some SHA256.
Proof. intros Hh. unfold declared_halg. rewrite Hh. reflexivity. Qed.

Lemma verifier_bad_alg O token kbpol jwt ds kb hdr claims :
  sd_jwt_parts_m token = Val (jwt, ds, kb) -> o_jwt O jwt = Val (hdr, claims) ->
  jhas "_sd_alg" claims = true -> (forall a, jget "_sd_alg" claims = JStr a -> parse_halg a = None) ->
  verifier_verify O token kbpol = Fail.
Proof.
  intros Hp Hj Hhas Ha. unfold verifier_verify, verifier_verify_raw. rewrite Hp. cbn [obind]. rewrite Hj. cbn [obind].
  destruct (is_null (jget "cnf" claims) && _); [reflexivity|].
  destruct (negb (is_null (jget "cnf" claims)) && _); [reflexivity|].
  rewrite (declared_halg_unsupported claims Hhas Ha). reflexivity.
Qed.

Lemma holder_bad_alg O token jwt ds hdr claims :
  sd_jwt_parts_m token = Val (jwt, ds, None) -> o_jwt O jwt = Val (hdr, claims) ->
  jhas "_sd_alg" claims = true -> (forall a, jget "_sd_alg" claims = JStr a -> parse_halg a = None) ->
  holder_verify O token = Fail.
Proof.
  intros Hp Hj Hhas Ha. unfold holder_verify, holder_verify_raw. rewrite Hp. cbn [obind]. rewrite Hj. cbn [obind].
  rewrite (declared_halg_unsupported claims Hhas Ha). reflexivity.
Qed.

Lemma parse_halg_some a alg : parse_halg a = Some alg -> a = "sha-256" \/ a = "sha-384" \/ a = "sha-512".
Proof.
  unfold parse_halg. destruct (String.eqb_spec a "sha-256"); [auto|].
  destruct (String.eqb_spec a "sha-384"); [auto|]. destruct (String.eqb_spec a "sha-512"); [auto|]. discriminate.
Qed.
