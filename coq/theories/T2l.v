From Coq Require Import List String Ascii Bool Arith Lia Sorting.Sorted.
Import ListNotations.
Require Import SDJ.Json SDJ.Model2 SDJ.ATree SDJ.T2a SDJ.T2b SDJ.T2c SDJ.T2d SDJ.T2e SDJ.T2f SDJ.T2g SDJ.T2i SDJ.T2j SDJ.T2k.
Local Open Scope string_scope.

Section L.
Variable H : string -> string.
Variable enc : list json -> string.
Variable show_nat : nat -> string.
Notation blind := (blind H enc).
Notation view := (view H enc).
Notation hdigs := (hdigs H enc).
Notation alldigs := (alldigs H enc).
Notation wf := (wf H enc).
Notation Exposed := (Exposed H enc).
Notation closedR := (closedR H enc).
Notation IsNode := (IsNode H enc).
Notation restore1 := (restore1 show_nat).
Notation pass := (pass show_nat).
Notation passes := (passes show_nat).

Variable t : atree.
Hypothesis Hwf : wf t.
Hypothesis Hnd : NoDup (alldigs t).
Hypothesis Hndh : NoDup (hdigs t).
Hypothesis Hheight : aheight t <= 129.

(* a presented disclosure is either the disclosure of a hidden node of t, or hashes to nothing embedded in t *)
Definition ok_disc (d : disc) : Prop :=
  IsNode (d_digest d) (d_key d) (d_val d) t \/ ~ In (d_digest d) (alldigs t).

Lemma Exposed_R_false R g k v t0 : Exposed R g k v t0 -> R g = false.
Proof. induction 1; auto. Qed.

(* one disclosure against the current view *)
Lemma step_spec R d path :
  closedR R t -> ok_disc d -> R (d_digest d) = false ->
  (restore1 129 d path (view R t) = Ok (view R t, [], false) /\ ~ Exposed R (d_digest d) (d_key d) (d_val d) t) \/
  (exists ps, restore1 129 d path (view R t) = Ok (view (Radd R (d_digest d)) t, ps, true) /\ closedR (Radd R (d_digest d)) t).
Proof.
  intros Hc Hok HR.
  destruct (occurs (d_digest d) (view R t)) eqn:Eo.
  - destruct Hok as [Hnode|Hfor].
    + destruct (visible_cases H enc R (d_digest d) t Hwf Hnd Eo (IsNode_hdigs H enc _ _ _ _ Hnode)) as [HRt|(k & v & Hex)]; [congruence|].
      destruct (IsNode_fun H enc _ _ _ _ _ _ Hndh (Exposed_IsNode H enc _ _ _ _ _ Hex) Hnode) as [-> ->].
      right. destruct (restore1_exposed H enc show_nat t Hwf 129 path R _ _ _ d Hnd Hndh Hc Hheight Hex eq_refl eq_refl eq_refl) as [ps Hps].
      exists ps. split; [assumption|]. eapply closedR_add; eauto.
    + exfalso. apply Hfor. eapply occurs_view; eauto.
  - left. split.
    + apply restore1_no_occ; [apply sdwf_view; assumption|assumption|].
      pose proof (height_view H enc R t Hwf). lia.
    + intros Hex.
      destruct (restore1_exposed H enc show_nat t Hwf 129 path R _ _ _ d Hnd Hndh Hc Hheight Hex eq_refl eq_refl eq_refl) as [ps Hps].
      rewrite restore1_no_occ in Hps; [discriminate|apply sdwf_view; assumption|assumption|].
      pose proof (height_view H enc R t Hwf). lia.
Qed.

Lemma pass_spec : forall todo R ps,
  closedR R t -> (forall d, In d todo -> ok_disc d /\ R (d_digest d) = false) -> NoDup (map d_digest todo) ->
  exists R' ps' rem b, pass todo (view R t) ps = Ok (view R' t, ps', rem, b) /\
    closedR R' t /\
    (forall g, R' g = true -> R g = true \/ In g (map d_digest todo)) /\
    (forall g, R g = true -> R' g = true) /\
    (forall d, In d todo -> In d rem \/ R' (d_digest d) = true) /\
    (forall d, In d rem -> In d todo /\ R' (d_digest d) = false) /\
    NoDup (map d_digest rem) /\
    (b = false -> R' = R /\ rem = todo /\ forall d, In d todo -> ~ Exposed R (d_digest d) (d_key d) (d_val d) t) /\
    (b = true -> List.length rem < List.length todo).
Proof.
  induction todo as [|d r IH]; intros R ps Hc Hall Hnd'.
  - exists R, ps, [], false. cbn. split; [reflexivity|]. split; [assumption|]. split; [intros g Hg; left; assumption|].
    split; [auto|]. split; [intros ? []|]. split; [intros ? []|]. split; [constructor|].
    split; [intros _; repeat split; auto; intros ? []|discriminate].
  - cbn [map] in Hnd'. inversion Hnd' as [|? ? Hni Hnd'']; subst.
    destruct (Hall d (or_introl eq_refl)) as [Hok HRd].
    cbn [Model2.pass].
    destruct (step_spec R d "" Hc Hok HRd) as [[Hr Hnex]|(ps1 & Hr & Hc1)].
    + (* not placed: stays pending, state unchanged *)
      rewrite Hr. cbn [bind].
      destruct (IH R (ps ++ [])%list Hc (fun d' Hd' => Hall d' (or_intror Hd')) Hnd'')
        as (R' & ps' & rem & b & Hp & Hc' & Hsub & Hmono & Hcov & Hrem & Hndr & Hb0 & Hb1).
      rewrite Hp. cbn [bind]. exists R', ps', (d :: rem), b. cbn [orb]. split; [reflexivity|]. split; [assumption|].
      split; [intros g Hg; destruct (Hsub g Hg); [left|right; right]; assumption|].
      split; [assumption|].
      split; [intros d' [<-|Hd']; [left; left; reflexivity|destruct (Hcov d' Hd'); [left; right|right]; assumption]|].
      split.
      { intros d' [<-|Hd'].
        - split; [left; reflexivity|]. destruct (R' (d_digest d)) eqn:E; [|reflexivity].
          destruct (Hsub _ E) as [|Hin]; [congruence|contradiction].
        - destruct (Hrem d' Hd'). split; [right|]; assumption. }
      split.
      { cbn. constructor; [|assumption]. intros Hin. apply Hni. apply in_map_iff in Hin as [d' [Hq Hd']].
        apply in_map_iff. exists d'. split; [assumption|]. apply (Hrem d' Hd'). }
      split.
      { intros ->. destruct (Hb0 eq_refl) as (-> & -> & Hne). repeat split; auto. intros d' [<-|Hd']; auto. }
      { intros ->. specialize (Hb1 eq_refl). cbn. lia. }
    + (* placed *)
      rewrite Hr. cbn [bind].
      assert (Hall1 : forall d', In d' r -> ok_disc d' /\ Radd R (d_digest d) (d_digest d') = false).
      { intros d' Hd'. destruct (Hall d' (or_intror Hd')) as [Ho HR']. split; [assumption|].
        rewrite Radd_other; [assumption|]. intros Hq. apply Hni. rewrite <- Hq. apply in_map. assumption. }
      destruct (IH (Radd R (d_digest d)) (ps ++ ps1)%list Hc1 Hall1 Hnd'')
        as (R' & ps' & rem & b & Hp & Hc' & Hsub & Hmono & Hcov & Hrem & Hndr & Hb0 & Hb1).
      rewrite Hp. cbn [bind]. exists R', ps', rem, true. cbn [orb]. split; [reflexivity|]. split; [assumption|].
      split.
      { intros g Hg. destruct (Hsub g Hg) as [Ha|Hin]; [|right; right; assumption].
        unfold Radd in Ha. destruct (String.eqb_spec g (d_digest d)); [right; left; congruence|left; exact Ha]. }
      split; [intros g Hg; apply Hmono; apply Radd_mono; assumption|].
      split.
      { intros d' [<-|Hd']; [right; apply Hmono; apply Radd_same|apply Hcov; assumption]. }
      split; [intros d' Hd'; destruct (Hrem d' Hd'); split; [right|]; assumption|].
      split; [assumption|].
      split; [discriminate|].
      intros _. destruct b.
      * specialize (Hb1 eq_refl). cbn. lia.
      * destruct (Hb0 eq_refl) as (_ & -> & _). cbn. lia.
Qed.

Variable L : list disc.
Hypothesis HLok : Forall ok_disc L.
Definition own : Rset := fun g => existsb (fun d => String.eqb (d_digest d) g) L.

Lemma own_in d : In d L -> own (d_digest d) = true.
Proof. intros Hd. unfold own. apply existsb_exists. exists d. split; [assumption|apply String.eqb_refl]. Qed.
Lemma own_inv g : own g = true -> exists d, In d L /\ d_digest d = g.
Proof. unfold own. intros Ho. apply existsb_exists in Ho as [d [Hd Hq]]. apply String.eqb_eq in Hq. eauto. Qed.

Lemma passes_spec : forall fuel pending R ps,
  List.length pending < fuel -> closedR R t ->
  (forall d, In d pending -> R (d_digest d) = false) -> NoDup (map d_digest pending) ->
  (forall g, R g = true -> own g = true) -> (forall d, In d pending -> In d L) ->
  (forall d, In d L -> In d pending \/ R (d_digest d) = true) ->
  exists ps', passes fuel pending (view R t) ps = Ok (view own t, ps').
Proof.
  induction fuel as [|fuel IH]; intros pending R ps Hfuel Hc HRp Hndp Hsubo HpL Hcover; [lia|].
  cbn [Model2.passes].
  assert (Hall : forall d, In d pending -> ok_disc d /\ R (d_digest d) = false).
  { intros d Hd. split; [|auto]. rewrite Forall_forall in HLok. auto. }
  destruct (pass_spec pending R ps Hc Hall Hndp) as (R' & ps' & rem & b & Hp & Hc' & Hsub & Hmono & Hcov & Hrem & Hndr & Hb0 & Hb1).
  rewrite Hp. cbn [bind].
  assert (Hsubo' : forall g, R' g = true -> own g = true).
  { intros g Hg. destruct (Hsub g Hg) as [|Hin]; [auto|]. apply in_map_iff in Hin as [d [<- Hd]]. apply own_in. auto. }
  assert (Hcover' : forall d, In d L -> In d rem \/ R' (d_digest d) = true).
  { intros d Hd. destruct (Hcover d Hd) as [Hdp|HRt]; [apply Hcov; assumption|right; apply Hmono; assumption]. }
  destruct (negb b || match rem with [] => true | _ :: _ => false end) eqn:Eexit.
  - (* the loop stops: nothing presented is exposed any more *)
    exists ps'. f_equal. f_equal. apply view_fix.
    + intros g k v Hex. destruct (own g) eqn:Eo; [exfalso|reflexivity].
      apply own_inv in Eo as [d [Hd <-]].
      pose proof (Exposed_R_false _ _ _ _ _ Hex) as HRf.
      destruct (Hcover' d Hd) as [Hdr|HRt]; [|congruence].
      apply orb_true_iff in Eexit as [Eb|Er].
      * apply negb_true_iff in Eb. destruct (Hb0 Eb) as (-> & -> & Hne).
        apply (Hne d Hdr).
        assert (Hnode : IsNode (d_digest d) (d_key d) (d_val d) t).
        { rewrite Forall_forall in HLok. destruct (HLok d Hd) as [|Hfor]; [assumption|]. exfalso. apply Hfor.
          apply hdigs_alldigs; [assumption|]. eapply IsNode_hdigs. eapply Exposed_IsNode. eassumption. }
        destruct (IsNode_fun H enc _ _ _ _ _ _ Hndh (Exposed_IsNode H enc _ _ _ _ _ Hex) Hnode) as [-> ->]. assumption.
      * destruct rem; [destruct Hdr|discriminate].
    + intros g _. apply Hsubo'.
  - (* another pass over what is left *)
    apply orb_false_iff in Eexit as [Eb Er]. apply negb_false_iff in Eb.
    apply IH; auto.
    + specialize (Hb1 Eb). lia.
    + intros d Hd. apply (Hrem d Hd).
    + intros d Hd. apply HpL. apply (Hrem d Hd).
Qed.

(* T2, tree part: whatever list of well-classified disclosures is presented, in whatever order,
   the loop ends with exactly the view determined by the set of presented digests *)
Theorem restore_all : NoDup (map d_digest L) ->
  exists ps, passes (S (List.length L)) L (view R0 t) [] = Ok (view own t, ps).
Proof.
  intros HndL. apply passes_spec; auto.
  - apply closedR_none. reflexivity.
  - discriminate.
Qed.
End L.
