From Coq Require Import List String Ascii Bool Arith Lia Sorting.Sorted.
Import ListNotations.
Require Import SDJ.Json SDJ.Model2 SDJ.ATree SDJ.T2a SDJ.T2b SDJ.T2c SDJ.T2d SDJ.T2e SDJ.T2f SDJ.T2g SDJ.T2i SDJ.T2j SDJ.T2k.
Local Open Scope string_scope.

Section L.
Variable H : string -> string.
Variable enc : list json -> string.
Variable show_nat : nat -> string.
Notation blind := (blind H enc).
Notation view := (view H enc).
Notation hdigs := (hdigs H enc).
Notation alldigs := (alldigs H enc).
Notation wf := (wf H enc).
Notation Exposed := (Exposed H enc).
Notation closedR := (closedR H enc).
Notation IsNode := (IsNode H enc).
Notation NodePath := (NodePath H enc show_nat).
Notation restore1 := (restore1 show_nat).
Notation pass := (pass show_nat).
Notation passes := (passes show_nat).

Variable t : atree.
Hypothesis Hwf : wf t.
Hypothesis Hnd : NoDup (alldigs t).
Hypothesis Hndh : NoDup (hdigs t).
Hypothesis Hheight : aheight t <= 129.

(* a presented disclosure is either the disclosure of a hidden node of t, or hashes to nothing embedded in t *)
Definition ok_disc (d : disc) : Prop :=
  IsNode (d_digest d) (d_key d) (d_val d) t \/ ~ In (d_digest d) (alldigs t).

Lemma Exposed_R_false R g k v t0 : Exposed R g k v t0 -> R g = false.
Proof. induction 1; auto. Qed.

(* one disclosure against the current view: either nothing happens, or it is placed exactly once *)
Lemma step_spec R d path :
  closedR R t -> ok_disc d -> R (d_digest d) = false ->
  (restore1 129 d path (view R t) = Ok (view R t, [], false) /\ ~ Exposed R (d_digest d) (d_key d) (d_val d) t) \/
  (exists p, restore1 129 d path (view R t) = Ok (view (Radd R (d_digest d)) t, [(p, d)], true) /\ closedR (Radd R (d_digest d)) t /\
             Exposed R (d_digest d) (d_key d) (d_val d) t /\
             exists suffix, p = (path ++ suffix)%string /\ NodePath (d_digest d) t suffix).
Proof.
  intros Hc Hok HR.
  destruct (occurs (d_digest d) (view R t)) eqn:Eo.
  - destruct Hok as [Hnode|Hfor].
    + destruct (visible_cases H enc R (d_digest d) t Hwf Hnd Eo (IsNode_hdigs H enc _ _ _ _ Hnode)) as [HRt|(k & v & Hex)]; [congruence|].
      destruct (IsNode_fun H enc _ _ _ _ _ _ Hndh (Exposed_IsNode H enc _ _ _ _ _ Hex) Hnode) as [-> ->].
      right. destruct (restore1_exposed H enc show_nat t Hwf 129 R _ _ _ d Hnd Hndh Hc Hheight Hex eq_refl eq_refl eq_refl) as [suffix [Hnp Hps]].
      exists (path ++ suffix)%string. split; [apply Hps|]. split; [eapply closedR_add; eauto|]. split; [assumption|]. eauto.
    + exfalso. apply Hfor. eapply occurs_view; eauto.
  - left. split.
    + apply restore1_no_occ; [apply sdwf_view; assumption|assumption|].
      pose proof (height_view H enc R t Hwf). lia.
    + intros Hex.
      destruct (restore1_exposed H enc show_nat t Hwf 129 R _ _ _ d Hnd Hndh Hc Hheight Hex eq_refl eq_refl eq_refl) as [suffix [_ Hps]].
      specialize (Hps path). rewrite restore1_no_occ in Hps; [discriminate|apply sdwf_view; assumption|assumption|].
      pose proof (height_view H enc R t Hwf). lia.
Qed.

(* what is recorded about a placement: the disclosure came from the work list, was exposed in some state
   between R and R', and is opened in R' *)
Definition placed_ok (R R' : Rset) (todo : list disc) (pd : dpath) : Prop :=
  In (snd pd) todo /\ R' (d_digest (snd pd)) = true /\
  exists R1, (forall g, R g = true -> R1 g = true) /\ (forall g, R1 g = true -> R' g = true) /\
             Exposed R1 (d_digest (snd pd)) (d_key (snd pd)) (d_val (snd pd)) t /\
             NodePath (d_digest (snd pd)) t (fst pd).

Definition pdig (pd : dpath) : string := d_digest (snd pd).

Lemma pass_spec : forall todo R ps,
  closedR R t -> (forall d, In d todo -> ok_disc d /\ R (d_digest d) = false) -> NoDup (map d_digest todo) ->
  exists R' placed rem b, pass todo (view R t) ps = Ok (view R' t, (ps ++ placed)%list, rem, b) /\
    closedR R' t /\
    (forall g, R' g = true -> R g = true \/ In g (map d_digest todo)) /\
    (forall g, R g = true -> R' g = true) /\
    (forall d, In d todo -> In d rem \/ R' (d_digest d) = true) /\
    (forall d, In d rem -> In d todo /\ R' (d_digest d) = false) /\
    NoDup (map d_digest rem) /\
    (b = false -> R' = R /\ rem = todo /\ forall d, In d todo -> ~ Exposed R (d_digest d) (d_key d) (d_val d) t) /\
    (b = true -> List.length rem < List.length todo) /\
    Forall (placed_ok R R' todo) placed /\ NoDup (map pdig placed) /\
    (forall g, R' g = true -> R g = true \/ In g (map pdig placed)).
Proof.
  induction todo as [|d r IH]; intros R ps Hc Hall Hnd'.
  - exists R, [], [], false. cbn. rewrite app_nil_r. split; [reflexivity|]. split; [assumption|]. split; [intros g Hg; left; assumption|].
    split; [auto|]. split; [intros ? []|]. split; [intros ? []|]. split; [constructor|].
    split; [intros _; repeat split; auto; intros ? []|]. split; [discriminate|]. split; [constructor|]. split; [constructor|auto].
  - cbn [map] in Hnd'. inversion Hnd' as [|? ? Hni Hnd'']; subst.
    destruct (Hall d (or_introl eq_refl)) as [Hok HRd].
    cbn [Model2.pass].
    destruct (step_spec R d "" Hc Hok HRd) as [[Hr Hnex]|(p1 & Hr & Hc1 & Hex1 & sfx & Hp1 & Hnp1)].
    + (* not placed: stays pending, state unchanged *)
      rewrite Hr. cbn [bind]. rewrite app_nil_r.
      destruct (IH R ps Hc (fun d' Hd' => Hall d' (or_intror Hd')) Hnd'')
        as (R' & placed & rem & b & Hp & Hc' & Hsub & Hmono & Hcov & Hrem & Hndr & Hb0 & Hb1 & Hpl & Hndp & Hgrow).
      rewrite Hp. cbn [bind]. exists R', placed, (d :: rem), b. cbn [orb]. split; [reflexivity|]. split; [assumption|].
      split; [intros g Hg; destruct (Hsub g Hg); [left|right; right]; assumption|].
      split; [assumption|].
      split; [intros d' [<-|Hd']; [left; left; reflexivity|destruct (Hcov d' Hd'); [left; right|right]; assumption]|].
      split.
      { intros d' [<-|Hd'].
        - split; [left; reflexivity|]. destruct (R' (d_digest d)) eqn:E; [|reflexivity].
          destruct (Hsub _ E) as [|Hin]; [congruence|contradiction].
        - destruct (Hrem d' Hd'). split; [right|]; assumption. }
      split.
      { cbn. constructor; [|assumption]. intros Hin. apply Hni. apply in_map_iff in Hin as [d' [Hq Hd']].
        apply in_map_iff. exists d'. split; [assumption|]. apply (Hrem d' Hd'). }
      split.
      { intros ->. destruct (Hb0 eq_refl) as (-> & -> & Hne). repeat split; auto. intros d' [<-|Hd']; auto. }
      split.
      { intros ->. specialize (Hb1 eq_refl). cbn. lia. }
      split; [|split; assumption].
      eapply Forall_impl; [|exact Hpl]. intros pd (Hin & HR' & R1 & H1 & H2 & Hex). split; [right; assumption|]. split; [assumption|].
      exists R1. auto.
    + (* placed *)
      rewrite Hr. cbn [bind].
      assert (Hall1 : forall d', In d' r -> ok_disc d' /\ Radd R (d_digest d) (d_digest d') = false).
      { intros d' Hd'. destruct (Hall d' (or_intror Hd')) as [Ho HR']. split; [assumption|].
        rewrite Radd_other; [assumption|]. intros Hq. apply Hni. rewrite <- Hq. apply in_map. assumption. }
      destruct (IH (Radd R (d_digest d)) (ps ++ [(p1, d)])%list Hc1 Hall1 Hnd'')
        as (R' & placed & rem & b & Hp & Hc' & Hsub & Hmono & Hcov & Hrem & Hndr & Hb0 & Hb1 & Hpl & Hndp & Hgrow).
      rewrite Hp. cbn [bind]. exists R', ((p1, d) :: placed), rem, true. cbn [orb].
      split; [rewrite <- app_assoc; reflexivity|]. split; [assumption|].
      split.
      { intros g Hg. destruct (Hsub g Hg) as [Ha|Hin]; [|right; right; assumption].
        unfold Radd in Ha. destruct (String.eqb_spec g (d_digest d)); [right; left; congruence|left; exact Ha]. }
      split; [intros g Hg; apply Hmono; apply Radd_mono; assumption|].
      split.
      { intros d' [<-|Hd']; [right; apply Hmono; apply Radd_same|apply Hcov; assumption]. }
      split; [intros d' Hd'; destruct (Hrem d' Hd'); split; [right|]; assumption|].
      split; [assumption|].
      split; [discriminate|].
      split.
      { intros _. destruct b.
        * specialize (Hb1 eq_refl). cbn. lia.
        * destruct (Hb0 eq_refl) as (_ & -> & _). cbn. lia. }
      split.
      { constructor.
        - split; [left; reflexivity|]. split; [apply Hmono; apply Radd_same|].
          exists R. split; [auto|]. split; [intros g Hg; apply Hmono; apply Radd_mono; assumption|]. split; [exact Hex1|].
          cbn [fst snd]. rewrite Hp1. exact Hnp1.
        - eapply Forall_impl; [|exact Hpl]. intros pd (Hin & HR' & R1 & H1 & H2 & Hex). split; [right; assumption|]. split; [assumption|].
          exists R1. split; [intros g Hg; apply H1; apply Radd_mono; assumption|]. split; assumption. }
      split.
      { cbn [map]. constructor; [|assumption]. intros Hin. apply in_map_iff in Hin as [pd [Hq Hpd]].
        rewrite Forall_forall in Hpl. destruct (Hpl pd Hpd) as (Hinr & _). apply Hni. unfold pdig in Hq. cbn [snd] in Hq.
        rewrite <- Hq. apply in_map. assumption. }
      { intros g Hg. destruct (Hgrow g Hg) as [Ha|Hin]; [|right; right; assumption].
        unfold Radd in Ha. destruct (String.eqb_spec g (d_digest d)) as [->|]; [right; left; reflexivity|left; exact Ha]. }
Qed.

Variable L : list disc.
Hypothesis HLok : Forall ok_disc L.
Definition own : Rset := fun g => existsb (fun d => String.eqb (d_digest d) g) L.

Lemma own_in d : In d L -> own (d_digest d) = true.
Proof. intros Hd. unfold own. apply existsb_exists. exists d. split; [assumption|apply String.eqb_refl]. Qed.
Lemma own_inv g : own g = true -> exists d, In d L /\ d_digest d = g.
Proof. unfold own. intros Ho. apply existsb_exists in Ho as [d [Hd Hq]]. apply String.eqb_eq in Hq. eauto. Qed.

Lemma placed_ok_weaken R R' R'' todo todo' pd :
  (forall g, R'' g = true -> R g = true) -> (forall g, R' g = true -> own g = true) ->
  (forall d, In d todo -> In d todo') ->
  placed_ok R R' todo pd -> placed_ok R'' own todo' pd.
Proof.
  intros H1 H2 H3 (Hin & HR' & R1 & Ha & Hb & Hex). split; [auto|]. split; [auto|]. exists R1. split; [auto|]. split; [auto|assumption].
Qed.

Lemma passes_spec : forall fuel pending R ps,
  List.length pending < fuel -> closedR R t ->
  (forall d, In d pending -> R (d_digest d) = false) -> NoDup (map d_digest pending) ->
  (forall g, R g = true -> own g = true) -> (forall d, In d pending -> In d L) ->
  (forall d, In d L -> In d pending \/ R (d_digest d) = true) ->
  exists placed, passes fuel pending (view R t) ps = Ok (view own t, (ps ++ placed)%list) /\
                 Forall (placed_ok R own pending) placed /\ NoDup (map pdig placed) /\
                 exists Rf, (forall g, Rf g = true -> R g = true \/ In g (map pdig placed)) /\
                            (forall g k v, Exposed Rf g k v t -> own g = false) /\
                            (forall g, Rf g = true -> own g = true).
Proof.
  induction fuel as [|fuel IH]; intros pending R ps Hfuel Hc HRp Hndp Hsubo HpL Hcover; [lia|].
  cbn [Model2.passes].
  assert (Hall : forall d, In d pending -> ok_disc d /\ R (d_digest d) = false).
  { intros d Hd. split; [|auto]. rewrite Forall_forall in HLok. auto. }
  destruct (pass_spec pending R ps Hc Hall Hndp) as (R' & placed1 & rem & b & Hp & Hc' & Hsub & Hmono & Hcov & Hrem & Hndr & Hb0 & Hb1 & Hpl1 & Hnd1 & Hgrow1).
  rewrite Hp. cbn [bind].
  assert (Hsubo' : forall g, R' g = true -> own g = true).
  { intros g Hg. destruct (Hsub g Hg) as [|Hin]; [auto|]. apply in_map_iff in Hin as [d [<- Hd]]. apply own_in. auto. }
  assert (Hcover' : forall d, In d L -> In d rem \/ R' (d_digest d) = true).
  { intros d Hd. destruct (Hcover d Hd) as [Hdp|HRt]; [apply Hcov; assumption|right; apply Hmono; assumption]. }
  assert (Hpl1' : Forall (placed_ok R own pending) placed1).
  { eapply Forall_impl; [|exact Hpl1]. intros pd. apply placed_ok_weaken; auto. }
  destruct (negb b || match rem with [] => true | _ :: _ => false end) eqn:Eexit.
  - (* the loop stops: nothing presented is exposed any more *)
    assert (Hnoex : forall g k v, Exposed R' g k v t -> own g = false).
    { intros g k v Hex. destruct (own g) eqn:Eo; [exfalso|reflexivity].
      apply own_inv in Eo as [d [Hd <-]].
      pose proof (Exposed_R_false _ _ _ _ _ Hex) as HRf.
      destruct (Hcover' d Hd) as [Hdr|HRt]; [|congruence].
      apply orb_true_iff in Eexit as [Eb|Er].
      * apply negb_true_iff in Eb. destruct (Hb0 Eb) as (-> & -> & Hne).
        apply (Hne d Hdr).
        assert (Hnode : IsNode (d_digest d) (d_key d) (d_val d) t).
        { rewrite Forall_forall in HLok. destruct (HLok d Hd) as [|Hfor]; [assumption|]. exfalso. apply Hfor.
          apply hdigs_alldigs; [assumption|]. eapply IsNode_hdigs. eapply Exposed_IsNode. eassumption. }
        destruct (IsNode_fun H enc _ _ _ _ _ _ Hndh (Exposed_IsNode H enc _ _ _ _ _ Hex) Hnode) as [-> ->]. assumption.
      * destruct rem; [destruct Hdr|discriminate]. }
    exists placed1. split; [|split; [assumption|split; [assumption|exists R'; auto]]]. f_equal. f_equal. apply view_fix.
    + exact Hnoex.
    + intros g _. apply Hsubo'.
  - (* another pass over what is left *)
    apply orb_false_iff in Eexit as [Eb Er]. apply negb_false_iff in Eb.
    destruct (IH rem R' (ps ++ placed1)%list) as (placed2 & Hp2 & Hpl2 & Hnd2 & Rf & Hgrow2 & Hnoex2 & Hsub2); auto.
    + specialize (Hb1 Eb). lia.
    + intros d Hd. apply (Hrem d Hd).
    + intros d Hd. apply HpL. apply (Hrem d Hd).
    + exists (placed1 ++ placed2)%list. split; [rewrite app_assoc; exact Hp2|]. split.
      * apply Forall_app. split; [assumption|].
        eapply Forall_impl; [|exact Hpl2]. intros pd (Hin & HR' & R1 & Ha & Hb & Hex).
        split; [apply (Hrem _ Hin)|]. split; [assumption|]. exists R1. split; [intros g Hg; apply Ha; apply Hmono; assumption|]. split; assumption.
      * split.
        { rewrite map_app. apply NoDup_app_intro; [assumption|assumption|].
          intros g Hg1 Hg2. apply in_map_iff in Hg1 as [pd1 [<- Hpd1]]. apply in_map_iff in Hg2 as [pd2 [Hq Hpd2]].
          rewrite Forall_forall in Hpl1, Hpl2. destruct (Hpl1 _ Hpd1) as (_ & Ht1 & _). destruct (Hpl2 _ Hpd2) as (Hin2 & _).
          destruct (Hrem _ Hin2) as [_ Hf2]. unfold pdig in *. congruence. }
        exists Rf. split; [|split; assumption]. intros g Hg. rewrite map_app, in_app_iff.
        destruct (Hgrow2 g Hg) as [Ha|Hb]; [|auto]. destruct (Hgrow1 g Ha); auto.
Qed.

(* T2, tree part: whatever list of well-classified disclosures is presented, in whatever order,
   the loop ends with exactly the view determined by the set of presented digests; every presented
   disclosure is recorded at most once, and only if it was placed *)
Theorem restore_all : NoDup (map d_digest L) ->
  exists placed, passes (S (List.length L)) L (view R0 t) [] = Ok (view own t, placed) /\
                 Forall (placed_ok R0 own L) placed /\ NoDup (map pdig placed) /\
                 exists Rf, (forall g, Rf g = true -> In g (map pdig placed)) /\
                            (forall g k v, Exposed Rf g k v t -> own g = false) /\
                            (forall g, Rf g = true -> own g = true).
Proof.
  intros HndL. destruct (passes_spec (S (List.length L)) L R0 []) as (placed & Hp & Hpl & Hnd' & Rf & Hgrow & Hnoex & Hsub); auto.
  - apply closedR_none. reflexivity.
  - discriminate.
  - exists placed. split; [assumption|]. split; [assumption|]. split; [assumption|]. exists Rf. split; [|auto].
    intros g Hg. destruct (Hgrow g Hg) as [Hf|]; [discriminate|assumption].
Qed.
End L.
