(* C03 / C08 at the entry points: whatever presentation string is sent, if its JWT part is the issuer-signed
   payload of a conformant token, Verifier::verify and Holder::verify either refuse or return the issuer's
   header and exactly the projection determined by the set of presented strings. *)
From Coq Require Import List String Ascii Bool Arith Lia Sorting.Sorted Permutation.
Import ListNotations.
Require Import SDJ.Json SDJ.Wire SDJ.Model2 SDJ.Out SDJ.Restore2 SDJ.Split SDJ.SplitM SDJ.SplitMProofs SDJ.ATree
  SDJ.T2a SDJ.T2b SDJ.T2c SDJ.T2e SDJ.T2h SDJ.T2m SDJ.T2o SDJ.T2q SDJ.T1m SDJ.T1n SDJ.Verify SDJ.C05Proofs.
Local Open Scope string_scope.

(* the claims the relying party sees: the projection without the top-level _sd_alg *)
Definition drop_alg (j : json) : json :=
  match j with
  | JObj l => JObj (filter (fun kv => negb (String.eqb (fst kv) "_sd_alg")) l)
  | x => x end.

Section C03.
Variable O : oracles.
Variable H : string -> string.
Variable enc : list json -> string.
Hypothesis hash_inj : forall x y, H x = H y -> x = y.
Hypothesis dec_enc : forall ps, o_dec O (enc ps) = DJson (JArr ps).
Notation blind := (blind H enc).
Notation view := (view H enc).
Notation hdigs := (hdigs H enc).
Notation alldigs := (alldigs H enc).
Notation wf := (wf H enc).
Notation proj := (proj H enc).

Variable t : atree.
Hypothesis Hwf : wf t.
Hypothesis Hnd : NoDup (alldigs t).
Hypothesis Hndh : NoDup (hdigs t).
Hypothesis Hheight : aheight t <= 129.

Lemma remove_digests_view R : remove_digests (view R t) = drop_alg (proj R t).
Proof.
  rewrite <- (strip_view H enc R t Hwf). unfold remove_digests, drop_alg.
  destruct (view R t) as [| | | |xs|kvs] eqn:Ev; try reflexivity.
  rewrite (strip_filter_top (fun k => negb (String.eqb k "_sd_alg"))). reflexivity.
Qed.

Lemma restore_and_strip_sound claims' ps alg L :
  declared_halg (blind t) = Some alg -> o_hash O alg = H ->
  (forall s, In s L -> In (H s) (alldigs t) -> In (H s) (hdigs t)) ->
  restore_and_strip O (blind t) L = Val (claims', ps) ->
  claims' = drop_alg (proj (ownS H L) t).
Proof.
  intros Ha Ho Hdecoy Hr. unfold restore_and_strip in Hr. rewrite Ha, Ho in Hr.
  destruct (restore_any_spec H enc (o_dec O) show_nat hash_inj dec_enc t Hwf Hnd Hndh Hheight L Hdecoy) as [He|[ps' Hok]].
  - rewrite He in Hr. discriminate.
  - rewrite Hok in Hr. cbn [of_res obind fst snd] in Hr. injection Hr as <- _. apply remove_digests_view.
Qed.

(* Verifier::verify: any presentation string, with or without KB-JWT, under any key-binding policy *)
Theorem verifier_verify_sound token kbpol jwt L kb hdr0 hdr claims' alg :
  sd_jwt_parts token = (jwt, L, kb) -> o_jwt O jwt = Val (hdr0, blind t) ->
  declared_halg (blind t) = Some alg -> o_hash O alg = H ->
  (forall s, In s L -> In (H s) (alldigs t) -> In (H s) (hdigs t)) ->
  verifier_verify O token kbpol = Val (hdr, claims') ->
  hdr = hdr0 /\ claims' = drop_alg (proj (ownS H L) t).
Proof.
  intros Hp Hj Ha Ho Hdecoy Hv. unfold verifier_verify in Hv.
  destruct (verifier_verify_raw O token kbpol) as [[[h c] ds]| |] eqn:Er; cbn [obind] in Hv; try discriminate.
  apply verifier_verify_raw_iff in Er as (jwt' & kb' & alg' & Hp' & Hj' & _).
  rewrite Hp in Hp'. injection Hp' as <- <- <-. rewrite Hj in Hj'. injection Hj' as <- <-.
  destruct (restore_and_strip O (blind t) L) as [[c' ps]| |] eqn:Es; cbn [obind] in Hv; try discriminate.
  cbn [fst] in Hv. injection Hv as <- <-. split; [reflexivity|].
  eapply restore_and_strip_sound; eauto.
Qed.

(* Holder::verify *)
Theorem holder_verify_sound token jwt L kb hdr0 hdr claims' ps alg :
  sd_jwt_parts token = (jwt, L, kb) -> o_jwt O jwt = Val (hdr0, blind t) ->
  declared_halg (blind t) = Some alg -> o_hash O alg = H ->
  (forall s, In s L -> In (H s) (alldigs t) -> In (H s) (hdigs t)) ->
  holder_verify O token = Val (hdr, claims', ps) ->
  hdr = hdr0 /\ claims' = drop_alg (proj (ownS H L) t).
Proof.
  intros Hp Hj Ha Ho Hdecoy Hv. unfold holder_verify, holder_verify_raw in Hv.
  rewrite sd_jwt_parts_m_total, Hp in Hv. cbn [obind] in Hv. destruct kb as [k|]; [discriminate|].
  rewrite Hj in Hv. cbn [obind] in Hv. rewrite Ha in Hv. cbn [obind] in Hv.
  destruct (restore_and_strip O (blind t) L) as [[c' ps']| |] eqn:Es; cbn [obind] in Hv; try discriminate.
  cbn [fst snd] in Hv. injection Hv as <- <- <-. split; [reflexivity|].
  eapply restore_and_strip_sound; eauto.
Qed.

(* acceptance for well-formed lists (the completeness half, unbound tokens) *)
Theorem verifier_verify_complete token kbpol jwt L ds hdr0 alg :
  sd_jwt_parts token = (jwt, L, None) -> o_jwt O jwt = Val (hdr0, blind t) ->
  declared_halg (blind t) = Some alg -> o_hash O alg = H ->
  jget "cnf" (blind t) = JNull ->
  NoDup L -> (forall s, In s L -> In (H s) (alldigs t) -> In (H s) (hdigs t)) ->
  decode_all H (o_dec O) L = Ok ds ->
  verifier_verify O token kbpol = Val (hdr0, drop_alg (proj (ownS H L) t)).
Proof.
  intros Hp Hj Ha Ho Hcnf HndL Hdecoy Hd. unfold verifier_verify.
  assert (Hraw : verifier_verify_raw O token kbpol = Val (hdr0, blind t, L)).
  { apply verifier_verify_raw_iff. exists jwt, None, alg. repeat split; try assumption.
    left. split; [unfold kb_required; rewrite Hcnf; reflexivity|reflexivity]. }
  rewrite Hraw. cbn [obind]. unfold restore_and_strip. rewrite Ha, Ho.
  destruct (restore_full_ok H enc (o_dec O) show_nat hash_inj dec_enc t Hwf Hnd Hndh Hheight L ds HndL Hdecoy Hd) as [ps Hok].
  rewrite Hok. cbn [of_res obind fst snd]. rewrite remove_digests_view. reflexivity.
Qed.

(* Holder::verify accepts duplicate-free decodable lists on any conformant token, bound or not, and reports
   each placed disclosure with the path of its node *)
Theorem holder_verify_complete token jwt L ds hdr0 alg :
  sd_jwt_parts token = (jwt, L, None) -> o_jwt O jwt = Val (hdr0, blind t) ->
  declared_halg (blind t) = Some alg -> o_hash O alg = H ->
  NoDup L -> (forall s, In s L -> In (H s) (alldigs t) -> In (H s) (hdigs t)) ->
  decode_all H (o_dec O) L = Ok ds ->
  exists ps, holder_verify O token = Val (hdr0, drop_alg (proj (ownS H L) t), ps) /\
    Forall (fun pd : dpath => In (snd pd) ds /\ NodePath H enc show_nat (d_digest (snd pd)) t (fst pd)) ps.
Proof.
  intros Hp Hj Ha Ho HndL Hdecoy Hd. unfold holder_verify, holder_verify_raw.
  rewrite sd_jwt_parts_m_total, Hp. cbn [obind]. rewrite Hj. cbn [obind]. rewrite Ha. cbn [obind].
  unfold restore_and_strip. rewrite Ha, Ho.
  destruct (restore_full_ok_paths H enc (o_dec O) show_nat hash_inj dec_enc t Hwf Hnd Hndh Hheight L ds HndL Hdecoy Hd) as (ps & Hok & Hpl & _).
  rewrite Hok. cbn [of_res obind fst snd]. rewrite remove_digests_view. exists ps. split; [reflexivity|assumption].
Qed.
End C03.

(* the digest algorithm used for every disclosure is the one named by the signed _sd_alg claim *)
Theorem restore_and_strip_alg O claims ds alg :
  declared_halg claims = Some alg ->
  restore_and_strip O claims ds =
  obind (of_res (restore_disclosures (o_hash O alg) (o_dec O) show_nat claims ds)) (fun cp => Val (remove_digests (fst cp), snd cp)).
Proof. intros Ha. unfold restore_and_strip. rewrite Ha. reflexivity. Qed.
