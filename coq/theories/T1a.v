From Coq Require Import List String Ascii Bool Arith Lia Sorting.Sorted.
Import ListNotations.
Require Import SDJ.Json SDJ.Model2 SDJ.ATree SDJ.T2a SDJ.T2b SDJ.T2c SDJ.T2d SDJ.Issuer1.
Local Open Scope string_scope.

Section T1.
Variable H : string -> string.
Variable enc : list json -> string.
Variable parse_index : string -> option nat.
Variable parse_usize : string -> option nat.
Variable pos : string -> nat.
Notation blind := (blind H enc).
Notation dig_item := (dig_item H enc).
Notation dig_mem := (dig_mem H enc).
Notation wf := (wf H enc).
Notation mk_disc := (mk_disc H enc).
Notation disclose_here := (disclose_here H enc parse_usize pos).
Notation update_at := (update_at parse_index).

Definition omap {A B} (f : A -> B) (o : option A) : option B := match o with Some a => Some (f a) | None => None end.

(* update the member named tok, if present *)
Fixpoint upd_mem (tok : string) (f : mkind * atree -> option (mkind * atree)) (mems : list (string * (mkind * atree)))
  : option (list (string * (mkind * atree))) :=
  match mems with
  | [] => None
  | (n, x) :: r => if String.eqb n tok then omap (fun x' => (n, x') :: r) (f x)
                   else omap (fun r' => (n, x) :: r') (upd_mem tok f r)
  end.

Definition upd_item (i : nat) (f : ikind * atree -> option (ikind * atree)) (items : list (ikind * atree))
  : option (list (ikind * atree)) :=
  match nth_error items i with
  | Some x => omap (fun x' => list_set i x' items) (f x)
  | None => None end.

(* sorted insertion of the _sd member, or extension of the existing one *)
Fixpoint add_sd (g : string) (mems : list (string * (mkind * atree))) : list (string * (mkind * atree)) :=
  match mems with
  | [] => [("_sd", (MSd [g], ALeaf JNull))]
  | (n, (k, s)) :: r =>
      match String.compare "_sd" n with
      | Lt => ("_sd", (MSd [g], ALeaf JNull)) :: mems
      | Eq => (n, (match k with MSd l => MSd (insert_at (pos g) g l) | _ => k end, s)) :: r
      | Gt => (n, (k, s)) :: add_sd g r
      end
  end.

Fixpoint mark (toks : list string) (key : string) (salt : json) (t : atree) : option atree :=
  match toks with
  | [] =>
      match t with
      | AArr items =>
          match parse_usize key with
          | Some i => omap AArr (upd_item i (fun x => match x with (IPlain, s) => Some (IHid salt, s) | _ => None end) items)
          | None => None end
      | AObj mems =>
          match upd_mem key (fun x => match x with (MPlain, s) => Some (MHid salt, s) | _ => None end) mems with
          | Some mems' =>
              match find (fun m => String.eqb (fst m) key) mems with
              | Some (_, (_, s)) => Some (AObj (add_sd (dig_mem salt key s) mems'))
              | None => None end
          | None => None end
      | ALeaf _ => None
      end
  | tok :: rest =>
      match t with
      | AObj mems => omap AObj (upd_mem tok (fun x => match x with (MPlain, s) => omap (fun s' => (MPlain, s')) (mark rest key salt s) | _ => None end) mems)
      | AArr items =>
          match parse_index tok with
          | Some i => omap AArr (upd_item i (fun x => match x with (IPlain, s) => omap (fun s' => (IPlain, s')) (mark rest key salt s) | _ => None end) items)
          | None => None end
      | ALeaf _ => None
      end
  end.

(* the node a path addresses, when marking it is possible *)
Fixpoint target (toks : list string) (key : string) (t : atree) : option (option string * atree) :=
  match toks with
  | [] =>
      match t with
      | AArr items => match parse_usize key with
                      | Some i => match nth_error items i with Some (IPlain, s) => Some (None, s) | _ => None end
                      | None => None end
      | AObj mems => match find (fun m => String.eqb (fst m) key) mems with
                     | Some (_, (MPlain, s)) => Some (Some key, s)
                     | _ => None end
      | ALeaf _ => None
      end
  | tok :: rest =>
      match t with
      | AObj mems => match find (fun m => String.eqb (fst m) tok) mems with
                     | Some (_, (MPlain, s)) => target rest key s
                     | _ => None end
      | AArr items => match parse_index tok with
                      | Some i => match nth_error items i with Some (IPlain, s) => target rest key s | _ => None end
                      | None => None end
      | ALeaf _ => None
      end
  end.
End T1.
