(* Models of the string splitters, written with the checked primitives of Out.v so that every
   Rust indexing/slicing operation is visible. *_pinned is the code of the pinned commit (before
   repair F5), kept to record the finding. *)
From Coq Require Import List String Ascii Bool Arith.
Import ListNotations.
Require Import SDJ.Json SDJ.Model2 SDJ.Out SDJ.Split.
Local Open Scope string_scope.

Definition parts_tail (s : string) (parts : list string) : out (string * list string * option string) :=
  let n := List.length parts in
  dO jwt <- index parts 0;
  dO n1 <- usub n 1;
  dO ds <- slice parts 1 n1;
  dO lst <- index parts n1;
  Val (jwt, ds, if String.eqb lst "" then None else Some lst).

(* decoding.rs sd_jwt_parts, as repaired (length guard) *)
Definition sd_jwt_parts_m (s : string) : out (string * list string * option string) :=
  let parts := split_on tilde s in
  if Nat.ltb (List.length parts) 2 then Val (s, [], None) else parts_tail s parts.

(* the pinned code: no guard *)
Definition sd_jwt_parts_pinned (s : string) : out (string * list string * option string) :=
  parts_tail s (split_on tilde s).

(* utils.rs drop_kb *)
Definition drop_kb_m (s : string) : out string :=
  let parts := split_on tilde s in
  if Nat.ltb (List.length parts) 2 then Val s
  else dO n1 <- usub (List.length parts) 1;
       dO f <- slice parts 0 n1;
       Val (join "~" f ++ "~").

(* utils.rs get_jwt_part: Some (header, claims, signature) *)
Definition dot : ascii := "."%char.
Definition jwt_parts_m (s : string) : out (string * string * string) :=
  let parts := split_on dot s in
  if negb (Nat.eqb (List.length parts) 3) then Fail
  else dO a <- index parts 0; dO b <- index parts 1; dO c <- index parts 2; Val (a, b, c).
