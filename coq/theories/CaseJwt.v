(* Case glue for kinds "bstep" (one Validation builder step) and "decode" (crate::decode and the
   verification entry points on a compact JWT under a policy). Serves C04, C11, C16. *)
From Coq Require Import List String Ascii Bool Arith NArith ZArith.
Import ListNotations.
Require Import SDJ.Json SDJ.Wire SDJ.Model2 SDJ.Out SDJ.Restore2 SDJ.Split SDJ.SplitM SDJ.Spec SDJ.Verify SDJ.Issuer2 SDJ.Jwt SDJ.CaseLib.
Local Open Scope string_scope.

Definition jopt_str (j : json) : option string := match j with JStr s => Some s | _ => None end.
Definition jopt_set (j : json) : option (list string) := match j with JArr _ => Some (jstrs j) | _ => None end.
Definition jN (j : json) : N := match j with JNum l => match N_of_dec l with Some n => n | None => 0%N end | _ => 0%N end.

Definition policy_of_json (j : json) : validation :=
  {| v_required := jopt_set (jget "required" j);
     v_leeway := jN (jget "leeway" j);
     v_exp := jbool (jget "validate_exp" j);
     v_nbf := jbool (jget "validate_nbf" j);
     v_validate_aud := jbool (jget "validate_aud" j);
     v_aud := jopt_set (jget "aud" j);
     v_iss := jopt_str (jget "iss" j);
     v_sub := jopt_str (jget "sub" j);
     v_alg := match jalg_of_name (jstr_or_empty (jget "alg" j)) with Some a => a | None => RS256 end |}.

Definition json_of_set (o : option (list string)) : json := match o with Some l => JArr (map JStr l) | None => JNull end.
Definition json_of_policy (v : validation) : json :=
  JObj [("alg", JStr (jalg_name (v_alg v)));
        ("aud", json_of_set (v_aud v));
        ("iss", jopt (v_iss v));
        ("leeway", JNum (dec_of_N (v_leeway v)));
        ("required", json_of_set (v_required v));
        ("sub", jopt (v_sub v));
        ("validate_aud", JBool (v_validate_aud v));
        ("validate_exp", JBool (v_exp v));
        ("validate_nbf", JBool (v_nbf v))].

Definition step_of_json (j : json) : option bstep :=
  match j with
  | JArr [JStr "without_expiry"] => Some SWithoutExpiry
  | JArr [JStr "with_audience"; JStr a] => Some (SWithAudience a)
  | JArr [JStr "with_issuer"; JStr a] => Some (SWithIssuer a)
  | JArr [JStr "with_subject"; JStr a] => Some (SWithSubject a)
  | JArr [JStr "with_leeway"; JNum n] => Some (SWithLeeway (jN (JNum n)))
  | JArr [JStr "with_algorithm"; JStr a] => match jalg_of_name a with Some x => Some (SWithAlgorithm x) | None => None end
  | JArr [JStr "with_required_claim"; JStr c] => Some (SWithRequiredClaim c)
  | _ => None end.

(* C11 frame condition as an executable oracle on the observed policies: every member of the policy other
   than the one the step names is unchanged *)
Definition named_member (s : bstep) : string :=
  match s with
  | SWithoutExpiry => "validate_exp" | SWithAudience _ => "aud" | SWithIssuer _ => "iss" | SWithSubject _ => "sub"
  | SWithLeeway _ => "leeway" | SWithAlgorithm _ => "alg" | SWithRequiredClaim _ => "required" end.

(* "every step sets its own setting to a function of its argument only" (independence of the history):
   the value the named member must have afterwards, when it does not depend on the policy before *)
Definition set_value (s : bstep) : option json :=
  match s with
  | SWithoutExpiry => Some (JBool false)
  | SWithAudience a => Some (JArr [JStr a])
  | SWithIssuer a => Some (JStr a)
  | SWithSubject a => Some (JStr a)
  | SWithLeeway n => Some (JNum (dec_of_N n))
  | SWithAlgorithm a => Some (JStr (jalg_name a))
  | SWithRequiredClaim _ => None          (* adds to a set: depends on the set before *)
  end.

Definition frame_oracle (before : json) (s : bstep) (o : json) : option string :=
  if obs_is "panic" o then Some "builder step panics"
  else match before, obs_val o with
       | JObj bk, JObj ak =>
           let changed := flat_map (fun kv : string * json => let '(k, v) := kv in
                                      match obj_get k ak with
                                      | Some v' => if json_eqb v v' then [] else [k]
                                      | None => [k] end) bk in
           match filter (fun k => negb (String.eqb k (named_member s))) changed with
           | k :: _ => Some ("the step changed the setting " ++ k ++ " which it does not name")
           | [] =>
               match set_value s, obj_get (named_member s) ak with
               | Some want, Some got => if json_eqb want got then None
                                        else Some ("the step does not set " ++ named_member s ++ " to the value given by its argument alone (it depends on the policy before)")
               | Some _, None => Some "unreadable policy"
               | None, Some (JArr l) => (match s with
                                         | SWithRequiredClaim c => if existsb (fun x => json_eqb x (JStr c)) l then None else Some "the required claim was not added"
                                         | _ => None end)
               | None, _ => Some "the required-claims set is missing after with_required_claim"
               end
           end
       | _, _ => Some "unreadable policy" end.

Definition case_bstep (input obs : json) : verdict :=
  match step_of_json (jget "step" input) with
  | None => VBad "bstep: step"
  | Some s =>
      let v := policy_of_json (jget "policy" input) in
      let m := JObj [("o", JStr "ok"); ("v", json_of_policy (step v s))] in
      decide (frame_oracle (jget "policy" input) s) (jget "policy" obs) m true "Validation builder"
  end.

(* ---- decode ---- *)
Definition family_of (s : string) : keyfam :=
  if String.eqb s "secret" then KSecret else if String.eqb s "rsa" then KRsa else if String.eqb s "ec" then KEc else KOther.

Definition jwt_oracles_of (input : json) (token : string) : jwt_oracles :=
  {| jw_parse := fun t => if String.eqb t token
                          then match jget "parse" input with JArr [h; p] => Some (h, p) | _ => None end
                          else None;
     jw_sig_ok := fun t a => String.eqb t token && existsb (String.eqb (jalg_name a)) (jstrs (jget "sig_ok_algs" input));
     jw_family := family_of (jstr_or_empty (jget "family" input));
     jw_now := jN (jget "now" input) |}.

Definition accept_oracle (expect : string) (what : string) (o : json) : option string :=
  if String.eqb expect "any" then None
  else if String.eqb expect "nopanic" then (if obs_is "panic" o then Some (what ++ " panics") else None)
  else if obs_is "panic" o then Some (what ++ " panics")
  else if String.eqb expect "accept" && negb (obs_is "ok" o) then Some (what ++ " rejects a token that satisfies the policy")
  else if String.eqb expect "reject" && negb (obs_is "err" o) then Some (what ++ " accepts a token it must reject")
  else None.

(* C16: the header handed back is the canonical JSON of the issuer's header *)
Definition header_oracle (input : json) (o : json) : option string :=
  match jget "expect_header" input with
  | JObj _ as h => if obs_is "ok" o then
                     match obs_val o with
                     | JArr (h' :: _) => if json_eqb h h' then None else Some "returned header differs from the configured header"
                     | _ => Some "unreadable outcome" end
                   else None
  | _ => None end.

(* the issuer's Header given field by field: the model's build_header + serialisation must print the
   header the token actually carries *)
Definition header_of_spec (j : json) : header :=
  {| h_typ := jopt_str (jget "typ" j);
     h_alg := match jalg_of_name (jstr_or_empty (jget "alg" j)) with Some a => a | None => RS256 end;
     h_cty := jopt_str (jget "cty" j); h_jku := jopt_str (jget "jku" j); h_kid := jopt_str (jget "kid" j);
     h_x5u := jopt_str (jget "x5u" j); h_x5c := jopt_set (jget "x5c" j); h_x5t := jopt_str (jget "x5t" j);
     h_x5t_s256 := jopt_str (jget "x5t_s256" j); h_crit := jopt_set (jget "crit" j) |}.

Definition header_model_agrees (input : json) : bool :=
  match jget "header_spec" input, jget "parse" input with
  | JObj _ as spec, JArr [h; _] => json_eqb (jheader_json (build_header (header_of_spec spec))) h
  | JObj _, _ => false
  | _, _ => true end.

Definition class_only (o : json) : json := JObj [("o", JStr (obs_class o))].

Definition case_decode (input obs : json) : verdict :=
  let token := jstr_or_empty (jget "token" input) in
  let W := jwt_oracles_of input token in
  let v := policy_of_json (jget "policy" input) in
  let expect := jstr_or_empty (jget "expect" input) in
  let nt := jbool (jget "nontrivial" input) in
  let md := obs_of_out (fun r : json * json => let '(h, p) := r in JArr [h; p]) (decode_model W token v) in
  let both (P Q : json -> option string) (o : json) := match P o with Some w => Some w | None => Q o end in
  let v1 := decide (both (accept_oracle expect "decode") (header_oracle input)) (jget "decode" obs) md nt "decode" in
  (* Holder::verify / Verifier::verify on token~ : same acceptance, same header *)
  let O := {| o_hash := fun _ s => s; o_dec := fun _ => DErr; o_jwt := fun t => decode_model W t v;
              o_kb := fun _ _ _ => Fail; o_claims := fun _ => Err |} in
  let sd := match jget "sd" input with JStr s => s | _ => token ++ "~" end in
  let expect_sd := jstr_or_empty (jget "expect_sd" input) in
  let mh := obs_of_out (fun r : json * json * list dpath => let '(h, c, _) := r in JArr [h; c]) (holder_verify O sd) in
  let mv := obs_of_out (fun r : json * json => let '(h, c) := r in JArr [h; c]) (verifier_verify O sd false) in
  let v2 := match jget "hverify" obs with
            | JNull => VOk false
            | oh => decide (both (accept_oracle expect_sd "Holder::verify") (header_oracle input)) oh mh nt "Holder::verify" end in
  let v3 := match jget "vverify" obs with
            | JNull => VOk false
            | ov => decide (both (accept_oracle expect_sd "Verifier::verify") (header_oracle input)) ov mv nt "Verifier::verify" end in
  let v4 := if header_model_agrees input then VOk false else VMismatch "build_header: the token's header is not what the model prints for the configured header" in
  worst v1 (worst v2 (worst v3 v4)).
