(* Validation policy (validation.rs), its translation for the JWT library (decoding.rs build_validation),
   the header translation (encoding.rs build_header), and a model of jwt_rustcrypto::decode / validate.
   The part that models the dependency is MODELLED, NOT VERIFIED: it is validated only by the
   correspondence run (C04, C11, C16). *)
From Coq Require Import List String Ascii Bool Arith NArith.
Import ListNotations.
Require Import SDJ.Json SDJ.Wire SDJ.Model2 SDJ.Out SDJ.Split SDJ.SplitM SDJ.Issuer2.
Local Open Scope string_scope.

Inductive jalg := HS256 | HS384 | HS512 | ES256 | ES256K | ES384 | ES512 | RS256 | RS384 | RS512 | PS256 | PS384 | PS512.

Definition jalg_name (a : jalg) : string :=
  match a with
  | HS256 => "HS256" | HS384 => "HS384" | HS512 => "HS512"
  | ES256 => "ES256" | ES256K => "ES256K" | ES384 => "ES384" | ES512 => "ES512"
  | RS256 => "RS256" | RS384 => "RS384" | RS512 => "RS512"
  | PS256 => "PS256" | PS384 => "PS384" | PS512 => "PS512" end.

Definition all_jalgs : list jalg := [HS256; HS384; HS512; ES256; ES256K; ES384; ES512; RS256; RS384; RS512; PS256; PS384; PS512].

Definition jalg_of_name (s : string) : option jalg := find (fun a => String.eqb (jalg_name a) s) all_jalgs.

Definition jalg_eqb (a b : jalg) : bool := String.eqb (jalg_name a) (jalg_name b).

(* ---------- sets of strings as strictly sorted lists (HashSet<String> up to equality) ---------- *)
Fixpoint sset_insert (x : string) (l : list string) : list string :=
  match l with
  | [] => [x]
  | y :: r => match String.compare x y with
              | Lt => x :: l
              | Eq => l
              | Gt => y :: sset_insert x r end
  end.
Definition sset_mem (x : string) (l : list string) : bool := existsb (String.eqb x) l.

(* ---------- validation.rs ---------- *)
Record validation := {
  v_required : option (list string);
  v_leeway : N;
  v_exp : bool;
  v_nbf : bool;
  v_validate_aud : bool;
  v_aud : option (list string);
  v_iss : option string;
  v_sub : option string;
  v_alg : jalg;
}.

Definition validation_new (a : jalg) : validation :=
  {| v_required := None; v_leeway := 0; v_exp := true; v_nbf := false; v_validate_aud := true;
     v_aud := None; v_iss := None; v_sub := None; v_alg := a |}.
Definition validation_default : validation := validation_new RS256.

Inductive bstep :=
| SWithoutExpiry | SWithAudience (a : string) | SWithIssuer (i : string) | SWithSubject (s : string)
| SWithLeeway (n : N) | SWithAlgorithm (a : jalg) | SWithRequiredClaim (c : string).

Definition set_exp (v : validation) (b : bool) : validation :=
  {| v_required := v_required v; v_leeway := v_leeway v; v_exp := b; v_nbf := v_nbf v; v_validate_aud := v_validate_aud v;
     v_aud := v_aud v; v_iss := v_iss v; v_sub := v_sub v; v_alg := v_alg v |}.
Definition set_aud (v : validation) (a : option (list string)) : validation :=
  {| v_required := v_required v; v_leeway := v_leeway v; v_exp := v_exp v; v_nbf := v_nbf v; v_validate_aud := v_validate_aud v;
     v_aud := a; v_iss := v_iss v; v_sub := v_sub v; v_alg := v_alg v |}.
Definition set_iss (v : validation) (i : option string) : validation :=
  {| v_required := v_required v; v_leeway := v_leeway v; v_exp := v_exp v; v_nbf := v_nbf v; v_validate_aud := v_validate_aud v;
     v_aud := v_aud v; v_iss := i; v_sub := v_sub v; v_alg := v_alg v |}.
Definition set_sub (v : validation) (s : option string) : validation :=
  {| v_required := v_required v; v_leeway := v_leeway v; v_exp := v_exp v; v_nbf := v_nbf v; v_validate_aud := v_validate_aud v;
     v_aud := v_aud v; v_iss := v_iss v; v_sub := s; v_alg := v_alg v |}.
Definition set_leeway (v : validation) (n : N) : validation :=
  {| v_required := v_required v; v_leeway := n; v_exp := v_exp v; v_nbf := v_nbf v; v_validate_aud := v_validate_aud v;
     v_aud := v_aud v; v_iss := v_iss v; v_sub := v_sub v; v_alg := v_alg v |}.
Definition set_alg (v : validation) (a : jalg) : validation :=
  {| v_required := v_required v; v_leeway := v_leeway v; v_exp := v_exp v; v_nbf := v_nbf v; v_validate_aud := v_validate_aud v;
     v_aud := v_aud v; v_iss := v_iss v; v_sub := v_sub v; v_alg := a |}.
Definition set_required (v : validation) (r : option (list string)) : validation :=
  {| v_required := r; v_leeway := v_leeway v; v_exp := v_exp v; v_nbf := v_nbf v; v_validate_aud := v_validate_aud v;
     v_aud := v_aud v; v_iss := v_iss v; v_sub := v_sub v; v_alg := v_alg v |}.

(* the builder methods, as repaired (without_expiry keeps the other settings) *)
Definition step (v : validation) (s : bstep) : validation :=
  match s with
  | SWithoutExpiry => set_exp v false
  | SWithAudience a => set_aud v (Some [a])
  | SWithIssuer i => set_iss v (Some i)
  | SWithSubject x => set_sub v (Some x)
  | SWithLeeway n => set_leeway v n
  | SWithAlgorithm a => set_alg v a
  | SWithRequiredClaim c => set_required v (Some (match v_required v with Some l => sset_insert c l | None => [c] end))
  end.

(* the pinned without_expiry: everything else reset to the defaults (finding F7) *)
Definition step_pinned (v : validation) (s : bstep) : validation :=
  match s with
  | SWithoutExpiry => set_exp validation_default false
  | _ => step v s end.

(* ---------- decoding.rs build_validation : the JWT library's options ---------- *)
Record jwt_options := {
  jo_leeway : N; jo_exp : bool; jo_nbf : bool;
  jo_auds : option (list string); jo_iss : option string; jo_sub : option string;
  jo_algs : list jalg; jo_required : option (list string);
}.

Definition build_validation (v : validation) : jwt_options :=
  {| jo_leeway := v_leeway v; jo_exp := v_exp v; jo_nbf := v_nbf v;
     jo_auds := v_aud v; jo_iss := v_iss v; jo_sub := v_sub v;
     jo_algs := [v_alg v]; jo_required := v_required v |}.

(* ---------- jwt_rustcrypto::validate (modelled dependency) ---------- *)
Definition u64_max : N := 18446744073709551615%N.

(* Value::as_u64: a JSON number printed as plain digits that fits u64 *)
Definition as_u64 (j : json) : option N :=
  match j with
  | JNum lit => if all_digits lit then
                  match N_of_dec lit with Some n => if (n <=? u64_max)%N then Some n else None | None => None end
                else None
  | _ => None end.

(* u64 arithmetic with overflow checks (dev profile) *)
Definition uadd (a b : N) : out N := if (a + b <=? u64_max)%N then Val (a + b)%N else Panic.
Definition usubN (a b : N) : out N := if (b <=? a)%N then Val (a - b)%N else Panic.

Definition obj_get_json (k : string) (claims : list (string * json)) : option json := obj_get k claims.

Definition validate_exp (claims : list (string * json)) (o : jwt_options) (now : N) : out unit :=
  if jo_exp o then
    match obj_get "exp" claims with
    | Some v => match as_u64 v with
                | Some t => dO lim <- uadd t (jo_leeway o); if (now <=? lim)%N then Val tt else Fail
                | None => Fail end
    | None => Fail end
  else Val tt.

Definition validate_nbf (claims : list (string * json)) (o : jwt_options) (now : N) : out unit :=
  if jo_nbf o then
    match obj_get "nbf" claims with
    | Some v => match as_u64 v with
                | Some t => dO lim <- usubN t (jo_leeway o); if (lim <=? now)%N then Val tt else Fail
                | None => Fail end
    | None => Fail end
  else Val tt.

Definition validate_str (claims : list (string * json)) (name : string) (expected : option string) : out unit :=
  match expected with
  | None => Val tt
  | Some e => match obj_get name claims with
              | Some (JStr a) => if String.eqb a e then Val tt else Fail
              | _ => Fail end
  end.

Definition validate_aud (claims : list (string * json)) (expected : option (list string)) : out unit :=
  match expected with
  | None => Val tt
  | Some es =>
      match obj_get "aud" claims with
      | Some (JStr a) => if sset_mem a es then Val tt else Fail
      | Some (JArr xs) => if existsb (fun x => match x with JStr a => sset_mem a es | _ => false end) xs then Val tt else Fail
      | _ => Fail end
  end.

Definition validate_required (claims : list (string * json)) (req : option (list string)) : out unit :=
  match req with
  | None => Val tt
  | Some rs => if forallb (fun r => match obj_get r claims with Some _ => true | None => false end) rs then Val tt else Fail
  end.

Definition validate (claims : list (string * json)) (o : jwt_options) (now : N) : out unit :=
  dO _ <- validate_exp claims o now;
  dO _ <- validate_nbf claims o now;
  dO _ <- validate_str claims "iss" (jo_iss o);
  dO _ <- validate_str claims "sub" (jo_sub o);
  dO _ <- validate_aud claims (jo_auds o);
  validate_required claims (jo_required o).

(* ---------- jwt_rustcrypto::decode (modelled dependency) ---------- *)
Inductive keyfam := KSecret | KRsa | KEc | KOther.

Definition family_ok (k : keyfam) (a : jalg) : bool :=
  match k, a with
  | KSecret, (HS256 | HS384 | HS512) => true
  | KRsa, (RS256 | RS384 | RS512 | PS256 | PS384 | PS512) => true
  | KEc, (ES256 | ES256K | ES384 | ES512) => true
  | _, _ => false end.

Record jwt_oracles := {
  (* split in three, base64url-decode, parse the header into the typed header and the payload as JSON *)
  jw_parse : string -> option (json * json);
  (* the signature over the first two segments verifies under the caller's key with this algorithm *)
  jw_sig_ok : string -> jalg -> bool;
  jw_family : keyfam;
  jw_now : N;
}.

Definition jstr_or_empty_ (j : json) : string := match j with JStr s => s | _ => "" end.

Definition jwt_decode (W : jwt_oracles) (token : string) (o : jwt_options) : out (json * json) :=
  match jw_parse W token with
  | None => Fail
  | Some (hdr, payload) =>
      match jalg_of_name (jstr_or_empty_ (jget "alg" hdr)) with
      | None => Fail
      | Some a =>
          if negb (match jo_algs o with [] => true | l => existsb (jalg_eqb a) l end) then Fail
          else if negb (family_ok (jw_family W) a) then Fail
          else if negb (jw_sig_ok W token a) then Fail
          else match payload with
               | JObj claims => dO _ <- validate claims o (jw_now W); Val (hdr, payload)
               | _ => Fail end
      end
  end.

(* crate::decode = build_validation + jwt_rustcrypto::decode + re-serialisation of the typed header *)
Definition decode_model (W : jwt_oracles) (token : string) (v : validation) : out (json * json) :=
  jwt_decode W token (build_validation v).

(* ---------- header.rs / encoding.rs build_header (the embedded-JWK field is outside the model) ---------- *)
Record header := {
  h_typ : option string; h_alg : jalg; h_cty : option string; h_jku : option string; h_kid : option string;
  h_x5u : option string; h_x5c : option (list string); h_x5t : option string; h_x5t_s256 : option string;
  h_crit : option (list string);
}.
(* the JWT library's header type *)
Record jheader := {
  jh_alg : jalg; jh_jku : option string; jh_kid : option string; jh_x5u : option string; jh_x5c : option (list string);
  jh_x5t : option string; jh_x5t_s256 : option string; jh_typ : option string; jh_cty : option string;
  jh_crit : option (list string);
}.

Definition build_header (h : header) : jheader :=
  {| jh_alg := h_alg h; jh_jku := h_jku h; jh_kid := h_kid h; jh_x5u := h_x5u h; jh_x5c := h_x5c h;
     jh_x5t := h_x5t h; jh_x5t_s256 := h_x5t_s256 h; jh_typ := h_typ h; jh_cty := h_cty h; jh_crit := h_crit h |}.

Definition mem_str (k : string) (o : option string) : list (string * json) :=
  match o with Some s => [(k, JStr s)] | None => [] end.
Definition mem_list (k : string) (o : option (list string)) : list (string * json) :=
  match o with Some l => [(k, JArr (map JStr l))] | None => [] end.

(* serde serialisation of the library's header: member names as declared, None skipped; keys in sorted order *)
Definition jheader_json (j : jheader) : json :=
  JObj ([("alg", JStr (jalg_name (jh_alg j)))] ++ mem_list "crit" (jh_crit j) ++ mem_str "cty" (jh_cty j)
        ++ mem_str "jku" (jh_jku j) ++ mem_str "kid" (jh_kid j) ++ mem_str "typ" (jh_typ j)
        ++ mem_list "x5c" (jh_x5c j) ++ mem_str "x5t" (jh_x5t j) ++ mem_str "x5t_s256" (jh_x5t_s256 j)
        ++ mem_str "x5u" (jh_x5u j))%list.
