(* C12, whole tree: if the duplicate/structure walk that ends restore_disclosures accepts a tree, then
   everywhere in that tree - at any depth - every _sd is an array, every array placeholder is a
   single-member object, and no digest is embedded twice (nor equal to the digest of a placed element). *)
From Coq Require Import List String Ascii Bool Arith Lia.
Import ListNotations.
Require Import SDJ.Json SDJ.Model2 SDJ.Restore2 SDJ.T2a SDJ.T2d SDJ.T2n.
Local Open Scope string_scope.

Definition item_ok_b (x : json) : bool := match item_digest x with Ok _ => true | Err => false end.

Fixpoint cclean (j : json) : bool :=
  match j with
  | JObj kvs => (match obj_get "_sd" kvs with Some (JArr _) | None => true | Some _ => false end) &&
                forallb (fun kv => let '(_, v) := kv in cclean v) kvs
  | JArr xs => forallb (fun x => item_ok_b x && cclean x) xs
  | _ => true end.

(* gs are pairwise distinct and none of them is in seen *)
Definition fresh (gs seen : list string) : Prop := NoDup gs /\ forall g, In g gs -> ~ In g seen.

Lemma fresh_nil seen : fresh [] seen.
Proof. split; [constructor|intros ? []]. Qed.

Lemma fresh_app a b seen : fresh a seen -> fresh b (rev a ++ seen) -> fresh (a ++ b) seen.
Proof.
  intros [Ha1 Ha2] [Hb1 Hb2]. split.
  - apply NoDup_app_intro; auto. intros g Hga Hgb. apply (Hb2 g Hgb). apply in_or_app. left. apply -> in_rev. assumption.
  - intros g Hg Hs. apply in_app_or in Hg as [Hg|Hg]; [exact (Ha2 g Hg Hs)|]. apply (Hb2 g Hg). apply in_or_app. right. assumption.
Qed.

Lemma insert_all_inv gs : forall seen s', insert_all gs seen = Ok s' -> s' = (rev gs ++ seen)%list /\ fresh gs seen.
Proof.
  induction gs as [|g r IH]; intros seen s' Hi; cbn in Hi.
  - injection Hi as <-. split; [reflexivity|apply fresh_nil].
  - unfold set_insert in Hi. destruct (existsb (String.eqb g) seen) eqn:Ee; [discriminate|]. cbn [bind] in Hi.
    destruct (IH _ _ Hi) as [-> [Hn Hd]]. split; [cbn [rev]; rewrite <- app_assoc; reflexivity|].
    assert (Hgs : ~ In g seen).
    { intros Hin. apply not_true_iff_false in Ee. apply Ee. apply existsb_exists. exists g. split; [assumption|apply String.eqb_refl]. }
    split.
    + constructor; [|assumption]. intros Hin. apply (Hd g Hin). left. reflexivity.
    + intros x [<-|Hx]; [assumption|]. intros Hs. apply (Hd x Hx). right. assumption.
Qed.

Lemma fold_ok_inv {A} (F : A -> list string -> res (list string)) (c : A -> list string) (ok : A -> bool) l :
  (forall x s s', In x l -> F x s = Ok s' -> ok x = true /\ s' = (rev (c x) ++ s)%list /\ fresh (c x) s) ->
  forall s0 r, fold_left (fun acc x => do s <- acc; F x s) l (Ok s0) = Ok r ->
    forallb ok l = true /\ r = (rev (flat_map c l) ++ s0)%list /\ fresh (flat_map c l) s0.
Proof.
  induction l as [|x rest IH]; intros HF s0 r Hf; cbn in Hf.
  - injection Hf as <-. split; [reflexivity|]. split; [reflexivity|apply fresh_nil].
  - destruct (F x s0) as [s1|] eqn:Ex.
    + destruct (HF x s0 s1 (or_introl eq_refl) Ex) as (Hok & -> & Hfr).
      destruct (IH (fun y s s' Hy => HF y s s' (or_intror Hy)) _ _ Hf) as (Hall & -> & Hfr2).
      split; [cbn; rewrite Hok, Hall; reflexivity|]. split.
      * cbn [flat_map]. rewrite rev_app_distr, <- app_assoc. reflexivity.
      * cbn [flat_map]. apply fresh_app; assumption.
    + exfalso. clear -Hf. induction rest as [|y rest' IHr]; cbn in Hf; [discriminate|auto].
Qed.

Lemma fold_left_ext {A B} (f g : A -> B -> A) l : (forall a x, f a x = g a x) -> forall a, fold_left f l a = fold_left g l a.
Proof. intros Hfg. induction l as [|x r IH]; intros a; [reflexivity|]. cbn. rewrite Hfg. apply IH. Qed.

Theorem check_digests_accepts_only_clean : forall n j seen seen',
  check_digests n j seen = Ok seen' ->
  cclean j = true /\ seen' = (rev (cdigs j) ++ seen)%list /\ fresh (cdigs j) seen.
Proof.
  induction n as [|n IH]; intros j seen seen' Hc; [discriminate|].
  destruct j as [| b | l | s | xs | kvs]; cbn [check_digests] in Hc;
    try (injection Hc as <-; split; [reflexivity|]; split; [reflexivity|apply fresh_nil]).
  - (* arrays *)
    pose proof (fold_ok_inv (fun item s => do g <- item_digest item; do s1 <- match g with Some g => set_insert g s | None => Ok s end; check_digests n item s1)
                  (fun x => (item_dl x ++ cdigs x)%list) (fun x => item_ok_b x && cclean x) xs) as Hinv.
    destruct (Hinv) with (s0 := seen) (r := seen') as (Hall & Hr & Hfr).
    + intros x s s' _ Hx. unfold item_ok_b, item_dl. destruct (item_digest x) as [g|]; [|discriminate]. cbn [bind] in Hx.
      destruct g as [g|].
      * unfold set_insert in Hx. destruct (existsb (String.eqb g) s) eqn:Ee; [discriminate|]. cbn [bind] in Hx.
        destruct (IH _ _ _ Hx) as (Hcl & -> & Hfr). split; [rewrite Hcl; reflexivity|]. split.
        -- cbn [app rev]. rewrite <- app_assoc. reflexivity.
        -- change ([g] ++ cdigs x)%list with (g :: cdigs x). apply (fresh_app [g]); [|exact Hfr].
           split; [constructor; [intros []|constructor]|]. intros y [<-|[]] Hin. apply not_true_iff_false in Ee. apply Ee.
           apply existsb_exists. exists g. split; [assumption|apply String.eqb_refl].
      * cbn [bind] in Hx. destruct (IH _ _ _ Hx) as (Hcl & -> & Hfr). split; [rewrite Hcl; reflexivity|]. split; [reflexivity|assumption].
    + exact Hc.
    + split; [exact Hall|]. split; assumption.
  - (* objects *)
    destruct (match obj_get "_sd" kvs with Some (JArr xs) => insert_all (strs_of xs) seen | Some _ => Err | None => Ok seen end) as [seen1|] eqn:Esd; [|discriminate].
    cbn [bind] in Hc.
    assert (Hsd : (match obj_get "_sd" kvs with Some (JArr _) | None => true | Some _ => false end) = true /\
                  seen1 = (rev (match obj_get "_sd" kvs with Some (JArr xs) => strs_of xs | _ => [] end) ++ seen)%list /\
                  fresh (match obj_get "_sd" kvs with Some (JArr xs) => strs_of xs | _ => [] end) seen).
    { destruct (obj_get "_sd" kvs) as [sd|].
      - destruct sd; try discriminate. destruct (insert_all_inv _ _ _ Esd) as [-> Hf]. auto.
      - injection Esd as <-. split; [reflexivity|]. split; [reflexivity|apply fresh_nil]. }
    destruct Hsd as (Hsdok & -> & Hfr1).
    pose proof (fold_ok_inv (fun (kv : string * json) s => let '(_, v) := kv in check_digests n v s)
                  (fun kv : string * json => let '(_, v) := kv in cdigs v) (fun kv : string * json => let '(_, v) := kv in cclean v) kvs) as Hinv.
    destruct Hinv with (s0 := (rev (match obj_get "_sd" kvs with Some (JArr xs) => strs_of xs | _ => [] end) ++ seen)%list) (r := seen') as (Hall & Hr & Hfr2).
    + intros [k v] s s' _ Hx. exact (IH _ _ _ Hx).
    + rewrite <- Hc. apply fold_left_ext. intros acc [k v]. reflexivity.
    + split; [cbn [cclean]; rewrite Hsdok, Hall; reflexivity|]. split.
      * cbn [cdigs]. rewrite Hr, rev_app_distr, <- app_assoc. reflexivity.
      * cbn [cdigs]. apply fresh_app; assumption.
Qed.

(* with the digests of the placed array elements as initial set, as restore_disclosures does it *)
Corollary restore_accepts_only_clean H dec show_nat claims L c ps :
  restore_disclosures H dec show_nat claims L = Ok (c, ps) ->
  cclean c = true /\ NoDup (cdigs c) /\ (forall g, In g (cdigs c) -> ~ In g (placed_item_digests ps)).
Proof.
  unfold restore_disclosures. destruct (restore_passes H dec show_nat claims L) as [[c0 ps0]|]; [|discriminate]. cbn [bind].
  destruct (insert_all (placed_item_digests ps0) []) as [seen|] eqn:Ei; [|discriminate]. cbn [bind].
  destruct (check_digests 129 c0 seen) as [seen'|] eqn:Ec; [|discriminate]. cbn [bind]. intros Hq. injection Hq as <- <-.
  destruct (check_digests_accepts_only_clean _ _ _ _ Ec) as (Hcl & _ & Hn & Hd).
  destruct (insert_all_inv _ _ _ Ei) as [-> _].
  split; [assumption|]. split; [assumption|]. intros g Hg Hp. apply (Hd g Hg). apply in_or_app. left. apply -> in_rev. assumption.
Qed.

(* "anywhere in the tree": v is c or nested in it at any depth *)
Inductive sub : json -> json -> Prop :=
| sub_refl j : sub j j
| sub_arr v x xs : In x xs -> sub v x -> sub v (JArr xs)
| sub_obj v k x kvs : In (k, x) kvs -> sub v x -> sub v (JObj kvs).

Lemma cclean_sub v c : sub v c -> cclean c = true -> cclean v = true.
Proof.
  induction 1 as [j | v x xs Hin _ IH | v k x kvs Hin _ IH]; intros Hc; [assumption| |].
  - apply IH. cbn [cclean] in Hc. rewrite forallb_forall in Hc. specialize (Hc _ Hin). apply andb_true_iff in Hc. tauto.
  - apply IH. cbn [cclean] in Hc. apply andb_true_iff in Hc as [_ Hc]. rewrite forallb_forall in Hc. exact (Hc _ Hin).
Qed.

(* what cleanliness says at a node *)
Lemma cclean_obj_sd kvs sd : cclean (JObj kvs) = true -> obj_get "_sd" kvs = Some sd -> exists xs, sd = JArr xs.
Proof.
  cbn [cclean]. intros Hc Hg. rewrite Hg in Hc. destruct sd; try discriminate. eauto.
Qed.

Lemma cclean_placeholder xs kvs d : cclean (JArr xs) = true -> In (JObj kvs) xs -> obj_get "..." kvs = Some d -> List.length kvs = 1.
Proof.
  cbn [cclean]. intros Hc Hin Hg. rewrite forallb_forall in Hc. specialize (Hc _ Hin). apply andb_true_iff in Hc as [Hi _].
  unfold item_ok_b, item_digest in Hi. rewrite Hg in Hi. destruct (Nat.eqb_spec (List.length kvs) 1); [assumption|discriminate].
Qed.

(* C12, at any depth: an accepted result has no non-array _sd, no placeholder with extra members, and no
   digest embedded twice, anywhere *)
Theorem accepted_tree_is_clean H dec show_nat claims L c ps :
  restore_disclosures H dec show_nat claims L = Ok (c, ps) ->
  NoDup (cdigs c) /\
  forall v, sub v c ->
    (forall kvs sd, v = JObj kvs -> obj_get "_sd" kvs = Some sd -> exists xs, sd = JArr xs) /\
    (forall xs kvs d, v = JArr xs -> In (JObj kvs) xs -> obj_get "..." kvs = Some d -> List.length kvs = 1).
Proof.
  intros Hr. destruct (restore_accepts_only_clean _ _ _ _ _ _ _ Hr) as (Hcl & Hnd & _). split; [assumption|].
  intros v Hs. pose proof (cclean_sub v c Hs Hcl) as Hv. split.
  - intros kvs sd -> Hg. eapply cclean_obj_sd; eauto.
  - intros xs kvs d -> Hin Hg. eapply cclean_placeholder; eauto.
Qed.
