(* Case glue for kind "history" (C13): thresholds of the property judged on the summary of a long history
   of issuances. This is statistical support for the premises of the structure theorems (fresh draws,
   large decoy space, shuffled lists) - not a proof of them. *)
From Coq Require Import List String Ascii Bool Arith NArith.
Import ListNotations.
Require Import SDJ.Json SDJ.Wire SDJ.CaseLib SDJ.Verify.
Local Open Scope string_scope.

Definition numN (j : json) : N := match j with JNum l => match N_of_dec l with Some n => n | None => 0%N end | _ => 0%N end.

Definition history_oracle (input o : json) : option string :=
  let g k := numN (jget k o) in
  if negb (g "failures" =? 0)%N then Some "an issuance of a valid document failed"
  else if (g "disclosures" <? numN (jget "min_disclosures" input))%N then Some "history shorter than the property requires (disclosures)"
  else if (g "decoys" <? numN (jget "min_decoys" input))%N then Some "history shorter than the property requires (decoys)"
  else if (g "min_salt_bytes" <? 16)%N then Some "a salt decodes to fewer than 16 bytes"
  else if negb (g "salt_bits_constant" =? 0)%N then Some "a bit position has the same value in every byte of every salt: the salts carry fewer than 128 random bits"
  else if (g "salt_byte_values_seen" <? 250)%N then Some "the bytes of the salts take only a part of the 256 values: the salts carry fewer than 128 random bits"
  else if (g "clone_groups" <? 10)%N then Some "too few groups of cloned issuers observed"
  else if negb (g "clone_groups_frozen" =? 0)%N then Some "six clones of one prepared issuer put every claim's digest at the same position of the top-level list: the clones share their random choices, the order of the list tells which digest hides which claim"
  else if (g "long_lists_seen" <? 100)%N then Some "too few nested digest lists of 320 entries observed"
  else if (g "long_lists_seen" * 6 <? g "long_last_marked_in_first_quarter" * 10)%N then Some "in nested digest lists of 320 entries the digest of the claim marked last lies in the first quarter of the list in more than 60% of the issuances (a uniform position puts it there in 25%): the order of a long list tells the order in which the claims were marked"
  else if (g "long_lists_seen" * 6 <? g "long_first_marked_in_last_quarter" * 10)%N then Some "in nested digest lists of 320 entries the digest of the claim marked first lies in the last quarter of the list in more than 60% of the issuances (a uniform position puts it there in 25%): the order of a long list tells the order in which the claims were marked"
  else if negb (g "dup_salts" =? 0)%N then Some "a salt repeats across disclosures or issuances"
  else if negb (g "dup_digests" =? 0)%N then Some "a digest repeats across claims or issuances"
  else if negb (g "dup_decoys" =? 0)%N then Some "a decoy digest repeats: the decoy space is small enough to enumerate"
  else if negb (g "decoy_equals_real" =? 0)%N then Some "a decoy coincides with a real digest"
  else if negb (g "decoy_count_violations" =? 0)%N then Some "the number of decoys is outside [1, max]"
  else if negb (g "decoy_form_violations" =? 0)%N then Some "a decoy does not have the form of a real digest"
  else if negb (g "decoys_derived_from_published_material" =? 0)%N then Some "a decoy is the hash of another digest-list entry, of a disclosure or of a salt: decoys can be told from real digests by hashing what is published"
  else
    let seen := map numN (jlist (jget "lists_seen" o)) in
    let inorder := map numN (jlist (jget "lists_in_marking_order" o)) in
    let names := ["top-level"; "nested"; "inside a disclosed value"] in
    let bad := flat_map (fun t : (N * N) * string => let '((s, i), nm) := t in
                           if (s <? 200)%N then ["too few " ++ nm ++ " digest lists observed"]
                           else if (i =? s)%N then ["the " ++ nm ++ " digest list is always in the order the claims were marked"]
                           else []) (combine (combine seen inorder) names) in
    (* decoys are appended after the real digests: without a shuffle the real ones are exactly the first entries,
       also when there is a single real digest (one-claim credential) *)
    let mseen := map numN (jlist (jget "mixed_lists_seen" o)) in
    let mfirst := map numN (jlist (jget "mixed_lists_real_first" o)) in
    let mnames := ["13-claim"; "one-claim"] in
    let bad2 := flat_map (fun t : (N * N) * string => let '((s, i), nm) := t in
                            if (s <? 200)%N then ["too few top-level digest lists with decoys observed for the " ++ nm ++ " credential"]
                            else if (i =? s)%N then ["in the " ++ nm ++ " credential the real digests always precede the decoys: decoys are recognisable by position"]
                            else []) (combine (combine mseen mfirst) mnames) in
    match (bad ++ bad2)%list with
    | [] => if Nat.eqb (List.length seen) 3 && Nat.eqb (List.length mseen) 2 then None else Some "summary incomplete"
    | b :: _ => Some b end.

Definition case_history (input obs : json) : verdict :=
  match history_oracle input obs with
  | Some why => VPropFail ("issuance history: " ++ why)
  | None => VOk true end.
