(* Holder::redact / build: which disclosures a presentation carries (C02, C06). *)
From Coq Require Import List String Ascii Bool Arith Lia.
Import ListNotations.
Require Import SDJ.Json SDJ.Wire SDJ.Model2 SDJ.Out SDJ.Restore2 SDJ.Split SDJ.SplitM SDJ.Verify.
Local Open Scope string_scope.

Lemma withheld_app paths a b p : withheld paths (a ++ b) p = withheld paths a p || withheld paths b p.
Proof. unfold withheld. apply existsb_app. Qed.

(* redacting a string that is not the path of a disclosable claim changes nothing *)
Theorem selected_redact_foreign h r :
  is_disclosable (h_paths h) r = false -> selected (holder_redact h r) = selected h.
Proof.
  intros Hn. unfold selected, holder_redact. cbn [h_paths h_redacted]. f_equal.
  apply filter_ext. intros p. rewrite withheld_app. f_equal.
  unfold withheld at 2. cbn [existsb]. rewrite Hn. cbn. rewrite orb_false_r. reflexivity.
Qed.

(* the order of redactions does not matter, nor do repetitions *)
Theorem withheld_perm paths a b p : (forall r, In r a <-> In r b) -> withheld paths a p = withheld paths b p.
Proof.
  intros Hab. unfold withheld. apply eq_true_iff_eq. rewrite !existsb_exists.
  split; intros [r [Hin Hr]]; exists r; (split; [apply Hab; assumption|assumption]).
Qed.

(* C06: no disclosure of a redacted disclosable claim, nor of anything below it, is selected *)
Theorem selected_excludes h r p :
  In r (h_redacted h) -> is_disclosable (h_paths h) r = true ->
  In p (h_paths h) -> (fst p = r \/ starts_with (r ++ "/") (fst p) = true) ->
  ~ In p (filter (fun p => negb (withheld (h_paths h) (h_redacted h) (fst p))) (h_paths h)).
Proof.
  intros Hr Hd Hp Hm Hin. apply filter_In in Hin as [_ Hw]. apply negb_true_iff in Hw.
  assert (Ht : withheld (h_paths h) (h_redacted h) (fst p) = true).
  { unfold withheld. apply existsb_exists. exists r. split; [assumption|]. rewrite Hd. cbn.
    destruct Hm as [-> | ->]; [rewrite String.eqb_refl; reflexivity|apply orb_true_r]. }
  congruence.
Qed.

(* ... and every other disclosure is selected: exactly the non-withheld ones, in the holder's order *)
Theorem selected_spec h :
  selected h = map (fun p => d_str (snd p)) (filter (fun p => negb (withheld (h_paths h) (h_redacted h) (fst p))) (h_paths h)).
Proof. reflexivity. Qed.

(* a disclosure is kept when no redacted disclosable path equals or encloses its path *)
Theorem selected_keeps h p :
  In p (h_paths h) ->
  (forall r, In r (h_redacted h) -> is_disclosable (h_paths h) r = true -> fst p <> r /\ starts_with (r ++ "/") (fst p) = false) ->
  In (d_str (snd p)) (selected h).
Proof.
  intros Hp Hno. unfold selected. apply (in_map (fun p : dpath => d_str (snd p))). apply filter_In. split; [assumption|].
  apply negb_true_iff. unfold withheld. apply not_true_is_false. intros Ht. apply existsb_exists in Ht as [r [Hr Hc]].
  apply andb_true_iff in Hc as [Hd Hm]. destruct (Hno r Hr Hd) as [Hne Hsw].
  apply orb_true_iff in Hm as [Hm|Hm]; [apply String.eqb_eq in Hm; congruence|congruence].
Qed.

(* segment boundary: "/a" does not cover "/ab" *)
Lemma starts_with_app a b : starts_with a (a ++ b) = true.
Proof. induction a as [|c a IH]; cbn; [reflexivity|]. rewrite Ascii.eqb_refl. exact IH. Qed.

(* Holder::build on a bound SD-JWT without key binding parameters is an error *)
Theorem build_bound_requires_kb O E h cseg a c claims :
  jwt_parts_m (h_jwt h) = Val (a, cseg, c) -> o_claims O cseg = Ok claims -> kb_bound claims = true ->
  h_kb h = None -> holder_build O E h = Fail.
Proof.
  intros Hj Hc Hb Hk. unfold holder_build. rewrite Hj. cbn [obind]. rewrite Hc. cbn [of_res obind]. rewrite Hb, Hk. reflexivity.
Qed.
