(* Wire format shared by the Rust harness, the OCaml driver and the in-Coq cross-check.
   value ::= N | T | F | M<literal>; | S<hex>; | A<count>;value* | O<count>;(S<hex>;value)*
   ASCII only; strings are hex encoded byte strings. Model glue only - nothing here is a property. *)
From Coq Require Import List String Ascii Bool Arith NArith.
Import ListNotations.
Require Import SDJ.Json.
Local Open Scope string_scope.

Definition hexval (c : ascii) : option nat :=
  let n := nat_of_ascii c in
  if andb (Nat.leb 48 n) (Nat.leb n 57) then Some (n - 48)
  else if andb (Nat.leb 97 n) (Nat.leb n 102) then Some (n - 87)
  else None.

Fixpoint unhex (s : string) : option string :=
  match s with
  | EmptyString => Some EmptyString
  | String a (String b r) =>
      match hexval a, hexval b, unhex r with
      | Some x, Some y, Some r' => Some (String (ascii_of_nat (16 * x + y)) r')
      | _, _, _ => None
      end
  | _ => None
  end.

(* split at the first ';' *)
Fixpoint until_semi (s : string) : option (string * string) :=
  match s with
  | EmptyString => None
  | String c r =>
      if Ascii.eqb c ";"%char then Some (EmptyString, r)
      else match until_semi r with
           | Some (a, rest) => Some (String c a, rest)
           | None => None end
  end.

Definition digit (c : ascii) : option nat :=
  let n := nat_of_ascii c in if andb (Nat.leb 48 n) (Nat.leb n 57) then Some (n - 48) else None.

Fixpoint nat_of_dec_acc (acc : nat) (s : string) : option nat :=
  match s with
  | EmptyString => Some acc
  | String c r => match digit c with Some d => nat_of_dec_acc (10 * acc + d) r | None => None end
  end.
Definition nat_of_dec (s : string) : option nat :=
  match s with EmptyString => None | _ => nat_of_dec_acc 0 s end.

Fixpoint N_of_dec_acc (acc : N) (s : string) : option N :=
  match s with
  | EmptyString => Some acc
  | String c r => match digit c with Some d => N_of_dec_acc (10 * acc + N.of_nat d)%N r | None => None end
  end.
Definition N_of_dec (s : string) : option N :=
  match s with EmptyString => None | _ => N_of_dec_acc 0%N s end.

Fixpoint parse_val (fuel : nat) (s : string) : option (json * string) :=
  match fuel with
  | O => None
  | S fuel =>
    match s with
    | EmptyString => None
    | String c r =>
      if Ascii.eqb c "N"%char then Some (JNull, r)
      else if Ascii.eqb c "T"%char then Some (JBool true, r)
      else if Ascii.eqb c "F"%char then Some (JBool false, r)
      else if Ascii.eqb c "M"%char then
        match until_semi r with Some (lit, rest) => Some (JNum lit, rest) | None => None end
      else if Ascii.eqb c "S"%char then
        match until_semi r with
        | Some (h, rest) => match unhex h with Some x => Some (JStr x, rest) | None => None end
        | None => None end
      else if Ascii.eqb c "A"%char then
        match until_semi r with
        | Some (cnt, rest) =>
          match nat_of_dec cnt with
          | Some n =>
            (fix items (n : nat) (s : string) : option (json * string) :=
               match n with
               | O => Some (JArr [], s)
               | S n' => match parse_val fuel s with
                         | Some (x, s') => match items n' s' with
                                           | Some (JArr xs, s'') => Some (JArr (x :: xs), s'')
                                           | _ => None end
                         | None => None end
               end) n rest
          | None => None end
        | None => None end
      else if Ascii.eqb c "O"%char then
        match until_semi r with
        | Some (cnt, rest) =>
          match nat_of_dec cnt with
          | Some n =>
            (fix mems (n : nat) (s : string) : option (json * string) :=
               match n with
               | O => Some (JObj [], s)
               | S n' => match parse_val fuel s with
                         | Some (JStr k, s') =>
                           match parse_val fuel s' with
                           | Some (v, s'') => match mems n' s'' with
                                              | Some (JObj kvs, s3) => Some (JObj ((k, v) :: kvs), s3)
                                              | _ => None end
                           | None => None end
                         | _ => None end
               end) n rest
          | None => None end
        | None => None end
      else None
    end
  end.

Definition parse_wire (s : string) : option json :=
  match parse_val (S (String.length s)) s with
  | Some (j, EmptyString) => Some j
  | _ => None
  end.

(* decimal rendering (usize::to_string) *)
Definition digit_char (d : N) : ascii := ascii_of_N (48 + d).
Fixpoint dec_of_pos_fuel (fuel : nat) (n : N) (acc : string) : string :=
  match fuel with
  | O => acc
  | S fuel => let q := (n / 10)%N in let r := (n mod 10)%N in
              let acc' := String (digit_char r) acc in
              if (q =? 0)%N then acc' else dec_of_pos_fuel fuel q acc'
  end.
Definition dec_of_N (n : N) : string := dec_of_pos_fuel (S (N.to_nat (N.log2 n))) n EmptyString.
Definition show_nat (n : nat) : string := dec_of_N (N.of_nat n).

(* JSON accessors used by the case glue *)
Definition jget (k : string) (j : json) : json :=
  match j with JObj kvs => match obj_get k kvs with Some v => v | None => JNull end | _ => JNull end.
Definition jstr (j : json) : option string := match j with JStr s => Some s | _ => None end.
Definition jlist (j : json) : list json := match j with JArr xs => xs | _ => [] end.
Definition jnat (j : json) : option nat := match j with JNum l => nat_of_dec l | _ => None end.
Definition jbool (j : json) : bool := match j with JBool b => b | _ => false end.
Definition jstrs (j : json) : list string :=
  flat_map (fun x => match x with JStr s => [s] | _ => [] end) (jlist j).
