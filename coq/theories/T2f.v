From Coq Require Import List String Ascii Bool Arith Lia Sorting.Sorted.
Import ListNotations.
Require Import SDJ.Json SDJ.Model2 SDJ.ATree SDJ.T2a SDJ.T2b SDJ.T2c SDJ.T2d SDJ.T2e.
Local Open Scope string_scope.

Section F.
Variable H : string -> string.
Variable enc : list json -> string.
Variable show_nat : nat -> string.
Notation blind := (blind H enc).
Notation view := (view H enc).
Notation dig_item := (dig_item H enc).
Notation dig_mem := (dig_mem H enc).
Notation hdigs := (hdigs H enc).
Notation alldigs := (alldigs H enc).
Notation wf := (wf H enc).
Notation vitem R := (ATree.view_item H enc (view R) R).
Notation vmem R := (ATree.view_mem H enc (view R) R).
Notation restore1 := (restore1 show_nat).
Notation hdigs_item := (hdigs_item H enc).
Notation hdigs_mem := (hdigs_mem H enc).
Notation adigs_item := (adigs_item H enc alldigs).
Notation adigs_mem := (adigs_mem alldigs).
Notation Exposed := (Exposed H enc).
Notation closedR := (closedR H enc).

Definition item_h (it : ikind * atree) : nat :=
  let '(k, s) := it in match k with IPlain => aheight s | _ => Nat.max 2 (aheight s) end.
Definition mem_h (mm : string * (mkind * atree)) : nat :=
  let '(name, (k, s)) := mm in match k with MSd _ => 2 | _ => aheight s end.

(* ---- item-level facts ---- *)
Lemma sdwf_vitem R it : wf (snd it) -> sdwf (vitem R it) = true.
Proof.
  destruct it as [k s]; cbn. intros Hw. destruct k as [|salt|g]; [apply sdwf_view; assumption| |reflexivity].
  destruct (R (dig_item salt s)); [apply sdwf_view; assumption|reflexivity].
Qed.
Lemma occurs_vitem R g it : wf (snd it) -> occurs g (vitem R it) = true -> In g (adigs_item it).
Proof.
  destruct it as [k s]; cbn. intros Hw Ho. destruct k as [|salt|g'].
  - eapply occurs_view; eauto.
  - destruct (R (dig_item salt s)); [right; eapply occurs_view; eauto|].
    cbn in Ho. rewrite !orb_false_r in Ho. apply String.eqb_eq in Ho. left. assumption.
  - cbn in Ho. rewrite !orb_false_r in Ho. apply String.eqb_eq in Ho. left. assumption.
Qed.
Lemma height_vitem R it : wf (snd it) -> height (vitem R it) <= item_h it.
Proof.
  destruct it as [k s]; unfold ATree.view_item, item_h; cbn [snd]. intros Hw. pose proof (height_view H enc R s Hw).
  destruct k as [|salt|g]; [assumption| |rewrite height_placeholder; lia].
  destruct (R (dig_item salt s)); [lia|rewrite height_placeholder; lia].
Qed.
Lemma vitem_ext R R' it : (forall g, In g (hdigs_item it) -> R g = R' g) -> vitem R it = vitem R' it.
Proof.
  destruct it as [k s]; cbn. intros Hx. destruct k as [|salt|g]; [apply view_ext; auto| |reflexivity].
  rewrite <- (Hx (dig_item salt s)) by (left; reflexivity).
  destruct (R (dig_item salt s)); [apply view_ext; intros; apply Hx; right; assumption|reflexivity].
Qed.
Lemma hdigs_item_adigs it : wf (snd it) -> item_ok it -> incl (hdigs_item it) (adigs_item it).
Proof.
  destruct it as [k s]; cbn. intros Hw Hok g Hg. pose proof (hdigs_alldigs H enc s Hw) as Hi.
  destruct k as [|salt|g']; cbn in *.
  - auto.
  - destruct Hg as [<-|Hg]; [left; reflexivity|right; auto].
  - unfold item_ok in Hok. cbn in Hok. subst s. destruct Hg.
Qed.

Lemma hmax_in {A} (f : A -> nat) l x : In x l -> f x <= hmax f l.
Proof. induction l as [|y r IH]; [intros []|]. intros [->|Hx]; cbn; [lia|]. specialize (IH Hx). unfold hmax in *. lia. Qed.

Lemma placeholder_of_view R s : wf s -> placeholder_of (view R s) = Ok None.
Proof.
  intros Hw. destruct s as [j | items | mems]; [inversion Hw; subst; destruct j; cbn in *; tauto || reflexivity | reflexivity |].
  rewrite view_obj. unfold placeholder_of. rewrite obj_get_none; [reflexivity|].
  intros Hk. apply keys_view_mems in Hk. apply in_map_iff in Hk as [[name [mk s]] [Hn Hin]]. cbn in Hn. subst name.
  inversion Hw as [| | ? Hs Hall Hok]; subst. rewrite Forall_forall in Hok. specialize (Hok _ Hin). cbn in Hok. tauto.
Qed.

(* ---- the array case, stated on its own ---- *)
Lemma restore1_arr_step n d path R R' items pre it post x' ps :
  items = (pre ++ it :: post)%list ->
  Forall (fun it => wf (snd it)) items -> Forall item_ok items ->
  NoDup (flat_map adigs_item items) -> NoDup (flat_map hdigs_item items) ->
  hmax item_h items <= n ->
  In (d_digest d) (adigs_item it) ->
  (forall g, g <> d_digest d -> R' g = R g) ->
  (forall i, arr_body show_nat (restore1 n d) d path i (vitem R it) = Ok (x', ps i, true)) ->
  x' = vitem R' it ->
  walki (arr_body show_nat (restore1 n d) d path) 0 (map (vitem R) items)
     = Ok (map (vitem R') items, ps (List.length pre), true).
Proof.
  intros -> Hwf Hok Hnd Hndh Hh Hg HR Hbody ->.
  assert (Hothers : forall y, In y (pre ++ post) ->
     (forall i, arr_body show_nat (restore1 n d) d path i (vitem R y) = Ok (vitem R y, [], false)) /\ vitem R' y = vitem R y).
  { intros y Hy.
    assert (Hyin : In y (pre ++ it :: post)) by (apply in_app_or in Hy as [|]; apply in_or_app; [left|right; right]; assumption).
    rewrite Forall_forall in Hwf, Hok.
    assert (Hng : ~ In (d_digest d) (adigs_item y)) by (eapply NoDup_flat_map_other; eauto).
    split.
    - intros i. apply arr_body_no_occ.
      + apply sdwf_vitem. auto.
      + destruct (occurs (d_digest d) (vitem R y)) eqn:E; [|reflexivity]. exfalso. apply Hng. eapply occurs_vitem; eauto.
      + intros p. apply restore1_no_occ.
        * apply sdwf_vitem. auto.
        * destruct (occurs (d_digest d) (vitem R y)) eqn:E; [|reflexivity]. exfalso. apply Hng. eapply occurs_vitem; eauto.
        * pose proof (height_vitem R y (Hwf _ Hyin)). pose proof (hmax_in item_h _ _ Hyin). lia.
    - apply vitem_ext. intros g Hgy. apply HR. intros ->. apply Hng. apply hdigs_item_adigs; auto. }
  rewrite !map_app. cbn [map].
  assert (Hpre : map (vitem R) pre = map (vitem R') pre).
  { apply map_ext_in. intros y Hy. symmetry. apply Hothers. apply in_or_app. left. assumption. }
  assert (Hpost : map (vitem R) post = map (vitem R') post).
  { apply map_ext_in. intros y Hy. symmetry. apply Hothers. apply in_or_app. right. assumption. }
  rewrite (walki_split (arr_body show_nat (restore1 n d) d path) (map (vitem R) pre) (vitem R it) (map (vitem R) post)
             (vitem R' it) (ps (List.length pre)) true 0).
  - rewrite Hpre, Hpost. reflexivity.
  - intros j y Hy. apply in_map_iff in Hy as [y0 [<- Hy0]]. apply Hothers. apply in_or_app. left. assumption.
  - rewrite map_length. cbn [Nat.add]. apply Hbody.
  - intros j y Hy. apply in_map_iff in Hy as [y0 [<- Hy0]]. apply Hothers. apply in_or_app. right. assumption.
Qed.

(* ---- member-level facts ---- *)
Lemma vmem_facts R g m kv : wf (snd (snd m)) ->
  (match fst (snd m) with MSd _ => fst m = "_sd" | _ => fst m <> "_sd" /\ fst m <> "..." end) ->
  In kv (vmem R m) ->
  sdwf (snd kv) = true /\ height (snd kv) <= mem_h m /\ (occurs g (snd kv) = true -> In g (adigs_mem m) /\ (match fst (snd m) with MSd _ => False | _ => True end)).
Proof.
  destruct m as [name [k s]]; unfold ATree.view_mem, mem_h; cbn [fst snd]. intros Hw Hn Hin.
  pose proof (height_view H enc R s Hw) as Hh.
  destruct k as [|salt|l].
  - destruct Hin as [<-|[]]. cbn [snd]. split; [apply sdwf_view; assumption|]. split; [assumption|].
    intros Ho. split; [eapply occurs_view; eauto|exact I].
  - destruct (R (dig_mem salt name s)); [|destruct Hin]. destruct Hin as [<-|[]]. cbn [snd].
    split; [apply sdwf_view; assumption|]. split; [assumption|]. intros Ho. split; [eapply occurs_view; eauto|exact I].
  - destruct Hin as [<-|[]]. cbn [snd]. split.
    + cbn. rewrite forallb_map. apply forallb_forall. reflexivity.
    + split; [apply height_strs|]. rewrite occurs_strs. discriminate.
Qed.

Lemma vmem_ext R R' m : (forall g, In g (hdigs_mem m) -> R g = R' g) -> vmem R m = vmem R' m.
Proof.
  destruct m as [name [k s]]; cbn. intros Hx. destruct k as [|salt|l]; [f_equal; f_equal; apply view_ext; auto| |reflexivity].
  rewrite <- (Hx (dig_mem salt name s)) by (left; reflexivity).
  destruct (R (dig_mem salt name s)); [f_equal; f_equal; apply view_ext; intros; apply Hx; right; assumption|reflexivity].
Qed.

Definition mem_names_ok (m : string * (mkind * atree)) : Prop :=
  match fst (snd m) with MSd _ => fst m = "_sd" | _ => fst m <> "_sd" /\ fst m <> "..." end.

Lemma mem_others n d path R R' mems pre m post :
  mems = (pre ++ m :: post)%list ->
  Forall (fun m => wf (snd (snd m))) mems -> Forall mem_names_ok mems ->
  NoDup (flat_map adigs_mem mems) -> NoDup (flat_map hdigs_mem mems) ->
  hmax mem_h mems <= n ->
  (In (d_digest d) (adigs_mem m) \/ exists y l, In y (pre ++ post) /\ fst (snd y) = MSd l /\ In (d_digest d) l) ->
  In (d_digest d) (hdigs_mem m) ->
  (forall g, g <> d_digest d -> R' g = R g) ->
  forall y, In y (pre ++ post) ->
    (forall kv, In kv (vmem R y) -> obj_body (restore1 n d) path kv = Ok (kv, [], false)) /\ vmem R' y = vmem R y.
Proof.
  intros -> Hwf Hnames Hnd Hndh Hh Hg Hgh HR y Hy.
  assert (Hyin : In y (pre ++ m :: post)) by (apply in_app_or in Hy as [|]; apply in_or_app; [left|right; right]; assumption).
  rewrite Forall_forall in Hwf, Hnames.
  split.
  - intros [k' v'] Hkv. destruct (vmem_facts R (d_digest d) y (k', v') (Hwf _ Hyin) (Hnames _ Hyin) Hkv) as (Hs & Hht & Ho).
    cbn [snd] in *. unfold obj_body. rewrite restore1_no_occ; [reflexivity|assumption| |].
    + destruct (occurs (d_digest d) v') eqn:E; [|reflexivity]. exfalso. destruct (Ho eq_refl) as [Hin Hkind].
      destruct Hg as [Hg|(y0 & l & Hy0 & Hk0 & Hl)].
      * eapply (NoDup_flat_map_other adigs_mem pre m post); eauto.
      * (* the digest sits in the _sd list of y0; y is a different, non-_sd member that also has it *)
        assert (Hy0in : In y0 (pre ++ m :: post)) by (apply in_app_or in Hy0 as [|]; apply in_or_app; [left|right; right]; assumption).
        destruct (in_split _ _ Hy0in) as (l1 & l2 & Hsplit).
        assert (Hneq : y <> y0) by (intros ->; rewrite Hk0 in Hkind; exact Hkind).
        assert (Hyo : In y (l1 ++ l2)).
        { rewrite Hsplit in Hyin. apply in_app_or in Hyin as [|[|]]; [apply in_or_app; left; assumption|congruence|apply in_or_app; right; assumption]. }
        rewrite Hsplit in Hnd.
        eapply (NoDup_flat_map_other adigs_mem l1 y0 l2 (d_digest d) Hnd); [|exact Hyo|exact Hin].
        destruct y0 as [n0 [k0 s0]]; cbn in Hk0 |- *. subst k0. exact Hl.
    + pose proof (hmax_in mem_h _ _ Hyin). lia.
  - symmetry. apply vmem_ext. intros g Hgy. symmetry. apply HR. intros ->.
    eapply (NoDup_flat_map_other hdigs_mem pre m post); eauto.
Qed.
End F.
