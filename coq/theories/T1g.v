From Coq Require Import List String Ascii Bool Arith Lia Sorting.Sorted Permutation.
Import ListNotations.
Require Import SDJ.Json SDJ.Model2 SDJ.ATree SDJ.T2a SDJ.T2b SDJ.T2c SDJ.T2d SDJ.T2e SDJ.Issuer1 SDJ.T1a SDJ.T1b SDJ.T1c SDJ.T1d SDJ.T1f.
Local Open Scope string_scope.

Lemma list_set_mid {A} (pre post : list A) x y : list_set (List.length pre) y (pre ++ x :: post) = (pre ++ y :: post)%list.
Proof. induction pre as [|z r IH]; cbn; [reflexivity|]. rewrite IH. reflexivity. Qed.

Lemma perm_mid {A} (a b c : list A) g : Permutation (a ++ (g :: b) ++ c) (g :: a ++ b ++ c).
Proof. cbn. symmetry. apply Permutation_middle. Qed.

Lemma perm_mid2 {A} (a b b' c : list A) g : Permutation b' (g :: b) -> Permutation (a ++ b' ++ c) (g :: a ++ b ++ c).
Proof.
  intros Hp. transitivity (a ++ (g :: b) ++ c)%list.
  - apply Permutation_app_head. apply Permutation_app_tail. assumption.
  - apply perm_mid.
Qed.

Section T1g.
Variable H : string -> string.
Variable enc : list json -> string.
Variable parse_index : string -> option nat.
Variable parse_usize : string -> option nat.
Variable pos : string -> nat.
Notation add_sd := (T1a.add_sd pos).
Notation blind := (blind H enc).
Notation dig_item := (dig_item H enc).
Notation dig_mem := (dig_mem H enc).
Notation wf := (wf H enc).
Notation hdigs := (hdigs H enc).
Notation alldigs := (alldigs H enc).
Notation hdigs_item := (hdigs_item H enc).
Notation hdigs_mem := (hdigs_mem H enc).
Notation adigs_item := (adigs_item H enc alldigs).
Notation adigs_mem := (adigs_mem alldigs).
Notation mark := (mark H enc parse_index parse_usize pos).
Notation target := (target parse_index parse_usize).
Notation mk_disc := (mk_disc H enc).

Lemma add_sd_hdigs g : forall mems, Forall (fun m => match fst (snd m) with MSd _ => snd (snd m) = ALeaf JNull | _ => True end) mems ->
  flat_map hdigs_mem (add_sd g mems) = flat_map hdigs_mem mems.
Proof.
  induction mems as [|[n [mk s]] r IH]; intros Hok; cbn [add_sd]; [reflexivity|].
  inversion Hok as [|? ? H1 H2]; subst. cbn in H1.
  destruct (String.compare "_sd" n).
  - cbn [flat_map]. f_equal. destruct mk; reflexivity.
  - reflexivity.
  - cbn [flat_map]. rewrite IH by assumption. reflexivity.
Qed.

Lemma add_sd_alldigs g : forall mems, Forall sd_names_ok mems ->
  Permutation (flat_map adigs_mem (add_sd g mems)) (g :: flat_map adigs_mem mems).
Proof.
  induction mems as [|[n [mk s]] r IH]; intros Hn; cbn [add_sd]; [reflexivity|].
  inversion Hn as [|? ? Hn1 Hn2]; subst. unfold sd_names_ok in Hn1. cbn in Hn1.
  destruct (String.compare "_sd" n) eqn:Ec.
  - apply String.compare_eq_iff in Ec. subst n. destruct mk as [| |l]; try (exfalso; apply Hn1; reflexivity).
    cbn [flat_map T2c.adigs_mem].
    match goal with |- Permutation (insert_at ?n g l ++ ?Y) _ => change (g :: l ++ Y)%list with ((g :: l) ++ Y)%list end.
    apply Permutation_app_tail. apply perm_insert_at.
  - reflexivity.
  - cbn [flat_map]. etransitivity; [apply Permutation_app_head; apply IH; assumption|].
    symmetry. apply Permutation_middle.
Qed.

Theorem mark_digs key salt : forall toks t t' k s,
  wf t -> mark toks key salt t = Some t' -> target toks key t = Some (k, s) ->
  let g := d_digest (mk_disc salt k (blind s)) in
  Permutation (hdigs t') (g :: hdigs t) /\ Permutation (alldigs t') (g :: alldigs t).
Proof.
  induction toks as [|tok rest IH]; intros t t' k s Hw Hm Ht.
  - destruct t as [j | items | mems]; cbn [T1a.mark] in Hm; cbn [T1a.target] in Ht; [discriminate| |].
    + destruct (parse_usize key) as [i|]; [|discriminate].
      unfold upd_item in Hm. destruct (nth_error items i) as [[ik s0]|] eqn:En; [|discriminate].
      destruct ik as [| |]; cbn in Hm; try discriminate. injection Hm as <-. injection Ht as <- <-.
      apply nth_error_split in En as (pre & post & -> & <-). rewrite list_set_mid.
      rewrite !(hdigs_arr H enc), !alldigs_arr, !flat_map_app. cbn [flat_map T2e.hdigs_item T2c.adigs_item].
      split; apply perm_mid.
    + destruct (upd_mem key _ mems) as [mems'|] eqn:Eu; [|discriminate].
      apply upd_mem_inv in Eu as (pre & x & post & x' & Hsplit & -> & Hf & Hni).
      destruct x as [[| |] s0]; try discriminate. injection Hf as <-.
      rewrite Hsplit, find_mid in Hm, Ht by assumption. injection Hm as <-. injection Ht as <- <-.
      pose proof (wf_obj_names H enc parse_index parse_usize pos _ Hw) as Hn0.
      inversion Hw as [| | ? Hs Hall Hok]; subst mems0.
      set (mems' := (pre ++ (key, (MHid salt, s0)) :: post)%list).
      assert (Hkey : key <> "_sd").
      { rewrite Forall_forall in Hok. specialize (Hok (key, (MPlain, s0))). rewrite Hsplit in Hok.
        specialize (Hok ltac:(apply in_or_app; right; left; reflexivity)). cbn in Hok. tauto. }
      assert (Hn' : Forall sd_names_ok mems').
      { rewrite Hsplit in Hn0. unfold mems'. apply Forall_app in Hn0 as [Hn1 Hn2]. apply Forall_app. split; [assumption|].
        inversion Hn2; subst. constructor; [|assumption]. unfold sd_names_ok. cbn. assumption. }
      assert (Hleaf : Forall (fun m => match fst (snd m) with MSd _ => snd (snd m) = ALeaf JNull | _ => True end) mems').
      { apply Forall_forall. intros [n [mk sm]] Hin. cbn. destruct mk; try exact I.
        assert (Hin0 : In (n, (MSd l, sm)) mems).
        { unfold mems' in Hin. rewrite Hsplit. apply in_app_or in Hin as [|[Hq|]]; [apply in_or_app; left; assumption|discriminate|apply in_or_app; right; right; assumption]. }
        rewrite Forall_forall in Hok. specialize (Hok _ Hin0). cbn in Hok. tauto. }
      rewrite !(hdigs_obj H enc), !alldigs_obj. rewrite add_sd_hdigs by assumption.
      split.
      * unfold mems'. rewrite Hsplit, !flat_map_app. cbn [flat_map T2e.hdigs_mem]. apply perm_mid.
      * etransitivity; [apply add_sd_alldigs; assumption|]. apply perm_skip.
        unfold mems'. rewrite Hsplit, !flat_map_app. reflexivity.
  - destruct t as [j | items | mems]; cbn [T1a.mark] in Hm; cbn [T1a.target] in Ht; [discriminate| |].
    + destruct (parse_index tok) as [i|]; [|discriminate].
      unfold upd_item in Hm. destruct (nth_error items i) as [[ik s0]|] eqn:En; [|discriminate].
      destruct ik as [| |]; cbn in Hm; try discriminate.
      destruct (mark rest key salt s0) as [s'|] eqn:Ems; cbn in Hm; [|discriminate]. injection Hm as <-.
      assert (Hws : wf s0).
      { inversion Hw as [| ? Hall Hiok |]; subst. rewrite Forall_forall in Hall. apply nth_error_In in En. exact (Hall _ En). }
      destruct (IH _ _ _ _ Hws Ems Ht) as [Hp1 Hp2].
      apply nth_error_split in En as (pre & post & -> & <-). rewrite list_set_mid.
      rewrite !(hdigs_arr H enc), !alldigs_arr, !flat_map_app. cbn [flat_map T2e.hdigs_item T2c.adigs_item].
      split; apply perm_mid2; assumption.
    + destruct (upd_mem tok _ mems) as [mems'|] eqn:Eu; cbn in Hm; [|discriminate]. injection Hm as <-.
      apply upd_mem_inv in Eu as (pre & x & post & x' & Hsplit & -> & Hf & Hni).
      destruct x as [[| |] s0]; try discriminate.
      destruct (mark rest key salt s0) as [s'|] eqn:Ems; cbn in Hf; [|discriminate]. injection Hf as <-.
      rewrite Hsplit, find_mid in Ht by assumption.
      assert (Hws : wf s0).
      { inversion Hw as [| | ? Hs Hall Hok]; subst. rewrite Forall_forall in Hall. apply (Hall (tok, (MPlain, s0))). apply in_or_app. right. left. reflexivity. }
      destruct (IH _ _ _ _ Hws Ems Ht) as [Hp1 Hp2].
      rewrite Hsplit, !(hdigs_obj H enc), !alldigs_obj, !flat_map_app. cbn [flat_map T2e.hdigs_mem T2c.adigs_mem].
      split; apply perm_mid2; assumption.
Qed.
End T1g.
