(* Validation policy: frame conditions, commutation, forwarding, enforcement (C11). *)
From Coq Require Import List String Ascii Bool Arith NArith Lia.
Import ListNotations.
Require Import SDJ.Json SDJ.Wire SDJ.Model2 SDJ.Out SDJ.Jwt.
Local Open Scope string_scope.

Inductive field := FRequired | FLeeway | FExp | FAud | FIss | FSub | FAlg.

Definition named (s : bstep) : field :=
  match s with
  | SWithoutExpiry => FExp | SWithAudience _ => FAud | SWithIssuer _ => FIss | SWithSubject _ => FSub
  | SWithLeeway _ => FLeeway | SWithAlgorithm _ => FAlg | SWithRequiredClaim _ => FRequired end.

(* each builder step changes only the setting it names *)
Theorem step_frame v s :
  (named s <> FRequired -> v_required (step v s) = v_required v) /\
  (named s <> FLeeway -> v_leeway (step v s) = v_leeway v) /\
  (named s <> FExp -> v_exp (step v s) = v_exp v) /\
  v_nbf (step v s) = v_nbf v /\
  v_validate_aud (step v s) = v_validate_aud v /\
  (named s <> FAud -> v_aud (step v s) = v_aud v) /\
  (named s <> FIss -> v_iss (step v s) = v_iss v) /\
  (named s <> FSub -> v_sub (step v s) = v_sub v) /\
  (named s <> FAlg -> v_alg (step v s) = v_alg v).
Proof. destruct s; cbn; repeat split; intros; congruence. Qed.

Lemma sset_mem_insert x c l : sset_mem x (sset_insert c l) = String.eqb x c || sset_mem x l.
Proof.
  unfold sset_mem. induction l as [|y r IH]; cbn [sset_insert existsb]; [reflexivity|].
  destruct (String.compare c y) eqn:Ec; cbn [existsb].
  - apply String.compare_eq_iff in Ec. subst. destruct (String.eqb x y); reflexivity.
  - reflexivity.
  - rewrite IH. destruct (String.eqb x y), (String.eqb x c); reflexivity.
Qed.

(* ... and sets that setting to its argument *)
Theorem step_sets v s :
  match s with
  | SWithoutExpiry => v_exp (step v s) = false
  | SWithAudience a => v_aud (step v s) = Some [a]
  | SWithIssuer i => v_iss (step v s) = Some i
  | SWithSubject x => v_sub (step v s) = Some x
  | SWithLeeway n => v_leeway (step v s) = n
  | SWithAlgorithm a => v_alg (step v s) = a
  | SWithRequiredClaim c => exists l, v_required (step v s) = Some l /\
        forall x, sset_mem x l = String.eqb x c || match v_required v with Some l0 => sset_mem x l0 | None => false end
  end.
Proof.
  destruct s; cbn [step set_exp set_aud set_iss set_sub set_leeway set_alg set_required v_exp v_aud v_iss v_sub v_leeway v_alg v_required]; try reflexivity.
  destruct (v_required v) as [l0|]; eexists; (split; [reflexivity|]); intros x.
  - apply sset_mem_insert.
  - unfold sset_mem. cbn. reflexivity.
Qed.

(* steps that name different settings commute *)
Theorem step_commute v a b : named a <> named b -> step (step v a) b = step (step v b) a.
Proof. destruct a, b; cbn; intros Hn; try reflexivity; congruence. Qed.

(* the finding behind repair F7: the pinned without_expiry does not satisfy the frame condition *)
Theorem step_pinned_refuted : exists v, v_alg (step_pinned v SWithoutExpiry) <> v_alg v.
Proof. exists (validation_new HS256). cbn. discriminate. Qed.

(* every setting reaches the option of the same meaning *)
Theorem build_validation_forwards v :
  jo_algs (build_validation v) = [v_alg v] /\ jo_leeway (build_validation v) = v_leeway v /\
  jo_exp (build_validation v) = v_exp v /\ jo_nbf (build_validation v) = v_nbf v /\
  jo_auds (build_validation v) = v_aud v /\ jo_iss (build_validation v) = v_iss v /\
  jo_sub (build_validation v) = v_sub v /\ jo_required (build_validation v) = v_required v.
Proof. repeat split. Qed.

(* enforcement: validate accepts exactly when every configured constraint holds *)
Definition exp_holds (claims : list (string * json)) (o : jwt_options) (now : N) : Prop :=
  jo_exp o = true -> exists t, obj_get "exp" claims = Some t /\ exists n, as_u64 t = Some n /\ (now <= n + jo_leeway o)%N.
Definition nbf_holds (claims : list (string * json)) (o : jwt_options) (now : N) : Prop :=
  jo_nbf o = true -> exists t, obj_get "nbf" claims = Some t /\ exists n, as_u64 t = Some n /\ (n - jo_leeway o <= now)%N.
Definition str_holds (claims : list (string * json)) (name : string) (e : option string) : Prop :=
  forall x, e = Some x -> obj_get name claims = Some (JStr x).
Definition aud_holds (claims : list (string * json)) (e : option (list string)) : Prop :=
  forall es, e = Some es ->
    (exists a, obj_get "aud" claims = Some (JStr a) /\ sset_mem a es = true) \/
    (exists xs, obj_get "aud" claims = Some (JArr xs) /\ exists a, In (JStr a) xs /\ sset_mem a es = true).
Definition required_holds (claims : list (string * json)) (r : option (list string)) : Prop :=
  forall rs, r = Some rs -> forall c, In c rs -> obj_get c claims <> None.

Lemma validate_str_iff claims name e : validate_str claims name e = Val tt <-> str_holds claims name e.
Proof.
  unfold validate_str, str_holds. destruct e as [x|]; [|split; [intros _ y Hy; discriminate|reflexivity]].
  split.
  - destruct (obj_get name claims) as [[| | |a| |]|]; try discriminate.
    destruct (String.eqb_spec a x); [|discriminate]. intros _ y Hy. injection Hy as <-. congruence.
  - intros Hh. rewrite (Hh x eq_refl). rewrite String.eqb_refl. reflexivity.
Qed.

Lemma validate_aud_iff claims e : validate_aud claims e = Val tt <-> aud_holds claims e.
Proof.
  unfold validate_aud, aud_holds. destruct e as [es|]; [|split; [intros _ y Hy; discriminate|reflexivity]].
  split.
  - destruct (obj_get "aud" claims) as [[| | |a|xs|]|]; try discriminate.
    + destruct (sset_mem a es) eqn:Em; [|discriminate]. intros _ y Hy. injection Hy as <-. left. eauto.
    + destruct (existsb _ xs) eqn:Ex; [|discriminate]. intros _ y Hy. injection Hy as <-. right.
      apply existsb_exists in Ex as [x [Hin Hx]]. destruct x; try discriminate. eauto 6.
  - intros Hh. destruct (Hh es eq_refl) as [(a & -> & Hm)|(xs & -> & a & Hin & Hm)].
    + rewrite Hm. reflexivity.
    + replace (existsb _ xs) with true; [reflexivity|]. symmetry. apply existsb_exists. exists (JStr a). split; assumption.
Qed.

Lemma validate_required_iff claims r : validate_required claims r = Val tt <-> required_holds claims r.
Proof.
  unfold validate_required, required_holds. destruct r as [rs|]; [|split; [intros _ y Hy; discriminate|reflexivity]].
  split.
  - destruct (forallb _ rs) eqn:Ef; [|discriminate]. intros _ y Hy c Hc. injection Hy as <-.
    rewrite forallb_forall in Ef. specialize (Ef c Hc). destruct (obj_get c claims); [discriminate|discriminate].
  - intros Hh. replace (forallb _ rs) with true; [reflexivity|]. symmetry. apply forallb_forall. intros c Hc.
    specialize (Hh rs eq_refl c Hc). destruct (obj_get c claims); [reflexivity|congruence].
Qed.

(* time claims: when the u64 arithmetic does not overflow (otherwise the dependency panics: known finding KF-1) *)
Lemma validate_exp_iff claims o now :
  (forall t n, obj_get "exp" claims = Some t -> as_u64 t = Some n -> (n + jo_leeway o <= u64_max)%N) ->
  (validate_exp claims o now = Val tt <-> exp_holds claims o now).
Proof.
  intros Hno. unfold validate_exp, exp_holds. destruct (jo_exp o); [|split; [intros _ Hf; discriminate|reflexivity]].
  destruct (obj_get "exp" claims) as [t|] eqn:Et.
  - destruct (as_u64 t) as [n|] eqn:En.
    + unfold uadd. specialize (Hno t n eq_refl En). apply N.leb_le in Hno. rewrite Hno. cbn [obind].
      destruct (N.leb_spec now (n + jo_leeway o)).
      * split; [intros _ _; exists t; split; [reflexivity|exists n; split; [assumption|assumption]]|reflexivity].
      * split; [discriminate|]. intros Hh. destruct (Hh eq_refl) as (t' & Ht' & n' & Hn' & Hle).
        injection Ht' as <-. rewrite En in Hn'. injection Hn' as <-. lia.
    + split; [discriminate|]. intros Hh. destruct (Hh eq_refl) as (t' & Ht' & n' & Hn' & _). injection Ht' as <-. congruence.
  - split; [discriminate|]. intros Hh. destruct (Hh eq_refl) as (t' & Ht' & _). discriminate.
Qed.

Lemma validate_nbf_iff claims o now :
  (forall t n, obj_get "nbf" claims = Some t -> as_u64 t = Some n -> (jo_leeway o <= n)%N) ->
  (validate_nbf claims o now = Val tt <-> nbf_holds claims o now).
Proof.
  intros Hno. unfold validate_nbf, nbf_holds. destruct (jo_nbf o); [|split; [intros _ Hf; discriminate|reflexivity]].
  destruct (obj_get "nbf" claims) as [t|] eqn:Et.
  - destruct (as_u64 t) as [n|] eqn:En.
    + unfold usubN. specialize (Hno t n eq_refl En). apply N.leb_le in Hno. rewrite Hno. cbn [obind].
      destruct (N.leb_spec (n - jo_leeway o) now).
      * split; [intros _ _; exists t; split; [reflexivity|exists n; split; [assumption|assumption]]|reflexivity].
      * split; [discriminate|]. intros Hh. destruct (Hh eq_refl) as (t' & Ht' & n' & Hn' & Hle).
        injection Ht' as <-. rewrite En in Hn'. injection Hn' as <-. lia.
    + split; [discriminate|]. intros Hh. destruct (Hh eq_refl) as (t' & Ht' & n' & Hn' & _). injection Ht' as <-. congruence.
  - split; [discriminate|]. intros Hh. destruct (Hh eq_refl) as (t' & Ht' & _). discriminate.
Qed.

Lemma bind_unit_iff (x : out unit) (f : unit -> out unit) : obind x f = Val tt <-> x = Val tt /\ f tt = Val tt.
Proof. destruct x as [[]| |]; cbn; split; intros H; try tauto; try discriminate; destruct H; discriminate. Qed.

Theorem validate_iff claims o now :
  (forall t n, obj_get "exp" claims = Some t -> as_u64 t = Some n -> (n + jo_leeway o <= u64_max)%N) ->
  (forall t n, obj_get "nbf" claims = Some t -> as_u64 t = Some n -> (jo_leeway o <= n)%N) ->
  (validate claims o now = Val tt <->
   exp_holds claims o now /\ nbf_holds claims o now /\ str_holds claims "iss" (jo_iss o) /\
   str_holds claims "sub" (jo_sub o) /\ aud_holds claims (jo_auds o) /\ required_holds claims (jo_required o)).
Proof.
  intros H1 H2. unfold validate. rewrite !bind_unit_iff.
  rewrite (validate_exp_iff _ _ _ H1), (validate_nbf_iff _ _ _ H2), !validate_str_iff, validate_aud_iff, validate_required_iff.
  tauto.
Qed.

(* crate::decode accepts only what the policy's algorithm, the key family, the signature oracle and
   validate accept *)
Theorem decode_model_accepts W token v hdr payload :
  decode_model W token v = Val (hdr, payload) ->
  jw_parse W token = Some (hdr, payload) /\
  exists a claims, jalg_of_name (jstr_or_empty_ (jget "alg" hdr)) = Some a /\ jalg_eqb a (v_alg v) = true /\
    family_ok (jw_family W) a = true /\ jw_sig_ok W token a = true /\ payload = JObj claims /\
    validate claims (build_validation v) (jw_now W) = Val tt.
Proof.
  unfold decode_model, jwt_decode. destruct (jw_parse W token) as [[h p]|]; [|discriminate].
  destruct (jalg_of_name _) as [a|] eqn:Ea; [|discriminate]. cbn [build_validation jo_algs existsb].
  rewrite orb_false_r.
  destruct (jalg_eqb a (v_alg v)) eqn:Eq; cbn [negb]; [|discriminate].
  destruct (family_ok (jw_family W) a) eqn:Ef; cbn [negb]; [|discriminate].
  destruct (jw_sig_ok W token a) eqn:Es; cbn [negb]; [|discriminate].
  destruct p as [| | | | |claims]; try discriminate.
  destruct (validate claims _ (jw_now W)) as [[]| |] eqn:Ev; cbn [obind]; try discriminate.
  intros Hq. injection Hq as <- <-. split; [reflexivity|]. exists a, claims. repeat split; assumption.
Qed.
