From Coq Require Import List String Ascii Bool Arith Lia Sorting.Sorted OrderedTypeEx.
Import ListNotations.
Require Import SDJ.Json SDJ.Model2 SDJ.ATree SDJ.T2a.
Local Open Scope string_scope.

Definition slt (a b : string) : Prop := String.compare a b = Lt.
Lemma slt_trans a b c : slt a b -> slt b c -> slt a c.
Proof. unfold slt. rewrite !String_as_OT.cmp_lt. apply String_as_OT.lt_trans. Qed.
Lemma slt_irrefl a : ~ slt a a.
Proof. unfold slt. rewrite String_as_OT.cmp_lt. intros Hl. exact (String_as_OT.lt_not_eq _ _ Hl eq_refl). Qed.
Lemma slt_gt a b : slt a b -> String.compare b a = Gt.
Proof. unfold slt. intros Hl. rewrite String.compare_antisym, Hl. reflexivity. Qed.

(* ---------- sorted association lists ---------- *)
Lemma obj_insert_mid (pre post : list (string * json)) k v :
  Forall (fun kv => slt (fst kv) k) pre -> Forall (fun kv => slt k (fst kv)) post ->
  obj_insert k v (pre ++ post) = (pre ++ (k, v) :: post)%list.
Proof.
  intros Hpre Hpost. induction Hpre as [|[k' v'] r Hk _ IH]; cbn.
  - destruct post as [|[k2 v2] post']; [reflexivity|].
    inversion Hpost as [|? ? Hk2 _]; subst. cbn in Hk2. cbn. unfold slt in Hk2. rewrite Hk2. reflexivity.
  - cbn in Hk. rewrite (slt_gt _ _ Hk). rewrite IH. reflexivity.
Qed.

Lemma obj_get_none k (kvs : list (string * json)) : ~ In k (map fst kvs) -> obj_get k kvs = None.
Proof.
  induction kvs as [|[k' v'] r IH]; cbn; [reflexivity|]. intros Hn.
  destruct (String.eqb_spec k k'); [exfalso; apply Hn; left; congruence|]. apply IH. tauto.
Qed.

Lemma obj_get_unique k v (kvs : list (string * json)) : NoDup (map fst kvs) -> In (k, v) kvs -> obj_get k kvs = Some v.
Proof.
  induction kvs as [|[k' v'] r IH]; cbn; [intros _ []|]. intros Hnd [Hq|Hin].
  - injection Hq as -> ->. rewrite String.eqb_refl. reflexivity.
  - inversion Hnd as [|? ? Hni Hnd']; subst.
    destruct (String.eqb_spec k k') as [->|]; [exfalso; apply Hni; apply in_map_iff; exists (k', v); auto|].
    auto.
Qed.

Lemma ssorted_split {A} (R : A -> A -> Prop) l1 x l2 :
  StronglySorted R (l1 ++ x :: l2) -> Forall (fun y => R y x) l1 /\ Forall (R x) l2.
Proof.
  induction l1 as [|y r IH]; cbn; intros Hs.
  - apply StronglySorted_inv in Hs as [_ Hf]. split; [constructor|exact Hf].
  - apply StronglySorted_inv in Hs as [Hs Hf]. destruct (IH Hs) as [H1 H2]. split; [|exact H2].
    constructor; [|exact H1]. rewrite Forall_forall in Hf. apply Hf. apply in_or_app. right. left. reflexivity.
Qed.

Lemma ssorted_nodup l : StronglySorted slt l -> NoDup l.
Proof.
  induction l as [|x r IH]; intros Hs; [constructor|].
  apply StronglySorted_inv in Hs as [Hs Hf]. constructor; [|auto].
  intros Hin. rewrite Forall_forall in Hf. exact (slt_irrefl _ (Hf _ Hin)).
Qed.
