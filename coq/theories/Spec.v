(* What the properties talk about, independent of the algorithms: typed paths into a claims tree and
   the projection "original claims minus hidden nodes". Used as the property oracle of the case glue
   and related to the annotated-tree projection [proj] by theorems. *)
From Coq Require Import List String Ascii Bool Arith.
Import ListNotations.
Require Import SDJ.Json.
Local Open Scope string_scope.

Inductive tok := TKey (k : string) | TIdx (i : nat).
Definition tpath := list tok.

Definition tok_eqb (a b : tok) : bool :=
  match a, b with
  | TKey x, TKey y => String.eqb x y
  | TIdx x, TIdx y => Nat.eqb x y
  | _, _ => false end.

Fixpoint tpath_eqb (a b : tpath) : bool :=
  match a, b with
  | [], [] => true
  | x :: a', y :: b' => tok_eqb x y && tpath_eqb a' b'
  | _, _ => false end.

(* sub-paths of those hidden paths that start with token t *)
Definition below (t : tok) (hidden : list tpath) : list tpath :=
  flat_map (fun p => match p with x :: r => if tok_eqb x t then [r] else [] | [] => [] end) hidden.

Definition hidden_here (hidden : list tpath) : bool := existsb (fun p => match p with [] => true | _ => false end) hidden.

Fixpoint enumerate {A} (i : nat) (l : list A) : list (nat * A) :=
  match l with [] => [] | x :: r => (i, x) :: enumerate (S i) r end.

(* original claims minus the nodes addressed by [hidden] (and everything inside them); array indices
   refer to positions in the original tree *)
Fixpoint prune (j : json) (hidden : list tpath) : json :=
  match j with
  | JObj kvs => JObj (flat_map (fun kv => let '(k, v) := kv in
                     let sub := below (TKey k) hidden in
                     if hidden_here sub then [] else [(k, prune v sub)]) kvs)
  | JArr xs =>
      JArr ((fix go (i : nat) (l : list json) : list json :=
               match l with
               | [] => []
               | x :: r => let sub := below (TIdx i) hidden in
                           if hidden_here sub then go (S i) r else prune x sub :: go (S i) r
               end) 0 xs)
  | _ => j
  end.

(* proper prefix *)
Fixpoint is_prefix (a b : tpath) : bool :=
  match a, b with
  | [], _ => true
  | x :: a', y :: b' => tok_eqb x y && is_prefix a' b'
  | _ :: _, [] => false end.

(* JSON pointer rendering used by the library for paths: "/" ++ escaped token *)
Definition render_tok (show_nat : nat -> string) (t : tok) : string :=
  match t with TKey k => esc_tok k | TIdx i => esc_tok (show_nat i) end.
Fixpoint render (show_nat : nat -> string) (p : tpath) : string :=
  match p with [] => "" | t :: r => "/" ++ render_tok show_nat t ++ render show_nat r end.

(* ---- "original claims with some disclosable claims absent" (C03) ----
   [sub_project c v must may]: v is c with some marked nodes removed, where every path in [must] is
   removed and only paths in [must] or [may] are removed (both lists are relative to the current node). *)
Definition path_here (l : list tpath) : bool := hidden_here l.

Fixpoint sub_project (c v : json) (must may : list tpath) : bool :=
  match c, v with
  | JObj ckvs, JObj vkvs =>
      (fix members (l : list (string * json)) (seen : nat) : bool :=
         match l with
         | [] => Nat.eqb seen (List.length vkvs)
         | (k, x) :: r =>
             let mu := below (TKey k) must in
             let ma := below (TKey k) may in
             match obj_get k vkvs with
             | Some y =>
                 if path_here mu then false
                 else sub_project x y mu ma && members r (S seen)
             | None => (path_here mu || path_here ma) && members r seen
             end
         end) ckvs 0
  | JArr cxs, JArr vxs =>
      (fix align (l : list json) (i : nat) (vs : list json) : bool :=
         match l with
         | [] => match vs with [] => true | _ => false end
         | x :: r =>
             let mu := below (TIdx i) must in
             let ma := below (TIdx i) may in
             let skip := (path_here mu || path_here ma) && align r (S i) vs in
             let keep := match vs with
                         | y :: vs' => negb (path_here mu) && sub_project x y mu ma && align r (S i) vs'
                         | [] => false end in
             keep || skip
         end) cxs 0 vxs
  | JObj _, _ | JArr _, _ => false
  | _, _ => json_eqb c v
  end.
