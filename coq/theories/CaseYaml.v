(* Case glue for kind "yaml" (C15): parse_yaml on a YAML document generated from (claims, marking). *)
From Coq Require Import List String Ascii Bool Arith NArith.
Import ListNotations.
Require Import SDJ.Json SDJ.Wire SDJ.Model2 SDJ.Out SDJ.Restore2 SDJ.Spec SDJ.Verify SDJ.Yaml SDJ.CaseLib.
Local Open Scope string_scope.

(* the serde_yaml value tree as encoded by the harness:
   {"t":"null"} {"t":"bool","v":b} {"t":"num","v":n} {"t":"str","v":s} {"t":"seq","v":[..]}
   {"t":"map","v":[[k,v],..]} {"t":"tag","tag":"!sd","v":inner} *)
Fixpoint yaml_of (j : json) : yaml :=
  match j with
  | JObj [(_, JStr t)] => YNull
  | JObj [(_, JStr t); (_, v)] =>
      if String.eqb t "bool" then (match v with JBool b => YBool b | _ => YNull end)
      else if String.eqb t "num" then (match v with JNum l => YNum l | _ => YNull end)
      else if String.eqb t "str" then (match v with JStr s => YStr s | _ => YNull end)
      else if String.eqb t "seq" then (match v with JArr xs => YSeq (map yaml_of xs) | _ => YNull end)
      else if String.eqb t "map" then
        (match v with
         | JArr ps => YMap ((fix go (l : list json) : list (yaml * yaml) :=
                               match l with
                               | [] => []
                               | JArr [k; x] :: r => (yaml_of k, yaml_of x) :: go r
                               | _ :: r => go r end) ps)
         | _ => YNull end)
      else YNull
  | JObj [(_, JStr t); (_, JStr tag); (_, v)] => YTag tag (yaml_of v)
  | _ => YNull
  end.

(* oracle: claims == C, the set of paths == the marked paths, nested paths before enclosing ones *)
Fixpoint ancestor_before (ps : list string) : bool :=
  match ps with
  | [] => false
  | p :: r => existsb (fun q => starts_with (p ++ "/") q) r || ancestor_before r
  end.

Definition yaml_oracle (input : json) (o : json) : option string :=
  if obs_is "panic" o then Some "parse_yaml panics"
  else if negb (obs_is "ok" o) then Some "parse_yaml rejects a document of the supported form"
  else match obs_val o with
       | JArr [c; JArr ps] =>
           if negb (json_eqb c (jget "claims" input)) then Some "claims differ from the document without its tags"
           else if negb (json_eqb (JArr (sort_json ps)) (JArr (sort_json (jlist (jget "paths" input))))) then
             Some "the reported paths are not exactly the paths of the tagged nodes"
           else if ancestor_before (jstrs (JArr ps)) then Some "an enclosing path is reported before a path nested in it (issuing would fail)"
           else None
       | _ => Some "unreadable outcome" end.

Definition roundtrip_yaml_oracle (input : json) (o : json) : option string :=
  if obs_is "panic" o then Some "issuing from the parsed YAML panics"
  else if negb (obs_is "ok" o) then Some "issuing from the parsed YAML (or verifying the result) fails"
  else if json_eqb (obs_val o) (jget "claims" input) then None else Some "claims after issuing from the parsed YAML differ from the document's claims".

Definition case_yaml (input obs : json) : verdict :=
  let tree := yaml_of (jget "tree" obs) in
  let m := match (match jget "tree" obs with JNull => Err | _ => parse_yaml_tree tree end) with
           | Ok (j, ps) => JObj [("o", JStr "ok"); ("v", JArr [j; JArr (map JStr ps)])]
           | Err => JObj [("o", JStr "err")] end in
  let nt := jbool (jget "nontrivial" input) in
  let expect_ok := jbool (jget "expect_ok" input) in
  (* tags in places the library does not support: refusing is fine; an answer must carry the untagged claims *)
  let lenient (o : json) : option string :=
    if obs_is "panic" o then Some "parse_yaml panics"
    else if obs_is "ok" o then
      match obs_val o with
      | JArr [c; JArr ps] => if negb (json_eqb c (jget "claims" input)) then Some "claims differ from the document without its tags (a tag was turned into data)"
                             else if ancestor_before (jstrs (JArr ps)) then Some "an enclosing path is reported before a path nested in it (issuing would fail)"
                             else None
      | JArr [c; _] => if json_eqb c (jget "claims" input) then None
                       else Some "claims differ from the document without its tags (a tag was turned into data)"
      | _ => Some "unreadable outcome" end
    else None in
  (* documents the untagged twin of which is no valid document (two equal keys): must be refused *)
  let must_reject (o : json) : option string :=
    if obs_is "panic" o then Some "parse_yaml panics"
    else if obs_is "ok" o then Some "parse_yaml accepts a document in which two keys of one mapping coincide once the tag is removed (the document without its tags is refused)"
    else None in
  let v1 := decide (if expect_ok then yaml_oracle input
                    else if String.eqb (jstr_or_empty (jget "expect_ok" input)) "reject" then must_reject
                    else if String.eqb (jstr_or_empty (jget "expect_ok" input)) "if_ok_then_untagged" then lenient
                    else (fun o => if obs_is "panic" o then Some "parse_yaml panics" else None))
                   (jget "parse" obs) m nt "parse_yaml" in
  if expect_ok && negb (match jlist (jget "paths" input) with [] => true | _ => false end) then
    match jget "roundtrip" obs with
    | JNull => v1
    | rt => match roundtrip_yaml_oracle input rt with
            | Some w => worst v1 (VPropFail ("parse_yaml + Issuer + Holder::verify: " ++ w))
            | None => v1 end
    end
  else v1.
