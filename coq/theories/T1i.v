From Coq Require Import List String Ascii Bool Arith Lia Sorting.Sorted Permutation.
Import ListNotations.
Require Import SDJ.Json SDJ.Model2 SDJ.ATree SDJ.T2a SDJ.T2b SDJ.T2c SDJ.T2d SDJ.T2e SDJ.T2h SDJ.T2k SDJ.Issuer1 SDJ.T1a SDJ.T1b SDJ.T1c SDJ.T1d SDJ.T1f SDJ.T1g SDJ.T1h.
Local Open Scope string_scope.

Section T1i.
Variable H : string -> string.
Variable enc : list json -> string.
Variable parse_index : string -> option nat.
Variable parse_usize : string -> option nat.
Variable pos : string -> nat.
Notation add_sd := (T1a.add_sd pos).
Notation blind := (blind H enc).
Notation dig_item := (dig_item H enc).
Notation dig_mem := (dig_mem H enc).
Notation wf := (wf H enc).
Notation IsNode := (IsNode H enc).
Notation mark := (mark H enc parse_index parse_usize pos).
Notation target := (target parse_index parse_usize).
Notation mk_disc := (mk_disc H enc).
Notation proj := (proj H enc).

(* the node just marked is a hidden node of the result, with the disclosure the issuer produced *)
Theorem mark_IsNode_new key salt : forall toks t t' k s,
  wf t -> mark toks key salt t = Some t' -> target toks key t = Some (k, s) ->
  IsNode (d_digest (mk_disc salt k (blind s))) k (blind s) t'.
Proof.
  induction toks as [|tok rest IH]; intros t t' k s Hw Hm Ht.
  - destruct t as [j | items | mems]; cbn [T1a.mark] in Hm; cbn [T1a.target] in Ht; [discriminate| |].
    + destruct (parse_usize key) as [i|]; [|discriminate].
      unfold upd_item in Hm. destruct (nth_error items i) as [[ik s0]|] eqn:En; [|discriminate].
      destruct ik as [| |]; cbn in Hm; try discriminate. injection Hm as <-. injection Ht as <- <-.
      apply nth_error_split in En as (pre & post & -> & <-). rewrite list_set_mid.
      eapply in_item_here; [apply in_or_app; right; left; reflexivity|reflexivity|reflexivity|reflexivity].
    + destruct (upd_mem key _ mems) as [mems'|] eqn:Eu; [|discriminate].
      apply upd_mem_inv in Eu as (pre & x & post & x' & Hsplit & -> & Hf & Hni).
      destruct x as [[| |] s0]; try discriminate. injection Hf as <-.
      rewrite Hsplit, find_mid in Hm, Ht by assumption. injection Hm as <-. injection Ht as <- <-.
      pose proof (wf_obj_names H enc parse_index parse_usize pos _ Hw) as Hn0.
      assert (Hn' : Forall sd_names_ok (pre ++ (key, (MHid salt, s0)) :: post)).
      { rewrite Hsplit in Hn0. apply Forall_app in Hn0 as [Hn1 Hn2]. apply Forall_app. split; [assumption|].
        inversion Hn2; subst. constructor; [|assumption]. unfold sd_names_ok in *. cbn in *. assumption. }
      eapply in_mem_here; [|reflexivity|reflexivity|reflexivity].
      apply add_sd_in; [apply in_or_app; right; left; reflexivity|exact I|assumption].
  - destruct t as [j | items | mems]; cbn [T1a.mark] in Hm; cbn [T1a.target] in Ht; [discriminate| |].
    + destruct (parse_index tok) as [i|]; [|discriminate].
      unfold upd_item in Hm. destruct (nth_error items i) as [[ik s0]|] eqn:En; [|discriminate].
      destruct ik as [| |]; cbn in Hm; try discriminate.
      destruct (mark rest key salt s0) as [s1|] eqn:Ems; cbn in Hm; [|discriminate]. injection Hm as <-.
      assert (Hws : wf s0).
      { inversion Hw as [| ? Hall Hiok |]; subst. rewrite Forall_forall in Hall. apply nth_error_In in En. exact (Hall _ En). }
      apply nth_error_split in En as (pre & post & -> & <-). rewrite list_set_mid.
      eapply in_item_in; [apply in_or_app; right; left; reflexivity|]. eapply IH; eauto.
    + destruct (upd_mem tok _ mems) as [mems'|] eqn:Eu; cbn in Hm; [|discriminate]. injection Hm as <-.
      apply upd_mem_inv in Eu as (pre & x & post & x' & Hsplit & -> & Hf & Hni).
      destruct x as [[| |] s0]; try discriminate.
      destruct (mark rest key salt s0) as [s1|] eqn:Ems; cbn in Hf; [|discriminate]. injection Hf as <-.
      rewrite Hsplit, find_mid in Ht by assumption.
      assert (Hws : wf s0).
      { inversion Hw as [| | ? Hs Hall Hok]; subst. rewrite Forall_forall in Hall. apply (Hall (tok, (MPlain, s0))). apply in_or_app. right. left. reflexivity. }
      eapply in_mem_in; [apply in_or_app; right; left; reflexivity|]. eapply IH; eauto.
Qed.

(* the original claims (everything opened, bookkeeping stripped) do not change *)
Lemma proj_add_sd g : forall mems, Forall sd_names_ok mems ->
  proj Rall (AObj (add_sd g mems)) = proj Rall (AObj mems).
Proof.
  intros mems Hn. cbn [T2h.proj]. f_equal.
  induction mems as [|[n [mk s]] r IH]; cbn [add_sd]; [reflexivity|].
  inversion Hn as [|? ? Hn1 Hn2]; subst. unfold sd_names_ok in Hn1. cbn in Hn1.
  destruct (String.compare "_sd" n) eqn:Ec.
  - apply String.compare_eq_iff in Ec. subst n. destruct mk; try (exfalso; apply Hn1; reflexivity). reflexivity.
  - reflexivity.
  - cbn [flat_map]. rewrite IH by assumption. reflexivity.
Qed.

Theorem mark_orig key salt : forall toks t t', wf t -> mark toks key salt t = Some t' -> proj Rall t' = proj Rall t.
Proof.
  induction toks as [|tok rest IH]; intros t t' Hw Hm.
  - destruct t as [j | items | mems]; cbn [T1a.mark] in Hm; [discriminate| |].
    + destruct (parse_usize key) as [i|]; [|discriminate].
      unfold upd_item in Hm. destruct (nth_error items i) as [[ik s0]|] eqn:En; [|discriminate].
      destruct ik as [| |]; cbn in Hm; try discriminate. injection Hm as <-.
      apply nth_error_split in En as (pre & post & -> & <-). rewrite list_set_mid.
      cbn [T2h.proj]. rewrite !flat_map_app. reflexivity.
    + destruct (upd_mem key _ mems) as [mems'|] eqn:Eu; [|discriminate].
      apply upd_mem_inv in Eu as (pre & x & post & x' & Hsplit & -> & Hf & Hni).
      destruct x as [[| |] s0]; try discriminate. injection Hf as <-.
      rewrite Hsplit, find_mid in Hm by assumption. injection Hm as <-.
      pose proof (wf_obj_names H enc parse_index parse_usize pos _ Hw) as Hn0.
      assert (Hn' : Forall sd_names_ok (pre ++ (key, (MHid salt, s0)) :: post)).
      { rewrite Hsplit in Hn0. apply Forall_app in Hn0 as [Hn1 Hn2]. apply Forall_app. split; [assumption|].
        inversion Hn2; subst. constructor; [|assumption]. unfold sd_names_ok in *. cbn in *. assumption. }
      rewrite proj_add_sd by assumption. rewrite Hsplit. cbn [T2h.proj]. rewrite !flat_map_app. reflexivity.
  - destruct t as [j | items | mems]; cbn [T1a.mark] in Hm; [discriminate| |].
    + destruct (parse_index tok) as [i|]; [|discriminate].
      unfold upd_item in Hm. destruct (nth_error items i) as [[ik s0]|] eqn:En; [|discriminate].
      destruct ik as [| |]; cbn in Hm; try discriminate.
      destruct (mark rest key salt s0) as [s1|] eqn:Ems; cbn in Hm; [|discriminate]. injection Hm as <-.
      assert (Hws : wf s0).
      { inversion Hw as [| ? Hall Hiok |]; subst. rewrite Forall_forall in Hall. apply nth_error_In in En. exact (Hall _ En). }
      apply nth_error_split in En as (pre & post & -> & <-). rewrite list_set_mid.
      cbn [T2h.proj]. rewrite !flat_map_app. cbn [flat_map]. rewrite (IH _ _ Hws Ems). reflexivity.
    + destruct (upd_mem tok _ mems) as [mems'|] eqn:Eu; cbn in Hm; [|discriminate]. injection Hm as <-.
      apply upd_mem_inv in Eu as (pre & x & post & x' & Hsplit & -> & Hf & Hni).
      destruct x as [[| |] s0]; try discriminate.
      destruct (mark rest key salt s0) as [s1|] eqn:Ems; cbn in Hf; [|discriminate]. injection Hf as <-.
      assert (Hws : wf s0).
      { inversion Hw as [| | ? Hs Hall Hok]; subst. rewrite Forall_forall in Hall. apply (Hall (tok, (MPlain, s0))). apply in_or_app. right. left. reflexivity. }
      rewrite Hsplit. cbn [T2h.proj]. rewrite !flat_map_app. cbn [flat_map]. rewrite (IH _ _ Hws Ems). reflexivity.
Qed.
End T1i.
