(* C10 at the entry points: the only way a panic can surface from Verifier::verify, Holder::verify,
   Holder::presentation or Holder::build is through a dependency (the JWT oracles); the library's own code
   paths - splitting, key-binding checks, restoration, stripping - are total for every input string. *)
From Coq Require Import List String Ascii Bool Arith Lia.
Import ListNotations.
Require Import SDJ.Json SDJ.Wire SDJ.Model2 SDJ.Out SDJ.Restore2 SDJ.Split SDJ.SplitM SDJ.SplitMProofs SDJ.Verify.
Local Open Scope string_scope.

Lemma of_res_no_panic {A} (r : res A) : of_res r <> Panic.
Proof. destruct r; discriminate. Qed.

Lemma obind_no_panic {A B} (x : out A) (f : A -> out B) : x <> Panic -> (forall a, f a <> Panic) -> obind x f <> Panic.
Proof. intros Hx Hf. destruct x; cbn; [apply Hf|discriminate|contradiction]. Qed.

Section C10.
Variable O : oracles.
Hypothesis jwt_np : forall j, o_jwt O j <> Panic.
Hypothesis kb_np : forall k n e, o_kb O k n e <> Panic.

Lemma verify_kb_no_panic kb cnf : verify_kb O kb cnf <> Panic.
Proof.
  unfold verify_kb. destruct (jget "kty" cnf); try discriminate. destruct (negb _); [discriminate|].
  destruct (jget "e" cnf); try discriminate. destruct (jget "n" cnf); try discriminate.
  apply obind_no_panic; [apply kb_np|]. intros [h c]. destruct (jget "typ" h); try discriminate. destruct (String.eqb _ _); discriminate.
Qed.

Lemma restore_and_strip_no_panic claims ds : restore_and_strip O claims ds <> Panic.
Proof.
  unfold restore_and_strip. destruct (declared_halg _); [|discriminate].
  apply obind_no_panic; [apply of_res_no_panic|]. discriminate.
Qed.

Theorem verifier_verify_raw_no_panic token kbpol : verifier_verify_raw O token kbpol <> Panic.
Proof.
  unfold verifier_verify_raw. rewrite sd_jwt_parts_m_total. cbn [obind]. destruct (sd_jwt_parts token) as [[jwt ds] kb].
  apply obind_no_panic; [apply jwt_np|]. intros [h c].
  destruct (is_null (jget "cnf" c) && _); [discriminate|]. destruct (negb (is_null (jget "cnf" c)) && _); [discriminate|].
  destruct (declared_halg _); [|discriminate].
  apply obind_no_panic; [|discriminate].
  destruct kb as [k|]; [|discriminate]. destruct (negb kbpol); [discriminate|].
  apply obind_no_panic; [apply verify_kb_no_panic|]. intros kc. destruct (jget "sd_hash" (snd kc)); try discriminate.
  rewrite drop_kb_m_total. cbn [obind]. destruct (String.eqb _ _); discriminate.
Qed.

Theorem verifier_verify_no_panic token kbpol : verifier_verify O token kbpol <> Panic.
Proof.
  unfold verifier_verify. apply obind_no_panic; [apply verifier_verify_raw_no_panic|]. intros [[h c] ds].
  apply obind_no_panic; [apply restore_and_strip_no_panic|]. discriminate.
Qed.

Theorem holder_verify_no_panic token : holder_verify O token <> Panic.
Proof.
  unfold holder_verify, holder_verify_raw. rewrite sd_jwt_parts_m_total. cbn [obind]. destruct (sd_jwt_parts token) as [[jwt ds] kb].
  destruct kb; [cbn; discriminate|].
  destruct (o_jwt O jwt) as [[h c]| |] eqn:Ej; cbn [obind]; [|discriminate|exfalso; exact (jwt_np _ Ej)].
  destruct (declared_halg _); [|cbn; discriminate]. cbn [obind].
  apply obind_no_panic; [apply restore_and_strip_no_panic|]. discriminate.
Qed.

Theorem holder_presentation_no_panic token : holder_presentation O token <> Panic.
Proof.
  unfold holder_presentation. rewrite sd_jwt_parts_m_total. cbn [obind]. destruct (sd_jwt_parts token) as [[jwt ds] kb].
  destruct kb; [discriminate|].
  apply obind_no_panic; [apply jwt_parts_m_no_panic|]. intros [[a b] c].
  apply obind_no_panic; [apply of_res_no_panic|]. intros claims. destruct (declared_halg _); [|discriminate].
  apply obind_no_panic; [apply of_res_no_panic|]. discriminate.
Qed.

Theorem holder_build_no_panic (E : build_env) h : (forall hd c, e_sign E hd c <> Panic) -> holder_build O E h <> Panic.
Proof.
  intros Hs. unfold holder_build.
  apply obind_no_panic; [apply jwt_parts_m_no_panic|]. intros [[a b] c].
  apply obind_no_panic; [apply of_res_no_panic|]. intros claims.
  destruct (kb_bound claims && _); [discriminate|]. destruct (kb_bound claims); [|discriminate].
  destruct (declared_halg _); [|discriminate]. destruct (h_kb h) as [[aud jalg]|]; [|discriminate].
  apply obind_no_panic; [apply Hs|]. discriminate.
Qed.
End C10.
