(* JSON-level association-list lemmas and height bounds needed for the entry-point theorem *)
From Coq Require Import List String Ascii Bool Arith Lia Sorting.Sorted Permutation.
Import ListNotations.
Require Import SDJ.Json SDJ.Model2 SDJ.Restore2 SDJ.ATree SDJ.T2a SDJ.T2b SDJ.T2c SDJ.T2d SDJ.T2h SDJ.T2n
  SDJ.Issuer1 SDJ.T1a SDJ.T1b SDJ.T1e SDJ.T1m.
Local Open Scope string_scope.

Lemma compare_refl_eq k : String.compare k k = Eq.
Proof.
  destruct (String.compare k k) eqn:E; [reflexivity| |]; exfalso.
  - exact (slt_irrefl _ E).
  - rewrite String.compare_antisym in E. destruct (String.compare k k) eqn:E2; cbn in E; try discriminate. exact (slt_irrefl _ E2).
Qed.

Lemma obj_get_insert_same k v : forall l : list (string * json), obj_get k (obj_insert k v l) = Some v.
Proof.
  induction l as [|[k' v'] r IH]; cbn [obj_insert obj_get]; [rewrite String.eqb_refl; reflexivity|].
  destruct (String.compare k k') eqn:Ec; cbn [obj_get]; try (rewrite String.eqb_refl; reflexivity).
  destruct (String.eqb_spec k k') as [->|]; [rewrite compare_refl_eq in Ec; discriminate|]. exact IH.
Qed.

Lemma obj_get_insert_other k k' v : k <> k' -> forall l : list (string * json), obj_get k (obj_insert k' v l) = obj_get k l.
Proof.
  intros Hne. induction l as [|[k1 v1] r IH]; cbn [obj_insert obj_get].
  - destruct (String.eqb_spec k k'); [contradiction|reflexivity].
  - destruct (String.compare k' k1) eqn:Ec; cbn [obj_get].
    + apply String.compare_eq_iff in Ec. subst k1. destruct (String.eqb_spec k k'); [contradiction|reflexivity].
    + destruct (String.eqb_spec k k'); [contradiction|reflexivity].
    + destruct (String.eqb_spec k k1); [reflexivity|exact IH].
Qed.

Lemma obj_insert_twice k v v' : forall l : list (string * json), obj_insert k v' (obj_insert k v l) = obj_insert k v' l.
Proof.
  induction l as [|[k1 v1] r IH]; cbn [obj_insert]; [rewrite compare_refl_eq; reflexivity|].
  destruct (String.compare k k1) eqn:Ec; cbn [obj_insert]; rewrite ?compare_refl_eq, ?Ec; try reflexivity. rewrite IH. reflexivity.
Qed.

Lemma obj_insert_keys k v : forall (l : list (string * json)) y, In y (map fst (obj_insert k v l)) <-> y = k \/ In y (map fst l).
Proof.
  induction l as [|[k1 v1] r IH]; intros y; cbn [obj_insert map fst In]; [intuition congruence|].
  destruct (String.compare k k1) eqn:Ec; cbn [map fst In].
  - apply String.compare_eq_iff in Ec. subst. intuition congruence.
  - intuition congruence.
  - rewrite IH. intuition congruence.
Qed.

Lemma obj_insert_sorted k v : forall l : list (string * json), StronglySorted slt (map fst l) -> StronglySorted slt (map fst (obj_insert k v l)).
Proof.
  induction l as [|[k1 v1] r IH]; intros Hs; cbn [obj_insert]; [cbn; constructor; constructor|].
  cbn [map fst] in Hs. apply StronglySorted_inv in Hs as [Hs Hf].
  destruct (String.compare k k1) eqn:Ec; cbn [map fst].
  - apply String.compare_eq_iff in Ec. subst. constructor; assumption.
  - constructor; [constructor; assumption|]. constructor; [exact Ec|]. eapply Forall_impl; [|exact Hf]. intros a Ha. eapply slt_trans; eauto.
  - constructor; [apply IH; assumption|]. apply Forall_forall. intros y Hy. apply obj_insert_keys in Hy as [->|Hy].
    + unfold slt. rewrite String.compare_antisym, Ec. reflexivity.
    + rewrite Forall_forall in Hf. auto.
Qed.

(* inserting two different keys into a sorted map commutes *)
Lemma cmp_gt_of_lt a b : String.compare a b = Lt -> String.compare b a = Gt.
Proof. intros E. rewrite String.compare_antisym, E. reflexivity. Qed.
Lemma cmp_lt_of_gt a b : String.compare a b = Gt -> String.compare b a = Lt.
Proof. intros E. rewrite String.compare_antisym, E. reflexivity. Qed.
Lemma cmp_lt_trans a b c : String.compare a b = Lt -> String.compare b c = Lt -> String.compare a c = Lt.
Proof. intros E1 E2. exact (slt_trans _ _ _ E1 E2). Qed.

Lemma obj_insert_comm k1 v1 k2 v2 : k1 <> k2 -> forall l : list (string * json), StronglySorted slt (map fst l) ->
  obj_insert k1 v1 (obj_insert k2 v2 l) = obj_insert k2 v2 (obj_insert k1 v1 l).
Proof.
  intros Hne. induction l as [|[k v] r IH]; intros Hs.
  - cbn [obj_insert]. destruct (compare_neq_cases k1 k2 Hne) as [E|E]; rewrite E.
    + rewrite (cmp_gt_of_lt _ _ E). reflexivity.
    + rewrite (cmp_lt_of_gt _ _ E). reflexivity.
  - cbn [map fst] in Hs. apply StronglySorted_inv in Hs as [Hs Hf].
    destruct (String.compare k2 k) eqn:E2; destruct (String.compare k1 k) eqn:E1.
    + apply String.compare_eq_iff in E1, E2. congruence.
    + (* k2 = k, k1 < k *)
      apply String.compare_eq_iff in E2. subst k2.
      cbn [obj_insert]. rewrite compare_refl_eq, E1. cbn [obj_insert]. rewrite E1, (cmp_gt_of_lt _ _ E1). cbn [obj_insert]. rewrite compare_refl_eq. reflexivity.
    + (* k2 = k, k1 > k *)
      apply String.compare_eq_iff in E2. subst k2.
      cbn [obj_insert]. rewrite compare_refl_eq, E1. cbn [obj_insert]. rewrite E1, compare_refl_eq. reflexivity.
    + (* k2 < k, k1 = k *)
      apply String.compare_eq_iff in E1. subst k1.
      cbn [obj_insert]. rewrite compare_refl_eq, E2. cbn [obj_insert]. rewrite (cmp_gt_of_lt _ _ E2), E2. cbn [obj_insert]. rewrite compare_refl_eq. reflexivity.
    + (* both before k *)
      cbn [obj_insert]. rewrite E1, E2. cbn [obj_insert].
      destruct (compare_neq_cases k1 k2 Hne) as [E|E]; rewrite E.
      * rewrite (cmp_gt_of_lt _ _ E). cbn [obj_insert]. rewrite E2. reflexivity.
      * rewrite (cmp_lt_of_gt _ _ E). cbn [obj_insert]. rewrite E1. reflexivity.
    + (* k2 < k < k1 *)
      assert (E : String.compare k2 k1 = Lt) by (eapply cmp_lt_trans; [exact E2|apply cmp_lt_of_gt; exact E1]).
      cbn [obj_insert]. rewrite E1, E2. cbn [obj_insert]. rewrite (cmp_gt_of_lt _ _ E), E1, E2. reflexivity.
    + (* k2 > k, k1 = k *)
      apply String.compare_eq_iff in E1. subst k1.
      cbn [obj_insert]. rewrite compare_refl_eq, E2. cbn [obj_insert]. rewrite compare_refl_eq, E2. reflexivity.
    + (* k1 < k < k2 *)
      assert (E : String.compare k1 k2 = Lt) by (eapply cmp_lt_trans; [exact E1|apply cmp_lt_of_gt; exact E2]).
      cbn [obj_insert]. rewrite E1, E2. cbn [obj_insert]. rewrite E1, (cmp_gt_of_lt _ _ E). cbn [obj_insert]. rewrite E2. reflexivity.
    + cbn [obj_insert]. rewrite E1, E2. cbn [obj_insert]. rewrite E1, E2. rewrite IH by assumption. reflexivity.
Qed.

Lemma filter_insert_same k v : forall l : list (string * json), ~ In k (map fst l) ->
  filter (fun kv => negb (String.eqb (fst kv) k)) (obj_insert k v l) = l.
Proof.
  induction l as [|[k1 v1] r IH]; intros Hni; cbn [obj_insert].
  - cbn. rewrite String.eqb_refl. reflexivity.
  - assert (Hne : k1 <> k) by (intros ->; apply Hni; left; reflexivity).
    assert (Hk1 : negb (String.eqb k1 k) = true) by (apply negb_true_iff; apply String.eqb_neq; assumption).
    assert (Hr : filter (fun kv : string * json => negb (String.eqb (fst kv) k)) r = r).
    { clear -Hni. induction r as [|[k2 v2] r IH]; [reflexivity|]. cbn [filter fst].
      destruct (String.eqb_spec k2 k); [exfalso; apply Hni; right; left; cbn; congruence|]. cbn. f_equal. apply IH.
      intros [H|H]; apply Hni; [left; assumption|right; right; assumption]. }
    destruct (String.compare k k1) eqn:Ec; cbn [filter fst].
    + apply String.compare_eq_iff in Ec. congruence.
    + rewrite String.eqb_refl. cbn [negb]. rewrite Hk1, Hr. reflexivity.
    + rewrite Hk1. f_equal. apply IH. intros Hin. apply Hni. right. assumption.
Qed.

(* strip commutes with dropping a top-level member *)
Lemma strip_filter_top (p : string -> bool) kvs :
  strip (JObj (filter (fun kv => p (fst kv)) kvs)) =
  match strip (JObj kvs) with JObj l => JObj (filter (fun kv => p (fst kv)) l) | x => x end.
Proof.
  cbn [strip]. f_equal. induction kvs as [|[k v] r IH]; [reflexivity|]. cbn [filter fst flat_map].
  destruct (p k) eqn:Ep; cbn [flat_map].
  - destruct (String.eqb k "_sd"); cbn [app filter fst]; rewrite ?Ep, IH; reflexivity.
  - destruct (String.eqb k "_sd"); cbn [app filter fst]; rewrite ?Ep, IH; reflexivity.
Qed.

(* ---- heights ---- *)
Lemma aheight_set_sd l' (mems : amems) : aheight (AObj (set_sd l' mems)) = aheight (AObj mems).
Proof.
  cbn [aheight]. f_equal. induction mems as [|[n [k s]] r IH]; [reflexivity|].
  destruct k as [|salt|l0]; cbn [set_sd fold_right]; rewrite ?IH; reflexivity.
Qed.

Lemma aheight_ains k s (mems : amems) :
  aheight (AObj (ains k (MPlain, s) mems)) <= Nat.max (aheight (AObj mems)) (S (aheight s)).
Proof.
  cbn [aheight]. induction mems as [|[n [mk s0]] r IH]; cbn [ains fold_right]; [lia|].
  destruct (String.compare k n); cbn [fold_right]; destruct mk; lia.
Qed.

(* a permutation of a list of JSON strings is a list of JSON strings *)
Lemma perm_strs ys ll : Permutation ys (map JStr ll) -> ys = map JStr (strs_of ys) /\ Permutation (strs_of ys) ll.
Proof.
  intros Hp. split.
  - assert (HF : Forall (fun y => exists s, y = JStr s) ys).
    { eapply Permutation_Forall; [symmetry; exact Hp|]. apply Forall_forall. intros y Hy. apply in_map_iff in Hy as [s [<- _]]. eauto. }
    clear Hp. induction HF as [|y r [s ->] _ IH]; [reflexivity|]. unfold strs_of in *. cbn. f_equal. exact IH.
  - rewrite <- (strs_of_strs ll). unfold strs_of. apply Permutation_flat_map. exact Hp.
Qed.
