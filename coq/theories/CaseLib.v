(* Shared pieces of the case glue: verdicts, observed-outcome encoding, oracle tables read from the case. *)
From Coq Require Import List String Ascii Bool Arith NArith.
Import ListNotations.
Require Import SDJ.Json SDJ.Wire SDJ.Model2 SDJ.Out SDJ.Restore2 SDJ.Split SDJ.SplitM SDJ.Spec SDJ.Verify.
Local Open Scope string_scope.

Inductive verdict := VOk (nontrivial : bool) | VMismatch (d : string) | VPropFail (d : string) | VBad (d : string).

Definition show_verdict (v : verdict) : string :=
  match v with
  | VOk true => "ok 1" | VOk false => "ok 0"
  | VMismatch d => "mismatch " ++ d
  | VPropFail d => "propfail " ++ d
  | VBad d => "badcase " ++ d
  end.

(* observed outcomes: {"o":"ok","v":..} | {"o":"err"} | {"o":"panic"} *)
Definition obs_of_out {A} (f : A -> json) (x : out A) : json :=
  match x with
  | Val a => JObj [("o", JStr "ok"); ("v", f a)]
  | Fail => JObj [("o", JStr "err")]
  | Panic => JObj [("o", JStr "panic")]
  end.
Definition obs_class (o : json) : string := match jget "o" o with JStr s => s | _ => "?" end.
Definition obs_is (c : string) (o : json) : bool := String.eqb (obs_class o) c.
Definition obs_val (o : json) : json := jget "v" o.

Definition jopt (o : option string) : json := match o with Some s => JStr s | None => JNull end.

(* ---- oracle tables ---- *)
Definition lookup3 (a b : string) (tbl : list json) : option json :=
  match find (fun r => match r with
                       | JArr (JStr x :: JStr y :: _) => String.eqb x a && String.eqb y b
                       | _ => false end) tbl with
  | Some (JArr (_ :: _ :: v :: _)) => Some v
  | _ => None end.
Definition lookup2 (a : string) (tbl : list json) : option (list json) :=
  match find (fun r => match r with JArr (JStr x :: _) => String.eqb x a | _ => false end) tbl with
  | Some (JArr (_ :: rest)) => Some rest
  | _ => None end.

Definition hash_of_table (tbl : list json) (alg : halg) (s : string) : string :=
  match lookup3 (halg_name alg) s tbl with
  | Some (JStr d) => d
  | _ => "!hash-oracle-miss:" ++ s end.

Definition dec_of_table (tbl : list json) (s : string) : dec_result :=
  match lookup2 s tbl with
  | Some [JArr [v]] => DJson v
  | _ => DErr end.

Definition jwt_of_table (tbl : list json) (s : string) : out (json * json) :=
  match lookup2 s tbl with
  | Some [JStr "panic"] => Panic
  | Some [h; p] => Val (h, p)
  | _ => Fail end.

Definition claims_of_table (tbl : list json) (s : string) : res json :=
  match lookup2 s tbl with
  | Some [p] => Ok p
  | _ => Err end.

Definition kb_of_table (tbl : list json) (kb n e : string) : out (json * json) :=
  match find (fun r => match r with
                       | JArr [JStr a; JStr b; JStr c; _; _] => String.eqb a kb && String.eqb b n && String.eqb c e
                       | _ => false end) tbl with
  | Some (JArr [_; _; _; h; c]) => Val (h, c)
  | _ => Fail end.

Definition oracles_of (input : json) : oracles :=
  {| o_hash := hash_of_table (jlist (jget "H" input));
     o_dec := dec_of_table (jlist (jget "dec" input));
     o_jwt := jwt_of_table (jlist (jget "jwt" input));
     o_kb := kb_of_table (jlist (jget "kb" input));
     o_claims := claims_of_table (jlist (jget "claims" input)) |}.

(* ---- typed paths ---- *)
Definition tok_of_json (j : json) : option tok :=
  match j with
  | JArr [JStr "k"; JStr k] => Some (TKey k)
  | JArr [JStr "i"; JNum n] => match nat_of_dec n with Some i => Some (TIdx i) | None => None end
  | _ => None end.
Definition tpath_of_json (j : json) : tpath :=
  flat_map (fun x => match tok_of_json x with Some t => [t] | None => [] end) (jlist j).

(* ---- path sets as sorted JSON ---- *)
Definition path_json (p : string * option string * json) : json :=
  let '(path, k, v) := p in JArr [JStr path; jopt k; v].

(* insertion sort of JSON values by a string key, to compare sets *)
Fixpoint jcmp_key (j : json) : string :=
  match j with
  | JArr (JStr p :: _) => p
  | JStr s => s
  | _ => "" end.
Fixpoint ins_sorted (x : json) (l : list json) : list json :=
  match l with
  | [] => [x]
  | y :: r => match String.compare (jcmp_key x) (jcmp_key y) with
              | Gt => y :: ins_sorted x r
              | _ => x :: l end
  end.
Definition sort_json (l : list json) : list json := fold_right ins_sorted [] l.

(* generic decision: oracle on the implementation first, then model = implementation, then oracle on the model *)
Definition decide (P : json -> option string) (impl model : json) (nontrivial : bool) (what : string) : verdict :=
  match P impl with
  | Some why => VPropFail (what ++ ": " ++ why ++ " [model: " ++ obs_class model ++ "]")
  | None =>
      if json_eqb impl model then
        match P model with None => VOk nontrivial | Some why => VBad ("oracle fails on the model: " ++ why) end
      else VMismatch (what ++ ": impl " ++ obs_class impl ++ ", model " ++ obs_class model)
  end.

(* first non-ok verdict wins, propfail before mismatch before badcase *)
Definition rank (v : verdict) : nat :=
  match v with VPropFail _ => 0 | VMismatch _ => 1 | VBad _ => 2 | VOk _ => 3 end.
Definition worst (a b : verdict) : verdict :=
  match a, b with
  | VOk x, VOk y => VOk (x || y)
  | _, _ => if Nat.leb (rank a) (rank b) then a else b end.


(* the expectation carried by a case: claims in the clear, marked paths, which disclosures are presented *)
Definition expected_claims (e : json) : json :=
  let marks := map tpath_of_json (jlist (jget "marks" e)) in
  let present := map jbool (jlist (jget "present" e)) in
  let hidden := flat_map (fun mp : tpath * bool => if snd mp then [] else [fst mp]) (combine marks present) in
  prune (jget "claims" e) hidden.

(* C03, adversarial lists: the claims are the original ones with some marked nodes absent - at least
   those whose disclosure is not presented *)
Definition sound_claims (e : json) (v : json) : bool :=
  let marks := map tpath_of_json (jlist (jget "marks" e)) in
  let present := map jbool (jlist (jget "present" e)) in
  let mp := combine marks present in
  let must := flat_map (fun q : tpath * bool => if snd q then [] else [fst q]) mp in
  let may := flat_map (fun q : tpath * bool => if snd q then [fst q] else []) mp in
  sub_project (jget "claims" e) v must may.

Definition expected_paths (e : json) : json :=
  let marks := map tpath_of_json (jlist (jget "marks" e)) in
  let present := map jbool (jlist (jget "present" e)) in
  let mp := combine marks present in
  let revealed (m : tpath) : bool :=
    forallb (fun q : tpath * bool => negb (is_prefix (fst q) m) || snd q) mp in
  let triples := jlist (jget "paths" e) in
  JArr (sort_json (flat_map (fun mt : tpath * json => if revealed (fst mt) then [snd mt] else []) (combine marks triples))).

(* disclosure strings of the marks that are presented and reachable, sorted *)
Definition expected_strings (e : json) : json :=
  let marks := map tpath_of_json (jlist (jget "marks" e)) in
  let present := map jbool (jlist (jget "present" e)) in
  let mp := combine marks present in
  let revealed (m : tpath) : bool :=
    forallb (fun q : tpath * bool => negb (is_prefix (fst q) m) || snd q) mp in
  JArr (sort_json (flat_map (fun mt : tpath * json => if revealed (fst mt) then [snd mt] else []) (combine marks (jlist (jget "strings" e))))).

(* oracle for the string built by the holder: its disclosures are exactly the presented reachable ones *)
Definition presentation_oracle (e : json) (mode : string) (o : json) : option string :=
  if obs_is "panic" o then Some "panics"
  else if String.eqb mode "none" then None
  else if obs_is "err" o then (if String.eqb mode "accept" then Some "rejected, must be accepted" else None)
  else if String.eqb mode "reject" then Some "accepted, must be rejected"
  else if negb (String.eqb mode "accept") then None
  else match obs_val o with
       | JStr s => let '(_, ds, kb) := sd_jwt_parts s in
                   if json_eqb (JArr (sort_json (map JStr ds))) (expected_strings e) then None
                   else Some "the holder's presentation does not carry exactly the reachable presented disclosures"
       | _ => Some "unreadable outcome" end.

Definition mode_of (e : json) (which : string) : string :=
  match jget which e with JStr m => m | _ => jstr_or_empty (jget "mode" e) end.

(* [pick] selects the claims (and optionally the paths) out of an Ok observation *)
Definition expect_oracle (e : json) (mode : string) (claims_at paths_at : option nat) (o : json) : option string :=
  if obs_is "panic" o then Some "panics"
  else if String.eqb mode "none" then None
  else if obs_is "err" o then
    (if String.eqb mode "accept" then Some "rejected, must be accepted" else None)
  else if negb (obs_is "ok" o) then Some "unreadable outcome"
  else if String.eqb mode "reject" then Some "accepted, must be rejected"
  else
    let v := jlist (obs_val o) in
    let claims_ok := match claims_at with
                     | Some i => if String.eqb mode "accept" then json_eqb (nth i v JNull) (expected_claims e)
                                 else sound_claims e (nth i v JNull)
                     | None => true end in
    (* the path list is part of the expectation only where the property speaks about it: duplicate-free
       lists that must be accepted (C01, C02, C08); for adversarial lists only the claims are judged *)
    let paths_ok := match paths_at with
                    | Some i => negb (String.eqb mode "accept") || json_eqb (nth i v JNull) (expected_paths e)
                    | None => true end in
    if negb claims_ok then Some "claims differ from the original claims minus the withheld ones"
    else if negb paths_ok then Some "disclosure paths differ from the marked paths that were presented"
    else None.

