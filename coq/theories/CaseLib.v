(* Shared pieces of the case glue: verdicts, observed-outcome encoding, oracle tables read from the case. *)
From Coq Require Import List String Ascii Bool Arith NArith.
Import ListNotations.
Require Import SDJ.Json SDJ.Wire SDJ.Model2 SDJ.Out SDJ.Restore2 SDJ.Split SDJ.SplitM SDJ.Spec SDJ.Verify.
Local Open Scope string_scope.

Inductive verdict := VOk (nontrivial : bool) | VMismatch (d : string) | VPropFail (d : string) | VBad (d : string).

Definition show_verdict (v : verdict) : string :=
  match v with
  | VOk true => "ok 1" | VOk false => "ok 0"
  | VMismatch d => "mismatch " ++ d
  | VPropFail d => "propfail " ++ d
  | VBad d => "badcase " ++ d
  end.

(* observed outcomes: {"o":"ok","v":..} | {"o":"err"} | {"o":"panic"} *)
Definition obs_of_out {A} (f : A -> json) (x : out A) : json :=
  match x with
  | Val a => JObj [("o", JStr "ok"); ("v", f a)]
  | Fail => JObj [("o", JStr "err")]
  | Panic => JObj [("o", JStr "panic")]
  end.
Definition obs_class (o : json) : string := match jget "o" o with JStr s => s | _ => "?" end.
Definition obs_is (c : string) (o : json) : bool := String.eqb (obs_class o) c.
Definition obs_val (o : json) : json := jget "v" o.

Definition jopt (o : option string) : json := match o with Some s => JStr s | None => JNull end.

(* ---- oracle tables ---- *)
Definition lookup3 (a b : string) (tbl : list json) : option json :=
  match find (fun r => match r with
                       | JArr (JStr x :: JStr y :: _) => String.eqb x a && String.eqb y b
                       | _ => false end) tbl with
  | Some (JArr (_ :: _ :: v :: _)) => Some v
  | _ => None end.
Definition lookup2 (a : string) (tbl : list json) : option (list json) :=
  match find (fun r => match r with JArr (JStr x :: _) => String.eqb x a | _ => false end) tbl with
  | Some (JArr (_ :: rest)) => Some rest
  | _ => None end.

Definition hash_of_table (tbl : list json) (alg : halg) (s : string) : string :=
  match lookup3 (halg_name alg) s tbl with
  | Some (JStr d) => d
  | _ => "!hash-oracle-miss:" ++ s end.

Definition dec_of_table (tbl : list json) (s : string) : dec_result :=
  match lookup2 s tbl with
  | Some [JArr [v]] => DJson v
  | _ => DErr end.

Definition jwt_of_table (tbl : list json) (s : string) : out (json * json) :=
  match lookup2 s tbl with
  | Some [JStr "panic"] => Panic
  | Some [h; p] => Val (h, p)
  | _ => Fail end.

Definition claims_of_table (tbl : list json) (s : string) : res json :=
  match lookup2 s tbl with
  | Some [p] => Ok p
  | _ => Err end.

Definition kb_of_table (tbl : list json) (kb n e : string) : out (json * json) :=
  match find (fun r => match r with
                       | JArr [JStr a; JStr b; JStr c; _; _] => String.eqb a kb && String.eqb b n && String.eqb c e
                       | _ => false end) tbl with
  | Some (JArr [_; _; _; h; c]) => Val (h, c)
  | _ => Fail end.

Definition oracles_of (input : json) : oracles :=
  {| o_hash := hash_of_table (jlist (jget "H" input));
     o_dec := dec_of_table (jlist (jget "dec" input));
     o_jwt := jwt_of_table (jlist (jget "jwt" input));
     o_kb := kb_of_table (jlist (jget "kb" input));
     o_claims := claims_of_table (jlist (jget "claims" input)) |}.

(* ---- typed paths ---- *)
Definition tok_of_json (j : json) : option tok :=
  match j with
  | JArr [JStr "k"; JStr k] => Some (TKey k)
  | JArr [JStr "i"; JNum n] => match nat_of_dec n with Some i => Some (TIdx i) | None => None end
  | _ => None end.
Definition tpath_of_json (j : json) : tpath :=
  flat_map (fun x => match tok_of_json x with Some t => [t] | None => [] end) (jlist j).

(* ---- path sets as sorted JSON ---- *)
Definition path_json (p : string * option string * json) : json :=
  let '(path, k, v) := p in JArr [JStr path; jopt k; v].

(* insertion sort of JSON values by a string key, to compare sets *)
Fixpoint jcmp_key (j : json) : string :=
  match j with
  | JArr (JStr p :: _) => p
  | JStr s => s
  | _ => "" end.
Fixpoint ins_sorted (x : json) (l : list json) : list json :=
  match l with
  | [] => [x]
  | y :: r => match String.compare (jcmp_key x) (jcmp_key y) with
              | Gt => y :: ins_sorted x r
              | _ => x :: l end
  end.
Definition sort_json (l : list json) : list json := fold_right ins_sorted [] l.
