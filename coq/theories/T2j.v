From Coq Require Import List String Ascii Bool Arith Lia Sorting.Sorted.
Import ListNotations.
Require Import SDJ.Json SDJ.Model2 SDJ.ATree SDJ.T2a SDJ.T2b SDJ.T2c SDJ.T2d SDJ.T2e SDJ.T2f SDJ.T2g SDJ.T2i.
Local Open Scope string_scope.

Lemma NoDup_flat_map_same {A B} (f : A -> list B) l x y g :
  NoDup (flat_map f l) -> In x l -> In y l -> In g (f x) -> In g (f y) -> x = y.
Proof.
  intros Hnd Hx Hy Hgx Hgy. destruct (in_split _ _ Hx) as (l1 & l2 & ->).
  apply in_app_or in Hy as [Hy|[Hy|Hy]]; [|assumption|]; exfalso;
    eapply (NoDup_flat_map_other f l1 x l2 g Hnd Hgx y); try exact Hgy; apply in_or_app; [left|right]; assumption.
Qed.

Section J.
Variable H : string -> string.
Variable enc : list json -> string.
Notation blind := (blind H enc).
Notation view := (view H enc).
Notation dig_item := (dig_item H enc).
Notation dig_mem := (dig_mem H enc).
Notation hdigs := (hdigs H enc).
Notation alldigs := (alldigs H enc).
Notation wf := (wf H enc).
Notation vitem R := (ATree.view_item H enc (view R) R).
Notation vmem R := (ATree.view_mem H enc (view R) R).
Notation hdigs_item := (hdigs_item H enc).
Notation hdigs_mem := (hdigs_mem H enc).
Notation adigs_item := (adigs_item H enc alldigs).
Notation adigs_mem := (adigs_mem alldigs).
Notation Exposed := (Exposed H enc).
Notation closedR := (closedR H enc).
Notation iopened := (iopened H enc).
Notation mopened := (mopened H enc).

(* a hidden node's digest that is visible in a view is either already opened or exposed *)
Theorem visible_cases R g : forall t, wf t -> NoDup (alldigs t) ->
  occurs g (view R t) = true -> In g (hdigs t) -> R g = true \/ exists k v, Exposed R g k v t.
Proof.
  induction t as [j | items IH | mems IH] using atree_ind'; intros Hw Hnd Ho Hh; [destruct Hh| |].
  - inversion Hw as [| ? Hall Hiok |]; subst. rewrite alldigs_arr in Hnd. rewrite hdigs_arr in Hh.
    rewrite view_arr in Ho. cbn [occurs] in Ho. rewrite existsb_map in Ho. apply existsb_exists in Ho as [[k s] [Hin Ho]].
    rewrite Forall_forall in IH, Hall, Hiok.
    assert (Hga : In g (adigs_item (k, s))) by (eapply occurs_vitem; eauto; apply (Hall _ Hin)).
    apply in_flat_map in Hh as [it' [Hin' Hgh']].
    assert (Hga' : In g (adigs_item it')) by (apply hdigs_item_adigs; auto; apply (Hall _ Hin')).
    assert (it' = (k, s)) by (eapply (NoDup_flat_map_same adigs_item); eauto). subst it'.
    specialize (IH _ Hin). cbn in IH. pose proof (Hall _ Hin) as Hws. cbn in Hws.
    assert (Hnds : NoDup (alldigs s)).
    { pose proof (NoDup_flat_map_in adigs_item _ _ Hnd Hin) as Hn1. destruct k; cbn in Hn1; [assumption|inversion Hn1; assumption|].
      specialize (Hiok _ Hin). unfold item_ok in Hiok. cbn in Hiok. subst s. constructor. }
    destruct k as [|salt|g0]; cbn in Ho, Hgh'.
    + destruct (IH Hws Hnds Ho Hgh') as [|(k & v & Hex)]; [left; assumption|right].
      exists k, v. eapply ex_item_in; eauto.
    + destruct (R (dig_item salt s)) eqn:ER.
      * destruct Hgh' as [<-|Hgh']; [left; assumption|].
        destruct (IH Hws Hnds Ho Hgh') as [|(k & v & Hex)]; [left; assumption|right].
        exists k, v. eapply ex_item_in; eauto. cbn. rewrite ER. reflexivity.
      * cbn in Ho. rewrite !orb_false_r in Ho. apply String.eqb_eq in Ho.
        right. exists None, (blind s). eapply ex_item_here; eauto. rewrite <- Ho. assumption.
    + specialize (Hiok _ Hin). unfold item_ok in Hiok. cbn in Hiok. subst s. destruct Hgh'.
  - inversion Hw as [| | ? Hs Hall Hok]; subst. rewrite alldigs_obj in Hnd. rewrite hdigs_obj in Hh.
    rewrite view_obj, occurs_obj in Ho. apply existsb_exists in Ho as [[k' v'] [Hkv Ho]].
    apply in_flat_map in Hkv as [[name [mk s]] [Hin Hkv]].
    apply in_flat_map in Hh as [[name' [mk' s']] [Hin' Hgh']].
    rewrite Forall_forall in IH, Hall, Hok.
    pose proof (Hok _ Hin) as Hokm. pose proof (Hok _ Hin') as Hokm'. cbn in Hokm, Hokm'.
    (* where can the hidden digest live in terms of alldigs *)
    assert (Hcase : (exists salt, mk' = MHid salt /\ g = dig_mem salt name' s') \/ In g (alldigs s')).
    { destruct mk' as [|salt|l]; cbn in Hgh'.
      - right. apply hdigs_alldigs; [apply (Hall _ Hin')|assumption].
      - destruct Hgh' as [<-|Hgh']; [left; eauto|right; apply hdigs_alldigs; [apply (Hall _ Hin')|assumption]].
      - destruct Hokm' as [_ [_ ->]]. destruct Hgh'. }
    destruct mk as [|salt|l]; cbn in Hkv.
    + (* occurrence inside a plain member *)
      destruct Hkv as [Hq|[]]. injection Hq as <- <-. unfold occ_mem in Ho.
      destruct (String.eqb_spec name "_sd"); [tauto|]. destruct (String.eqb_spec name "..."); [tauto|]. cbn in Ho.
      assert (Hga : In g (adigs_mem (name, (MPlain, s)))) by (cbn; eapply occurs_view; eauto; apply (Hall _ Hin)).
      destruct Hcase as [(salt' & -> & Hg)|Hga'].
      * exfalso. destruct Hokm' as [_ [_ Hsd]]. unfold sd_of in Hsd. apply in_flat_map in Hsd as [[ny [ky sy]] [Hy Hgl]]. cbn in Hgl.
        destruct ky as [| |l]; try destruct Hgl. rewrite <- Hg in Hgl.
        assert ((ny, (MSd l, sy)) = (name, (MPlain, s))) by (eapply (NoDup_flat_map_same adigs_mem); eauto). discriminate.
      * assert ((name', (mk', s')) = (name, (MPlain, s))).
        { eapply (NoDup_flat_map_same adigs_mem); eauto. destruct mk'; cbn; auto. destruct Hokm' as [_ [_ ->]]. destruct Hga'. }
        injection H0 as -> -> ->. cbn in Hgh'.
        assert (Hnds : NoDup (alldigs s)) by (apply (NoDup_flat_map_in adigs_mem _ _ Hnd Hin)).
        destruct (IH _ Hin (Hall _ Hin) Hnds Ho Hgh') as [|(k & v & Hex)]; [left; assumption|right].
        exists k, v. eapply ex_mem_in; eauto.
    + destruct (R (dig_mem salt name s)) eqn:ER; [|destruct Hkv].
      destruct Hkv as [Hq|[]]. injection Hq as <- <-. unfold occ_mem in Ho.
      destruct (String.eqb_spec name "_sd"); [tauto|]. destruct (String.eqb_spec name "..."); [tauto|]. cbn in Ho.
      assert (Hga : In g (adigs_mem (name, (MHid salt, s)))) by (cbn; eapply occurs_view; eauto; apply (Hall _ Hin)).
      destruct Hcase as [(salt' & -> & Hg)|Hga'].
      * exfalso. destruct Hokm' as [_ [_ Hsd]]. unfold sd_of in Hsd. apply in_flat_map in Hsd as [[ny [ky sy]] [Hy Hgl]]. cbn in Hgl.
        destruct ky as [| |l]; try destruct Hgl. rewrite <- Hg in Hgl.
        assert ((ny, (MSd l, sy)) = (name, (MHid salt, s))) by (eapply (NoDup_flat_map_same adigs_mem); eauto). discriminate.
      * assert ((name', (mk', s')) = (name, (MHid salt, s))).
        { eapply (NoDup_flat_map_same adigs_mem); eauto. destruct mk'; cbn; auto. destruct Hokm' as [_ [_ ->]]. destruct Hga'. }
        injection H0 as -> -> ->. cbn in Hgh'. destruct Hgh' as [Hq|Hgh'].
        -- left. rewrite <- Hq. assumption.
        -- assert (Hnds : NoDup (alldigs s)) by (apply (NoDup_flat_map_in adigs_mem _ _ Hnd Hin)).
           destruct (IH _ Hin (Hall _ Hin) Hnds Ho Hgh') as [|(k & v & Hex)]; [left; assumption|right].
           exists k, v. eapply ex_mem_in; eauto. cbn. rewrite ER. reflexivity.
    + (* occurrence in the _sd list *)
      destruct Hkv as [Hq|[]]. injection Hq as <- <-. destruct Hokm as [_ [-> _]]. unfold occ_mem in Ho.
      rewrite String.eqb_refl, occurs_strs, orb_false_r in Ho. apply existsb_strs in Ho.
      destruct Hcase as [(salt' & -> & Hg)|Hga'].
      * destruct (R g) eqn:ER; [left; reflexivity|right].
        exists (Some name'), (blind s'). eapply ex_mem_here; eauto.
      * exfalso.
        assert ((name', (mk', s')) = ("_sd", (MSd l, s))).
        { eapply (NoDup_flat_map_same adigs_mem); eauto. destruct mk'; cbn; auto. destruct Hokm' as [_ [_ ->]]. destruct Hga'. }
        injection H0 as -> -> ->. destruct Hokm' as [_ [_ ->]]. destruct Hga'.
Qed.
End J.
