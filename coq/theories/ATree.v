From Coq Require Import List String Ascii Bool Arith Lia.
Import ListNotations.
Require Import SDJ.Json SDJ.Model2.
Local Open Scope string_scope.

Inductive ikind := IPlain | IHid (salt : json) | IDecoy (g : string).
Inductive mkind := MPlain | MHid (salt : json) | MSd (l : list string).

Inductive atree :=
| ALeaf (j : json)
| AArr (items : list (ikind * atree))
| AObj (mems : list (string * (mkind * atree))).

Section atree_ind.
  Variable P : atree -> Prop.
  Hypothesis Hleaf : forall j, P (ALeaf j).
  Hypothesis Harr : forall items, Forall (fun it => P (snd it)) items -> P (AArr items).
  Hypothesis Hobj : forall mems, Forall (fun m => P (snd (snd m))) mems -> P (AObj mems).
  Fixpoint atree_ind' (t : atree) : P t :=
    match t with
    | ALeaf j => Hleaf j
    | AArr items => Harr items ((fix go (l : list (ikind * atree)) : Forall (fun it => P (snd it)) l :=
         match l with [] => Forall_nil _ | (k, s) :: r => Forall_cons (k, s) (atree_ind' s) (go r) end) items)
    | AObj mems => Hobj mems ((fix go (l : list (string * (mkind * atree))) : Forall (fun m => P (snd (snd m))) l :=
         match l with [] => Forall_nil _ | (n, (k, s)) :: r => Forall_cons (n, (k, s)) (atree_ind' s) (go r) end) mems)
    end.
End atree_ind.

Definition placeholder (g : string) : json := JObj [("...", JStr g)].

Section AT.
Variable H : string -> string.
Variable enc : list json -> string.

Definition Rset := string -> bool.
Definition Radd (R : Rset) (g : string) : Rset := fun x => orb (String.eqb x g) (R x).
Definition R0 : Rset := fun _ => false.

Fixpoint blind (t : atree) : json :=
  match t with
  | ALeaf j => j
  | AArr items => JArr (map (fun it => let '(k, s) := it in
        match k with
        | IPlain => blind s
        | IHid salt => placeholder (H (enc [salt; blind s]))
        | IDecoy g => placeholder g end) items)
  | AObj mems => JObj (flat_map (fun m => let '(name, (k, s)) := m in
        match k with
        | MPlain => [(name, blind s)]
        | MHid salt => []
        | MSd l => [(name, JArr (map JStr l))] end) mems)
  end.

Definition dig_item (salt : json) (s : atree) : string := H (enc [salt; blind s]).
Definition dig_mem (salt : json) (name : string) (s : atree) : string := H (enc [salt; JStr name; blind s]).

Definition view_item (view : atree -> json) (R : Rset) (it : ikind * atree) : json :=
  let '(k, s) := it in
  match k with
  | IPlain => view s
  | IHid salt => if R (dig_item salt s) then view s else placeholder (dig_item salt s)
  | IDecoy g => placeholder g end.

Definition view_mem (view : atree -> json) (R : Rset) (m : string * (mkind * atree)) : list (string * json) :=
  let '(name, (k, s)) := m in
  match k with
  | MPlain => [(name, view s)]
  | MHid salt => if R (dig_mem salt name s) then [(name, view s)] else []
  | MSd l => [(name, JArr (map JStr l))] end.

Fixpoint view (R : Rset) (t : atree) : json :=
  match t with
  | ALeaf j => j
  | AArr items => JArr (map (fun it => let '(k, s) := it in
        match k with
        | IPlain => view R s
        | IHid salt => if R (dig_item salt s) then view R s else placeholder (dig_item salt s)
        | IDecoy g => placeholder g end) items)
  | AObj mems => JObj (flat_map (fun m => let '(name, (k, s)) := m in
        match k with
        | MPlain => [(name, view R s)]
        | MHid salt => if R (dig_mem salt name s) then [(name, view R s)] else []
        | MSd l => [(name, JArr (map JStr l))] end) mems)
  end.

Lemma view_arr R items : view R (AArr items) = JArr (map (view_item (view R) R) items).
Proof. reflexivity. Qed.
Lemma view_obj R mems : view R (AObj mems) = JObj (flat_map (view_mem (view R) R) mems).
Proof. reflexivity. Qed.

(* all hidden-node digests in the subtree, and all decoy digests *)
Fixpoint hdigs (t : atree) : list string :=
  match t with
  | ALeaf _ => []
  | AArr items => flat_map (fun it => let '(k, s) := it in
        match k with IHid salt => dig_item salt s :: hdigs s | _ => hdigs s end) items
  | AObj mems => flat_map (fun m => let '(name, (k, s)) := m in
        match k with MHid salt => dig_mem salt name s :: hdigs s | _ => hdigs s end) mems
  end.

End AT.
