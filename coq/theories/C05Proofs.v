(* Key binding enforcement (C05): exact acceptance conditions of verify_kb and Verifier::verify_raw. *)
From Coq Require Import List String Ascii Bool Arith Lia.
Import ListNotations.
Require Import SDJ.Json SDJ.Wire SDJ.Model2 SDJ.Out SDJ.Restore2 SDJ.Split SDJ.SplitM SDJ.SplitMProofs SDJ.Verify.
Local Open Scope string_scope.

Theorem verify_kb_iff O kb cnf hdr claims :
  verify_kb O kb cnf = Val (hdr, claims) <->
  exists n e, jget "kty" cnf = JStr "RSA" /\ jget "e" cnf = JStr e /\ jget "n" cnf = JStr n /\
              o_kb O kb n e = Val (hdr, claims) /\ jget "typ" hdr = JStr "kb+jwt".
Proof.
  unfold verify_kb. split.
  - destruct (jget "kty" cnf) as [| | |kty| |]; try discriminate.
    destruct (String.eqb_spec kty "RSA") as [->|]; cbn [negb]; [|discriminate].
    destruct (jget "e" cnf) as [| | |e| |]; try discriminate.
    destruct (jget "n" cnf) as [| | |n| |]; try discriminate.
    destruct (o_kb O kb n e) as [[h c]| |] eqn:Ek; cbn [obind]; try discriminate.
    destruct (jget "typ" h) as [| | |t| |] eqn:Et; try discriminate.
    destruct (String.eqb_spec t "kb+jwt") as [->|]; [|discriminate].
    intros Hq. injection Hq as <- <-. exists n, e. repeat split; assumption.
  - intros (n & e & Hk & He & Hn & Ho & Ht). rewrite Hk, He, Hn. cbn. rewrite Ho. cbn [obind]. rewrite Ht. reflexivity.
Qed.

Definition kb_required (claims : json) : bool := negb (is_null (jget "cnf" claims)).

(* Verifier::verify_raw accepts exactly when: the issuer JWT decodes under the verifier's key and policy;
   _sd_alg names a supported algorithm; and either no key is bound and no KB-JWT is attached, or a key is
   bound, a KB-JWT is attached, a key-binding policy was supplied, the KB-JWT verifies against the bound
   key (verify_kb) and its sd_hash is a string equal to the hash, under _sd_alg, of the presentation
   without its last segment. *)
Theorem verifier_verify_raw_iff O token kbpol hdr claims ds :
  verifier_verify_raw O token kbpol = Val (hdr, claims, ds) <->
  exists jwt kb alg,
    sd_jwt_parts token = (jwt, ds, kb) /\ o_jwt O jwt = Val (hdr, claims) /\
    declared_halg claims = Some alg /\
    ( (kb_required claims = false /\ kb = None) \/
      (kb_required claims = true /\ exists k h' kc hs,
          kb = Some k /\ kbpol = true /\ verify_kb O k (jget "cnf" claims) = Val (h', kc) /\
          jget "sd_hash" kc = JStr hs /\ o_hash O alg (drop_kb token) = hs) ).
Proof.
  unfold verifier_verify_raw, kb_required. rewrite sd_jwt_parts_m_total. cbn [obind].
  destruct (sd_jwt_parts token) as [[jwt ds0] kb] eqn:Ep.
  split.
  - destruct (o_jwt O jwt) as [[h c]| |] eqn:Ej; cbn [obind]; try discriminate.
    destruct (is_null (jget "cnf" c)) eqn:En; destruct kb as [k|]; cbn [andb negb]; try discriminate.
    + (* unbound, no KB *)
      destruct (declared_halg c) as [alg|] eqn:Eh; try discriminate. cbn [obind].
      intros Hq. injection Hq as <- <- <-. exists jwt, None, alg. repeat split; try assumption. left. split; [rewrite En; reflexivity|reflexivity].
    + (* bound, KB attached *)
      destruct (declared_halg c) as [alg|] eqn:Eh; try discriminate.
      destruct kbpol; cbn [negb]; [|discriminate].
      destruct (verify_kb O k (jget "cnf" c)) as [[h' kc]| |] eqn:Ev; cbn [obind]; try discriminate.
      cbn [snd]. destruct (jget "sd_hash" kc) as [| | |hs| |] eqn:Es; try discriminate.
      rewrite drop_kb_m_total. cbn [obind].
      destruct (String.eqb_spec (o_hash O alg (drop_kb token)) hs) as [Hh|]; [|discriminate]. cbn [obind].
      intros Hq. injection Hq as <- <- <-. exists jwt, (Some k), alg. repeat split; try assumption.
      right. split; [rewrite En; reflexivity|]. exists k, h', kc, hs. repeat split; assumption.
  - intros (jwt' & kb' & alg & Hp & Hj & Hh & Hcase). injection Hp as <- <- <-.
    rewrite Hj. cbn [obind].
    destruct Hcase as [[Hn ->] | [Hn (k & h' & kc & hs & -> & -> & Hv & Hs & Hq)]].
    + apply negb_false_iff in Hn. rewrite Hn. cbn [andb negb]. rewrite Hh. reflexivity.
    + apply negb_true_iff in Hn. rewrite Hn. cbn [andb negb]. rewrite Hh. cbn [negb]. rewrite Hv. cbn [obind snd].
      rewrite Hs, drop_kb_m_total. cbn [obind]. rewrite Hq, String.eqb_refl. reflexivity.
Qed.

(* corollaries: each of the property's rejections *)
Corollary bound_without_kb_rejected O token kbpol jwt ds hdr claims :
  sd_jwt_parts token = (jwt, ds, None) -> o_jwt O jwt = Val (hdr, claims) -> kb_required claims = true ->
  forall r, verifier_verify_raw O token kbpol <> Val r.
Proof.
  intros Hp Hj Hb [[h c] d] Hv. apply verifier_verify_raw_iff in Hv as (jwt' & kb & alg & Hp' & Hj' & _ & Hc).
  rewrite Hp in Hp'. injection Hp' as <- _ <-. rewrite Hj in Hj'. injection Hj' as <- <-.
  destruct Hc as [[Hn _]|[_ (k & ? & ? & ? & Hk & _)]]; congruence.
Qed.

Corollary kb_on_unbound_rejected O token kbpol jwt ds k hdr claims :
  sd_jwt_parts token = (jwt, ds, Some k) -> o_jwt O jwt = Val (hdr, claims) -> kb_required claims = false ->
  forall r, verifier_verify_raw O token kbpol <> Val r.
Proof.
  intros Hp Hj Hb [[h c] d] Hv. apply verifier_verify_raw_iff in Hv as (jwt' & kb & alg & Hp' & Hj' & _ & Hc).
  rewrite Hp in Hp'. injection Hp' as <- _ <-. rewrite Hj in Hj'. injection Hj' as <- <-.
  destruct Hc as [[_ Hn]|[Hn _]]; congruence.
Qed.

Corollary no_policy_rejected O token jwt ds k hdr claims :
  sd_jwt_parts token = (jwt, ds, Some k) -> o_jwt O jwt = Val (hdr, claims) ->
  forall r, verifier_verify_raw O token false <> Val r.
Proof.
  intros Hp Hj [[h c] d] Hv. apply verifier_verify_raw_iff in Hv as (jwt' & kb & alg & Hp' & _ & _ & Hc).
  rewrite Hp in Hp'. injection Hp' as <- _ <-.
  destruct Hc as [[_ Hn]|[_ (k' & ? & ? & ? & _ & Hf & _)]]; congruence.
Qed.

(* the commitment: when accepted with a KB-JWT, sd_hash is the hash of exactly drop_kb token; under an
   injective hash any other presentation prefix is rejected with that KB-JWT *)
Corollary accepted_commits O token kbpol hdr claims ds jwt k :
  verifier_verify_raw O token kbpol = Val (hdr, claims, ds) -> sd_jwt_parts token = (jwt, ds, Some k) ->
  exists h' kc alg, verify_kb O k (jget "cnf" claims) = Val (h', kc) /\
     declared_halg claims = Some alg /\ jget "sd_hash" kc = JStr (o_hash O alg (drop_kb token)).
Proof.
  intros Hv Hp. apply verifier_verify_raw_iff in Hv as (jwt' & kb & alg & Hp' & _ & Hh & Hc).
  rewrite Hp in Hp'. injection Hp' as <- <-.
  destruct Hc as [[_ Hn]|[_ (k' & h' & kc & hs & Hk & _ & Hv & Hs & Hq)]]; [discriminate|].
  injection Hk as <-. exists h', kc, alg. subst hs. repeat split; assumption.
Qed.
