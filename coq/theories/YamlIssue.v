(* C15 composed with C14/C01: the (claims, paths) pair parse_yaml returns for a tagged document can be handed to
   the issuer as it is - encode succeeds, the holder gets the claims back and is told the YAML paths. *)
From Coq Require Import List String Ascii Bool Arith ZArith NArith Lia Permutation.
Import ListNotations.
Require Import SDJ.Json SDJ.Wire SDJ.Model2 SDJ.Out SDJ.Restore2 SDJ.ATree SDJ.T2c SDJ.T1e SDJ.T1j SDJ.T1k SDJ.T1r SDJ.T1s SDJ.T1p
  SDJ.Split SDJ.Issuer1 SDJ.Issuer2 SDJ.Verify SDJ.Yaml SDJ.C15Proofs.
Require Import SDJ.DecStr SDJ.PathStr SDJ.PathThm SDJ.YamlOrd.
Local Open Scope string_scope.

Lemma yaml_paths_are_pointers marked j :
  jwf j -> (forall a, In a (eaddrs marked [] j) -> small a) ->
  epaths marked [] j = map (T1s.render Wire.show_nat) (eaddrs marked [] j) /\
  Forall (node_addr j) (eaddrs marked [] j) /\ ordered (eaddrs marked [] j).
Proof.
  intros Hw Hs. split; [exact (epaths_eaddrs marked j [])|]. split; [|apply eaddrs_ordered; exact Hw].
  pose proof (eaddrs_below marked j Hw []) as Hb. rewrite Forall_forall in Hb |- *. intros a Hin.
  destruct (Hb a Hin) as (suf & Hne & -> & Hat). cbn [app]. split; [exact Hne|]. split; [exact Hat|]. apply Hs. exact Hin.
Qed.

Section S.
Variable E : issue_env.
Variable O : oracles.
Notation H := (ie_hash E).
Notation enc := (ie_enc E).
Hypothesis hash_inj : forall x y, H x = H y -> x = y.
Hypothesis dec_enc : forall ps, o_dec O (enc ps) = DJson (JArr ps).
Hypothesis hash_is : o_hash O SHA256 = H.
Hypothesis jwt_round : forall h p j, ie_sign E h p = Val j -> o_jwt O j = Val (h, p).
Hypothesis sign_total : forall h p, exists j, ie_sign E h p = Val j /\ contains tilde j = false.
Hypothesis enc_no_tilde : forall ps, contains tilde (enc ps) = false.
Hypothesis perm_ok : forall xs, Permutation (ie_perm E xs) xs.

Theorem yaml_then_issue (marked : list string -> bool)
    (ckvs : list (string * json)) (max_decoys : option Z) (cnf : option json) (header : json) :
  jwf (JObj ckvs) -> ~ In "_sd_alg" (map fst ckvs) -> ~ In "cnf" (map fst ckvs) ->
  NoDup (ie_salts E) ->
  (forall a, In a (eaddrs marked [] (JObj ckvs)) -> small a) ->
  forall paths, parse_yaml_tree (ytree marked [] (JObj ckvs)) = Ok (JObj ckvs, paths) ->
  paths <> [] -> List.length paths <= List.length (ie_salts E) ->
  exists t',
    (exists tks, split_paths paths = Some tks /\
       T1j.mark_fold H enc Issuer2.parse_index Issuer2.parse_usize (ie_pos E) (embed (JObj ckvs)) tks (ie_salts E) = Some t') /\
    (NoDup (decoys_used E max_decoys) ->
     (forall g, In g (decoys_used E max_decoys) -> ~ In g (alldigs H enc t')) ->
     (match cnf with Some c => jwf c /\ S (aheight (embed c)) <= 129 | None => True end) ->
     aheight t' <= 129 ->
     exists token payload ds ps,
       issue E (JObj ckvs) paths max_decoys cnf header = Val (token, payload, ds) /\
       holder_verify O token = Val (header, match cnf with Some c => JObj (obj_insert "cnf" c ckvs) | None => JObj ckvs end, ps) /\
       Permutation (map snd ps) ds /\
       Forall2 (fun d p => In (p, d) ps) ds paths).
Proof.
  intros HC Hnalg Hncnf Hnds Hsmall paths Hparse Hne Hlen.
  rewrite (parse_yaml_tagged marked (JObj ckvs) HC) in Hparse.
  assert (Hp : paths = epaths marked [] (JObj ckvs)) by congruence. clear Hparse.
  destruct (yaml_paths_are_pointers marked (JObj ckvs) HC Hsmall) as (Hq & Hnodes & Hord).
  rewrite Hq in Hp. subst paths.
  assert (Hane : eaddrs marked [] (JObj ckvs) <> []) by (intros Hz; rewrite Hz in Hne; apply Hne; reflexivity).
  rewrite map_length in Hlen.
  exact (encode_json_pointers E O hash_inj dec_enc hash_is jwt_round sign_total enc_no_tilde perm_ok
           ckvs (eaddrs marked [] (JObj ckvs)) max_decoys cnf header HC Hnalg Hncnf Hnds Hane Hnodes Hord Hlen).
Qed.
End S.
