(* C01, path component on the issuer side: the node marked through a path that resolves to address a is the
   hidden node at render a of the annotated tree, and later markings / the root post-processing of encode do
   not move it. *)
From Coq Require Import List String Ascii Bool Arith Lia Sorting.Sorted Permutation.
Import ListNotations.
Require Import SDJ.Json SDJ.Model2 SDJ.ATree SDJ.T2a SDJ.T2b SDJ.T2c SDJ.T2d SDJ.T2e SDJ.T2h SDJ.T2k SDJ.Issuer1 SDJ.T1a SDJ.T1b SDJ.T1c SDJ.T1d SDJ.T1e SDJ.T1f SDJ.T1g SDJ.T1h SDJ.T1i SDJ.T1j SDJ.T1m SDJ.T1r.
Local Open Scope string_scope.

Section S.
Variable H : string -> string.
Variable enc : list json -> string.
Variable show_nat : nat -> string.
Variable parse_index : string -> option nat.
Variable parse_usize : string -> option nat.
Variable pos : string -> nat.
Notation add_sd := (T1a.add_sd pos).
Notation blind := (blind H enc).
Notation dig_item := (dig_item H enc).
Notation dig_mem := (dig_mem H enc).
Notation wf := (wf H enc).
Notation NodePath := (NodePath H enc show_nat).
Notation mark := (mark H enc parse_index parse_usize pos).
Notation target := (target parse_index parse_usize).
Notation resolve := (resolve parse_index parse_usize).
Notation mk_disc := (mk_disc H enc).

(* the path string the holder reports for an address: member names escaped as JSON pointer tokens, indices in decimal *)
Fixpoint render (a : addr) : string :=
  match a with
  | [] => ""
  | SKey k :: r => "/" ++ esc_tok k ++ render r
  | SIdx i :: r => "/" ++ esc_tok (show_nat i) ++ render r
  end.

Lemma app_nil_r_s (s : string) : (s ++ "")%string = s.
Proof. induction s as [|c s IH]; cbn; [reflexivity|rewrite IH; reflexivity]. Qed.

Lemma list_set_other_split {A} (pre post : list A) y x i : i <> List.length pre ->
  exists pre' post', list_set i x (pre ++ y :: post) = (pre' ++ y :: post')%list /\ List.length pre' = List.length pre.
Proof.
  revert i. induction pre as [|z r IH]; intros i Hne.
  - destruct i as [|i]; [cbn in Hne; congruence|]. cbn. exists [], (list_set i x post). auto.
  - destruct i as [|i].
    + cbn. exists (x :: r), post. auto.
    + cbn. destruct (IH i) as (pre' & post' & Hq & Hl); [cbn in Hne; lia|]. rewrite Hq. exists (z :: pre'), post'. cbn. auto.
Qed.

Lemma mid_eq_inv {A} (pre pre' post post' : list A) x y :
  (pre ++ x :: post = pre' ++ y :: post')%list -> List.length pre = List.length pre' -> pre = pre' /\ x = y /\ post = post'.
Proof.
  revert pre'. induction pre as [|z r IH]; intros [|z' r'] Hq Hl; cbn in *; try discriminate.
  - injection Hq as -> ->. auto.
  - injection Hq as -> Hq. destruct (IH r' Hq) as (-> & -> & ->); [lia|]. auto.
Qed.

(* hidden nodes stay where they are under marking *)
Theorem mark_NodePath_old g key salt : forall toks t t' p, wf t -> mark toks key salt t = Some t' -> NodePath g t p -> NodePath g t' p.
Proof.
  induction toks as [|tok rest IH]; intros t t' p Hw Hm Hn.
  - destruct t as [j | items | mems]; cbn [T1a.mark] in Hm; [discriminate| |].
    + destruct (parse_usize key) as [i|]; [|discriminate].
      unfold upd_item in Hm. destruct (nth_error items i) as [[ik s0]|] eqn:En; [|discriminate].
      destruct ik as [| |]; cbn in Hm; try discriminate. injection Hm as <-.
      apply nth_error_split in En as (pre & post & -> & <-). rewrite list_set_mid.
      inversion Hn as [? pre1 post1 salt' s' Hsplit Hg | ? pre1 post1 ik s' suffix Hsplit Hs | |]; subst.
      * destruct (Nat.eq_dec (List.length pre) (List.length pre1)) as [Hl|Hl].
        -- destruct (mid_eq_inv _ _ _ _ _ _ Hsplit Hl) as (_ & Hq & _). discriminate.
        -- rewrite <- (list_set_mid pre post (IPlain, s0) (IHid salt, s0)), Hsplit.
           destruct (list_set_other_split pre1 post1 (IHid salt', s') (IHid salt, s0) (List.length pre) Hl) as (pre' & post' & Hq & Hl').
           rewrite <- Hl'. eapply np_item_here; eauto.
      * destruct (Nat.eq_dec (List.length pre) (List.length pre1)) as [Hl|Hl].
        -- destruct (mid_eq_inv _ _ _ _ _ _ Hsplit Hl) as (-> & Hq & ->). injection Hq as <- <-.
           eapply np_item_in; [reflexivity|assumption].
        -- rewrite <- (list_set_mid pre post (IPlain, s0) (IHid salt, s0)), Hsplit.
           destruct (list_set_other_split pre1 post1 (ik, s') (IHid salt, s0) (List.length pre) Hl) as (pre' & post' & Hq & Hl').
           rewrite <- Hl'. eapply np_item_in; eauto.
    + destruct (upd_mem key _ mems) as [mems'|] eqn:Eu; [|discriminate].
      apply upd_mem_inv in Eu as (pre & x & post & x' & Hsplit & -> & Hf & Hni).
      destruct x as [[| |] s0]; try discriminate. injection Hf as <-.
      rewrite Hsplit, find_mid in Hm by assumption. injection Hm as <-.
      pose proof (wf_obj_names H enc parse_index parse_usize pos _ Hw) as Hn0.
      assert (Hn' : Forall sd_names_ok (pre ++ (key, (MHid salt, s0)) :: post)).
      { rewrite Hsplit in Hn0. apply Forall_app in Hn0 as [Hn1 Hn2]. apply Forall_app. split; [assumption|].
        inversion Hn2; subst. constructor; [|assumption]. unfold sd_names_ok in *. cbn in *. assumption. }
      inversion Hn as [| | ? name salt' s' Hin Hg | ? name mk s' suffix Hin Hs]; subst.
      * eapply np_mem_here; eauto. apply add_sd_in; [|exact I|assumption].
        apply in_app_or in Hin as [|[Hq|]]; [apply in_or_app; left; assumption|discriminate|apply in_or_app; right; right; assumption].
      * destruct mk as [| |l].
        -- apply in_app_or in Hin as [Hin|[Hq|Hin]].
           ++ eapply np_mem_in; [apply add_sd_in; [apply in_or_app; left; exact Hin|exact I|assumption]|assumption].
           ++ injection Hq as <- <-. eapply np_mem_in; [apply add_sd_in; [apply in_or_app; right; left; reflexivity|exact I|assumption]|assumption].
           ++ eapply np_mem_in; [apply add_sd_in; [apply in_or_app; right; right; exact Hin|exact I|assumption]|assumption].
        -- assert (Hin' : In (name, (MHid salt0, s')) (add_sd (dig_mem salt key s0) (pre ++ (key, (MHid salt, s0)) :: post))).
           { apply add_sd_in; [|exact I|assumption].
             apply in_app_or in Hin as [|[Hq|]]; [apply in_or_app; left; assumption|discriminate|apply in_or_app; right; right; assumption]. }
           eapply np_mem_in; [exact Hin'|assumption].
        -- exfalso. inversion Hw as [| | ? Hs0 Hall Hok]; subst. rewrite Forall_forall in Hok. specialize (Hok _ Hin). cbn in Hok.
           destruct Hok as [_ [_ ->]]. inversion Hs.
  - destruct t as [j | items | mems]; cbn [T1a.mark] in Hm; [discriminate| |].
    + destruct (parse_index tok) as [i|]; [|discriminate].
      unfold upd_item in Hm. destruct (nth_error items i) as [[ik s0]|] eqn:En; [|discriminate].
      destruct ik as [| |]; cbn in Hm; try discriminate.
      destruct (mark rest key salt s0) as [s1|] eqn:Ems; cbn in Hm; [|discriminate]. injection Hm as <-.
      assert (Hws : wf s0).
      { inversion Hw as [| ? Hall Hiok |]; subst. rewrite Forall_forall in Hall. apply nth_error_In in En. exact (Hall _ En). }
      apply nth_error_split in En as (pre & post & -> & <-). rewrite list_set_mid.
      inversion Hn as [? pre1 post1 salt' s' Hsplit Hg | ? pre1 post1 ik s' suffix Hsplit Hs | |]; subst.
      * destruct (Nat.eq_dec (List.length pre) (List.length pre1)) as [Hl|Hl].
        -- destruct (mid_eq_inv _ _ _ _ _ _ Hsplit Hl) as (_ & Hq & _). discriminate.
        -- rewrite <- (list_set_mid pre post (IPlain, s0) (IPlain, s1)), Hsplit.
           destruct (list_set_other_split pre1 post1 (IHid salt', s') (IPlain, s1) (List.length pre) Hl) as (pre' & post' & Hq & Hl').
           rewrite <- Hl'. eapply np_item_here; eauto.
      * destruct (Nat.eq_dec (List.length pre) (List.length pre1)) as [Hl|Hl].
        -- destruct (mid_eq_inv _ _ _ _ _ _ Hsplit Hl) as (-> & Hq & ->). injection Hq as <- <-.
           eapply np_item_in; [reflexivity|]. eapply IH; eauto.
        -- rewrite <- (list_set_mid pre post (IPlain, s0) (IPlain, s1)), Hsplit.
           destruct (list_set_other_split pre1 post1 (ik, s') (IPlain, s1) (List.length pre) Hl) as (pre' & post' & Hq & Hl').
           rewrite <- Hl'. eapply np_item_in; eauto.
    + destruct (upd_mem tok _ mems) as [mems'|] eqn:Eu; cbn in Hm; [|discriminate]. injection Hm as <-.
      apply upd_mem_inv in Eu as (pre & x & post & x' & Hsplit & -> & Hf & Hni).
      destruct x as [[| |] s0]; try discriminate.
      destruct (mark rest key salt s0) as [s1|] eqn:Ems; cbn in Hf; [|discriminate]. injection Hf as <-.
      assert (Hws : wf s0).
      { inversion Hw as [| | ? Hs Hall Hok]; subst. rewrite Forall_forall in Hall. apply (Hall (tok, (MPlain, s0))). apply in_or_app. right. left. reflexivity. }
      inversion Hn as [| | ? name salt' s' Hin Hg | ? name mk s' suffix Hin Hs]; subst.
      * eapply np_mem_here; eauto.
        apply in_app_or in Hin as [|[Hq|]]; [apply in_or_app; left; assumption|discriminate|apply in_or_app; right; right; assumption].
      * apply in_app_or in Hin as [Hin|[Hq|Hin]].
        -- eapply np_mem_in; [apply in_or_app; left; exact Hin|assumption].
        -- injection Hq as <- <- <-. eapply np_mem_in; [apply in_or_app; right; left; reflexivity|]. eapply IH; eauto.
        -- eapply np_mem_in; [apply in_or_app; right; right; exact Hin|assumption].
Qed.

(* the node just marked sits at the rendered address of its path *)
Theorem mark_NodePath_new key salt : forall toks t t' k s a,
  wf t -> mark toks key salt t = Some t' -> target toks key t = Some (k, s) -> resolve toks key t = Some a ->
  NodePath (d_digest (mk_disc salt k (blind s))) t' (render a).
Proof.
  induction toks as [|tok rest IH]; intros t t' k s a Hw Hm Ht Hr.
  - destruct t as [j | items | mems]; cbn [T1a.mark] in Hm; cbn [T1a.target] in Ht; cbn [T1r.resolve] in Hr; [discriminate| |].
    + destruct (parse_usize key) as [i|]; [|discriminate].
      unfold upd_item in Hm. destruct (nth_error items i) as [[ik s0]|] eqn:En; [|discriminate].
      destruct ik as [| |]; cbn in Hm; try discriminate. injection Hm as <-. injection Ht as <- <-. injection Hr as <-.
      apply nth_error_split in En as (pre & post & -> & <-). rewrite list_set_mid.
      cbn [render]. rewrite app_nil_r_s. eapply np_item_here; reflexivity.
    + destruct (upd_mem key _ mems) as [mems'|] eqn:Eu; [|discriminate].
      apply upd_mem_inv in Eu as (pre & x & post & x' & Hsplit & -> & Hf & Hni).
      destruct x as [[| |] s0]; try discriminate. injection Hf as <-.
      unfold findm in Hr.
      rewrite Hsplit, find_mid in Hm, Ht, Hr by assumption. injection Hm as <-. injection Ht as <- <-. injection Hr as <-.
      pose proof (wf_obj_names H enc parse_index parse_usize pos _ Hw) as Hn0.
      assert (Hn' : Forall sd_names_ok (pre ++ (key, (MHid salt, s0)) :: post)).
      { rewrite Hsplit in Hn0. apply Forall_app in Hn0 as [Hn1 Hn2]. apply Forall_app. split; [assumption|].
        inversion Hn2; subst. constructor; [|assumption]. unfold sd_names_ok in *. cbn in *. assumption. }
      cbn [render]. rewrite app_nil_r_s. eapply np_mem_here; [|reflexivity].
      apply add_sd_in; [apply in_or_app; right; left; reflexivity|exact I|assumption].
  - destruct t as [j | items | mems]; cbn [T1a.mark] in Hm; cbn [T1a.target] in Ht; cbn [T1r.resolve] in Hr; [discriminate| |].
    + destruct (parse_index tok) as [i|]; [|discriminate].
      unfold upd_item in Hm. destruct (nth_error items i) as [[ik s0]|] eqn:En; [|discriminate].
      destruct ik as [| |]; cbn in Hm; try discriminate.
      destruct (mark rest key salt s0) as [s1|] eqn:Ems; cbn in Hm; [|discriminate]. injection Hm as <-.
      destruct (resolve rest key s0) as [a'|] eqn:Er; [|discriminate]. injection Hr as <-.
      assert (Hws : wf s0).
      { inversion Hw as [| ? Hall Hiok |]; subst. rewrite Forall_forall in Hall. apply nth_error_In in En. exact (Hall _ En). }
      apply nth_error_split in En as (pre & post & -> & <-). rewrite list_set_mid.
      cbn [render]. eapply np_item_in; [reflexivity|]. eapply IH; eauto.
    + destruct (upd_mem tok _ mems) as [mems'|] eqn:Eu; cbn in Hm; [|discriminate]. injection Hm as <-.
      apply upd_mem_inv in Eu as (pre & x & post & x' & Hsplit & -> & Hf & Hni).
      destruct x as [[| |] s0]; try discriminate.
      destruct (mark rest key salt s0) as [s1|] eqn:Ems; cbn in Hf; [|discriminate]. injection Hf as <-.
      unfold findm in Hr.
      rewrite Hsplit, find_mid in Ht, Hr by assumption.
      destruct (resolve rest key s0) as [a'|] eqn:Er; [|discriminate]. injection Hr as <-.
      assert (Hws : wf s0).
      { inversion Hw as [| | ? Hs Hall Hok]; subst. rewrite Forall_forall in Hall. apply (Hall (tok, (MPlain, s0))). apply in_or_app. right. left. reflexivity. }
      cbn [render]. eapply np_mem_in; [apply in_or_app; right; left; reflexivity|]. eapply IH; eauto.
Qed.

(* ---- the root post-processing keeps every hidden node in place ---- *)
Lemma NodePath_members g (mems mems2 : amems) p : wf (AObj mems) ->
  (forall m, In m mems -> (match fst (snd m) with MSd _ => False | _ => True end) -> In m mems2) ->
  NodePath g (AObj mems) p -> NodePath g (AObj mems2) p.
Proof.
  intros Hw Hsub Hn. inversion Hn as [| | ? name salt' s' Hin Hg | ? name mk s' suffix Hin Hs]; subst.
  - eapply np_mem_here; eauto. apply Hsub; [assumption|exact I].
  - destruct mk as [| |l].
    + eapply np_mem_in; [apply Hsub; [exact Hin|exact I]|assumption].
    + eapply np_mem_in; [apply Hsub; [exact Hin|exact I]|assumption].
    + exfalso. inversion Hw as [| | ? Hs0 Hall Hok]; subst. rewrite Forall_forall in Hok. specialize (Hok _ Hin). cbn in Hok.
      destruct Hok as [_ [_ ->]]. inversion Hs.
Qed.

Lemma set_sd_in l' (mems : amems) m : In m mems -> (match fst (snd m) with MSd _ => False | _ => True end) -> In m (set_sd l' mems).
Proof.
  induction mems as [|[n [k s]] r IH]; intros Hin Hk; [destruct Hin|]. destruct k as [|salt|l]; cbn [set_sd].
  - destruct Hin as [<-|Hin]; [left; reflexivity|right; auto].
  - destruct Hin as [<-|Hin]; [left; reflexivity|right; auto].
  - destruct Hin as [<-|Hin]; [destruct Hk|right; assumption].
Qed.

Lemma ains_in k x (mems : amems) m : ~ In k (map fst mems) -> In m mems -> In m (ains k x mems).
Proof.
  intros Hni. induction mems as [|[n y] r IH]; intros Hin; [destruct Hin|].
  assert (Hne : k <> n) by (intros ->; apply Hni; left; reflexivity).
  cbn [ains]. destruct (compare_neq_cases k n Hne) as [Ec|Ec]; rewrite Ec.
  - right. assumption.
  - destruct Hin as [<-|Hin]; [left; reflexivity|right; apply IH; [intros Hk; apply Hni; right; assumption|assumption]].
Qed.

Notation mark_fold := (T1j.mark_fold H enc parse_index parse_usize pos).
Notation issue_fold := (T1j.issue_fold H enc parse_index parse_usize pos).

Lemma mark_fold_wf : forall paths salts t t', wf t -> mark_fold t paths salts = Some t' -> wf t'.
Proof.
  induction paths as [|[toks key] ps IH]; intros salts t t' Hw Hm.
  - cbn in Hm. injection Hm as <-. assumption.
  - destruct salts as [|salt ss]; [discriminate|]. cbn [T1j.mark_fold] in Hm.
    destruct (mark toks key salt t) as [t1|] eqn:Em; [|discriminate].
    eapply IH; [|exact Hm]. exact (mark_wf H enc parse_index parse_usize pos key salt toks t t1 Hw Em).
Qed.

Lemma mark_fold_NodePath_old g p : forall paths salts t t', wf t -> mark_fold t paths salts = Some t' -> NodePath g t p -> NodePath g t' p.
Proof.
  induction paths as [|[toks key] ps IH]; intros salts t t' Hw Hm Hn.
  - cbn in Hm. injection Hm as <-. assumption.
  - destruct salts as [|salt ss]; [discriminate|]. cbn [T1j.mark_fold] in Hm.
    destruct (mark toks key salt t) as [t1|] eqn:Em; [|discriminate].
    eapply IH; [|exact Hm|].
    + exact (mark_wf H enc parse_index parse_usize pos key salt toks t t1 Hw Em).
    + eapply mark_NodePath_old; eauto.
Qed.

(* the i-th disclosure of the fold is the disclosure of the hidden node at the address of the i-th path *)
Theorem issue_fold_paths : forall (paths : list (list string * string)) (addrs : list addr) salts t t',
  wf t -> Forall2 (fun p a => resolve (fst p) (snd p) t = Some a) paths addrs -> ordered addrs ->
  mark_fold t paths salts = Some t' ->
  exists ds, issue_fold (blind t) paths salts = Ok (blind t', ds) /\
             Forall2 (fun d a => NodePath (d_digest d) t' (render a)) ds addrs.
Proof.
  induction paths as [|[toks key] ps IH]; intros addrs salts t t' Hw HF Hord Hm.
  - inversion HF; subst. cbn in Hm. injection Hm as <-. exists []. split; [reflexivity|constructor].
  - inversion HF as [|? a ? ar Hr HF']; subst. cbn [fst snd] in Hr.
    destruct salts as [|salt ss]; [discriminate|]. cbn [T1j.mark_fold] in Hm.
    destruct (mark toks key salt t) as [t1|] eqn:Em; [|discriminate].
    destruct (build_disclosure_mark H enc parse_index parse_usize pos key salt toks t t1 Hw Em) as (k & s & Ht & Hb).
    pose proof (mark_wf H enc parse_index parse_usize pos key salt toks t t1 Hw Em) as Hw1.
    destruct Hord as [Hnp Hord'].
    assert (HF1 : Forall2 (fun p a => resolve (fst p) (snd p) t1 = Some a) ps ar).
    { clear -HF' Hnp Hw Hr Em. induction HF' as [|[toks' key'] a' ps' ar' Hr' HF' IH']; constructor.
      - cbn [fst snd] in *. inversion Hnp as [|? ? Hn1 Hn2]; subst.
        exact (mark_keeps H enc parse_index parse_usize pos salt toks key t t1 a Hw Hr Em toks' key' a' Hr' Hn1).
      - apply IH'. inversion Hnp; assumption. }
    destruct (IH ar ss t1 t' Hw1 HF1 Hord' Hm) as (ds & Hf & Hnps).
    exists (mk_disc salt k (blind s) :: ds). cbn [T1j.issue_fold]. rewrite Hb. cbn [bind]. rewrite Hf. cbn [bind].
    split; [reflexivity|]. constructor; [|assumption].
    apply (mark_fold_NodePath_old _ _ ps ss t1 t' Hw1 Hm).
    exact (mark_NodePath_new key salt toks t t1 k s a Hw Em Ht Hr).
Qed.

(* when every index token is written canonically, the reported path is the issuer's (unescaped) token list,
   each token escaped again, joined by '/' *)
Definition canonical (tok : string) : Prop :=
  forall i, parse_index tok = Some i \/ parse_usize tok = Some i -> show_nat i = tok.

Fixpoint join_tokens (toks : list string) : string :=
  match toks with [] => "" | x :: r => "/" ++ esc_tok x ++ join_tokens r end.

Lemma render_tokens : forall toks key j a,
  jresolve parse_index parse_usize toks key j = Some a -> Forall canonical (toks ++ [key]) ->
  render a = join_tokens (toks ++ [key]).
Proof.
  induction toks as [|tok rest IH]; intros key j a Hr Hc.
  - cbn [app] in Hc. inversion Hc as [|? ? Hk _]; subst. destruct j as [| | | |xs|kvs]; cbn [jresolve] in Hr; try discriminate.
    + destruct (parse_usize key) as [i|] eqn:Ep; [|discriminate]. destruct (nth_error xs i); [|discriminate]. injection Hr as <-.
      cbn. rewrite (Hk i (or_intror Ep)). reflexivity.
    + destruct (obj_get key kvs); [|discriminate]. injection Hr as <-. reflexivity.
  - cbn [app] in Hc. inversion Hc as [|? ? Hk Hc']; subst. destruct j as [| | | |xs|kvs]; cbn [jresolve] in Hr; try discriminate.
    + destruct (parse_index tok) as [i|] eqn:Ep; [|discriminate]. destruct (nth_error xs i) as [v|]; [|discriminate].
      destruct (jresolve parse_index parse_usize rest key v) as [a'|] eqn:Er; [|discriminate]. injection Hr as <-.
      cbn [render join_tokens app]. rewrite (Hk i (or_introl Ep)), (IH _ _ _ Er Hc'). reflexivity.
    + destruct (obj_get tok kvs) as [v|]; [|discriminate].
      destruct (jresolve parse_index parse_usize rest key v) as [a'|] eqn:Er; [|discriminate]. injection Hr as <-.
      cbn [render join_tokens app]. rewrite (IH _ _ _ Er Hc'). reflexivity.
Qed.
End S.
