(* Decision logic of holder.rs and verifier.rs (as repaired) over oracles for everything the crate
   delegates: JWT decoding/validation (jwt-rustcrypto), hashing, disclosure decoding, signing, nonce, clock. *)
From Coq Require Import List String Ascii Bool Arith.
Import ListNotations.
Require Import SDJ.Json SDJ.Wire SDJ.Model2 SDJ.Out SDJ.Restore2 SDJ.Split SDJ.SplitM.
Local Open Scope string_scope.

Inductive halg := SHA256 | SHA384 | SHA512.

(* HashAlgorithm::try_from(&str) / Display *)
Definition parse_halg (s : string) : option halg :=
  if String.eqb s "sha-256" then Some SHA256
  else if String.eqb s "sha-384" then Some SHA384
  else if String.eqb s "sha-512" then Some SHA512
  else None.
Definition halg_name (a : halg) : string :=
  match a with SHA256 => "sha-256" | SHA384 => "sha-384" | SHA512 => "sha-512" end.

Record oracles := {
  o_hash : halg -> string -> string;              (* base64_hash *)
  o_dec : string -> dec_result;                    (* disclosure string -> JSON *)
  o_jwt : string -> out (json * json);             (* crate::decode(jwt, verifier's key, verifier's policy) = (header, claims) *)
  o_kb : string -> string -> string -> out (json * json);  (* decode(kb_jwt, RSA key from (n, e), kb policy), incl. base64 of n and e *)
  o_claims : string -> res json;                   (* decode_claims_no_verification of a payload segment *)
}.

Definition is_null (j : json) : bool := match j with JNull => true | _ => false end.
(* Value::get(key).is_some() *)
Definition jhas (k : string) (j : json) : bool :=
  match j with JObj kvs => match obj_get k kvs with Some _ => true | None => false end | _ => false end.
Definition jstr_or_empty (j : json) : string := match j with JStr s => s | _ => "" end.

(* utils.rs declared_hash_alg (repair F18): the algorithm named by _sd_alg; sha-256 when the claim is absent;
   a claim that is present but not a string, or names an unsupported algorithm, is an error *)
Definition declared_halg (claims : json) : option halg :=
  if jhas "_sd_alg" claims then parse_halg (jstr_or_empty (jget "_sd_alg" claims)) else Some SHA256.

(* verifier.rs verify_kb *)
Definition verify_kb (O : oracles) (kb : string) (cnf : json) : out (json * json) :=
  match jget "kty" cnf with
  | JStr kty =>
      if negb (String.eqb kty "RSA") then Fail else
      match jget "e" cnf with
      | JStr e =>
          match jget "n" cnf with
          | JStr n =>
              dO hc <- o_kb O kb n e;
              let '(hdr, claims) := hc in
              match jget "typ" hdr with
              | JStr t => if String.eqb t "kb+jwt" then Val (hdr, claims) else Fail
              | _ => Fail end
          | _ => Fail end
      | _ => Fail end
  | _ => Fail
  end.

(* verifier.rs Verifier::verify_raw; kbpol = whether a key-binding policy was supplied *)
Definition verifier_verify_raw (O : oracles) (token : string) (kbpol : bool) : out (json * json * list string) :=
  dO p <- sd_jwt_parts_m token;
  let '(jwt, ds, kb) := p in
  dO hc <- o_jwt O jwt;
  let '(hdr, claims) := hc in
  let cnf := jget "cnf" claims in
  if is_null cnf && (match kb with Some _ => true | None => false end) then Fail
  else if negb (is_null cnf) && (match kb with Some _ => false | None => true end) then Fail
  else
        match declared_halg claims with
        | Some alg =>
            dO _ <- match kb with
                    | Some k =>
                        if negb kbpol then Fail else
                        dO kc <- verify_kb O k cnf;
                        match jget "sd_hash" (snd kc) with
                        | JStr h => dO prefix <- drop_kb_m token;
                                    if String.eqb (o_hash O alg prefix) h then Val tt else Fail
                        | _ => Fail end
                    | None => Val tt end;
            Val (hdr, claims, ds)
        | None => Fail end.

Definition paths_json (ps : list dpath) : list (string * option string * json) :=
  map (fun p => (fst p, d_key (snd p), d_val (snd p))) ps.

(* the part shared by Verifier::verify and Holder::verify after *_raw *)
Definition restore_and_strip (O : oracles) (claims : json) (ds : list string)
  : out (json * list dpath) :=
  match declared_halg claims with
  | Some alg =>
      dO cp <- of_res (restore_disclosures (o_hash O alg) (o_dec O) show_nat claims ds);
      Val (remove_digests (fst cp), snd cp)
  | None => Fail
  end.

Definition verifier_verify (O : oracles) (token : string) (kbpol : bool) : out (json * json) :=
  dO r <- verifier_verify_raw O token kbpol;
  let '(hdr, claims, ds) := r in
  dO cp <- restore_and_strip O claims ds;
  Val (hdr, fst cp).

(* holder.rs Holder::verify_raw / verify *)
Definition holder_verify_raw (O : oracles) (token : string) : out (json * json * list string) :=
  dO p <- sd_jwt_parts_m token;
  let '(jwt, ds, kb) := p in
  match kb with
  | Some _ => Fail
  | None =>
      dO hc <- o_jwt O jwt;
      let '(hdr, claims) := hc in
      match declared_halg claims with Some _ => Val (hdr, claims, ds) | None => Fail end
  end.

Definition holder_verify (O : oracles) (token : string) : out (json * json * list dpath) :=
  dO r <- holder_verify_raw O token;
  let '(hdr, claims, ds) := r in
  dO cp <- restore_and_strip O claims ds;
  Val (hdr, fst cp, snd cp).

(* ---------- Holder: presentation / redact / key_binding / build ---------- *)
Record holder := {
  h_jwt : string;
  h_redacted : list string;
  h_paths : list dpath;
  h_kb : option (string * json);        (* audience, JOSE algorithm name as JSON string; the key is part of the signing oracle *)
}.

Definition holder_presentation (O : oracles) (token : string) : out holder :=
  dO p <- sd_jwt_parts_m token;
  let '(jwt, ds, kb) := p in
  match kb with
  | Some _ => Fail
  | None =>
      dO segs <- jwt_parts_m jwt;
      let '(_, cseg, _) := segs in
      dO claims <- of_res (o_claims O cseg);
      match declared_halg claims with
      | Some alg =>
          dO cp <- of_res (restore_disclosures (o_hash O alg) (o_dec O) show_nat claims ds);
          Val {| h_jwt := jwt; h_redacted := []; h_paths := snd cp; h_kb := None |}
      | None => Fail end
  end.

Definition holder_redact (h : holder) (path : string) : holder :=
  {| h_jwt := h_jwt h; h_redacted := (h_redacted h ++ [path])%list; h_paths := h_paths h; h_kb := h_kb h |}.

Definition holder_key_binding (h : holder) (aud : string) (alg : json) : holder :=
  {| h_jwt := h_jwt h; h_redacted := h_redacted h; h_paths := h_paths h; h_kb := Some (aud, alg) |}.

(* str::starts_with *)
Fixpoint starts_with (p s : string) : bool :=
  match p, s with
  | EmptyString, _ => true
  | String a p', String b s' => Ascii.eqb a b && starts_with p' s'
  | String _ _, EmptyString => false
  end.

(* a disclosure is withheld when a redacted string is the path of a disclosable claim and that claim
   is the disclosure's own claim or encloses it; redacting anything else changes nothing *)
Definition is_disclosable (paths : list dpath) (r : string) : bool :=
  existsb (fun p => String.eqb (fst p) r) paths.
Definition withheld (paths : list dpath) (redacted : list string) (path : string) : bool :=
  existsb (fun r => is_disclosable paths r && (String.eqb path r || starts_with (r ++ "/") path)) redacted.

Definition selected (h : holder) : list string :=
  map (fun p => d_str (snd p)) (filter (fun p => negb (withheld (h_paths h) (h_redacted h) (fst p))) (h_paths h)).

(* jwt ~ d1 ~ ... ~ dn ~ *)
Definition presentation_prefix (jwt : string) (ds : list string) : string :=
  fold_left (fun acc d => acc ++ "~" ++ d) ds jwt ++ "~".

(* an SD-JWT is bound to a holder key when its payload has a cnf member that is not null - the same test in
   Holder::build and Verifier::verify_raw (repair F23) *)
Definition kb_bound (claims : json) : bool := negb (is_null (jget "cnf" claims)).

(* what Holder::build hands to encode() for the KB-JWT: header and claims *)
Definition kb_header (alg : json) : json := JObj [("alg", alg); ("typ", JStr "kb+jwt")].
Definition kb_claims (aud nonce : string) (iat : json) (sd_hash : string) : json :=
  JObj [("aud", JStr aud); ("iat", iat); ("nonce", JStr nonce); ("sd_hash", JStr sd_hash)].

Record build_env := {
  e_nonce : string;                           (* generate_nonce(32) *)
  e_iat : json;                               (* Utc::now().timestamp() *)
  e_sign : json -> json -> out string;        (* encode(header, claims, holder key) *)
}.

Definition holder_build (O : oracles) (E : build_env) (h : holder) : out string :=
  dO segs <- jwt_parts_m (h_jwt h);
  let '(_, cseg, _) := segs in
  dO claims <- of_res (o_claims O cseg);
  let bound := kb_bound claims in
  if bound && (match h_kb h with Some _ => false | None => true end) then Fail
  else
    let prefix := presentation_prefix (h_jwt h) (selected h) in
    if bound then
      match declared_halg claims, h_kb h with
      | Some alg, Some (aud, jalg) =>
          dO kb <- e_sign E (kb_header jalg) (kb_claims aud (e_nonce E) (e_iat E) (o_hash O alg prefix));
          Val (prefix ++ kb)
      | _, _ => Fail
      end
    else Val prefix.
