From Coq Require Import List String Ascii Bool Arith Lia Sorting.Sorted.
Import ListNotations.
Require Import SDJ.Json SDJ.Model2 SDJ.ATree SDJ.T2a SDJ.T2b SDJ.T2c SDJ.T2d SDJ.T2e SDJ.T2f SDJ.T2g.
Local Open Scope string_scope.

Section I.
Variable H : string -> string.
Variable enc : list json -> string.
Notation blind := (blind H enc).
Notation view := (view H enc).
Notation dig_item := (dig_item H enc).
Notation dig_mem := (dig_mem H enc).
Notation hdigs := (hdigs H enc).
Notation alldigs := (alldigs H enc).
Notation wf := (wf H enc).
Notation vitem R := (ATree.view_item H enc (view R) R).
Notation vmem R := (ATree.view_mem H enc (view R) R).
Notation hdigs_item := (hdigs_item H enc).
Notation hdigs_mem := (hdigs_mem H enc).
Notation adigs_item := (adigs_item H enc alldigs).
Notation adigs_mem := (adigs_mem alldigs).
Notation Exposed := (Exposed H enc).
Notation closedR := (closedR H enc).
Notation iopened := (iopened H enc).
Notation mopened := (mopened H enc).

(* closedness only depends on R through the hidden digests of the tree *)
Lemma closedR_ext R R' : forall t, (forall g, In g (hdigs t) -> R g = R' g) -> closedR R t -> closedR R' t.
Proof.
  induction t as [j | items IH | mems IH] using atree_ind'; intros Hx Hc; [exact I| |].
  - apply closedR_arr. apply closedR_arr in Hc. rewrite Forall_forall in IH, Hc |- *. intros [k s] Hin.
    specialize (IH _ Hin). specialize (Hc _ Hin). cbn in IH, Hc |- *.
    assert (Hsub : forall g, In g (hdigs s) -> R g = R' g).
    { intros g Hg. apply Hx. rewrite hdigs_arr. apply in_flat_map. exists (k, s). split; [assumption|]. destruct k; cbn; auto. }
    destruct k as [|salt|g0]; cbn in Hc |- *; [auto| |exact I].
    rewrite <- (Hx (dig_item salt s)).
    + destruct (R (dig_item salt s)); cbn in Hc |- *; [auto|]. intros g Hg. rewrite <- Hsub by assumption. auto.
    + rewrite hdigs_arr. apply in_flat_map. exists (IHid salt, s). split; [assumption|]. left. reflexivity.
  - apply closedR_obj. apply closedR_obj in Hc. rewrite Forall_forall in IH, Hc |- *. intros [name [k s]] Hin.
    specialize (IH _ Hin). specialize (Hc _ Hin). cbn in IH, Hc |- *.
    assert (Hsub : forall g, In g (hdigs s) -> R g = R' g).
    { intros g Hg. apply Hx. rewrite hdigs_obj. apply in_flat_map. exists (name, (k, s)). split; [assumption|]. destruct k; cbn; auto. }
    destruct k as [|salt|l]; cbn in Hc |- *; [auto| |exact I].
    rewrite <- (Hx (dig_mem salt name s)).
    + destruct (R (dig_mem salt name s)); cbn in Hc |- *; [auto|]. intros g Hg. rewrite <- Hsub by assumption. auto.
    + rewrite hdigs_obj. apply in_flat_map. exists (name, (MHid salt, s)). split; [assumption|]. left. reflexivity.
Qed.

Lemma closedR_none R : forall t, (forall g, In g (hdigs t) -> R g = false) -> closedR R t.
Proof.
  induction t as [j | items IH | mems IH] using atree_ind'; intros Hx; [exact I| |].
  - apply closedR_arr. rewrite Forall_forall in IH |- *. intros [k s] Hin. specialize (IH _ Hin). cbn in IH |- *.
    assert (Hsub : forall g, In g (hdigs s) -> R g = false).
    { intros g Hg. apply Hx. rewrite hdigs_arr. apply in_flat_map. exists (k, s). split; [assumption|]. destruct k; cbn; auto. }
    destruct k as [|salt|g0]; cbn; [auto| |exact I].
    rewrite (Hx (dig_item salt s)); [cbn; assumption|].
    rewrite hdigs_arr. apply in_flat_map. exists (IHid salt, s). split; [assumption|]. left. reflexivity.
  - apply closedR_obj. rewrite Forall_forall in IH |- *. intros [name [k s]] Hin. specialize (IH _ Hin). cbn in IH |- *.
    assert (Hsub : forall g, In g (hdigs s) -> R g = false).
    { intros g Hg. apply Hx. rewrite hdigs_obj. apply in_flat_map. exists (name, (k, s)). split; [assumption|]. destruct k; cbn; auto. }
    destruct k as [|salt|l]; cbn; [auto| |exact I].
    rewrite (Hx (dig_mem salt name s)); [cbn; assumption|].
    rewrite hdigs_obj. apply in_flat_map. exists (name, (MHid salt, s)). split; [assumption|]. left. reflexivity.
Qed.

(* opening an exposed node keeps the invariant *)
Theorem closedR_add R g k v : forall t, NoDup (hdigs t) -> closedR R t -> Exposed R g k v t -> closedR (Radd R g) t.
Proof.
  induction t as [j | items IH | mems IH] using atree_ind'; intros Hnd Hc Hex; [exact I| |].
  - rewrite hdigs_arr in Hnd. apply closedR_arr in Hc. apply closedR_arr.
    assert (Hgen : forall pre it post, items = (pre ++ it :: post)%list -> In g (hdigs_item it) ->
               closed_sub H enc (closedR (Radd R g)) (Radd R g) (iopened (Radd R g) it) (snd it) ->
               Forall (fun it => closed_sub H enc (closedR (Radd R g)) (Radd R g) (iopened (Radd R g) it) (snd it)) items).
    { intros pre it post Hsplit Hgi Hit. rewrite Hsplit. rewrite Hsplit in Hnd, Hc.
      assert (Hoth : forall y, In y (pre ++ post) -> closed_sub H enc (closedR (Radd R g)) (Radd R g) (iopened (Radd R g) y) (snd y)).
      { intros [ky sy] Hy.
        assert (Hng : ~ In g (hdigs_item (ky, sy))) by (eapply (NoDup_flat_map_other hdigs_item pre it post); eauto).
        assert (Hyin : In (ky, sy) (pre ++ it :: post)) by (apply in_app_or in Hy as [|]; apply in_or_app; [left|right; right]; assumption).
        rewrite Forall_forall in Hc. specialize (Hc _ Hyin). cbn in Hc |- *.
        destruct ky as [|salt|g0]; cbn in Hc, Hng |- *.
        - eapply closedR_ext; [|exact Hc]. intros g' Hg'. symmetry. apply Radd_other. intros ->. contradiction.
        - rewrite Radd_other by (intros Hq; apply Hng; left; congruence).
          destruct (R (dig_item salt sy)); cbn in Hc |- *.
          + eapply closedR_ext; [|exact Hc]. intros g' Hg'. symmetry. apply Radd_other. intros ->. apply Hng. right. assumption.
          + intros g' Hg'. rewrite Radd_other; [auto|]. intros ->. apply Hng. right. assumption.
        - exact I. }
      apply Forall_app. split; [|constructor; [exact Hit|]]; apply Forall_forall; intros y Hy; apply Hoth; apply in_or_app; [left|right]; assumption. }
    apply Exposed_arr_inv in Hex as [(salt & s & Hin & Hg & HRg & Hk & Hv)|(ik & s & Hin & Hop & Hexs)].
    + destruct (in_split _ _ Hin) as (pre & post & Hsplit).
      apply (Hgen pre (IHid salt, s) post Hsplit); [left; symmetry; assumption|].
      cbn. rewrite <- Hg, Radd_same. cbn.
      apply closedR_none. intros g' Hg'. rewrite Radd_other.
      * rewrite Forall_forall in Hc. specialize (Hc _ Hin). cbn in Hc. rewrite <- Hg, HRg in Hc. cbn in Hc. auto.
      * intros ->. pose proof (NoDup_flat_map_in hdigs_item _ _ Hnd Hin) as Hn1. cbn in Hn1. inversion Hn1; subst. contradiction.
    + destruct (in_split _ _ Hin) as (pre & post & Hsplit).
      assert (Hgh : In g (hdigs s)) by (eapply Exposed_hdigs; eauto).
      apply (Hgen pre (ik, s) post Hsplit); [destruct ik; cbn; auto|].
      assert (Hop' : iopened (Radd R g) (ik, s) = Some true).
      { destruct ik as [|salt|g0]; cbn in Hop |- *; [reflexivity| |discriminate]. injection Hop as Hop. rewrite Radd_mono; auto. }
      rewrite Hop'. cbn. rewrite Forall_forall in IH. apply (IH _ Hin).
      * pose proof (NoDup_flat_map_in hdigs_item _ _ Hnd Hin) as Hn1. destruct ik; cbn in Hn1; [assumption|inversion Hn1; assumption|assumption].
      * rewrite Forall_forall in Hc. specialize (Hc _ Hin). rewrite Hop in Hc. exact Hc.
      * assumption.
  - rewrite hdigs_obj in Hnd. apply closedR_obj in Hc. apply closedR_obj.
    assert (Hgen : forall pre m post, mems = (pre ++ m :: post)%list -> In g (hdigs_mem m) ->
               closed_sub H enc (closedR (Radd R g)) (Radd R g) (mopened (Radd R g) m) (snd (snd m)) ->
               Forall (fun m => closed_sub H enc (closedR (Radd R g)) (Radd R g) (mopened (Radd R g) m) (snd (snd m))) mems).
    { intros pre m post Hsplit Hgi Hit. rewrite Hsplit. rewrite Hsplit in Hnd, Hc.
      assert (Hoth : forall y, In y (pre ++ post) -> closed_sub H enc (closedR (Radd R g)) (Radd R g) (mopened (Radd R g) y) (snd (snd y))).
      { intros [ny [ky sy]] Hy.
        assert (Hng : ~ In g (hdigs_mem (ny, (ky, sy)))) by (eapply (NoDup_flat_map_other hdigs_mem pre m post); eauto).
        assert (Hyin : In (ny, (ky, sy)) (pre ++ m :: post)) by (apply in_app_or in Hy as [|]; apply in_or_app; [left|right; right]; assumption).
        rewrite Forall_forall in Hc. specialize (Hc _ Hyin). cbn in Hc |- *.
        destruct ky as [|salt|l]; cbn in Hc, Hng |- *.
        - eapply closedR_ext; [|exact Hc]. intros g' Hg'. symmetry. apply Radd_other. intros ->. contradiction.
        - rewrite Radd_other by (intros Hq; apply Hng; left; congruence).
          destruct (R (dig_mem salt ny sy)); cbn in Hc |- *.
          + eapply closedR_ext; [|exact Hc]. intros g' Hg'. symmetry. apply Radd_other. intros ->. apply Hng. right. assumption.
          + intros g' Hg'. rewrite Radd_other; [auto|]. intros ->. apply Hng. right. assumption.
        - exact I. }
      apply Forall_app. split; [|constructor; [exact Hit|]]; apply Forall_forall; intros y Hy; apply Hoth; apply in_or_app; [left|right]; assumption. }
    apply Exposed_obj_inv in Hex as [(name & salt & s & Hin & Hg & HRg & Hk & Hv)|(name & mk & s & Hin & Hop & Hexs)].
    + destruct (in_split _ _ Hin) as (pre & post & Hsplit).
      apply (Hgen pre (name, (MHid salt, s)) post Hsplit); [left; symmetry; assumption|].
      cbn. rewrite <- Hg, Radd_same. cbn.
      apply closedR_none. intros g' Hg'. rewrite Radd_other.
      * rewrite Forall_forall in Hc. specialize (Hc _ Hin). cbn in Hc. rewrite <- Hg, HRg in Hc. cbn in Hc. auto.
      * intros ->. pose proof (NoDup_flat_map_in hdigs_mem _ _ Hnd Hin) as Hn1. cbn in Hn1. inversion Hn1; subst. contradiction.
    + destruct (in_split _ _ Hin) as (pre & post & Hsplit).
      assert (Hgh : In g (hdigs s)) by (eapply Exposed_hdigs; eauto).
      apply (Hgen pre (name, (mk, s)) post Hsplit); [destruct mk; cbn; auto|].
      assert (Hop' : mopened (Radd R g) (name, (mk, s)) = Some true).
      { destruct mk as [|salt|l]; cbn in Hop |- *; [reflexivity| |discriminate]. injection Hop as Hop. rewrite Radd_mono; auto. }
      rewrite Hop'. cbn. rewrite Forall_forall in IH. apply (IH _ Hin).
      * pose proof (NoDup_flat_map_in hdigs_mem _ _ Hnd Hin) as Hn1. destruct mk; cbn in Hn1; [assumption|inversion Hn1; assumption|assumption].
      * rewrite Forall_forall in Hc. specialize (Hc _ Hin). rewrite Hop in Hc. exact Hc.
      * assumption.
Qed.
End I.
