(* C07 / C08: the specification's verification algorithm (RefVerify.rprocess: top-down, one pass, digest table,
   no code shared with the restorer model) computes the same projection as the library model's restorer. *)
From Coq Require Import List String Ascii Bool Arith Lia Sorting.Sorted Permutation.
Import ListNotations.
Require Import SDJ.Json SDJ.Model2 SDJ.ATree SDJ.T2a SDJ.T2b SDJ.T2c SDJ.T2d SDJ.T2e SDJ.T2h SDJ.T2j SDJ.T2k SDJ.T1b SDJ.T1m SDJ.RefVerify.
Local Open Scope string_scope.

(* ---------- sorted association lists ---------- *)
Definition ksorted (l : list (string * json)) : Prop := StronglySorted slt (map fst l).

Lemma sorted_insert_in k v : forall l kv, In kv (sorted_insert k v l) -> kv = (k, v) \/ In kv l.
Proof.
  induction l as [|[k' v'] r IH]; intros kv Hin; cbn [sorted_insert] in Hin.
  - destruct Hin as [<-|[]]. auto.
  - destruct (String.compare k k'); cbn [In] in Hin.
    + destruct Hin as [<-|Hin]; auto. right. right. assumption.
    + destruct Hin as [<-|Hin]; auto.
    + destruct Hin as [<-|Hin]; [right; left; reflexivity|]. destruct (IH _ Hin); auto. right. right. assumption.
Qed.

Lemma sorted_insert_keeps k v : forall l kv, ~ In k (map fst l) -> In kv l -> In kv (sorted_insert k v l).
Proof.
  induction l as [|[k' v'] r IH]; intros kv Hni Hin; [destruct Hin|]. cbn [sorted_insert].
  destruct (String.compare k k') eqn:Ec.
  - exfalso. apply String.compare_eq_iff in Ec. apply Hni. left. symmetry. exact Ec.
  - right. assumption.
  - destruct Hin as [<-|Hin]; [left; reflexivity|right; apply IH; [intros Hk; apply Hni; right; assumption|assumption]].
Qed.

Lemma sorted_insert_new k v : forall l, In (k, v) (sorted_insert k v l).
Proof.
  induction l as [|[k' v'] r IH]; cbn [sorted_insert]; [left; reflexivity|].
  destruct (String.compare k k'); [left; reflexivity|left; reflexivity|right; exact IH].
Qed.

Lemma sorted_insert_sorted k v : forall l, ksorted l -> ksorted (sorted_insert k v l).
Proof.
  unfold ksorted. induction l as [|[k' v'] r IH]; intros Hs; cbn [sorted_insert]; [cbn; constructor; constructor|].
  cbn [map fst] in Hs. apply StronglySorted_inv in Hs as [Hs Hf].
  destruct (String.compare k k') eqn:Ec; cbn [map fst].
  - apply String.compare_eq_iff in Ec. subst k'. constructor; assumption.
  - constructor; [constructor; assumption|]. constructor; [exact Ec|].
    eapply Forall_impl; [|exact Hf]. intros a Ha. eapply slt_trans; eauto.
  - constructor; [apply IH; assumption|]. apply Forall_forall. intros y Hy. apply in_map_iff in Hy as [[k2 v2] [<- Hin]].
    apply sorted_insert_in in Hin as [Hq|Hin]; cbn [fst].
    + injection Hq as -> _. unfold slt. rewrite String.compare_antisym, Ec. reflexivity.
    + rewrite Forall_forall in Hf. apply Hf. apply in_map_iff. exists (k2, v2). auto.
Qed.

(* strictly key-sorted lists with the same elements are equal *)
Lemma ksorted_ext : forall l1 l2 : list (string * json), ksorted l1 -> ksorted l2 -> (forall kv, In kv l1 <-> In kv l2) -> l1 = l2.
Proof.
  unfold ksorted. induction l1 as [|[k1 v1] r1 IH]; intros l2 H1 H2 Hext.
  - destruct l2 as [|x r2]; [reflexivity|]. exfalso. apply (Hext x). left. reflexivity.
  - destruct l2 as [|[k2 v2] r2]; [exfalso; apply (Hext (k1, v1)); left; reflexivity|].
    cbn [map fst] in H1, H2. apply StronglySorted_inv in H1 as [H1 F1]. apply StronglySorted_inv in H2 as [H2 F2].
    rewrite Forall_forall in F1, F2.
    assert (Hhead : (k1, v1) = (k2, v2)).
    { destruct (proj1 (Hext (k1, v1)) (or_introl eq_refl)) as [Hq|Hin]; [auto|].
      destruct (proj2 (Hext (k2, v2)) (or_introl eq_refl)) as [Hq|Hin2]; [auto|]. exfalso.
      assert (L1 : slt k2 k1) by (apply F2; apply in_map_iff; exists (k1, v1); auto).
      assert (L2 : slt k1 k2) by (apply F1; apply in_map_iff; exists (k2, v2); auto).
      exact (slt_irrefl _ (slt_trans _ _ _ L1 L2)). }
    injection Hhead as -> ->. f_equal. apply IH; [assumption|assumption|].
    intros kv. split; intros Hin.
    + destruct (proj1 (Hext kv) (or_intror Hin)) as [Hq|]; [|assumption]. exfalso. subst kv.
      assert (L : slt k2 k2) by (apply F1; apply in_map_iff; exists (k2, v2); auto). exact (slt_irrefl _ L).
    + destruct (proj2 (Hext kv) (or_intror Hin)) as [Hq|]; [|assumption]. exfalso. subst kv.
      assert (L : slt k2 k2) by (apply F2; apply in_map_iff; exists (k2, v2); auto). exact (slt_irrefl _ L).
Qed.

(* ---------- the folds of rprocess, named ---------- *)
Section Steps.
Variable T : rtable.
Definition stepP (fuel : nat) (acc : option (list (string * json) * rstate)) (kv : string * json) :=
  match acc with
  | None => None
  | Some (out, u) => match rprocess fuel T (snd kv) u with
                     | Some (v', u') => Some (sorted_insert (fst kv) v' out, u')
                     | None => None end
  end.
Definition stepD (fuel : nat) (acc : option (list (string * json) * rstate)) (d : json) :=
  match acc with
  | None => None
  | Some (out, u) =>
      match d with
      | JStr g =>
          match use_digest g u with
          | None => None
          | Some u1 =>
              match rlookup g T with
              | None => Some (out, u1)
              | Some (RElement _) => None
              | Some (RMember name v) =>
                  if String.eqb name "_sd" || String.eqb name "..." || has_key name out then None
                  else match rprocess fuel T v u1 with
                       | Some (v', u2) => Some (sorted_insert name v' out, u2)
                       | None => None end
              end
          end
      | _ => None
      end
  end.
Definition stepA (fuel : nat) (acc : option (list json * rstate)) (x : json) :=
  match acc with
  | None => None
  | Some (out, u) =>
      match single_placeholder x with
      | None => None
      | Some (Some (JStr g)) =>
          match use_digest g u with
          | None => None
          | Some u1 =>
              match rlookup g T with
              | None => Some (out, u1)
              | Some (RMember _ _) => None
              | Some (RElement v) =>
                  match rprocess fuel T v u1 with
                  | Some (v', u2) => Some ((out ++ [v'])%list, u2)
                  | None => None end
              end
          end
      | Some (Some _) => None
      | Some None =>
          match rprocess fuel T x u with
          | Some (x', u') => Some ((out ++ [x'])%list, u')
          | None => None end
      end
  end.

Lemma rprocess_obj fuel kvs used :
  rprocess (S fuel) T (JObj kvs) used =
  match fold_left (stepP fuel) (filter (fun kv => negb (String.eqb (fst kv) "_sd")) kvs) (Some ([], used)) with
  | None => None
  | Some (out, u) =>
      match find (fun kv => String.eqb (fst kv) "_sd") kvs with
      | None => Some (JObj out, u)
      | Some (_, JArr ds) => match fold_left (stepD fuel) ds (Some (out, u)) with Some (out2, u2) => Some (JObj out2, u2) | None => None end
      | Some (_, _) => None
      end
  end.
Proof. reflexivity. Qed.

Lemma rprocess_arr fuel xs used :
  rprocess (S fuel) T (JArr xs) used =
  match fold_left (stepA fuel) xs (Some ([], used)) with Some (out, u) => Some (JArr out, u) | None => None end.
Proof. reflexivity. Qed.

Lemma foldP_none fuel l : fold_left (stepP fuel) l None = None.
Proof. induction l; cbn; auto. Qed.
Lemma foldD_none fuel l : fold_left (stepD fuel) l None = None.
Proof. induction l; cbn; auto. Qed.
Lemma foldA_none fuel l : fold_left (stepA fuel) l None = None.
Proof. induction l; cbn; auto. Qed.
End Steps.
